import Abverif.Proofs.Lemmas.SessIds
/-
The state invariant of the session model (distinct request ids, futures completed at most once, `Subscription`
objects attached at most once, records hold allocated futures) and how the primitives move the fields it reads.
-/
namespace Abverif.Session
open Abverif.SessCodes

/-! ## the state invariant -/

def KeysBounded (s : Sess) : Prop := ∀ k, ∀ id ∈ akeys (s.tbl k), 1 ≤ id ∧ id ≤ s.issued
def KeysDistinct (s : Sess) : Prop :=
  (∀ k, (akeys (s.tbl k)).Nodup) ∧ ∀ k1 k2 id, id ∈ akeys (s.tbl k1) → id ∈ akeys (s.tbl k2) → k1 = k2
/-- while at most `idMax` ids have been drawn, the ids in the six tables are pairwise distinct -/
def KeysInv (s : Sess) : Prop := s.issued ≤ idMax → KeysBounded s ∧ KeysDistinct s

def Fut.ok (x : Fut) : Prop := x.count = if x.cell.isSome then 1 else 0
/-- every future has been completed at most once: `count = 1` iff its cell is written, else `0` -/
def CountInv (s : Sess) : Prop := ∀ x ∈ s.futs, x.ok

def objsOf (subs : List (SubId × List SubRec)) : List Nat := subs.flatMap (fun e => e.2.map (·.obj))
def futsOf (t : Table) : List Nat := t.map (·.2.fut)
/-- how often future `x` occurs as an attached `Subscription` or in an outstanding subscribe request -/
def occ (x : Nat) (s : Sess) : Nat := (objsOf s.subs).count x + (futsOf (s.tbl .subscribe)).count x
/-- `Subscription` objects are attached at most once, are not also waiting in a subscribe request, and exist -/
def SubInv (s : Sess) : Prop := (∀ x : Nat, occ x s ≤ 1) ∧ ∀ x : Nat, 0 < occ x s → x < s.futs.length

/-- every request record holds an allocated future -/
def FutBound (s : Sess) : Prop := ∀ k, ∀ e ∈ s.tbl k, (e.2.fut : Nat) < s.futs.length

def isInvoke : SOut → Bool
  | .invoke _ _ _ _ => true
  | _ => false

def cleanB : SOut → Bool
  | .raise_ .alreadyCalled | .caught .alreadyCalled | .raise_ .internal | .caught .internal => false
  | _ => true

/-- what waits in the callback queue is harmless: no double completion, no handler invocation -/
def CbqOk (s : Sess) : Prop := ∀ o ∈ s.cbq, cleanB o = true ∧ isInvoke o = false

structure Inv' (s : Sess) : Prop where
  keys : KeysInv s
  count : CountInv s
  subs : SubInv s
  futb : FutBound s
  cbq : CbqOk s

def Inv (s : Sess) : Prop := IdInv s ∧ Inv' s

/-- outputs that would mean the model (or the code) completed a future twice or lost one -/
def Clean (o : List SOut) : Prop :=
  ∀ x ∈ o, x ≠ .raise_ .alreadyCalled ∧ x ≠ .caught .alreadyCalled ∧ x ≠ .raise_ .internal ∧ x ≠ .caught .internal

def InvRel (s : Sess) (o : List SOut) (s' : Sess) : Prop :=
  IdRel s o s' ∧ Inv' s' ∧ Clean o ∧ s.futs.length ≤ s'.futs.length

theorem InvRel.post {s s' : Sess} {o : List SOut} (r : InvRel s o s') : Inv s' := ⟨r.1.1, r.2.1⟩

theorem Clean.of_all {o : List SOut} (h : o.all cleanB = true) : Clean o := by
  intro x hx
  have := List.all_eq_true.mp h x hx
  refine ⟨?_, ?_, ?_, ?_⟩ <;> intro e <;> subst e <;> simp [cleanB] at this

theorem Clean.nil : Clean [] := by simp [Clean]
theorem Clean.append {a b : List SOut} (ha : Clean a) (hb : Clean b) : Clean (a ++ b) := by
  intro x hx; rcases List.mem_append.mp hx with h | h
  · exact ha x h
  · exact hb x h
theorem Clean.map_toCaught {a : List SOut} (ha : Clean a) : Clean (a.map toCaught) := by
  intro x hx
  obtain ⟨y, hy, rfl⟩ := List.mem_map.mp hx
  have := ha y hy
  cases y <;> simp_all [toCaught]

theorem InvRel.refl {s : Sess} (h : Inv s) : InvRel s [] s := ⟨IdRel.refl h.1, h.2, Clean.nil, Nat.le_refl _⟩
theorem InvRel.trans {s1 s2 s3 : Sess} {o1 o2 : List SOut} (h1 : InvRel s1 o1 s2) (h2 : InvRel s2 o2 s3) :
    InvRel s1 (o1 ++ o2) s3 :=
  ⟨h1.1.trans h2.1, h2.2.1, h1.2.2.1.append h2.2.2.1, Nat.le_trans h1.2.2.2 h2.2.2.2⟩

/-! ### intro lemmas, in terms of how the fields moved -/

theorem akeys_adel_sublist {β : Type} (k : Nat) (l : List (Nat × β)) : (akeys (adel k l)).Sublist (akeys l) := by
  simp only [akeys]; exact (adel_sublist k l).map _

theorem akeys_aset_sublist {β : Type} (k : Nat) (v : β) (l : List (Nat × β)) :
    (akeys (aset k v l)).Sublist (akeys l ++ [k]) := by
  rw [akeys_aset]; exact (akeys_adel_sublist k l).append (List.Sublist.refl _)

theorem adel_append {β : Type} (k : Nat) (a b : List (Nat × β)) : adel k (a ++ b) = adel k a ++ adel k b := by
  induction a with
  | nil => rfl
  | cons e a ih => obtain ⟨k', v⟩ := e; simp only [List.cons_append, adel]; split <;> simp [ih]

theorem adel_adel {β : Type} (k : Nat) (a : List (Nat × β)) : adel k (adel k a) = adel k a := by
  induction a with
  | nil => rfl
  | cons e a ih => obtain ⟨k', v⟩ := e; simp only [adel]; split <;> simp [adel, ih, *]

theorem adel_aset_self {β : Type} (k : Nat) (v : β) (l : List (Nat × β)) : adel k (aset k v l) = adel k l := by
  simp [aset, adel_append, adel_adel, adel]

theorem KeysInv.same {s s' : Sess} (h : KeysInv s) (hi : s'.issued = s.issued)
    (ht : ∀ k, (akeys (s'.tbl k)).Sublist (akeys (s.tbl k))) : KeysInv s' := by
  intro hle
  obtain ⟨hb, hd1, hd2⟩ := h (hi ▸ hle)
  refine ⟨fun k id hid => hi ▸ hb k id ((ht k).subset hid), fun k => (hd1 k).sublist (ht k), ?_⟩
  intro k1 k2 id h1 h2
  exact hd2 k1 k2 id ((ht k1).subset h1) ((ht k2).subset h2)

theorem idOf_lt {n : Nat} (h : n < idMax) : idOf n = n + 1 := by
  unfold idOf; rw [Nat.mod_eq_of_lt h]

theorem KeysInv.draw {s s' : Sess} (h : KeysInv s) (hi : s'.issued = s.issued + 1) (k0 : Kind)
    (ht0 : (akeys (s'.tbl k0)).Sublist (akeys (s.tbl k0) ++ [idOf s.issued]))
    (ht : ∀ k, k ≠ k0 → (akeys (s'.tbl k)).Sublist (akeys (s.tbl k))) : KeysInv s' := by
  intro hle
  have hlt : s.issued < idMax := by omega
  obtain ⟨hb, hd1, hd2⟩ := h (by omega)
  rw [idOf_lt hlt] at ht0
  have hnew : ∀ k, s.issued + 1 ∉ akeys (s.tbl k) := fun k hm => by have := (hb k _ hm).2; omega
  refine ⟨?_, ?_, ?_⟩
  · intro k id hid
    by_cases hk : k = k0
    · subst hk
      rcases List.mem_append.mp (ht0.subset hid) with h1 | h1
      · have := hb k id h1; omega
      · simp at h1; omega
    · have := hb k id ((ht k hk).subset hid); omega
  · intro k
    by_cases hk : k = k0
    · subst hk
      refine List.Nodup.sublist ht0 ?_
      rw [List.nodup_append]
      refine ⟨hd1 k, by simp, ?_⟩
      intro a ha b hb'; simp at hb'; subst hb'; intro e; subst e; exact hnew k ha
    · exact (hd1 k).sublist (ht k hk)
  · intro k1 k2 id h1 h2
    have old : ∀ k, id ∈ akeys (s'.tbl k) → id ∈ akeys (s.tbl k) ∨ (k = k0 ∧ id = s.issued + 1) := by
      intro k hk
      by_cases e : k = k0
      · subst e
        rcases List.mem_append.mp (ht0.subset hk) with h | h
        · exact Or.inl h
        · simp at h; exact Or.inr ⟨rfl, h⟩
      · exact Or.inl ((ht k e).subset hk)
    rcases old k1 h1 with a | ⟨a1, a2⟩ <;> rcases old k2 h2 with b | ⟨b1, b2⟩
    · exact hd2 k1 k2 id a b
    · subst b2; exact absurd a (hnew k1)
    · subst a2; exact absurd b (hnew k2)
    · rw [a1, b1]


/-- `x` is a future of `s`, up to the fields `Fut.ok` does not read -/
def Fut.oldIn (x : Fut) (s : Sess) : Prop := ∃ y ∈ s.futs, x.cell = y.cell ∧ x.count = y.count

theorem Fut.oldIn_of_mem {x : Fut} {s : Sess} (h : x ∈ s.futs) : x.oldIn s := ⟨x, h, rfl, rfl⟩

theorem CountInv.of_forall {s s' : Sess} (h : CountInv s) (hf : ∀ x ∈ s'.futs, x.oldIn s ∨ x.ok) : CountInv s' := by
  intro x hx
  rcases hf x hx with ⟨y, hy, e1, e2⟩ | h1
  · have := h y hy
    simp only [Fut.ok] at this ⊢
    rw [e1, e2]; exact this
  · exact h1

theorem SubInv.of_le {s s' : Sess} (h : SubInv s) (hl : s.futs.length ≤ s'.futs.length) (ho : ∀ x : Nat, occ x s' ≤ occ x s) :
    SubInv s' :=
  ⟨fun x => Nat.le_trans (ho x) (h.1 x), fun x hx => Nat.lt_of_lt_of_le (h.2 x (Nat.lt_of_lt_of_le hx (ho x))) hl⟩

theorem SubInv.of_new {s s' : Sess} (h : SubInv s) (hl : s'.futs.length = s.futs.length + 1)
    (ho : ∀ x : Nat, occ x s' ≤ occ x s + (if x = s.futs.length then 1 else 0)) : SubInv s' := by
  have h0 : occ s.futs.length s = 0 := by
    apply Classical.byContradiction
    intro hne
    have := h.2 _ (Nat.pos_of_ne_zero hne)
    omega
  constructor
  · intro x
    have := ho x
    split at this
    · next e => subst e; omega
    · have := h.1 x; omega
  · intro x hx
    have := ho x
    split at this
    · next e => subst e; omega
    · have := h.2 x (by omega); omega

theorem FutBound.of {s s' : Sess} (h : FutBound s) (hl : s.futs.length ≤ s'.futs.length)
    (ht : ∀ k, ∀ e ∈ s'.tbl k, e ∈ s.tbl k ∨ (e.2.fut : Nat) < s'.futs.length) : FutBound s' := by
  intro k e he
  rcases ht k e he with h1 | h1
  · exact Nat.lt_of_lt_of_le (h k e h1) hl
  · exact h1

/-! ### counting lemmas -/

theorem count_single (x b : Nat) : List.count x [b] = if x = b then 1 else 0 := by
  rw [List.count_singleton]
  by_cases h : x = b
  · subst h; simp
  · have : (b == x) = false := by simpa using fun e => h e.symm
    simp [this, h]

theorem count_cons' (x b : Nat) (l : List Nat) : List.count x (b :: l) = List.count x l + if x = b then 1 else 0 := by
  rw [show b :: l = [b] ++ l from rfl, List.count_append, count_single]; omega

theorem count_futsOf_adel (x : Nat) (id : ReqId) (t : Table) : (futsOf (adel id t)).count x ≤ (futsOf t).count x :=
  ((adel_sublist id t).map _).count_le x

theorem count_futsOf_aset (x : Nat) (id : ReqId) (r : Req) (t : Table) :
    (futsOf (aset id r t)).count x ≤ (futsOf t).count x + (if x = r.fut then 1 else 0) := by
  simp only [futsOf, aset, List.map_append, List.count_append, List.map_cons, List.map_nil, count_single]
  have := count_futsOf_adel x id t
  simp only [futsOf] at this
  omega

/-- popping the record found under `id` frees its future -/
theorem count_futsOf_pop (x : Nat) {id : ReqId} {r : Req} {t : Table} (h : alookup id t = some r) :
    (futsOf (adel id t)).count x + (if x = r.fut then 1 else 0) ≤ (futsOf t).count x := by
  induction t with
  | nil => simp at h
  | cons e t ih =>
    obtain ⟨k, v⟩ := e
    simp only [alookup_cons] at h
    by_cases hk : k = id
    · subst hk
      simp at h; subst h
      simp only [adel, if_true, futsOf, List.map_cons, count_cons']
      have := count_futsOf_adel x k t
      simp only [futsOf] at this
      omega
    · simp only [hk, if_false] at h
      have := ih h
      simp only [adel, hk, if_false, futsOf, List.map_cons, count_cons'] at this ⊢
      omega

theorem count_objsOf_append_new (x : Nat) (subs : List (SubId × List SubRec)) (sub : SubId) (r : SubRec) :
    (objsOf (subs ++ [(sub, [r])])).count x = (objsOf subs).count x + (if x = r.obj then 1 else 0) := by
  simp only [objsOf, List.flatMap_append, List.count_append, List.flatMap_cons, List.flatMap_nil, List.map_cons,
    List.map_nil, List.append_nil, count_single]

theorem count_objsOf_aupd_append (x : Nat) {subs : List (SubId × List SubRec)} {sub : SubId} {l : List SubRec}
    (r : SubRec) (h : alookup sub subs = some l) :
    (objsOf (aupd sub (l ++ [r]) subs)).count x = (objsOf subs).count x + (if x = r.obj then 1 else 0) := by
  induction subs with
  | nil => simp at h
  | cons e t ih =>
    obtain ⟨k, v⟩ := e
    simp only [alookup_cons] at h
    by_cases hk : k = sub
    · subst hk
      simp at h; subst h
      simp only [aupd, if_true, objsOf, List.flatMap_cons, List.map_append, List.count_append, List.map_cons,
        List.map_nil, count_single]
      omega
    · simp only [hk, if_false] at h
      have := ih h
      simp only [aupd, hk, if_false, objsOf, List.flatMap_cons, List.count_append] at this ⊢
      omega

theorem removeObj_sublist (o : FutId) (l : List SubRec) : (removeObj o l).Sublist l := by
  induction l with
  | nil => exact List.Sublist.slnil
  | cons r l ih =>
    simp only [removeObj]
    split
    · exact List.sublist_cons_self _ _
    · exact List.Sublist.cons_cons _ ih

theorem count_objsOf_aupd_sublist (x : Nat) (subs : List (SubId × List SubRec)) (sub : SubId) {l l' : List SubRec}
    (h : alookup sub subs = some l) (hs : l'.Sublist l) :
    (objsOf (aupd sub l' subs)).count x ≤ (objsOf subs).count x := by
  induction subs with
  | nil => simp [aupd]
  | cons e t ih =>
    obtain ⟨k, v⟩ := e
    simp only [alookup_cons] at h
    by_cases hk : k = sub
    · subst hk
      simp at h; subst h
      simp only [aupd, if_true, objsOf, List.flatMap_cons, List.count_append]
      have := (hs.map (·.obj)).count_le x
      omega
    · simp only [hk, if_false] at h
      have := ih h
      simp only [aupd, hk, if_false, objsOf, List.flatMap_cons, List.count_append] at this ⊢
      omega

theorem count_objsOf_adel (x : Nat) (subs : List (SubId × List SubRec)) (sub : SubId) :
    (objsOf (adel sub subs)).count x ≤ (objsOf subs).count x := by
  induction subs with
  | nil => simp [adel]
  | cons e t ih =>
    obtain ⟨k, v⟩ := e
    simp only [adel]
    split
    · simp only [objsOf, List.flatMap_cons, List.count_append] at ih ⊢; omega
    · simp only [objsOf, List.flatMap_cons, List.count_append] at ih ⊢; omega

end Abverif.Session
