import Abverif.Proofs.Lemmas.SchemaRT4
/-
Round trip, part 5: assembling `Schema.parse (Schema.marshal m) = m`.
-/
namespace Abverif.Wamp
open Schema

theorem marshalTail_length_le (m : Msg) : (marshalTail m).length ≤ 2 := by
  unfold marshalTail
  repeat' split
  all_goals simp

theorem lengths_marshal {σ : Schema} {m : Msg} (hwf : σ.wf = true) :
    σ.lengths.contains (σ.marshal m).length = true := by
  unfold Schema.lengths
  cases htl : σ.tail with
  | some t =>
    have ht : σ.tail.isSome = true := by simp [htl]
    rw [length_marshal_tail hwf ht]
    have := marshalTail_length_le m
    simp only [List.contains_cons, List.contains_nil, Bool.or_false, Bool.or_eq_true, beq_iff_eq]
    omega
  | none =>
    have htv : σ.tailVals m = [] := by simp [Schema.tailVals, htl]
    rw [marshal_eq, htv, List.append_nil]
    by_cases hd : σ.dropped m = true
    · have hopt : σ.optsOptional = true := by
        simp only [Schema.dropped, Bool.and_eq_true] at hd; exact hd.1
      rcases (wf_parts hwf).2.2.2.2.1 with h0 | ⟨_, _, hk1⟩
      · simp [hopt] at h0
      · simp only [hd, hopt, if_true, List.length_cons, List.length_dropLast, posVals_length,
          List.contains_cons, List.contains_nil, Bool.or_false, Bool.or_eq_true, beq_iff_eq]
        omega
    · simp only [hd, Bool.false_eq_true, if_false, List.length_cons, posVals_length]
      split <;> simp

theorem fieldVal_filterMap (m : Msg) (ps : List PosStep) :
    ps.filterMap (PosStep.fieldVal m) = (ps.filterMap PosStep.field?).map (fun f => (f, m.get f)) := by
  induction ps with
  | nil => rfl
  | cons p t ih =>
    simp only [List.filterMap_cons, PosStep.fieldVal]
    cases hp : p.field? <;> simp [ih]

theorem pos_last_opts {σ : Schema} (hwf : σ.wf = true) (hopt : σ.optsOptional = true) :
    σ.pos = σ.pos.dropLast ++ [PosStep.opts] := by
  rcases (wf_parts hwf).2.2.2.2.1 with h0 | ⟨_, hk, hk1⟩
  · simp [hopt] at h0
  · obtain ⟨i, hi1, hi, hpi⟩ := optsPos_spec hk
    have hne : σ.pos ≠ [] := by
      intro e; simp [e] at hi
    have hlast : σ.pos.getLast hne = PosStep.opts := by
      rw [List.getLast_eq_getElem]
      have : σ.pos.length - 1 = i := by simp only [Schema.k] at hi1; omega
      simp only [this, hpi]
    rw [← hlast]
    exact (List.dropLast_concat_getLast hne).symm

theorem parsePos_marshal {σ : Schema} {O : Oracles} {m : Msg}
    (hwf : σ.wf = true) (hwfO : σ.wfO O = true)
    (hst : σ.strict O m = true) (hres : σ.residual O m = true) :
    parsePos O (σ.marshal m) σ.pos (σ.marshal m).tail =
      .ok ((σ.pos.filterMap PosStep.field?).map (fun f => (f, m.get f))) := by
  rw [← fieldVal_filterMap]
  have hstep : ∀ p ∈ σ.pos, p.parse O (σ.marshal m) (σ.marshalPosStep m p) = .ok (p.fieldVal m) :=
    fun p hp => PosStep.parse_marshal hwf hwfO hst hres hp
  conv => lhs; arg 4; rw [marshal_eq, List.tail_cons]
  by_cases hd : σ.dropped m = true
  · have hopt : σ.optsOptional = true := by
      simp only [Schema.dropped, Bool.and_eq_true] at hd; exact hd.1
    have htv : σ.tailVals m = [] := by
      rcases (wf_parts hwf).2.2.2.2.1 with h0 | ⟨h1, _, _⟩
      · simp [hopt] at h0
      · simp only [Schema.tailVals]
        cases hh : σ.tail <;> simp_all
    have hpos := pos_last_opts hwf hopt
    simp only [hd, if_true, htv]
    have hpv : (σ.posVals m).dropLast = σ.pos.dropLast.map (σ.marshalPosStep m) := by
      simp [Schema.posVals, List.map_dropLast]
    rw [hpv]
    have := parsePos_map (σ := σ) (O := O) (m := m) (σ.marshal m) [PosStep.opts] []
      (by simp [parsePos]; rfl) σ.pos.dropLast
      (fun p hp => hstep p (List.dropLast_subset _ hp))
    rw [← hpos] at this
    exact this
  · simp only [hd, Bool.false_eq_true, if_false]
    have := parsePos_map (σ := σ) (O := O) (m := m) (σ.marshal m) [] (σ.tailVals m)
      (by simp [parsePos]; rfl) σ.pos hstep
    simpa [Schema.posVals] using this

theorem ctorOpts_ok {σ : Schema} {O : Oracles} {m : Msg} (hres : σ.residual O m = true) :
    ∀ ss : List OptStep, (∀ s ∈ ss, s ∈ σ.opts) → ctorOpts σ.ctorErr m ss = .ok () := by
  intro ss
  induction ss with
  | nil => intro _; rfl
  | cons s t ih =>
    intro h
    have hs := (residual_parts hres).1 s (h s List.mem_cons_self)
    unfold OptStep.residual at hs
    rw [Bool.and_eq_true] at hs
    simp only [ctorOpts, hs.2, if_true]
    exact ih (fun x hx => h x (List.mem_cons_of_mem _ hx))

theorem ctorCross_ok {O : Oracles} {m : Msg} (cls : ErrClass) :
    ∀ cs : List Cross, (∀ c ∈ cs, Cross.ok O m c = true) → ctorCross cls O m cs = .ok () := by
  intro cs
  induction cs with
  | nil => intro _; rfl
  | cons c t ih =>
    intro h
    simp only [ctorCross, h c List.mem_cons_self, if_true]
    exact ih (fun x hx => h x (List.mem_cons_of_mem _ hx))

/-- the `custom` attribute read back from the dictionary `marshal` wrote (WELCOME) -/
theorem custom_filter {σ : Schema} {O : Oracles} {m : Msg}
    (hwf : σ.wf = true) (hwfO : σ.wfO O = true) (hst : σ.strict O m = true) (hc : σ.custom = true) :
    WVal.dict ((σ.marshalDict m).filter (fun kv => O.customAttr kv.1)) = m.get cs!"custom" := by
  have hck := custom_keys hst hc
  have htn : σ.tail.isSome = false := by
    have := (wf_parts hwf).2.2.2.2.2.1
    simpa [hc] using this
  rw [marshalDict_eq]
  simp only [hc, if_true, htn, Bool.false_eq_true, if_false, List.append_nil, List.filter_append]
  have h1 : ((m.get cs!"custom").entries).filter (fun kv => O.customAttr kv.1) = (m.get cs!"custom").entries := by
    apply List.filter_eq_self.mpr
    intro kv hkv
    exact hck kv.1 (List.mem_map_of_mem hkv)
  have h2 : (σ.opts.flatMap (marshalOpt m)).filter (fun kv => O.customAttr kv.1) = [] := by
    apply List.filter_eq_nil_iff.mpr
    intro kv hkv
    obtain ⟨s, hs, hkvs⟩ := List.mem_flatMap.mp hkv
    have hk := marshalOpt_keys m s kv.1 (List.mem_map_of_mem hkvs)
    simp only [Schema.wfO, hc, Bool.not_true, Bool.false_or, List.all_eq_true, Bool.not_eq_true'] at hwfO
    rw [hk, hwfO s hs]
    simp
  rw [h1, h2, List.append_nil]
  have := (strict_parts hst).2.2.2.2
  rcases this with h | h
  · simp [hc] at h
  · split at h
    · rename_i c heq
      simp [heq, WVal.entries]
    · simp at h

end Abverif.Wamp
