import Abverif.Model.Pmce
/- C12 round trip, offers, slice accept_no_context_takeover=true, accept_max_window_bits=true (kernel-checked) -/
namespace Abverif.Pmce
theorem parse_render_offer_slice3 : ∀ o ∈ Offer.slice true true, o.reparse = some o.normalize := by
  decide +kernel
end Abverif.Pmce
