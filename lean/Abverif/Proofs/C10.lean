import Abverif.Proofs.Lemmas.SessInvWalk
import Abverif.Model.SessTrace
/-
C10 — every invocation gets exactly one terminal reply.

Statements about `Model/Session.lean` (callee part: `onInvocation`, `invDone` = the `success` / `error` closures with the
`send()` failure fallback, `settleInv` = completion / failure / cancellation of a pending result, the progress callable)
for every state / history, both scheduling modes and every behaviour of the endpoints.
-/
namespace Abverif.Session
open Abverif.SessCodes Abverif.SessTrace

/-! ## duplicate_invocation_is_violation / unknown_registration_is_violation -/

/-- `duplicate_invocation_is_violation`: an INVOCATION whose request id is still in `_invocations` (its endpoint has
not been answered yet) raises `ProtocolError` out of `onMessage` and changes nothing — no endpoint is called. -/
theorem duplicate_invocation_is_violation (s : Sess) (sid : Nat) (hs : s.sessionId = some sid) (beh : List HAct)
    (req : ReqId) (reg : RegId) (p : Payload) (rp : Bool) (h : (alookup req s.invs).isSome = true) :
    step s (.msg (.invocation req reg p rp) beh) = (s, [.raise_ .protocolError]) := by
  simp [step, onMessage, hs, onEstablished, onInvocation, h]

/-- `unknown_registration_is_violation`: an INVOCATION for a registration id the session does not hold raises
`ProtocolError` and changes nothing. -/
theorem unknown_registration_is_violation (s : Sess) (sid : Nat) (hs : s.sessionId = some sid) (beh : List HAct)
    (req : ReqId) (reg : RegId) (p : Payload) (rp : Bool) (h : alookup reg s.regs = none) :
    step s (.msg (.invocation req reg p rp) beh) = (s, [.raise_ .protocolError]) := by
  simp only [step, onMessage, hs, onEstablished, onInvocation, h]
  split <;> rfl

/-! ## endpoint_args_exact -/

/-- the keyword arguments the property says the endpoint gets: the caller's, plus `CallDetails` under the endpoint's own
`details_arg` if it has one; `details.progress` is there iff the caller asked for progressive results -/
def endpointKw (g : RegRec) (p : Payload) (rp : Bool) : List (Key × KwVal) :=
  match g.detailsArg with
  | none => kwOfPayload p
  | some k => insertKw k (.callDetails g.obj rp) (kwOfPayload p)

/-- `endpoint_args_exact`: an INVOCATION for an active registration whose id is not in use calls the endpoint of that
registration — first thing — with exactly the caller's positional arguments and keyword arguments, plus the call details
under the endpoint's `details_arg` iff it was registered with one. -/
theorem endpoint_args_exact (s : Sess) (sid : Nat) (hs : s.sessionId = some sid) (beh : List HAct)
    (req : ReqId) (reg : RegId) (p : Payload) (rp : Bool) (g : RegRec)
    (hfree : alookup req s.invs = none) (hreg : alookup reg s.regs = some g) :
    ∃ rest, (step s (.msg (.invocation req reg p rp) beh)).2 =
        .endpoint req g.obj g.endpoint (p.args.getD []) (endpointKw g p rp) :: rest := by
  unfold endpointKw
  cases hd : g.detailsArg <;>
    simp only [step, onMessage, hs, onEstablished, onInvocation, hfree, hreg, hd, Option.isSome_none, Option.isSome_some,
      Bool.false_eq_true, Bool.true_and, Bool.false_and, ↓reduceIte] <;>
    exact ⟨_, rfl⟩

end Abverif.Session
