import Abverif.Proofs.Lemmas.SessReply
import Abverif.Proofs.Lemmas.SessInvWalk
import Abverif.Proofs.Lemmas.SessCovered
import Abverif.Model.SessTrace
import Abverif.Model.SendTable
/-
C10 — every invocation gets exactly one terminal reply.

Statements about `Model/Session.lean` (callee part: `onInvocation`, `invDone` = the `success` / `error` closures with the
`send()` failure fallback, `settleInv` = completion / failure / cancellation of a pending result, the progress callable)
for every state / history, both scheduling modes and every behaviour of the endpoints.
-/
namespace Abverif.Session
open Abverif.SessCodes Abverif.SessTrace

/-! ## duplicate_invocation_is_violation / unknown_registration_is_violation -/

/-- `duplicate_invocation_is_violation`: an INVOCATION whose request id is still in `_invocations` (its endpoint has
not been answered yet) raises `ProtocolError` out of `onMessage` and changes nothing — no endpoint is called. -/
theorem duplicate_invocation_is_violation (s : Sess) (sid : Nat) (hs : s.sessionId = some sid) (beh : List HAct)
    (req : ReqId) (reg : RegId) (p : Payload) (rp : Option Bool) (h : (alookup req s.invs).isSome = true) :
    step s (.msg (.invocation req reg p rp) beh) = (s, [.raise_ .protocolError]) := by
  simp [step, onMessage, hs, onEstablished, onInvocation, h]

/-- `unknown_registration_is_violation`: an INVOCATION for a registration id the session does not hold raises
`ProtocolError` and changes nothing. -/
theorem unknown_registration_is_violation (s : Sess) (sid : Nat) (hs : s.sessionId = some sid) (beh : List HAct)
    (req : ReqId) (reg : RegId) (p : Payload) (rp : Option Bool) (h : alookup reg s.regs = none) :
    step s (.msg (.invocation req reg p rp) beh) = (s, [.raise_ .protocolError]) := by
  simp only [step, onMessage, hs, onEstablished, onInvocation, h]
  split <;> rfl

/-! ## endpoint_args_exact -/

/-- the caller asked for progressive results: the `receive_progress` detail of the INVOCATION is there and is `true`
(absent and an explicit `false` both mean no) -/
def askedProgress : Option Bool → Bool
  | some true => true
  | _ => false

/-- the keyword arguments the property says the endpoint gets: the caller's, plus `CallDetails` under the endpoint's own
`details_arg` if it has one; `details.progress` is there iff the caller asked for progressive results -/
def endpointKw (g : RegRec) (p : Payload) (rp : Option Bool) : List (Key × KwVal) :=
  match g.detailsArg with
  | none => kwOfPayload p
  | some k => insertKw k (.callDetails g.obj (askedProgress rp)) (kwOfPayload p)

/-- `endpoint_args_exact`: an INVOCATION for an active registration whose id is not in use calls the endpoint of that
registration — first thing — with exactly the caller's positional arguments and keyword arguments, plus the call details
under the endpoint's `details_arg` iff it was registered with one; the details carry a progress callable iff the
`receive_progress` detail is `true` — for each of the three wire forms (absent, `true`, `false`). -/
theorem endpoint_args_exact (s : Sess) (sid : Nat) (hs : s.sessionId = some sid) (beh : List HAct)
    (req : ReqId) (reg : RegId) (p : Payload) (rp : Option Bool) (g : RegRec)
    (hfree : alookup req s.invs = none) (hreg : alookup reg s.regs = some g) :
    ∃ rest, (step s (.msg (.invocation req reg p rp) beh)).2 =
        .endpoint req g.obj g.endpoint (p.args.getD []) (endpointKw g p rp) :: rest := by
  unfold endpointKw
  have hrp : (rp == some true) = askedProgress rp := by
    cases rp with
    | none => rfl
    | some b => cases b <;> rfl
  cases hd : g.detailsArg <;>
    simp only [step, onMessage, hs, onEstablished, onInvocation, hfree, hreg, hd, hrp, Option.isSome_none, Option.isSome_some,
      Bool.false_eq_true, Bool.true_and, Bool.false_and, ↓reduceIte] <;>
    exact ⟨_, rfl⟩

/-- `progress_only_if_asked`: when the caller did not ask for progressive results — the `receive_progress` detail is
absent or explicitly `false` — or the endpoint takes no call details, there is no `details.progress` to call: whatever
progress calls the endpoint would make, the step is the one of an endpoint that makes none (no progressive YIELD is sent,
the id is not recorded as holding a progress callable). -/
theorem progress_only_if_asked (s : Sess) (sid : Nat) (hs : s.sessionId = some sid) (act : HAct) (rest : List HAct)
    (req : ReqId) (reg : RegId) (p : Payload) (rp : Option Bool) (g : RegRec) (hreg : alookup reg s.regs = some g)
    (hno : (g.detailsArg.isSome && askedProgress rp) = false) :
    step s (.msg (.invocation req reg p rp) (act :: rest)) =
      step s (.msg (.invocation req reg p rp) ({ act with progress := [] } :: rest)) := by
  have hrp : (rp == some true) = askedProgress rp := by
    cases rp with
    | none => rfl
    | some b => cases b <;> rfl
  simp only [step, onMessage, hs, onEstablished, onInvocation, hreg, hrp, hno, List.headD_cons, Bool.false_eq_true, ↓reduceIte]
  rfl

/-- non-vacuity: the same endpoint (reports progress 3, returns 9) invoked with the detail absent, `false`, `true` — a
progressive YIELD only in the last case, and only then does `CallDetails` carry a callable -/
example : (runOuts (runState (init .sync) [.open_ [], .msg (.welcome 7) [], .api (.register 1 4 (some { detailsArg := some 0 }) .ok),
      .msg (.registered 1 70) []])
      [.msg (.invocation 5 70 {} none) [{ ret := .val 9, progress := [3] }],
       .msg (.invocation 6 70 {} (some false)) [{ ret := .val 9, progress := [3] }],
       .msg (.invocation 7 70 {} (some true)) [{ ret := .val 9, progress := [3] }]]) =
    [.endpoint 5 0 1 [] [(0, .callDetails 0 false)], .send { typ := .yield_, req := 5, args := [9] },
     .endpoint 6 0 1 [] [(0, .callDetails 0 false)], .send { typ := .yield_, req := 6, args := [9] },
     .endpoint 7 0 1 [] [(0, .callDetails 0 true)], .send { typ := .yield_, req := 7, opts := [(.progress, .b true)], args := [3] },
     .send { typ := .yield_, req := 7, args := [9] }] := by decide

/-- the three wire forms of the detail: only `true` asks -/
example : askedProgress none = false ∧ askedProgress (some false) = false ∧ askedProgress (some true) = true := ⟨rfl, rfl, rfl⟩

/-- … and when it did, the progressive results of the endpoint go out before anything else the step sends: the outputs
are the endpoint call, then one progressive YIELD per progress call (transport up, `send()` accepting), then the rest -/
theorem progress_before_terminal_in_step (s : Sess) (sid : Nat) (hs : s.sessionId = some sid) (act : HAct) (rest : List HAct)
    (req : ReqId) (reg : RegId) (p : Payload) (g : RegRec) (k : Key)
    (hfree : alookup req s.invs = none) (hreg : alookup reg s.regs = some g) (hd : g.detailsArg = some k)
    (ht : s.transport = true) (hf : s.faults = []) :
    ∃ tail, (step s (.msg (.invocation req reg p (some true)) (act :: rest))).2 =
      .endpoint req g.obj g.endpoint (p.args.getD []) (endpointKw g p (some true)) ::
        (act.progress.map (fun v => SOut.send { typ := .yield_, req := req, opts := [(.progress, .b true)], args := [v] }) ++ tail) := by
  have hloop : ∀ (s0 : Sess) (vs : List Val), s0.transport = true → s0.faults = [] →
      (progressLoop s0 req vs) = (s0, vs.map (fun v => SOut.send { typ := .yield_, req := req, opts := [(.progress, .b true)], args := [v] }), false) := by
    intro s0 vs h1 h2
    induction vs with
    | nil => rfl
    | cons v vs ih => simp [progressLoop, h1, progressSend, replySend, h2, ih]
  unfold endpointKw
  simp only [step, onMessage, hs, onEstablished, onInvocation, hfree, hreg, hd, Option.isSome_none, Option.isSome_some,
    Bool.false_eq_true, Bool.true_and, ↓reduceIte, List.headD_cons]
  rw [hloop _ _ (by simpa using ht) (by simpa using hf)]
  simp only [Bool.false_eq_true, ↓reduceIte, List.cons_append, List.append_assoc]
  exact ⟨_, rfl⟩

/-! ## one_terminal_reply -/

/-- **at most one**, for every history, both scheduling modes, whatever endpoints, transport and `send()` do: the
terminal replies (non-progressive YIELD, ERROR) sent for a request id never outnumber the endpoint calls made for it —
and an id that is still in `_invocations` has one reply less than calls. A terminal reply is sent by the `success` /
`error` closure only, which first removes the id; the id gets there only through an accepted INVOCATION. -/
theorem at_most_one_terminal_reply (mode : Sched) (h : List SEv) (req : ReqId) :
    terminals req (runOuts (init mode) h) + owing req (runState (init mode) h) ≤ accepts req (runOuts (init mode) h) := by
  have := (run_rep (req := req) (s := init mode) (by intro o ho; simp [init] at ho) h).2
  simpa [owing, init] using this

/-- the same from any reachable state on: what is sent later for an id is covered by what is owed now plus later calls -/
theorem at_most_one_terminal_reply_from (mode : Sched) (h1 h2 : List SEv) (req : ReqId) :
    terminals req (runOuts (runState (init mode) h1) h2) + owing req (runState (init mode) (h1 ++ h2)) ≤
      accepts req (runOuts (runState (init mode) h1) h2) + owing req (runState (init mode) h1) := by
  have h0 := (run_rep (req := req) (s := init mode) (by intro o ho; simp [init] at ho) h1).1
  have := (run_rep (req := req) h0 h2).2
  rw [runState_append]; exact this

/-- plans of `send()` outcomes the property covers: the reply goes out, or it is refused as unserializable / oversize and
the fallback ERROR goes out -/
def planCovered : List SendOut → Bool
  | [] | .ok :: _ => true
  | .serialization :: [] | .serialization :: .ok :: _ => true
  | .payloadExceeded :: [] | .payloadExceeded :: .ok :: _ => true
  | _ => false

/-- **exactly one, when the closure runs**: once the endpoint's outcome is known its `success` / `error` closure runs
(`invDone`; at once on Twisted, at the next loop iteration on asyncio); with the transport up and a covered `send()`
plan it sends exactly one terminal reply for the id — and the id leaves `_invocations`. For EVERY outcome: a value, a
`CallResult`, an exception of any class — also one `_message_from_exception` cannot turn into an ERROR (the closure then
answers `wamp.error.invalid_payload`; before the repair nothing was sent: `error-path:encode-raises:no-reply`). -/
theorem reply_sent_exactly_once (s : Sess) (req : ReqId) (o : EOut) (hin : (alookup req s.invs).isSome = true)
    (ht : s.transport = true) (hplan : planCovered s.faults = true) :
    terminals req (invDone s req o).2 = 1 ∧ owing req (invDone s req o).1 = 0 := by
  obtain ⟨x, hx⟩ := Option.isSome_iff_exists.mp hin
  have hnt : (!s.transport) = false := by simp [ht]
  have key : ∀ (m : OutMsg), ((m.typ == .yield_ && !isProg m) || m.typ == .error) = true → m.req = req →
      terminals req (sendWithFallback { s with invs := adel req s.invs } req m).2 = 1 ∧
      (sendWithFallback { s with invs := adel req s.invs } req m).1.invs = adel req s.invs := by
    intro m hm hr
    have hterm : terminalFor req (.send m) = true := by simp [terminalFor, hm, hr]
    have hfb : ∀ u, terminalFor req (.send { typ := .error, req := req, uri := u }) = true := by intro u; simp [terminalFor]
    unfold sendWithFallback replySend
    match hf : s.faults with
    | [] => simp [hf, terminals, hterm]
    | .ok :: r => simp [hf, terminals, hterm]
    | .serialization :: [] => simp [hf, terminals, terminalFor, fallbackUri]
    | .serialization :: .ok :: r => simp [hf, terminals, terminalFor, fallbackUri]
    | .payloadExceeded :: [] => simp [hf, terminals, terminalFor, fallbackUri]
    | .payloadExceeded :: .ok :: r => simp [hf, terminals, terminalFor, fallbackUri]
    | .serialization :: .serialization :: r => simp [hf, planCovered] at hplan
    | .serialization :: .payloadExceeded :: r => simp [hf, planCovered] at hplan
    | .serialization :: .transportLost :: r => simp [hf, planCovered] at hplan
    | .serialization :: .other :: r => simp [hf, planCovered] at hplan
    | .payloadExceeded :: .serialization :: r => simp [hf, planCovered] at hplan
    | .payloadExceeded :: .payloadExceeded :: r => simp [hf, planCovered] at hplan
    | .payloadExceeded :: .transportLost :: r => simp [hf, planCovered] at hplan
    | .payloadExceeded :: .other :: r => simp [hf, planCovered] at hplan
    | .transportLost :: r => simp [hf, planCovered] at hplan
    | .other :: r => simp [hf, planCovered] at hplan
  unfold invDone
  simp only [hx]
  cases o with
  | value a k =>
    simp only [hnt, Bool.false_eq_true, ↓reduceIte]
    obtain ⟨k1, k2⟩ := key { typ := .yield_, req := req, args := a, kwargs := k } (by simp [isProg]) rfl
    exact ⟨k1, by simp [owing, k2]⟩
  | raised e =>
    simp only [hnt, Bool.false_eq_true, ↓reduceIte]
    obtain ⟨k1, k2⟩ := key { typ := .error, req := req, uri := e.errorReply.1, args := e.errorReply.2.1, kwargs := e.errorReply.2.2 } (by simp) rfl
    refine ⟨?_, by simp [owing, k2]⟩
    simpa [terminals, List.countP_cons, terminalFor] using k1

/-- what the one reply is when `send()` accepts it: YIELD with the endpoint's return value (a `CallResult` unpacked, a
plain value as the one positional result), or ERROR with the exception's URI / args / kwargs — and, when no ERROR can be
built from the exception, ERROR `wamp.error.invalid_payload` without the exception's payload -/
theorem reply_content (s : Sess) (req : ReqId) (x : InvRec) (hx : alookup req s.invs = some x) (ht : s.transport = true)
    (hf : s.faults = []) :
    (∀ a k, (invDone s req (.value a k)).2 = [.send { typ := .yield_, req := req, args := a, kwargs := k }]) ∧
    (∀ e u a k, e.toError = some (u, a, k) →
      (invDone s req (.raised e)).2 = [.userError, .send { typ := .error, req := req, uri := u, args := a, kwargs := k }]) ∧
    (∀ e, e.toError = none →
      (invDone s req (.raised e)).2 = [.userError, .send { typ := .error, req := req, uri := uInvalidPayload }]) := by
  have hnt : (!s.transport) = false := by simp [ht]
  refine ⟨?_, ?_, ?_⟩
  · intro a k; simp [invDone, hx, hnt, sendWithFallback, replySend, hf]
  · intro e u a k he; simp [invDone, hx, hnt, ExcK.errorReply, he, sendWithFallback, replySend, hf]
  · intro e he; simp [invDone, hx, hnt, ExcK.errorReply, he, sendWithFallback, replySend, hf]

example : retOut (.callResult [1, 2] [(3, 4)]) = .value [1, 2] [(3, 4)] ∧ retOut (.val 7) = .value [7] [] ∧
    retOut .unit = .value [noneVal] [] := ⟨rfl, rfl, rfl⟩

/-- the full statement: every accepted invocation whose outcome is known has exactly one terminal reply once the loop is
idle and the transport stayed up -/
def OneTerminalReply : Prop :=
  ∀ (mode : Sched) (h : List SEv) (req : ReqId),
    (∀ e ∈ h, ∀ acts, e ≠ .closed acts) →                        -- the transport stays up
    let s := runState (init mode) (h ++ [.pump])
    owing req s = 0 →                                            -- every outcome is known and its closure has run
    terminals req (runOuts (init mode) (h ++ [.pump])) = accepts req (runOuts (init mode) (h ++ [.pump]))

/-- a joined session with one registered endpoint that takes call details -/
def callee1 : List SEv :=
  [.open_ [], .msg (.welcome 7) [], .api (.register 1 4 (some { detailsArg := some 0 }) .ok), .msg (.registered 1 70) []]

/-- it fails for a transport outside the property's promise: `send()` raises a class the closures do not handle (what the
asyncio RawSocket did for an oversize message — ledger F14 — and the Twisted RawSocket for an unserializable result, both
repaired: `fallback_covers`; the mock transport still can) — the endpoint is called, nothing is ever sent for the id -/
theorem one_terminal_reply_fails_send_raises_other : ¬ OneTerminalReply := by
  intro h
  have := h .sync (callee1 ++ [.fault [.other], .msg (.invocation 9 70 {} none) [{ ret := .val 1 }]]) 9
    (by intro e he acts hc; subst hc; simp [callee1] at he) (by decide)
  revert this; decide

/-- … and for a transport that refuses the fallback ERROR as well (what every real transport did for an oversize result
while the fallback repeated the result in its message — repaired; the mock transport still can) -/
theorem one_terminal_reply_fails_fallback_refused : ¬ OneTerminalReply := by
  intro h
  have := h .sync (callee1 ++ [.fault [.payloadExceeded, .payloadExceeded], .msg (.invocation 9 70 {} none) [{ ret := .val 1 }]]) 9
    (by intro e he acts hc; subst hc; simp [callee1] at he) (by decide)
  revert this; decide

/-- regression (`error-path:encode-raises:no-reply`, repaired): an exception the ERROR cannot be built from is answered
with `wamp.error.invalid_payload` — one endpoint call, one terminal reply -/
example : runOuts (runState (init .sync) callee1) [.msg (.invocation 9 70 {} none) [{ raises := true, exc := .unbuildable }]] =
    [.endpoint 9 0 1 [] [(0, .callDetails 0 false)], .userError, .send { typ := .error, req := 9, uri := uInvalidPayload }] := by
  decide

/-! ### exactly one, for every history the real transports can produce -/

/-- a plan made of covered units is covered in the sense of `planCovered` (the converse fails: `[ser]` followed by a
later `[big]` is two covered plans whose concatenation refuses the fallback ERROR — which is why the history-level
statement needs the unit form) -/
theorem planUnits_covered (l : List SendOut) (h : planUnits l = true) : planCovered l = true := by
  unfold planUnits at h
  split at h <;> simp_all [planCovered]

/-- **`one_terminal_reply_covered`** — exactly one, at history level, both scheduling modes: in EVERY history that begins
with `onOpen`, in which the transport stays up (no `onClose`) and every `send()` plan is made of covered units (each
refusal — unserializable / oversize — followed by an acceptance: what the four real transports produce,
`real_transport_plan_units`), whatever endpoints, user code, the router and the loop do: for every request id the
terminal replies sent (YIELD without progress, ERROR) plus the invocations still running equal the endpoint calls made.
So every invocation that has ended — its record has left `_invocations`: outcome known and closure run — has exactly one
terminal reply in the trace, and none has more. (`at_most_one_terminal_reply` is the ≤ half for every history;
`Lemmas/SessCovered.lean` proves the ≥ half: a record leaves `_invocations` only together with a terminal reply.) -/
theorem one_terminal_reply_covered (mode : Sched) (acts : List HAct) (rest : List SEv)
    (hc : rest.all SEv.covered = true) (req : ReqId) :
    terminals req (runOuts (init mode) (.open_ acts :: rest)) + owing req (runState (init mode) (.open_ acts :: rest)) =
      accepts req (runOuts (init mode) (.open_ acts :: rest)) := by
  have hle := at_most_one_terminal_reply mode (.open_ acts :: rest) req
  -- `onOpen` on the fresh object: the transport is there before anything else happens
  have h0 : Cov req { init mode with transport := true, ended := false } := ⟨rfl, rfl, by intro o ho; simp [init] at ho⟩
  have h1 := (covLiftT req).defer (fun r o h => invDone_cov h r o) h0 (.connect (acts.headD {}))
  have hstep : CovRel req { init mode with transport := true, ended := false } (step (init mode) (.open_ acts)).2
      (step (init mode) (.open_ acts)).1 := by
    have := (covLiftT req).cons h0 (o := .fire .connect) rfl h1
    simpa [step, onOpen] using this
  have hrun := run_cov (req := req) hstep.1 rest hc
  have hall := CovRel.trans hstep hrun
  rw [← runOuts_cons, ← runState_cons] at hall
  have hge := hall.2
  have ho : owing req { init mode with transport := true, ended := false } = 0 := by simp [owing, init]
  omega

/-- … in the shape of `OneTerminalReply`: once nothing is owed for the id, terminal replies = endpoint calls -/
theorem one_terminal_reply_covered_ended (mode : Sched) (acts : List HAct) (rest : List SEv)
    (hc : rest.all SEv.covered = true) (req : ReqId)
    (hend : owing req (runState (init mode) (.open_ acts :: rest)) = 0) :
    terminals req (runOuts (init mode) (.open_ acts :: rest)) = accepts req (runOuts (init mode) (.open_ acts :: rest)) := by
  have := one_terminal_reply_covered mode acts rest hc req
  omega

/-- non-vacuity: a history with a fault — an oversize result refused, the fallback ERROR accepted — satisfies the
hypothesis, and the invocation has ended with exactly one terminal reply; and the history that refutes the unrestricted
statement does not satisfy it -/
example : ([.msg (.welcome 7) [], .api (.register 1 4 (some { detailsArg := some 0 }) .ok), .msg (.registered 1 70) [],
      .fault [.payloadExceeded, .ok], .msg (.invocation 9 70 {} none) [{ ret := .val 1 }], .pump] : List SEv).all SEv.covered = true ∧
    owing 9 (runState (init .deferred) (.open_ [] :: [.pump, .msg (.welcome 7) [], .pump,
      .api (.register 1 4 (some { detailsArg := some 0 }) .ok), .msg (.registered 1 70) [],
      .fault [.payloadExceeded, .ok], .msg (.invocation 9 70 {} none) [{ ret := .val 1 }], .pump])) = 0 ∧
    SEv.covered (.fault [.payloadExceeded, .payloadExceeded]) = false ∧ SEv.covered (.fault [.other]) = false := by decide

/-- non-vacuity of the accounting: three invocations (plain, failing with the fallback, interrupted while pending) get
one terminal reply each; on asyncio the replies go out when the loop runs -/
example : let outs := runOuts (init .deferred) ([.open_ [], .pump, .msg (.welcome 7) [], .pump,
      .api (.register 1 4 (some { detailsArg := some 0 }) .ok), .msg (.registered 1 70) [], .pump, .msg (.invocation 5 70 { args := some [1] } (some true)) [{ ret := .val 9, progress := [3] }],
      .fault [.payloadExceeded, .ok], .msg (.invocation 6 70 {} none) [{ ret := .callResult [1] [] }],
      .msg (.invocation 7 70 {} none) [{ ret := .pending }], .msg (.interrupt 7) [], .pump])
    (terminals 5 outs, terminals 6 outs, terminals 7 outs, accepts 5 outs, accepts 6 outs, accepts 7 outs) = (1, 1, 1, 1, 1, 1) := by decide

/-! ## progress_before_terminal (U2) -/

/-- no progressive YIELD for an id after a terminal reply for it -/
def progressFor (req : ReqId) : SOut → Bool
  | .send m => m.typ == .yield_ && isProg m && m.req == req
  | _ => false

def noProgressAfterTerminal (req : ReqId) : Bool → List SOut → Bool
  | _, [] => true
  | seen, o :: os =>
    if terminalFor req o then noProgressAfterTerminal req true os
    else if progressFor req o then !seen && noProgressAfterTerminal req seen os
    else noProgressAfterTerminal req seen os

def ProgressBeforeTerminal : Prop :=
  ∀ (mode : Sched) (h : List SEv) (req : ReqId), noProgressAfterTerminal req false (runOuts (init mode) h) = true

/-- it fails (U2): the endpoint keeps `details.progress` and calls it after it returned -/
theorem progress_before_terminal_fails_U2 : ¬ ProgressBeforeTerminal := by
  intro h
  have := h .sync (callee1 ++ [.msg (.invocation 5 70 {} (some true)) [{ ret := .val 9, progress := [3] }], .lateProgress 5 8]) 5
  revert this; decide

/-! ## interrupt_yields_error -/

/-- `interrupt_yields_error`: INTERRUPT for an invocation whose result is still pending cancels it; its `error` closure
answers with ERROR (`wamp.error.runtime_error`: CancelledError is no ApplicationError) — at once on Twisted, queued for
the next loop iteration on asyncio — and the id leaves `_invocations`. An INTERRUPT for an id that is not (or no longer)
pending changes nothing. -/
theorem interrupt_yields_error (s : Sess) (sid : Nat) (hs : s.sessionId = some sid) (beh : List HAct) (req : ReqId)
    (x : InvRec) (hx : alookup req s.invs = some x) (hp : x.st = .pending) (ht : s.transport = true) (hf : s.faults = []) :
    (s.mode = .sync → (step s (.msg (.interrupt req) beh)).2 =
        [.userError, .send { typ := .error, req := req, uri := uRuntimeError }] ∧
      alookup req (step s (.msg (.interrupt req) beh)).1.invs = none) ∧
    (s.mode = .deferred → (step s (.msg (.interrupt req) beh)).2 = [] ∧
      (step s (.msg (.interrupt req) beh)).1.cbq = s.cbq ++ [.later (.invDone req (.raised .cancelled))]) := by
  have hnt : (!s.transport) = false := by simp [ht]
  constructor
  · intro hm
    simp [step, onMessage, hs, onEstablished, settleInv, hx, hp, defer, hm, runCont, invDone, alookup_aupd_self, ExcK.toError,
      ExcK.errorReply, hnt, sendWithFallback, replySend, hf]
  · intro hm
    simp [step, onMessage, hs, onEstablished, settleInv, hx, hp, defer, hm]

theorem interrupt_ignored (s : Sess) (sid : Nat) (hs : s.sessionId = some sid) (beh : List HAct) (req : ReqId) :
    (alookup req s.invs = none → step s (.msg (.interrupt req) beh) = (s, [])) ∧
    (∀ x, alookup req s.invs = some x → x.st = .fired → step s (.msg (.interrupt req) beh) = (s, [])) := by
  constructor
  · intro h; simp [step, onMessage, hs, onEstablished, settleInv, h]
  · intro x h hf; simp [step, onMessage, hs, onEstablished, settleInv, h, hf]

/-- non-vacuity: INTERRUPT before (ignored), between (cancels the pending result; a later completion is ignored), after -/
example : runOuts (init .sync) (callee1 ++ [.msg (.interrupt 5) [], .msg (.invocation 5 70 {} none) [{ ret := .pending }],
      .msg (.interrupt 5) [], .resolve 5 (.val 1), .msg (.interrupt 5) []]) =
    (runOuts (init .sync) callee1) ++ [.endpoint 5 0 1 [] [(0, .callDetails 0 false)], .userError,
      .send { typ := .error, req := 5, uri := uRuntimeError }] := by decide

/-! ## the send() classification of the four transports (regenerated from the source on every run) -/

/-- the fallback of the `success` / `error` closures covers a transport iff its `send()` raises SerializationError for an
unserializable and PayloadExceededError for an oversize reply -/
def FallbackCovers (t : Transport) : Prop :=
  sendTable t .unserializable = .serialization ∧ sendTable t .oversize = .payloadExceeded

/-- `fallback_covers`: it does for all four transports — WebSocket (both frameworks), the asyncio RawSocket (since the
repair of F14) and the Twisted RawSocket (since its `send()` wraps whatever the serializer raises, like the others; before
that repair `except SerializationError` let the serializer's own exception through and this theorem was false of the
generated table) -/
theorem fallback_covers : ∀ t : Transport, FallbackCovers t := by
  intro t; cases t <;> (unfold FallbackCovers; decide)

/-- so on every real transport an unserializable or oversize result meets a covered plan as soon as the fallback ERROR —
which no longer repeats the result — is accepted: with `reply_sent_exactly_once`, exactly one terminal reply -/
theorem fallback_plan_covered (t : Transport) (c : Cause) (rest : List SendOut) :
    planCovered (sendTable t c :: .ok :: rest) = true := by
  have h := fallback_covers t
  cases c
  · rw [h.1]; rfl
  · rw [h.2]; rfl

/-- why the hypothesis of `one_terminal_reply_covered` is the unit form and not "`planCovered` for every fault event":
`[ser]` and `[big]` are covered plans each, one after the other they make the fallback ERROR of the first refusal meet the
second refusal — the endpoint is called, the invocation ends, nothing is sent -/
example : planCovered [.serialization] = true ∧ planCovered [.payloadExceeded] = true ∧
    planUnits ([.serialization] ++ [.payloadExceeded]) = false ∧
    terminals 9 (runOuts (init .sync) (callee1 ++ [.fault [.serialization], .fault [.payloadExceeded],
      .msg (.invocation 9 70 {} none) [{ ret := .val 1 }]])) = 0 ∧
    accepts 9 (runOuts (init .sync) (callee1 ++ [.fault [.serialization], .fault [.payloadExceeded],
      .msg (.invocation 9 70 {} none) [{ ret := .val 1 }]])) = 1 ∧
    owing 9 (runState (init .sync) (callee1 ++ [.fault [.serialization], .fault [.payloadExceeded],
      .msg (.invocation 9 70 {} none) [{ ret := .val 1 }]])) = 0 := by decide

/-- what a real transport does with a result that is unfit for the wire — refuse it as its `send()` table says, accept
the fallback ERROR — is a covered unit (`fallback_covers`) -/
theorem real_transport_plan_units (t : Transport) (c : Cause) (rest : List SendOut) (h : planUnits rest = true) :
    planUnits (sendTable t c :: .ok :: rest) = true := by
  have hc := fallback_covers t
  cases c
  · rw [hc.1]; simpa [planUnits] using h
  · rw [hc.2]; simpa [planUnits] using h

end Abverif.Session
