import Abverif.Proofs.Lemmas.WsJudge2
import Abverif.Proofs.WsSegmentation
/-
# The receive engine refines the RFC 6455 judge (C02; message delivery clause of C01; limits of C16)

`recv_refines_judge`: feed any octet stream, cut into reads in any way, to a freshly opened endpoint that fails by
dropping: the events it delivers (messages, pings, pongs — in order, with payload, type and compression flag) are
exactly the events the frame-by-frame RFC 6455 judge `WsSpec.judge` derives from the whole stream, and the engine's
final state is the judge's verdict: still OPEN and nothing failed (`ok`), failed and dropped (`fail`), or the peer's
close frame taken in (code and reason recorded, clean close, server dropped / client waiting).
-/
namespace Abverif.Ws
open Abverif.WsSpec

/-- the judge started in state `j` (the whole-stream judge `WsSpec.judge` is `judge' c {}`) -/
def judge' (c : Ctx) (j : J) (stream : Bytes) : List Ev × Verdict × Nat := judgeFrom c (stream.length / 2 + 1) j stream

theorem judge'_init (c : Ctx) (stream : Bytes) : judge' c {} stream = judge c stream := rfl

/-- one step of the judge is matched by the engine's loop -/
theorem step_refines (c : Ctx) (s : S) (j : J) (buf : Bytes) (F : Nat) (hr : Rel c s j) (hF : mu s buf < F) :
    StepAgree c s buf F (judgeStep c j buf) := by
  obtain ⟨F, rfl⟩ : ∃ F', F = F' + 1 := ⟨F - 1, by omega⟩
  match buf with
  | [] =>
    show Agree c (drain (F + 1) s []).1 j.evs .ok 0
    rw [drain_stop F s s [] [] (processData_short s [] hr.cur (by simp))]
    exact ⟨hr.evs, hr.q.st, hr.q.nf⟩
  | [x] =>
    show Agree c (drain (F + 1) s [x]).1 j.evs .ok 1
    rw [drain_stop F s s [x] [x] (processData_short s [x] hr.cur (by simp))]
    exact ⟨hr.evs, hr.q.st, hr.q.nf⟩
  | o0 :: o1 :: rest2 =>
    have hrange := header_fields_in_range o0 o1
    have htab := header_table s.cfg s.insideMessage (Hd.ofOctets o0 o1).fin (Hd.ofOctets o0 o1).masked
      (Hd.ofOctets o0 o1).rsv (Hd.ofOctets o0 o1).opcode (Hd.ofOctets o0 o1).len7 hrange.1 hrange.2.1
    rw [hr.q.ctx, hr.inside] at htab
    have e1 := processData_none s o0 o1 rest2 hr.cur
    unfold judgeStep
    simp only []
    by_cases hok : headerOk c j.inside (Hd.ofOctets o0 o1).fin (Hd.ofOctets o0 o1).rsv (Hd.ofOctets o0 o1).opcode
        (Hd.ofOctets o0 o1).masked (Hd.ofOctets o0 o1).len7 = true
    · have hv := htab.mpr hok
      rw [← hr.inside] at hv
      simp only [hok, Bool.not_true, Bool.false_eq_true, if_false]
      by_cases hlen : rest2.length < (Hd.ofOctets o0 o1).extN + (Hd.ofOctets o0 o1).keyN
      · simp only [hlen, if_true]
        show Agree c (drain (F + 1) s (o0 :: o1 :: rest2)).1 j.evs .ok (o0 :: o1 :: rest2).length
        rw [drain_stop F s s _ _ (by rw [e1]; exact processHeader_short s o0 o1 rest2 hv hlen)]
        exact ⟨hr.evs, hr.q.st, hr.q.nf⟩
      · simp only [hlen, if_false]
        have hlen' : (Hd.ofOctets o0 o1).extN + (Hd.ofOctets o0 o1).keyN ≤ rest2.length := by omega
        by_cases hext : extLenOk (Hd.ofOctets o0 o1).len7 ((Hd.ofOctets o0 o1).plen rest2) = true
        · simp only [hext, Bool.not_true, Bool.false_eq_true, if_false]
          by_cases hop : (Hd.ofOctets o0 o1).opcode ≥ 8
          · simp only [hop, if_true]
            exact control_refines c s j o0 o1 rest2 (F + 1) hr hv hok hlen' hext hop hF
          · simp only [hop, if_false]
            exact data_refines c s j o0 o1 rest2 (F + 1) hr hv hlen' hext hop hF
        · have hext' : extLenOk (Hd.ofOctets o0 o1).len7 ((Hd.ofOctets o0 o1).plen rest2) = false := by
            simpa using hext
          simp only [hext', Bool.not_false, if_true]
          have hb := processHeader_extbad s o0 o1 rest2 hv hlen' hext' hr.q.fbd hr.open_ne
          show Agree c (drain (F + 1) s (o0 :: o1 :: rest2)).1 j.evs (.fail 1002) (o0 :: o1 :: rest2).length
          rw [drain_stop2 F s _ (by rw [e1]; exact hb.1), e1]
          exact Agree.of_Failed c s _ _ 1002 _ hb.2 hr.evs
    · have hok' : headerOk c j.inside (Hd.ofOctets o0 o1).fin (Hd.ofOctets o0 o1).rsv (Hd.ofOctets o0 o1).opcode
          (Hd.ofOctets o0 o1).masked (Hd.ofOctets o0 o1).len7 = false := by simpa using hok
      simp only [hok', Bool.not_false, if_true]
      have hv : headerViolations s.cfg s.insideMessage (Hd.ofOctets o0 o1).fin (Hd.ofOctets o0 o1).rsv
          (Hd.ofOctets o0 o1).opcode (Hd.ofOctets o0 o1).masked (Hd.ofOctets o0 o1).len7 ≠ [] := by
        intro hx
        rw [hr.inside] at hx
        rw [htab.mp hx] at hok'
        cases hok'
      have hb := processHeader_viol s o0 o1 (o0 :: o1 :: rest2) hv hr.q.fbd hr.open_ne
      show Agree c (drain (F + 1) s (o0 :: o1 :: rest2)).1 j.evs (.fail 1002) (o0 :: o1 :: rest2).length
      rw [drain_stop2 F s _ (by rw [e1]; exact hb.1), e1]
      exact Agree.of_Failed c s _ _ 1002 _ hb.2 hr.evs

/-- **the loop refines the judge**: from related states, draining a buffer ends in a state that agrees with the
judge's verdict on that buffer (any fuel of the judge that covers the buffer, any fuel of the loop) -/
theorem drain_refines (c : Ctx) : ∀ (n : Nat) (s : S) (j : J) (buf : Bytes) (F : Nat), Rel c s j →
    buf.length < 2 * n → mu s buf < F →
    Agree c (drain F s buf).1 (judgeFrom c n j buf).1 (judgeFrom c n j buf).2.1 (judgeFrom c n j buf).2.2 := by
  intro n
  induction n with
  | zero => intro s j buf F _ h; omega
  | succ n ih =>
    intro s j buf F hr hlen hF
    have hs := step_refines c s j buf F hr hF
    have hmu : mu s buf = 2 * buf.length := by unfold mu; simp [hr.cur]
    rw [judgeFrom]
    cases hjs : judgeStep c j buf with
    | next j' rest =>
      rw [hjs] at hs
      obtain ⟨s', hr', hl, hd⟩ := hs
      simp only []
      rw [hd]
      have hmu' : mu s' rest = 2 * rest.length := by unfold mu; simp [hr'.cur]
      exact ih s' j' rest F hr' (by omega) (by omega)
    | done evs v r =>
      rw [hjs] at hs
      exact hs

/-- the verdict-agreement does not read the receive buffer -/
theorem Agree.setData {c : Ctx} {s : S} {evs : List Ev} {v : Verdict} {r : Nat} (d : Bytes)
    (h : Agree c s evs v r) : Agree c { s with data := d } evs v r := by
  cases v <;> exact h

/-- a freshly opened connection is related to the judge's initial state -/
theorem start_Rel (cfg : Cfg) (hf : cfg.failByDrop = true) : Rel (Ctx.ofCfg cfg) (start cfg) {} := by
  unfold start
  simp only []
  split
  · refine ⟨⟨rfl, rfl, rfl, rfl, rfl, hf, rfl⟩, rfl, rfl, rfl, fun h => by cases h⟩
  · refine ⟨⟨rfl, rfl, rfl, rfl, rfl, hf, rfl⟩, rfl, rfl, rfl, fun h => by cases h⟩

/-- one read of a whole stream -/
theorem dataReceived_refines (c : Ctx) (s : S) (j : J) (stream : Bytes) (hr : Rel c s j) (hd : s.data = []) :
    Agree c (dataReceived s stream) (judgeFrom c (stream.length / 2 + 1) j stream).1
      (judgeFrom c (stream.length / 2 + 1) j stream).2.1 (judgeFrom c (stream.length / 2 + 1) j stream).2.2 := by
  rw [dataReceived_live s stream hr.q.lost (Or.inl hr.q.st), hd, List.nil_append]
  have hself : ({ s with data := [] } : S) = s := setData_self s hd
  rw [hself]
  apply Agree.setData
  exact drain_refines c _ s j stream _ hr (by omega) (mu_lt_drainFuel s stream)

/-- **C02 (and the delivery clause of C01, the limits of C16): the receive engine refines the RFC 6455 judge.**
For an endpoint that fails by dropping, fed `stream` in any non-empty reads `chunks`, starting between frames in a
state related to the judge's state `j`: the run ends in a state that is the same as — or, when the stream makes the
endpoint fail the connection, closed with the same history as — a state that agrees with the judge's verdict on the
whole stream. -/
theorem recv_refines_judge (c : Ctx) (s : S) (j : J) (chunks : List Bytes) (hr : Rel c s j) (hd : s.data = [])
    (hne : ∀ ch ∈ chunks, ch ≠ []) (hnil : chunks ≠ []) :
    ∃ s', Sim (feed s chunks) s' ∧
      Agree c s' (judge' c j chunks.flatten).1 (judge' c j chunks.flatten).2.1 (judge' c j chunks.flatten).2.2 := by
  refine ⟨dataReceived s chunks.flatten, ?_, dataReceived_refines c s j chunks.flatten hr hd⟩
  obtain ⟨n, hn⟩ : ∃ n, chunks.length = n + 1 := by
    cases chunks with
    | nil => exact absurd rfl hnil
    | cons _ t => exact ⟨t.length, rfl⟩
  exact feed_eq_single s (fun _ => hr.WF) hr.q.fbd n chunks hn hne

theorem start_data (cfg : Cfg) : (start cfg).data = [] := by
  unfold start; simp only []; split <;> rfl

/-- the same for a freshly opened connection and the whole-stream judge -/
theorem recv_refines_judge_fresh (cfg : Cfg) (hf : cfg.failByDrop = true) (chunks : List Bytes)
    (hne : ∀ ch ∈ chunks, ch ≠ []) (hnil : chunks ≠ []) :
    ∃ s', Sim (feed (start cfg) chunks) s' ∧
      Agree (Ctx.ofCfg cfg) s' (judge (Ctx.ofCfg cfg) chunks.flatten).1 (judge (Ctx.ofCfg cfg) chunks.flatten).2.1
        (judge (Ctx.ofCfg cfg) chunks.flatten).2.2 :=
  recv_refines_judge (Ctx.ofCfg cfg) (start cfg) {} chunks (start_Rel cfg hf) (start_data cfg) hne hnil

/-- observable corollary: the delivered events are the judge's, whatever the segmentation, and the connection is
still OPEN exactly when the judge has no objection (verdict `ok`) and CLOSED when it fails the stream -/
theorem recv_events (cfg : Cfg) (hf : cfg.failByDrop = true) (chunks : List Bytes)
    (hne : ∀ ch ∈ chunks, ch ≠ []) (hnil : chunks ≠ []) :
    ((judge (Ctx.ofCfg cfg) chunks.flatten).2.1 = .ok →
      evsOf (feed (start cfg) chunks).log = (judge (Ctx.ofCfg cfg) chunks.flatten).1 ∧
      (feed (start cfg) chunks).st = .opened) ∧
    (∀ code, (judge (Ctx.ofCfg cfg) chunks.flatten).2.1 = .fail code →
      evsOf (feed (start cfg) chunks).log = (judge (Ctx.ofCfg cfg) chunks.flatten).1 ∧
      (feed (start cfg) chunks).st = .closed) := by
  obtain ⟨s', hsim, hag⟩ := recv_refines_judge_fresh cfg hf chunks hne hnil
  constructor
  · intro hv
    rw [hv] at hag
    exact ⟨by rw [hsim.log]; exact hag.1, by rw [hsim.st]; exact hag.2.1⟩
  · intro code hv
    rw [hv] at hag
    exact ⟨by rw [hsim.log]; exact hag.1, by rw [hsim.st]; exact hag.2.1⟩

/-- non-vacuity: a masked text frame "Hi" (key 01 02 03 04) to a default server is judged `ok` with one message -/
example : judge (Ctx.ofCfg {}) [0x81, 0x82, 1, 2, 3, 4, 0x49, 0x6b] = ([.message [0x48, 0x69] false false], .ok, 0) := by
  decide

end Abverif.Ws
