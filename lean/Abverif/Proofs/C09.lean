import Abverif.Proofs.C09Tables
import Abverif.Proofs.Lemmas.Utf8Loop
import Abverif.Proofs.Lemmas.Utf8Scalars
/-
C09 — UTF-8 validation equals RFC 3629, incrementally and in both implementations.

Property theorems. The three table theorems (`Proofs/C09Tables.lean`: tablePy_eq_rfc, tableC_eq_rfc,
unrolledC_eq_rfc) are about the tables REGENERATED from /repo on every run (`Abverif/Generated/Utf8*.lean`);
everything here is proved for all byte strings and all chunkings by induction and uses the tables only through them.
-/
namespace Abverif.Utf8

/-! ## grammar ⇔ decision procedure ⇔ automaton -/

/-- the executable `wf` decides the RFC 3629 ABNF -/
theorem wf_iff_WF (b : Bytes) : wf b = true ↔ WF b := ⟨WF_of_wf b, wf_of_WF b⟩

/-- the automaton accepts exactly the well-formed strings -/
theorem dfa_accepts_iff_WF (b : Bytes) : run rfcStep 0 b = 0 ↔ WF b := by
  rw [run_accepts 0 (by omega) b]; exact wf_iff_WF b

/-- the automaton is out of the reject state exactly while some extension is well-formed -/
theorem dfa_alive_iff_prefix (b : Bytes) : run rfcStep 0 b ≠ 1 ↔ Alive b := by
  constructor
  · intro h
    have h9 := run_lt 0 (by omega) b
    refine ⟨witness (run rfcStep 0 b), (dfa_accepts_iff_WF _).mp ?_⟩
    rw [run_append]; exact witness_ok _ h9 h
  · rintro ⟨t, ht⟩ h
    have := (dfa_accepts_iff_WF _).mpr ht
    rw [run_append, h, run_reject] at this
    exact absurd this (by decide)

/-- the executable `aliveB` (six candidate completions) decides `Alive` -/
theorem aliveB_iff_Alive (b : Bytes) : aliveB b = true ↔ Alive b := by
  constructor
  · intro h
    simp only [aliveB, List.any_eq_true] at h
    obtain ⟨t, _, ht⟩ := h
    exact ⟨t, (wf_iff_WF _).mp ht⟩
  · intro h
    have hne := (dfa_alive_iff_prefix b).mpr h
    have h9 := run_lt 0 (by omega) b
    simp only [aliveB, List.any_eq_true]
    refine ⟨witness (run rfcStep 0 b), witness_mem _ h9, (wf_iff_WF _).mpr ((dfa_accepts_iff_WF _).mp ?_)⟩
    rw [run_append]; exact witness_ok _ h9 hne

/-- prefixes of completable strings are completable -/
theorem Alive_prefix (a b : Bytes) (h : Alive (a ++ b)) : Alive a := by
  obtain ⟨t, ht⟩ := h
  exact ⟨b ++ t, by rwa [← List.append_assoc]⟩

/-- well-formed strings are closed under concatenation, and a well-formed prefix can be cancelled -/
theorem wf_append (a b : Bytes) (ha : wf a = true) : wf (a ++ b) = wf b := by
  have h0 := (run_accepts 0 (by omega) a).mpr ha
  have key : ∀ x, (wf x = true ↔ run rfcStep 0 x = 0) := fun x => (run_accepts 0 (by omega) x).symm
  have : (wf (a ++ b) = true) ↔ (wf b = true) := by rw [key, key, run_append, h0]
  cases h1 : wf (a ++ b) <;> cases h2 : wf b <;> simp_all

/-- grammar ⇔ code points: the well-formed strings are exactly the concatenated shortest-form encodings of
Unicode scalar values (≤ U+10FFFF, no surrogates) — hence no overlong forms, no surrogates, nothing above U+10FFFF -/
theorem WF_iff_scalars (b : Bytes) :
    WF b ↔ ∃ cps : List Nat, (∀ cp ∈ cps, isScalar cp = true) ∧ b = encodeAll cps := by
  constructor
  · intro h
    induction h with
    | nil => exact ⟨[], by simp, rfl⟩
    | cons c r hc _ ih =>
      obtain ⟨cps, h1, h2⟩ := ih
      obtain ⟨cp, h3, h4⟩ := UChar_encode c hc
      refine ⟨cp :: cps, ?_, ?_⟩
      · intro x hx
        rcases List.mem_cons.mp hx with rfl | hx
        · exact h3
        · exact h1 x hx
      · simp [encodeAll, h4, h2]
  · rintro ⟨cps, h1, rfl⟩
    induction cps with
    | nil => exact WF.nil
    | cons cp cps ih =>
      have : encodeAll (cp :: cps) = encode cp ++ encodeAll cps := by simp [encodeAll]
      rw [this]
      exact WF.cons _ _ (encode_UChar cp (h1 cp (by simp))) (ih (fun x hx => h1 x (by simp [hx])))

example : WF (encodeAll [0x41, 0x20AC, 0x10FFFF, 0xD7FF, 0xE000]) :=
  (WF_iff_scalars _).mpr ⟨_, by decide, rfl⟩

/-! ## the validators are the automaton -/

/-- reachable validator states -/
def St.ok (st : St) : Prop := st.state < 9

theorem validatePy_eq_rfc (st : St) (h : st.ok) (b : Bytes) : validatePy st b = validateRfc st b := by
  have hc := consts_eq_rfc
  simp only [validatePy, validateRfc, validateWith, hc.1, hc.2.1]
  rw [loop_congr pyStep tablePy_eq_rfc 1 st.state 0 h b]

/-- every NVX implementation id, from every reachable state (the reject state included): with the loop guards as
read from the C source (`loops_run_in_reject`) the C control flow is the pure-Python one -/
theorem validateNvx_eq_rfc (impl : Nat) (st : St) (h : st.ok) (b : Bytes) :
    validateNvx impl st b = validateRfc st b := by
  have hg := loops_run_in_reject
  unfold validateNvx
  split
  · simp only [validateNvxWith, hg.2, Bool.false_and, Bool.false_eq_true, ↓reduceIte, validateRfc, validateWith]
    rw [loop_congr cUnrolledStep unrolledC_eq_rfc 1 st.state 0 h b]
  · simp only [validateNvxWith, hg.1, Bool.false_and, Bool.false_eq_true, ↓reduceIte, validateRfc, validateWith]
    rw [loop_congr cTableStep tableC_eq_rfc 1 st.state 0 h b]

theorem validateRfc_ok (st : St) (h : st.ok) (b : Bytes) : (validateRfc st b).2.ok := by
  by_cases hs : st.state = 1
  · rw [validateRfc, validate_rejected rfcStep 0 1 rfcStep_reject st hs b]; split <;> exact h
  · rcases validate_cases rfcStep 0 1 st b hs with ⟨_, h2⟩ | ⟨k, _, _, _, h3⟩
    · rw [validateRfc, h2]; exact run_lt _ h _
    · rw [validateRfc, h3]; show 1 < 9; omega

theorem feed_congr (v w : St → Bytes → Res × St) (P : St → Prop)
    (hvw : ∀ st, P st → ∀ b, v st b = w st b) (hP : ∀ st, P st → ∀ b, P (w st b).2)
    (st : St) (h : P st) (cs : List Bytes) : feed v st cs = feed w st cs := by
  induction cs generalizing st with
  | nil => rfl
  | cons c cs ih =>
    simp only [feed, hvw st h c]
    rw [ih _ (hP st h c)]

theorem feed_cons (v : St → Bytes → Res × St) (st : St) (c : Bytes) (cs : List Bytes) :
    feed v st (c :: cs) = ((v st c).1 :: (feed v (v st c).2 cs).1, (feed v (v st c).2 cs).2) := rfl

theorem feedPy_eq_rfc (st : St) (h : st.ok) (cs : List Bytes) : feed validatePy st cs = feed validateRfc st cs :=
  feed_congr _ _ St.ok validatePy_eq_rfc validateRfc_ok st h cs

/-! ## one call on a fresh validator = the Spec -/

/-- valid ⇔ some extension is well-formed -/
theorem valid_iff_alive (b : Bytes) : (validatePy .init b).1.valid = true ↔ Alive b := by
  rw [validatePy_eq_rfc _ (by show 0 < 9; omega), ← dfa_alive_iff_prefix]
  rcases validate_cases rfcStep 0 1 .init b (by decide) with ⟨h1, h2⟩ | ⟨k, hk, h1, h2, h3⟩
  · rw [validateRfc, h2]; simpa [St.init] using h1
  · rw [validateRfc, h3]
    have e : b = b.take (k + 1) ++ b.drop (k + 1) := (List.take_append_drop _ _).symm
    have : run rfcStep 0 b = 1 := by
      rw [e, run_append]; show run rfcStep (run rfcStep St.init.state _) _ = 1; rw [h2, run_reject]
    simp [this]

/-- valid and ends-on-code-point ⇔ well-formed -/
theorem ends_iff_WF (b : Bytes) :
    ((validatePy .init b).1.valid = true ∧ (validatePy .init b).1.ends = true) ↔ WF b := by
  rw [validatePy_eq_rfc _ (by show 0 < 9; omega), ← dfa_accepts_iff_WF]
  rcases validate_cases rfcStep 0 1 .init b (by decide) with ⟨h1, h2⟩ | ⟨k, hk, h1, h2, h3⟩
  · rw [validateRfc, h2]; simp; rfl
  · rw [validateRfc, h3]
    have e : b = b.take (k + 1) ++ b.drop (k + 1) := (List.take_append_drop _ _).symm
    have : run rfcStep 0 b = 1 := by
      rw [e, run_append]; show run rfcStep (run rfcStep St.init.state _) _ = 1; rw [h2, run_reject]
    simp [this]

/-- a rejecting call reports the position of the first offending byte: everything before it can be completed
to well-formed UTF-8, nothing from it on can; the chunk-relative and the total index coincide on a fresh validator -/
theorem first_offender (b : Bytes) (e : Bool) (c i : Nat) (h : (validatePy .init b).1 = ⟨false, e, c, i⟩) :
    Alive (b.take i) ∧ ¬ Alive (b.take (i + 1)) ∧ i < b.length ∧ c = i ∧ e = false := by
  rw [validatePy_eq_rfc _ (by show 0 < 9; omega)] at h
  rcases validate_cases rfcStep 0 1 .init b (by decide) with ⟨h1, h2⟩ | ⟨k, hk, h1, h2, h3⟩
  · rw [validateRfc, h2] at h; simp at h
  · rw [validateRfc, h3] at h
    simp only [Res.mk.injEq, true_and] at h
    obtain ⟨he, hc, hi⟩ := h
    have hi' : k = i := by simpa [St.init] using hi
    subst hi'
    refine ⟨(dfa_alive_iff_prefix _).mp h1, ?_, hk, hc.symm, he.symm⟩
    intro ha
    exact (dfa_alive_iff_prefix _).mpr ha h2

example : (validatePy .init [0x41, 0xE2, 0x82, 0xAC, 0xC0, 0x41]).1 = ⟨false, false, 4, 4⟩ := by decide

/-! ## any chunking = one call -/

/-- conjunction of the per-call verdicts -/
def verdict (rs : List Res) : Bool := rs.all (·.valid)

theorem feed_flatten (st : St) (cs : List Bytes) :
    (feed validateRfc st cs).2 = (validateRfc st cs.flatten).2 ∧
    verdict (feed validateRfc st cs).1 = (validateRfc st cs.flatten).1.valid := by
  induction cs generalizing st with
  | nil =>
    cases st with
    | mk s i => simp [feed, validateRfc, validateWith, loop, verdict]
  | cons c cs ih =>
    have ha := validate_append rfcStep 0 1 rfcStep_reject st c cs.flatten
    obtain ⟨ih1, ih2⟩ := ih (validateRfc st c).2
    simp only [feed, List.flatten_cons]
    refine ⟨?_, ?_⟩
    · rw [ih1]; exact ha.1
    · simp only [verdict, List.all_cons] at ih2 ⊢
      rw [ih2]; exact ha.2.symm

/-- the last reported tuple carries the final state: `ends` and `total` are functions of the carried state -/
theorem res_of_state (st : St) (b : Bytes) :
    (validateRfc st b).1.total = (validateRfc st b).2.index ∧
    ((validateRfc st b).1.ends = true → (validateRfc st b).2.state = 0) ∧
    ((validateRfc st b).1.valid = true → (validateRfc st b).2.state ≠ 1 ∨ b = []) ∧
    ((validateRfc st b).2.state = 0 → (validateRfc st b).1.ends = true) := by
  by_cases hs : st.state = 1
  · rw [validateRfc, validate_rejected rfcStep 0 1 rfcStep_reject st hs b]
    cases b with
    | nil => simp [hs]
    | cons a r => simp [hs]
  · rcases validate_cases rfcStep 0 1 st b hs with ⟨h1, h2⟩ | ⟨k, _, _, _, h3⟩
    · rw [validateRfc, h2]; simp [h1]
    · rw [validateRfc, h3]; simp

/-- **chunk independence.** Feeding `b` in any split into chunks (empty chunks included) leaves the validator
in the same state (automaton state and total index) as one call on `b`, the conjunction of the per-call verdicts
is the one-call verdict, and the last call's `endsOnCodePoint` / `totalIndex` are the one-call values. -/
theorem chunk_independent (cs : List Bytes) :
    (feed validatePy .init cs).2 = (validatePy .init cs.flatten).2 ∧
    verdict (feed validatePy .init cs).1 = (validatePy .init cs.flatten).1.valid ∧
    (∀ r, (feed validatePy .init cs).1.getLast? = some r →
      r.ends = (validatePy .init cs.flatten).1.ends ∧ r.total = (validatePy .init cs.flatten).1.total) := by
  have h0 : St.init.ok := by show 0 < 9; omega
  rw [feedPy_eq_rfc _ h0, validatePy_eq_rfc _ h0]
  obtain ⟨f1, f2⟩ := feed_flatten .init cs
  refine ⟨f1, f2, ?_⟩
  -- the last call
  intro r hr
  have key : ∀ (st : St) (cs : List Bytes) (r : Res), (feed validateRfc st cs).1.getLast? = some r →
      r.total = (feed validateRfc st cs).2.index ∧ (r.ends = true ↔ (feed validateRfc st cs).2.state = 0) := by
    intro st cs
    induction cs generalizing st with
    | nil => intro r h; simp [feed] at h
    | cons c cs ih =>
      intro r h
      cases cs with
      | nil =>
        simp only [feed, List.getLast?_singleton, Option.some.injEq] at h ⊢
        subst h
        have := res_of_state st c
        exact ⟨this.1, this.2.1, this.2.2.2⟩
      | cons d ds =>
        have : (feed validateRfc st (c :: d :: ds)).1.getLast? =
            (feed validateRfc (validateRfc st c).2 (d :: ds)).1.getLast? := by
          simp [feed, List.getLast?_cons_cons]
        rw [this] at h
        have := ih (validateRfc st c).2 r h
        simpa [feed] using this
  obtain ⟨k1, k2⟩ := key .init cs r hr
  have rs := res_of_state .init cs.flatten
  rw [f1] at k1 k2
  refine ⟨?_, by rw [k1, rs.1]⟩
  cases he : r.ends <;> cases he' : (validateRfc .init cs.flatten).1.ends <;> simp_all

example : (feed validatePy .init [[0xE2], [], [0x82, 0xAC, 0xFF], [0x41]]).2 = (validatePy .init [0xE2, 0x82, 0xAC, 0xFF, 0x41]).2 ∧
    (feed validatePy .init [[0xE2], [], [0x82, 0xAC, 0xFF], [0x41]]).1 =
      [⟨true, false, 1, 1⟩, ⟨true, false, 0, 1⟩, ⟨false, false, 2, 3⟩, ⟨false, false, 0, 3⟩] := by decide

/-- in every call the reported indices satisfy `totalIndex = (total before the call) + currentIndex` -/
theorem chunk_relative_index (st : St) (h : st.ok) (b : Bytes) :
    (validatePy st b).1.total = st.index + (validatePy st b).1.cur ∧
    (validatePy st b).2.index = (validatePy st b).1.total := by
  rw [validatePy_eq_rfc _ h]
  by_cases hs : st.state = 1
  · rw [validateRfc, validate_rejected rfcStep 0 1 rfcStep_reject st hs b]; split <;> simp
  · rcases validate_cases rfcStep 0 1 st b hs with ⟨_, h2⟩ | ⟨k, _, _, _, h3⟩
    · rw [validateRfc, h2]; simp
    · rw [validateRfc, h3]; simp

/-- as long as no call has rejected, the total index is the number of bytes fed -/
theorem total_counts_bytes (cs : List Bytes) (h : verdict (feed validatePy .init cs).1 = true) :
    (feed validatePy .init cs).2.index = cs.flatten.length := by
  have h0 : St.init.ok := by show 0 < 9; omega
  obtain ⟨c1, c2, _⟩ := chunk_independent cs
  rw [c1]
  rw [c2] at h
  rw [validatePy_eq_rfc _ h0] at h ⊢
  rcases validate_cases rfcStep 0 1 .init cs.flatten (by decide) with ⟨_, h2⟩ | ⟨k, _, _, _, h3⟩
  · rw [validateRfc, h2]; simp [St.init]
  · rw [validateRfc, h3] at h; simp at h

example : verdict (feed validatePy .init [[0xE2], [0x82, 0xAC], [0xF0, 0x90]]).1 = true := by decide

/-- per-call form: a call made after the (not yet rejected) prefix `p` answers exactly what one call on `p ++ c`
answers, with the chunk-relative index shifted by `|p|` -/
theorem call_eq_whole (p c : Bytes) (hp : (validatePy .init p).1.valid = true) :
    let r := (validatePy (validatePy .init p).2 c).1
    let w := (validatePy .init (p ++ c)).1
    w = ⟨r.valid, r.ends, p.length + r.cur, r.total⟩ := by
  have h0 : St.init.ok := by show 0 < 9; omega
  have hok : (validatePy St.init p).2.ok := by rw [validatePy_eq_rfc _ h0]; exact validateRfc_ok _ h0 _
  simp only
  rw [validatePy_eq_rfc _ hok]
  have e1 : ∀ b, validatePy St.init b = validateRfc St.init b := validatePy_eq_rfc _ h0
  simp only [e1] at hp ⊢
  rcases validate_cases rfcStep 0 1 .init p (by decide) with ⟨h1, h2⟩ | ⟨k, _, _, _, h3⟩
  · simp only [validateRfc] at hp ⊢
    rw [h2]
    simp only
    have hs' : (St.mk (run rfcStep St.init.state p) (St.init.index + p.length)).state ≠ 1 := h1
    have hcat := validate_append rfcStep 0 1 rfcStep_reject .init p c
    rw [h2] at hcat
    simp only [Bool.true_and] at hcat
    rcases validate_cases rfcStep 0 1 ⟨run rfcStep St.init.state p, St.init.index + p.length⟩ c hs' with
      ⟨g1, g2⟩ | ⟨j, hj, g1, g2, g3⟩
    · rw [g2]
      rcases validate_cases rfcStep 0 1 .init (p ++ c) (by decide) with ⟨f1, f2⟩ | ⟨m, _, _, _, f3⟩
      · rw [f2]; simp [run_append, St.init]
      · rw [f3, g2] at hcat; simp at hcat
    · rw [g3]
      rcases validate_cases rfcStep 0 1 .init (p ++ c) (by decide) with ⟨f1, f2⟩ | ⟨m, _, _, _, f3⟩
      · rw [f2, g3] at hcat; simp at hcat
      · rw [f3, g3] at hcat
        rw [f3]
        have : m = p.length + j := by simpa [St.init] using hcat.1.symm
        subst this
        simp [St.init]
  · rw [validateRfc, h3] at hp; simp at hp

example : (validatePy .init [0xF0, 0x90]).1.valid = true := by decide

/-- after a rejection the pure-Python validator keeps rejecting: a later non-empty chunk is answered
`(False, False, 0, same total)`, an empty one `(True, False, 0, same total)`; the state does not change -/
theorem py_after_reject (st : St) (h : st.state = 1) (b : Bytes) :
    validatePy st b = (⟨b.isEmpty, false, 0, st.index⟩, st) := by
  have hok : st.ok := by show st.state < 9; omega
  rw [validatePy_eq_rfc _ hok, validateRfc, validate_rejected rfcStep 0 1 rfcStep_reject st h b]
  cases b <;> simp

/-! ## the model meets the grammar-level Spec on every call of every call sequence -/

theorem firstDeadFrom_eq (b : Bytes) (k : Nat) (hk : k < b.length)
    (hlt : ∀ j, j < k → aliveB (b.take (j + 1)) = true) (hk2 : aliveB (b.take (k + 1)) = false) :
    ∀ fuel i, i ≤ k → i + fuel = b.length → firstDeadFrom b i fuel = k := by
  intro fuel
  induction fuel with
  | zero => intro i hi he; omega
  | succ f ih =>
    intro i hi he
    simp only [firstDeadFrom]
    by_cases hik : i < k
    · rw [if_pos (hlt i hik)]; exact ih (i + 1) (by omega) (by omega)
    · have : i = k := by omega
      subst this
      simp [hk2]

/-- what `run`-level facts say about `aliveB` on prefixes -/
theorem aliveB_take_of_run (b : Bytes) (k : Nat) (h : run rfcStep 0 (b.take k) ≠ 1) (j : Nat) (hj : j ≤ k) :
    aliveB (b.take j) = true := by
  rw [aliveB_iff_Alive]
  have hk := (dfa_alive_iff_prefix _).mp h
  have e : b.take k = b.take j ++ (b.take k).drop j := by
    conv => lhs; rw [← List.take_append_drop j (b.take k)]
    rw [List.take_take, Nat.min_eq_left hj]
  rw [e] at hk
  exact Alive_prefix _ _ hk

theorem not_aliveB_of_run (b : Bytes) (h : run rfcStep 0 b = 1) : aliveB b = false := by
  cases hb : aliveB b with
  | false => rfl
  | true => exact absurd h ((dfa_alive_iff_prefix b).mpr ((aliveB_iff_Alive b).mp hb))

theorem run_of_take_reject (b : Bytes) (k : Nat) (h : run rfcStep 0 (b.take k) = 1) : run rfcStep 0 b = 1 := by
  rw [← List.take_append_drop k b, run_append, h, run_reject]

/-- one call on a fresh validator: the answer is the grammar-level Spec, the carried state is the automaton state
and the number of bytes accepted -/
theorem validate_init_full (b : Bytes) :
    validatePy .init b = (specOne b, if aliveB b then ⟨run rfcStep 0 b, b.length⟩ else ⟨1, firstDead b⟩) := by
  rw [validatePy_eq_rfc _ (by show 0 < 9; omega)]
  rcases validate_cases rfcStep 0 1 .init b (by decide) with ⟨h1, h2⟩ | ⟨k, hk, h1, h2, h3⟩
  · have ha : aliveB b = true := (aliveB_iff_Alive b).mpr ((dfa_alive_iff_prefix b).mp h1)
    rw [validateRfc, h2, specOne, if_pos ha, if_pos ha]
    have : (run rfcStep 0 b == 0) = wf b := by
      have := run_accepts 0 (by omega) b
      simp only [lang] at this
      cases hw : wf b <;> simp_all
    simp [this, St.init]
  · have hd : aliveB b = false := not_aliveB_of_run b (run_of_take_reject b (k + 1) h2)
    have hf : firstDead b = k :=
      firstDeadFrom_eq b k hk (fun j hj => aliveB_take_of_run b k h1 (j + 1) (by omega))
        (not_aliveB_of_run _ h2) b.length 0 (by omega) (by omega)
    rw [validateRfc, h3, specOne, hd]
    simp [hf, St.init]

/-- one call on a fresh validator answers exactly what the grammar-level Spec prescribes -/
theorem validate_eq_specOne (b : Bytes) : (validatePy .init b).1 = specOne b := by
  rw [validate_init_full]

/-- the Spec's offender position is the (unique) first offending byte -/
theorem specOne_offender (b : Bytes) (h : aliveB b = false) : offenderAt b (firstDead b) = true := by
  have hs := validate_eq_specOne b
  simp only [specOne, h, Bool.false_eq_true, ↓reduceIte] at hs
  obtain ⟨h1, h2, h3, _, _⟩ := first_offender b false (firstDead b) (firstDead b) hs
  have a1 := (aliveB_iff_Alive _).mpr h1
  have a2 : aliveB (b.take (firstDead b + 1)) = false := by
    cases hb : aliveB (b.take (firstDead b + 1)) with
    | false => rfl
    | true => exact absurd ((aliveB_iff_Alive _).mp hb) h2
  simp [offenderAt, h3, a1, a2]

theorem aliveB_prefix (a b : Bytes) (h : aliveB (a ++ b) = true) : aliveB a = true :=
  (aliveB_iff_Alive a).mpr (Alive_prefix a b ((aliveB_iff_Alive _).mp h))

/-- every answer of the pure-Python validator conforms to the Spec judge, whatever was fed before -/
theorem call_conforms (pre c : Bytes) :
    judgeCall pre c (validatePy (validatePy .init pre).2 c).1 = .ok := by
  by_cases hnow : aliveB (pre ++ c) = true
  · have hpre := aliveB_prefix pre c hnow
    have hv : (validatePy .init pre).1.valid = true := by rw [validate_eq_specOne, specOne, if_pos hpre]
    have hw := call_eq_whole pre c hv
    simp only [validate_eq_specOne, specOne, if_pos hnow, Res.mk.injEq] at hw
    obtain ⟨w1, w2, w3, w4⟩ := hw
    have hcur : (validatePy (validatePy St.init pre).2 c).1.cur = c.length := by
      simp only [List.length_append] at w3; omega
    simp [judgeCall, hnow, ← w1, ← w2, ← w4, hcur]
  · have hnow' : aliveB (pre ++ c) = false := by simpa using hnow
    by_cases hpre : aliveB pre = true
    · have hv : (validatePy .init pre).1.valid = true := by rw [validate_eq_specOne, specOne, if_pos hpre]
      have hw := call_eq_whole pre c hv
      simp only [validate_eq_specOne, specOne, hnow', Bool.false_eq_true, ↓reduceIte, Res.mk.injEq] at hw
      obtain ⟨w1, w2, w3, w4⟩ := hw
      have ho := specOne_offender (pre ++ c) hnow'
      simp [judgeCall, hnow', hpre, ← w1, ← w2, ← w4, ho, ← w3]
    · have hpre' : aliveB pre = false := by simpa using hpre
      have hst : (validatePy .init pre).2 = ⟨1, firstDead pre⟩ := by
        rw [validate_init_full]; simp [hpre']
      rw [hst, py_after_reject _ rfl]
      have ho := specOne_offender pre hpre'
      cases c <;> simp [judgeCall, hnow', hpre', ho]

/-- **Model meets Spec on every call sequence**: the per-call answers of the pure-Python validator, for any
chunk list (empty chunks and calls after a reject included), pass the grammar-level conformance judge -/
theorem py_conforms (cs : List Bytes) : judge [] 0 cs (feed validatePy .init cs).1 = none := by
  have h0 : St.init.ok := by show 0 < 9; omega
  have gen : ∀ (cs : List Bytes) (pre : Bytes) (k : Nat),
      judge pre k cs (feed validatePy (validatePy .init pre).2 cs).1 = none := by
    intro cs
    induction cs with
    | nil => intro pre k; rfl
    | cons c cs ih =>
      intro pre k
      rw [feed_cons]
      simp only [judge, call_conforms pre c]
      have hnext : (validatePy (validatePy St.init pre).2 c).2 = (validatePy St.init (pre ++ c)).2 := by
        have hok : (validatePy St.init pre).2.ok := by rw [validatePy_eq_rfc _ h0]; exact validateRfc_ok _ h0 _
        rw [validatePy_eq_rfc _ hok, validatePy_eq_rfc _ h0, validatePy_eq_rfc _ h0]
        exact (validate_append rfcStep 0 1 rfcStep_reject .init pre c).1
      rw [hnext]
      exact ih (pre ++ c) (k + 1)
  have := gen cs [] 0
  have e : (validatePy St.init []).2 = St.init := by decide
  rwa [e] at this

/-- the judge is not vacuous: it rejects the pre-repair NVX answers on the F1 sequence (and accepts the Python ones) -/
example : judge [] 0 [[0xFF], [0x41]] (feed (validateNvxLegacy 1) .init [[0xFF], [0x41]]).1 = some (1, .forgetsRejectOnNextCall) := by
  decide


/-! ## NVX = pure Python -/

/-- **NVX = pure Python, full strength**: every implementation id of the NVX validator and the pure-Python validator
answer every call sequence alike — all four tuple elements of every call, empty chunks and calls after a reject
included — and are left in the same state. Rests on `tableC_eq_rfc`, `unrolledC_eq_rfc`, `tablePy_eq_rfc`,
`consts_eq_rfc` and `loops_run_in_reject`, i.e. on the tables, the macro and the loop conditions as read from
/repo on this run. -/
theorem nvx_eq_py (impl : Nat) (cs : List Bytes) :
    feed (validateNvx impl) .init cs = feed validatePy .init cs := by
  have h0 : St.init.ok := by show 0 < 9; omega
  rw [feedPy_eq_rfc _ h0]
  exact feed_congr _ _ St.ok (validateNvx_eq_rfc impl) validateRfc_ok .init h0 cs

/-- hence the NVX validator too passes the grammar-level conformance judge on every call sequence -/
theorem nvx_conforms (impl : Nat) (cs : List Bytes) : judge [] 0 cs (feed (validateNvx impl) .init cs).1 = none := by
  rw [nvx_eq_py]; exact py_conforms cs

example : (feed (validateNvx 1) .init [[0xFF], [0x41], []]).1 =
    [⟨false, false, 0, 0⟩, ⟨false, false, 0, 0⟩, ⟨true, false, 0, 0⟩] := by decide

/-! ### historical: finding F1 (repaired in /repo c2c187d5)

Before the repair both C loops were guarded by `&& state != 1`; `validateNvxLegacy` is that behaviour. It is NOT the
model of today's code; it is kept so that the difference stays documented and machine-checked. -/

/-- F1: after `validate(b"\xff")` the pre-repair NVX validator answered `validate(b"A")` with `(True, False, 1, 1)`
where the pure-Python one answers `(False, False, 0, 0)`. -/
example : (feed (validateNvxLegacy 1) .init [[0xFF], [0x41]]).1 = [⟨false, false, 0, 0⟩, ⟨true, false, 1, 1⟩] ∧
    (feed validatePy .init [[0xFF], [0x41]]).1 = [⟨false, false, 0, 0⟩, ⟨false, false, 0, 0⟩] := by decide

/-- the pre-repair behaviour does not satisfy the full-strength statement -/
theorem not_NvxLegacyEqPy :
    ¬ (∀ (impl : Nat) (cs : List Bytes), feed (validateNvxLegacy impl) .init cs = feed validatePy .init cs) := by
  intro h
  have := h 1 [[0xFF], [0x41]]
  revert this
  decide

end Abverif.Utf8
