import Abverif.Proofs.Lemmas.WsGhost
import Abverif.Proofs.WsCloseLast
import Abverif.Proofs.WsCleanClose
/-
# C05: the two history variables of the close theorems agree

`close_ghosts_agree`: in every reachable state `closeSent` (the subject of `one_close_frame`, `clean_close_needs_both`)
has exactly one entry per close frame recorded in `sentOps` (the subject of `no_data_frame_after_close`, which every C05
run compares with the opcodes of the frames the real objects wrote).  So "our close frame was sent" in the first
vocabulary is "an 8 is in the frame history" in the second.
-/
namespace Abverif.Ws

/-- a data-API call: frames 0/1/2 only (`DataRel`), the close record untouched (`Keep`) -/
theorem G.of_data {a b : S} (g : G a) (ho : OpOk a) (hd : DataRel a b) (hk : Keep a b) : G b := by
  obtain ⟨_, _, d, e, _, h8⟩ := hd
  unfold G at *
  rw [hk.2.1, e, List.count_append, g]
  have : d.count 8 = 0 := List.count_eq_zero.mpr (h8 ho)
  omega

def QG (s : S) : Prop := Q s ∧ G s

theorem stepCore_QG (s : S) (op : Op) (h : QG s) : QG (stepCore s op) := by
  obtain ⟨hq, g⟩ := h
  refine ⟨stepCore_Q s op hq, ?_⟩
  cases op with
  | feed d => exact dataReceived_GP s d g
  | lost => exact connectionLost_GP s g
  | advance dt => exact advance_GP s dt g
  | sendMessage pl b f sy =>
    exact g.of_data hq.op (sendMessage_DataRel s pl b f sy) (Keep.of_SendEq (sendMessage_SendEq s pl b f sy))
  | sendPrepared pl b => exact g.of_data hq.op (sendPrepared_DataRel s pl b) (sendPrepared_Keep s pl b)
  | beginMessage b => exact g.of_data hq.op (beginMessage_DataRel s b) (beginMessage_Keep s b)
  | beginFrame n => exact g.of_data hq.op (beginMessageFrame_DataRel s n) (beginMessageFrame_Keep s n)
  | frameData pl sy => exact g.of_data hq.op (sendMessageFrameData_DataRel s pl sy) (sendMessageFrameData_Keep s pl sy)
  | endMessage => exact g.of_data hq.op (endMessage_DataRel s) (endMessage_Keep s)
  | messageFrame pl sy => exact g.of_data hq.op (sendMessageFrame_DataRel s pl sy) (sendMessageFrame_Keep s pl sy)
  | ping pl => exact sendPing_GP s pl g
  | pong pl => exact sendPong_GP s pl g
  | close c r => exact sendClose_GP s c r g
  | hsDone => exact handshakeDone_GP s g
  | hsThenFeed d => exact dataReceived_GP _ d (handshakeDone_GP s g)

theorem step_QG (s : S) (op : Op) (h : QG s) : QG (step s op) := by
  have h1 := stepCore_QG s op h
  exact ⟨h1.1.of_OpsRel (pump_Ops _), pump_GP _ h1.2⟩

theorem run_QG (ops : List Op) : ∀ s : S, QG s → QG (run s ops) := by
  induction ops with
  | nil => intro s h; exact h
  | cons op rest ih => intro s h; exact ih _ (step_QG s op h)

theorem start_G (cfg : Cfg) : G (start cfg) := by
  unfold start G; dsimp only; split <;> simp [armPingNext, S.timer]

theorem startConnecting_G (cfg : Cfg) : G (startConnecting cfg) := by
  unfold startConnecting G; dsimp only; split <;> simp [S.timer]

/-- **C05: the close record and the frame history agree** — every configuration, every history -/
theorem close_ghosts_agree (cfg : Cfg) (ops : List Op) :
    (run (start cfg) ops).closeSent.length = (run (start cfg) ops).sentOps.count 8 :=
  (run_QG ops _ ⟨start_Q cfg, start_G cfg⟩).2

theorem close_ghosts_agree_connecting (cfg : Cfg) (ops : List Op) :
    (run (startConnecting cfg) ops).closeSent.length = (run (startConnecting cfg) ops).sentOps.count 8 :=
  (run_QG ops _ ⟨startConnecting_Q cfg, startConnecting_G cfg⟩).2

/-- corollary in the frame vocabulary: a clean report means a close frame is in the frame history -/
theorem clean_close_has_close_frame (cfg : Cfg) (ops : List Op) (c : Option Nat) (r : Option Bytes) (w : Option NCR)
    (h : Out.onClose true c r w ∈ (run (start cfg) ops).log) : 8 ∈ (run (start cfg) ops).sentOps := by
  have h1 := clean_close_needs_both cfg ops c r w h
  have h2 := close_ghosts_agree cfg ops
  have : 0 < (run (start cfg) ops).closeSent.length := List.length_pos_iff.mpr h1
  rw [h2] at this
  exact List.count_pos_iff.mp this

end Abverif.Ws
