import Abverif.Model.Pmce
import Abverif.Proofs.Lemmas.PmceData
import Abverif.Proofs.Lemmas.PmceRtSmall
import Abverif.Proofs.Lemmas.PmceRtOffer0
import Abverif.Proofs.Lemmas.PmceRtResp0
import Abverif.Proofs.Lemmas.PmceRtOffer1
import Abverif.Proofs.Lemmas.PmceRtResp1
import Abverif.Proofs.Lemmas.PmceRtOffer2
import Abverif.Proofs.Lemmas.PmceRtResp2
import Abverif.Proofs.Lemmas.PmceRtOffer3
import Abverif.Proofs.Lemmas.PmceRtResp3
/-
C12 — per-message compression is lossless and negotiated soundly: property theorems.

Negotiation: the lattice is finite; round trips are checked by the kernel on the COMPLETE lattice
(`Offer.all`, `winVals`, … built from the generated tables, with membership lemmas showing that every
guard-passing object is in the enumeration); the compatibility statements are proved for all naturals
under the constructor guards. Data path: relative to the codec contract `Codec.Lawful` (H1/H2, hypotheses —
see Proofs/Lemmas/PmceData.lean, which also gives a concrete lawful instance).
-/
namespace Abverif.Pmce
open Abverif.DeflateConsts

/-! ### the generated tables are what the property names -/

theorem winOk_iff (n : Nat) : winOk n = true ↔ n ∈ windowSizePermissible := by
  simp [winOk]

/-- "every window size 9–15", "out-of-range parameters": the permissible set is exactly 9..15 -/
theorem window_range (n : Nat) : winOk n = true ↔ 9 ≤ n ∧ n ≤ 15 := by
  rw [winOk_iff]; simp [windowSizePermissible]; omega

/-- the default (parameter absent, `0 ↦ 15`) is the largest window: an end that knows nothing more can
inflate whatever a guard-passing peer deflates -/
theorem default_window_is_max (n : Nat) (h : winOk n = true) : n ≤ defaultWindowBits := by
  have := (window_range n).1 h
  simp [defaultWindowBits]; omega

/-- `int(True) == 1` is not a window size, so a valueless `*_max_window_bits` is rejected where an integer
is required -/
theorem one_not_permissible : intInV windowSizePermissible none = none := by decide

/-! ### completeness of the enumerations -/

theorem mem_bools (b : Bool) : b ∈ bools := by cases b <;> simp [bools]

theorem mem_winVals {w : Nat} (h : (w == 0 || winOk w) = true) : w ∈ winVals := by
  simp only [Bool.or_eq_true, beq_iff_eq] at h
  rcases h with h | h
  · simp [winVals, h]
  · simp [winVals, (winOk_iff w).1 h]

/-- every offer that passes the constructor guard is in the enumeration the kernel walks -/
theorem Offer.mem_all (o : Offer) (h : o.guard = true) : o ∈ Offer.all := by
  obtain ⟨a, b, c, w⟩ := o
  simp only [Offer.all, List.mem_flatMap, List.mem_map]
  exact ⟨a, mem_bools a, b, mem_bools b, c, mem_bools c, w, mem_winVals h, rfl⟩

/-! ### round trips over the whole lattice -/

theorem Offer.mem_slice (o : Offer) (h : o.guard = true) : o ∈ Offer.slice o.acceptNct o.acceptMwb := by
  obtain ⟨a, b, c, w⟩ := o
  simp only [Offer.slice, List.mem_flatMap, List.mem_map]
  exact ⟨c, mem_bools c, w, mem_winVals h, rfl⟩

theorem parse_render_offer_all : ∀ o ∈ Offer.all, o.reparse = some o.normalize := by
  intro o ho
  have hg : o.guard = true := by
    simp only [Offer.all, List.mem_flatMap, List.mem_map] at ho
    obtain ⟨a, _, b, _, c, _, w, hw, rfl⟩ := ho
    simp only [winVals, List.mem_cons] at hw
    rcases hw with rfl | hw
    · rfl
    · simp [Offer.guard, winOk, hw]
  have hm := o.mem_slice hg
  obtain ⟨a, b, c, w⟩ := o
  cases a <;> cases b
  · exact parse_render_offer_slice0 _ hm
  · exact parse_render_offer_slice1 _ hm
  · exact parse_render_offer_slice2 _ hm
  · exact parse_render_offer_slice3 _ hm

/-- **round trip, offers (whole lattice).** The three transmitted fields survive render → header parser →
`Offer.parse` exactly; the fourth comes back as the parser's default. -/
theorem parse_render_offer (o : Offer) (h : o.guard = true) : o.reparse = some o.normalize :=
  parse_render_offer_all o (o.mem_all h)

/-- literal round trip `parse (render o) = o`: holds for the offers that accept no-context-takeover … -/
theorem parse_render_offer_partial (o : Offer) (h : o.guard = true) (hn : o.acceptNct = true) :
    o.reparse = some o := by
  rw [parse_render_offer o h]; cases o; simp_all [Offer.normalize]

/-- … and fails for the others (the flag has no wire representation when false; RFC 7692 §7.1.1.2 lets a
server send `client_no_context_takeover` regardless, so this is not a defect). -/
theorem parse_render_offer_literal_fails :
    ∃ o : Offer, o.guard = true ∧ o.reparse ≠ some o :=
  ⟨⟨false, false, false, 0⟩, by decide +kernel⟩

theorem parse_render_response_all :
    ∀ sn ∈ bools, ∀ sw ∈ winVals, ∀ cn ∈ bools, ∀ cw ∈ winVals,
      (OfferAccept.reparse ⟨⟨true, true, sn, sw⟩, cn, cw, none, none, none⟩)
        = some ⟨cw, cn, sw, sn⟩ := by
  intro sn _ sw hsw cn _ cw hcw
  cases sn <;> cases cn
  · exact parse_render_response_slice0 sw hsw cw hcw
  · exact parse_render_response_slice1 sw hsw cw hcw
  · exact parse_render_response_slice2 sw hsw cw hcw
  · exact parse_render_response_slice3 sw hsw cw hcw

theorem OfferAccept.render_congr (a : OfferAccept) :
    a.render = (OfferAccept.render ⟨⟨true, true, a.offer.reqNct, a.offer.reqMwb⟩, a.reqNct, a.reqMwb, none, none, none⟩) := rfl

/-- **round trip, responses (whole lattice).** For every guard-passing accept of every guard-passing offer the
client's parser recovers exactly the four parameters the server rendered. -/
theorem parse_render_response (a : OfferAccept) (ho : a.offer.guard = true) (ha : a.guard = true) :
    a.reparse = some a.response := by
  have hw : a.reqMwb ∈ winVals := by
    apply mem_winVals
    simp only [OfferAccept.guard, Bool.and_eq_true] at ha
    exact ha.1.1.1.1.2
  have := parse_render_response_all a.offer.reqNct (mem_bools _) a.offer.reqMwb (mem_winVals ho)
    a.reqNct (mem_bools _) a.reqMwb hw
  unfold OfferAccept.reparse at this ⊢
  rw [OfferAccept.render_congr]
  exact this

/-! ### the negotiation pipeline in closed form -/

/-- `negotiate` succeeds exactly when the three guards pass, and then both ends are the closed forms below -/
theorem negotiate_eq (o : Offer) (x : AcceptArgs) (y : RAcceptArgs) :
    negotiate o x y =
      if o.guard = true ∧ (x.on o.normalize).guard = true ∧ (y.on (x.on o.normalize).response).guard = true then
        some ⟨o.render, (x.on o.normalize).render, Pmce.fromOfferAccept true (x.on o.normalize),
              Pmce.fromResponseAccept false (y.on (x.on o.normalize).response)⟩
      else none := by
  unfold negotiate
  by_cases ho : o.guard = true
  · have h1 := parse_render_offer o ho
    unfold Offer.reparse at h1
    have hn : o.normalize.guard = true := by simpa [Offer.normalize, Offer.guard] using ho
    by_cases ha : (x.on o.normalize).guard = true
    · have h2 := parse_render_response (x.on o.normalize) (by simpa [AcceptArgs.on] using hn) ha
      unfold OfferAccept.reparse at h2
      cases hfd : findDeflate (parseExtensionsHeader o.render) with
      | none => simp [hfd] at h1
      | some ps =>
        rw [hfd] at h1
        simp only [Option.bind_some] at h1
        cases hfd2 : findDeflate (parseExtensionsHeader (x.on o.normalize).render) with
        | none => simp [hfd2] at h2
        | some rps =>
          rw [hfd2] at h2
          simp only [Option.bind_some] at h2
          by_cases hy : (y.on (x.on o.normalize).response).guard = true
          · simp [ho, ha, hy, hfd, h1, hfd2, h2]
          · simp [ho, ha, hy, hfd, h1, hfd2, h2]
    · cases hfd : findDeflate (parseExtensionsHeader o.render) with
      | none => simp [hfd] at h1
      | some ps =>
        rw [hfd] at h1
        simp only [Option.bind_some] at h1
        simp [ho, ha, hfd, h1]
  · simp [ho]

/-! ### soundness of the negotiation -/

/-- **the server's answer contains only parameters compatible with the client's offer** — for every offer,
every accept the constructor lets through; the response is the one the client parses from the rendered header
(`parse_render_response`). -/
theorem response_subset_of_offer (o : Offer) (x : AcceptArgs) (_ho : o.guard = true)
    (ha : (x.on o.normalize).guard = true) :
    (x.on o.normalize).reparse = some (x.on o.normalize).response
    ∧ permittedBy o (x.on o.normalize).response := by
  refine ⟨parse_render_response _ (by simpa [AcceptArgs.on, Offer.normalize, Offer.guard] using _ho) ha, ?_⟩
  obtain ⟨a, b, c, w⟩ := o
  obtain ⟨rn, rw, n, ww, m⟩ := x
  simp only [OfferAccept.guard, AcceptArgs.on, Offer.normalize, Bool.and_eq_true, Bool.or_eq_true,
    Bool.not_eq_true', beq_iff_eq] at ha
  have h2 := ha.1.1.1.1.2
  have h3 := ha.1.1.1.2
  unfold permittedBy
  refine ⟨Iff.rfl, fun _ => Nat.le_refl _, fun h => h, fun h => ?_⟩
  simp only [OfferAccept.response, AcceptArgs.on, Offer.normalize] at h ⊢
  simp_all

theorem compat_core (a : OfferAccept) (y : RAcceptArgs) (ha : a.guard = true)
    (hy : (y.on a.response).guard = true) (ho : a.offer.guard = true) :
    dirCompatible (Pmce.fromOfferAccept true a) (Pmce.fromResponseAccept false (y.on a.response))
    ∧ dirCompatible (Pmce.fromResponseAccept false (y.on a.response)) (Pmce.fromOfferAccept true a) := by
  obtain ⟨⟨oa, ob, oc, ow⟩, rn, rw, n, w, m⟩ := a
  obtain ⟨yn, yw, ym⟩ := y
  have R := window_range
  have D : defaultWindowBits = 15 := rfl
  cases n <;> cases w <;> cases yn <;> cases yw <;>
    simp only [OfferAccept.guard, ResponseAccept.guard, RAcceptArgs.on, OfferAccept.response, Offer.guard,
      dirCompatible, Pmce.fromOfferAccept, Pmce.fromResponseAccept, Pmce.init, Pmce.encWbits, Pmce.decWbits,
      Pmce.encNct, Pmce.decNct, Option.getD] at ha hy ho ⊢ <;>
    simp_all <;> grind

/-- **both ends run each direction compatibly** — for EVERY offer, accept and response-accept that pass the
guards (all lattice points, any mem level): in the server→client direction the client's inflater window is at
least the server's deflater window and the client forgets context only if the server does; likewise
client→server. This is what losslessness needs (`lossless` takes exactly `dirCompatible`). -/
theorem negotiation_compatible (o : Offer) (x : AcceptArgs) (y : RAcceptArgs) (r : Negotiated)
    (h : negotiate o x y = some r) :
    dirCompatible r.server r.client ∧ dirCompatible r.client r.server := by
  rw [negotiate_eq] at h
  split at h
  · rename_i hg
    cases h
    exact compat_core _ y hg.2.1 hg.2.2 (by simpa [AcceptArgs.on, Offer.normalize, Offer.guard] using hg.1)
  · cases h

/-- the hypotheses of `negotiation_compatible` are satisfiable by non-trivial lattice points: the U3 input (server
override), a client override, and a fully parameterised negotiation all pass the guards -/
example : (negotiate ⟨true, true, false, 0⟩ ⟨false, 0, some true, some 10, none⟩ ⟨none, none, none⟩).isSome = true
    ∧ (negotiate ⟨true, true, false, 0⟩ ⟨false, 12, none, none, none⟩ ⟨some true, some 9, some 1⟩).isSome = true
    ∧ (negotiate ⟨false, true, true, 11⟩ ⟨true, 10, some true, some 9, some 9⟩ ⟨some true, some 10, none⟩).isSome = true
    ∧ (negotiate ⟨true, false, true, 11⟩ ⟨false, 0, some false, none, none⟩ ⟨none, none, none⟩).isSome = false := by
  decide +kernel

/-- **same parameters on both ends when no override is given** (`window_bits`/`no_context_takeover` left `None`
on both sides) -/
theorem negotiation_equal_of_no_override (o : Offer) (x : AcceptArgs) (y : RAcceptArgs) (r : Negotiated)
    (h : negotiate o x y = some r)
    (hx : x.nct = none ∧ x.wbits = none) (hy : y.nct = none ∧ y.wbits = none) :
    r.server.params = r.client.params := by
  rw [negotiate_eq] at h
  split at h
  · cases h
    obtain ⟨rn, rw, n, w, m⟩ := x
    obtain ⟨yn, yw, ym⟩ := y
    simp only at hx hy
    obtain ⟨rfl, rfl⟩ := hx
    obtain ⟨rfl, rfl⟩ := hy
    simp only [Pmce.params, Pmce.fromOfferAccept, Pmce.fromResponseAccept, Pmce.init, AcceptArgs.on, RAcceptArgs.on,
      OfferAccept.response, Offer.normalize, Option.getD]
    rfl
  · cases h

/-- the property's literal wording "both ends run each direction with the same effective window size and
context-takeover mode", provable part (U3) -/
theorem negotiation_same_parameters_partial (o : Offer) (x : AcceptArgs) (y : RAcceptArgs) (r : Negotiated)
    (h : negotiate o x y = some r)
    (hx : x.nct = none ∧ x.wbits = none) (hy : y.nct = none ∧ y.wbits = none) :
    r.server.params = r.client.params :=
  negotiation_equal_of_no_override o x y r h hx hy

/-- … and its failure with an override (U3): `OfferAccept(offer, window_bits=10, no_context_takeover=True)` on the
default offer — the server deflates with (no-context-takeover, 2^10), the client inflates with (takeover, 2^15).
Compatible (`negotiation_compatible`), lossless, but not "the same": the server's own override is not written
into its response. -/
theorem negotiation_same_parameters_fails_with_override :
    (negotiate ⟨true, true, false, 0⟩ ⟨false, 0, some true, some 10, none⟩ ⟨none, none, none⟩).map
        (fun r => (r.server.params, r.client.params))
      = some ((true, false, 10, 15), (false, false, 15, 15)) := by
  decide +kernel

/-! ### the client fails the handshake on a bad response -/

/-- names registered in `PERMESSAGE_COMPRESSION_EXTENSION` -/
def knownExt (n : List Char) : Bool :=
  n == extensionName || n == bzip2ExtensionName || n == brotliExtensionName

theorem names_distinct : bzip2ExtensionName ≠ extensionName ∧ brotliExtensionName ≠ extensionName
    ∧ brotliExtensionName ≠ bzip2ExtensionName := by decide +kernel

theorem acceptResponse_none_iff (pol : ClientPolicy) (n : List Char) (ps : Params) :
    acceptResponse pol n ps = none ↔ knownExt n = false := by
  obtain ⟨d1, d2, d3⟩ := names_distinct
  unfold acceptResponse knownExt
  by_cases h1 : n = extensionName
  · simp [h1]
  · by_cases h2 : n = bzip2ExtensionName
    · subst h2; simp [d1]
    · by_cases h3 : n = brotliExtensionName
      · subst h3; simp [d2, d3]
      · simp [h1, h2, h3]

theorem clientLoop_some_cur (pol : ClientPolicy) (exts : List (List Char × Params)) (c : AnyPmce)
    (r : Option AnyPmce) (h : clientLoop pol exts (some c) = some r) : exts = [] := by
  cases exts with
  | nil => rfl
  | cons e rest =>
    obtain ⟨n, ps⟩ := e
    simp only [clientLoop] at h
    split at h <;> simp at h

/-- the loop succeeds only on the empty list or on exactly one compression extension that parses and that the
policy accepts -/
theorem clientLoop_ok (pol : ClientPolicy) (exts : List (List Char × Params)) (r : Option AnyPmce)
    (h : clientLoop pol exts none = some r) :
    (exts = [] ∧ r = none) ∨
    (∃ n ps p, exts = [(n, ps)] ∧ acceptResponse pol n ps = some (some p) ∧ r = some p) := by
  cases exts with
  | nil => left; simpa [clientLoop] using h.symm
  | cons e rest =>
    right
    obtain ⟨n, ps⟩ := e
    simp only [clientLoop] at h
    split at h
    · simp at h
    · rename_i r0 hr0
      cases r0 with
      | none => simp at h
      | some p =>
        simp only at h
        have := clientLoop_some_cur pol rest p r h
        subst this
        simp only [clientLoop, Option.some.injEq] at h
        exact ⟨n, ps, p, rfl, hr0, h.symm⟩

/-- **client fails the handshake: response names an extension unknown to it** -/
theorem client_rejects_unknown_extension (pol : ClientPolicy) (hdr : List Char)
    (h : ∃ e ∈ parseExtensionsHeader hdr, knownExt e.1 = false) :
    clientHandshake pol hdr = .fail := by
  unfold clientHandshake
  cases hl : clientLoop pol (parseExtensionsHeader hdr) none with
  | none => rfl
  | some r =>
    exfalso
    obtain ⟨e, he, hk⟩ := h
    rcases clientLoop_ok pol _ r hl with ⟨h0, _⟩ | ⟨n, ps, p, h1, h2, _⟩
    · simp [h0] at he
    · rw [h1] at he
      simp only [List.mem_singleton] at he
      subst he
      have := (acceptResponse_none_iff pol n ps).2 hk
      simp [this] at h2

/-- **client fails the handshake: a compression extension is repeated** (any two of them, also of different kinds) -/
theorem client_rejects_repeated_pmce (pol : ClientPolicy) (hdr : List Char)
    (h : 2 ≤ ((parseExtensionsHeader hdr).filter (fun e => knownExt e.1)).length) :
    clientHandshake pol hdr = .fail := by
  unfold clientHandshake
  cases hl : clientLoop pol (parseExtensionsHeader hdr) none with
  | none => rfl
  | some r =>
    exfalso
    rcases clientLoop_ok pol _ r hl with ⟨h0, _⟩ | ⟨n, ps, p, h1, _, _⟩
    · simp [h0] at h
    · rw [h1] at h
      simp only [List.filter] at h
      split at h <;> simp at h

/-- **client fails the handshake: the accept policy returns `None`** (here: for permessage-deflate; the default
policy `lambda _: None` declines everything) -/
theorem client_rejects_declined (pol : ClientPolicy) (hdr : List Char) (hp : pol.deflate = none)
    (h : ∃ e ∈ parseExtensionsHeader hdr, e.1 = extensionName) :
    clientHandshake pol hdr = .fail := by
  unfold clientHandshake
  cases hl : clientLoop pol (parseExtensionsHeader hdr) none with
  | none => rfl
  | some r =>
    exfalso
    obtain ⟨e, he, hk⟩ := h
    rcases clientLoop_ok pol _ r hl with ⟨h0, _⟩ | ⟨n, ps, p, h1, h2, _⟩
    · simp [h0] at he
    · rw [h1] at he
      simp only [List.mem_singleton] at he
      subst he
      simp only at hk
      subst hk
      simp [acceptResponse, hp] at h2

/-- **client fails the handshake: the deflate response does not parse** -/
theorem client_rejects_unparsable (pol : ClientPolicy) (hdr : List Char)
    (h : ∃ e ∈ parseExtensionsHeader hdr, e.1 = extensionName ∧ Response.parse e.2 = none) :
    clientHandshake pol hdr = .fail := by
  unfold clientHandshake
  cases hl : clientLoop pol (parseExtensionsHeader hdr) none with
  | none => rfl
  | some r =>
    exfalso
    obtain ⟨e, he, hk, hpz⟩ := h
    rcases clientLoop_ok pol _ r hl with ⟨h0, _⟩ | ⟨n, ps, p, h1, h2, _⟩
    · simp [h0] at he
    · rw [h1] at he
      simp only [List.mem_singleton] at he
      subst he
      simp only at hk hpz
      subst hk
      simp [acceptResponse, hpz] at h2

/-- is this (key, values) entry acceptable to `PerMessageDeflateResponse.parse`? -/
def Response.entryOk (kvs : List Char × List Val) : Bool :=
  match kvs.2 with
  | [v] =>
    if kvs.1 = sClientMwb ∨ kvs.1 = sServerMwb then (intInV windowSizePermissible v).isSome
    else if kvs.1 = sClientNct ∨ kvs.1 = sServerNct then v.isNone
    else false
  | _ => false

theorem Response.parseStep_none (kvs) : Response.parseStep none kvs = none := rfl

theorem Response.foldl_none (ps : Params) : ps.foldl Response.parseStep none = none := by
  induction ps with
  | nil => rfl
  | cons p ps ih => simpa [List.foldl, Response.parseStep_none] using ih

theorem keys_distinct : sClientMwb ≠ sClientNct ∧ sClientMwb ≠ sServerMwb ∧ sClientMwb ≠ sServerNct
    ∧ sClientNct ≠ sServerMwb ∧ sClientNct ≠ sServerNct ∧ sServerMwb ≠ sServerNct := by decide +kernel

theorem Response.parseStep_bad (r : Response) (kvs : List Char × List Val) (h : Response.entryOk kvs = false) :
    Response.parseStep (some r) kvs = none := by
  obtain ⟨k1, k2, k3, k4, k5, k6⟩ := keys_distinct
  obtain ⟨k, vs⟩ := kvs
  unfold Response.entryOk at h
  unfold Response.parseStep
  match vs with
  | [] => rfl
  | [v] =>
    simp only at h ⊢
    by_cases h1 : k = sClientMwb
    · subst h1; simp at h ⊢; simp [h]
    · by_cases h2 : k = sClientNct
      · subst h2
        simp [k1.symm, k4] at h ⊢
        cases v <;> simp_all
      · by_cases h3 : k = sServerMwb
        · subst h3; simp [k2.symm, k4.symm] at h ⊢; simp [h]
        · by_cases h4 : k = sServerNct
          · subst h4
            simp [k3.symm, k5.symm, k6.symm] at h ⊢
            cases v <;> simp_all
          · simp [h1, h2, h3, h4]
  | _ :: _ :: _ => rfl

/-- one unacceptable entry anywhere makes `Response.parse` raise -/
theorem Response.parse_bad_entry (ps : Params) (kvs : List Char × List Val) (hm : kvs ∈ ps)
    (h : Response.entryOk kvs = false) : Response.parse ps = none := by
  unfold Response.parse
  generalize (some (⟨0, false, 0, false⟩ : Response)) = acc
  induction ps generalizing acc with
  | nil => cases hm
  | cons p ps ih =>
    simp only [List.foldl]
    rcases List.mem_cons.1 hm with rfl | hm'
    · cases acc with
      | none => exact Response.foldl_none ps
      | some r => rw [Response.parseStep_bad r _ h]; exact Response.foldl_none ps
    · exact ih hm' _

/-- **client fails the handshake: unknown, duplicated or out-of-range parameter** in the deflate response.
`entryOk` is false for: a key other than the four parameter names (unknown); a key that occurred more than once
(`_parseExtensionsHeader` collects the values in a list, `len > 1`); `*_max_window_bits` whose value is missing,
not an integer for `int()`, or outside 9..15 (`window_range`); `*_no_context_takeover` with a value. -/
theorem client_rejects_bad_parameter (pol : ClientPolicy) (hdr : List Char)
    (h : ∃ e ∈ parseExtensionsHeader hdr, e.1 = extensionName ∧ ∃ kvs ∈ e.2, Response.entryOk kvs = false) :
    clientHandshake pol hdr = .fail := by
  obtain ⟨e, he, hn, kvs, hk, hbad⟩ := h
  exact client_rejects_unparsable pol hdr ⟨e, he, hn, Response.parse_bad_entry e.2 kvs hk hbad⟩

/-- the three parameter defects by name -/
theorem entry_unknown_key (k : List Char) (vs : List Val)
    (h : k ≠ sClientMwb ∧ k ≠ sServerMwb ∧ k ≠ sClientNct ∧ k ≠ sServerNct) :
    Response.entryOk (k, vs) = false := by
  unfold Response.entryOk
  split <;> simp [h.1, h.2.1, h.2.2.1, h.2.2.2]

theorem entry_duplicated (k : List Char) (v1 v2 : Val) (vs : List Val) :
    Response.entryOk (k, v1 :: v2 :: vs) = false := rfl

theorem entry_out_of_range (k : List Char) (s : List Char) (n : Nat)
    (hk : k = sClientMwb ∨ k = sServerMwb) (hs : pyInt s = some (Int.ofNat n)) (hr : n < 9 ∨ 15 < n) :
    Response.entryOk (k, [some s]) = false := by
  have : n ∉ windowSizePermissible := fun hm => by
    have := (window_range n).1 ((winOk_iff n).2 hm); omega
  unfold Response.entryOk
  simp [hk, intInV, intIn, hs, this]

theorem entry_not_integer (k : List Char) (s : List Char)
    (hk : k = sClientMwb ∨ k = sServerMwb) (hs : pyInt s = none) :
    Response.entryOk (k, [some s]) = false := by
  unfold Response.entryOk
  simp [hk, intInV, intIn, hs]

/-- all of the above in one statement -/
theorem client_rejects_bad_response (pol : ClientPolicy) (hdr : List Char)
    (h : (∃ e ∈ parseExtensionsHeader hdr, knownExt e.1 = false)
       ∨ 2 ≤ ((parseExtensionsHeader hdr).filter (fun e => knownExt e.1)).length
       ∨ (∃ e ∈ parseExtensionsHeader hdr, e.1 = extensionName ∧ ∃ kvs ∈ e.2, Response.entryOk kvs = false)
       ∨ (pol.deflate = none ∧ ∃ e ∈ parseExtensionsHeader hdr, e.1 = extensionName)) :
    clientHandshake pol hdr = .fail := by
  rcases h with h | h | h | ⟨hp, h⟩
  · exact client_rejects_unknown_extension pol hdr h
  · exact client_rejects_repeated_pmce pol hdr h
  · exact client_rejects_bad_parameter pol hdr h
  · exact client_rejects_declined pol hdr hp h

/-- concrete instances of every hypothesis class (headers as the harness sends them) -/
example : clientHandshake ⟨some ⟨none, none, none⟩, none, none⟩ "x-webkit-foo".toList = .fail := by decide +kernel
example : clientHandshake ⟨some ⟨none, none, none⟩, none, none⟩
    "permessage-deflate, permessage-deflate".toList = .fail := by decide +kernel
example : clientHandshake ⟨some ⟨none, none, none⟩, none, none⟩
    "permessage-deflate; server_max_window_bits=8".toList = .fail := by decide +kernel
example : clientHandshake ⟨some ⟨none, none, none⟩, none, none⟩
    "permessage-deflate; server_no_context_takeover; server_no_context_takeover".toList = .fail := by decide +kernel
example : clientHandshake ⟨some ⟨none, none, none⟩, none, none⟩
    "permessage-deflate; foo=1".toList = .fail := by decide +kernel
example : clientHandshake ⟨none, none, none⟩ "permessage-deflate".toList = .fail := by decide +kernel
example : clientHandshake ⟨some ⟨none, none, none⟩, none, none⟩
    "permessage-deflate; server_max_window_bits=12".toList
      = .ok none (some (.deflate ⟨false, false, false, 12, 15, 8⟩)) := by decide +kernel

/-! ### RSV1 rules on the receiving side -/

/-- **compressed control frames are rejected** (any RSV bit on a control frame, extension negotiated or not) -/
theorem compressed_control_rejected (pmce inside fin : Bool) (rsv opcode : Nat) (hc : opcode > 7) (hr : rsv ≠ 0) :
    headerOk pmce inside fin rsv opcode = false := by
  unfold headerOk
  by_cases h4 : rsv = 4 <;> cases pmce <;> simp [hc, hr, h4]

/-- **continuation frames carrying the compression bit are rejected** -/
theorem rsv1_on_continuation_rejected (pmce fin : Bool) (rsv opcode : Nat) (hr : rsv ≠ 0) :
    headerOk pmce true fin rsv opcode = false := by
  unfold headerOk
  by_cases h4 : rsv = 4 <;> cases pmce <;> simp [hr, h4]
  all_goals (by_cases hc : 7 < opcode <;> simp [hc])

/-- RSV1 on the first frame of a data message is accepted exactly when an extension was negotiated; the other
RSV bits never -/
theorem rsv_on_first_frame (pmce fin : Bool) (rsv opcode : Nat) (ho : opcode = 1 ∨ opcode = 2) :
    headerOk pmce false fin rsv opcode = true ↔ (rsv = 0 ∨ (pmce = true ∧ rsv = 4)) := by
  unfold headerOk
  rcases ho with rfl | rfl <;> cases pmce <;> simp

/-- and at the level of the receiver: such frames fail the connection whatever the state -/
theorem rxFrame_compressed_control {K : Codec} (r : Rx K) (wf : WireFrame) (hc : wf.opcode > 7) (hr : wf.rsv ≠ 0) :
    rxFrame r wf = none := by
  unfold rxFrame
  simp [compressed_control_rejected _ _ _ _ _ hc hr]

theorem rxFrame_rsv1_continuation {K : Codec} (r : Rx K) (wf : WireFrame) (hi : r.inside = true) (hr : wf.rsv ≠ 0) :
    rxFrame r wf = none := by
  unfold rxFrame
  rw [hi]
  simp [rsv1_on_continuation_rejected _ _ _ _ hr]

/-! ### the data path (relative to the codec contract `Codec.Lawful`: H1/H2 are hypotheses) -/

/-- initial halves of a connection on which the extension `p` is in use -/
def Tx.init (K : Codec) (p : Pmce) : Tx K := ⟨some p, none⟩
def Rx.init (K : Codec) (p : Pmce) : Rx K := ⟨some p, none, false, false, false, []⟩

/-- **lossless, one direction.** `a` is the sending end's extension object, `b` the receiving end's, the direction
is compatible (`negotiation_compatible` provides this for every negotiated pair, both ways). Then ANY sequence of
messages — text or binary, compressed or flagged do-not-compress, sent whole with any fragment size or streamed
frame by frame in any pieces, so that the 2nd and later messages run on the kept or reset context — whose frames
reach the receiver cut into ANY chunks, is delivered exactly as sent, in order, and nothing else is delivered.
(No send limit: `maxMessagePayloadSize = 0`, the default; with a limit: `lossless_with_send_limit`.)
The two directions of a connection use disjoint state (`Tx` is only the deflater, `Rx` only the inflater),
so they compose. Byte-level framing/masking of the frames is C01/C02/C15. -/
theorem lossless {K : Codec} (L : K.Lawful) (a b : Pmce) (hc : dirCompatible a b) (msgs : List Msg)
    (hwf : ∀ m ∈ msgs, m.wf) (wire : List WireFrame)
    (hw : wire.map WireFrame.toFrame = (sendAll (Tx.init K a) 0 msgs).2.1) :
    (sendAll (Tx.init K a) 0 msgs).2.2 = msgs.map (fun m => (m.bin, m.data)) ∧
    ∃ r', rxAll (Rx.init K b) wire = some (r', msgs.map (fun m => (m.bin, m.data))) := by
  have hin : InStep L a b (Tx.init K a) (Rx.init K b) := ⟨rfl, rfl, rfl, Or.inl ⟨rfl, rfl⟩⟩
  obtain ⟨h1, r', h2, _⟩ := send_recv_all L a b hc msgs _ _ hin hwf wire hw
  exact ⟨h1, r', h2⟩

/-- **lossless, both directions of every negotiated connection**: whatever offer / accept / response-accept pass
the guards (overrides included — U3 is harmless for the data), server→client and client→server are lossless. -/
theorem lossless_negotiated {K : Codec} (L : K.Lawful) (o : Offer) (x : AcceptArgs) (y : RAcceptArgs)
    (n : Negotiated) (hn : negotiate o x y = some n) (msgs : List Msg) (hwf : ∀ m ∈ msgs, m.wf)
    (wire : List WireFrame) :
    (wire.map WireFrame.toFrame = (sendAll (Tx.init K n.server) 0 msgs).2.1 →
      ∃ r', rxAll (Rx.init K n.client) wire = some (r', msgs.map (fun m => (m.bin, m.data))))
    ∧ (wire.map WireFrame.toFrame = (sendAll (Tx.init K n.client) 0 msgs).2.1 →
      ∃ r', rxAll (Rx.init K n.server) wire = some (r', msgs.map (fun m => (m.bin, m.data)))) := by
  obtain ⟨h1, h2⟩ := negotiation_compatible o x y n hn
  exact ⟨fun hw => (lossless L _ _ h1 msgs hwf wire hw).2, fun hw => (lossless L _ _ h2 msgs hwf wire hw).2⟩

theorem wire_of_frames (fs : List Frame) :
    (fs.map fun f => (⟨f.fin, f.rsv, f.opcode, [f.payload]⟩ : WireFrame)).map WireFrame.toFrame = fs := by
  induction fs with
  | nil => rfl
  | cons f fs ih => simp [WireFrame.toFrame, ih]

/-- the contract is satisfiable and the theorem applies to a concrete run: the toy codec, the U3 negotiation,
three messages (whole + fragmented, do-not-compress, streamed), delivered intact -/
example :
    (rxAll (Rx.init toy ⟨false, false, false, 15, 15, 8⟩)
      (((sendAll (Tx.init toy ⟨true, true, false, 10, 15, 8⟩) 0
        [.whole true false (some 3) [1, 2, 3, 4, 5], .whole false true none [7], .stream true false [[8], [9, 10]]]).2.1).map
          fun f => ⟨f.fin, f.rsv, f.opcode, [f.payload]⟩)).map (·.2)
      = some [(true, [1, 2, 3, 4, 5]), (false, [7]), (true, [8, 9, 10])] := by
  have hc : dirCompatible ⟨true, true, false, 10, 15, 8⟩ ⟨false, false, false, 15, 15, 8⟩ := by decide
  have := lossless toyLawful _ _ hc
    [.whole true false (some 3) [1, 2, 3, 4, 5], .whole false true none [7], .stream true false [[8], [9, 10]]]
    (by intro m hm; simp at hm; rcases hm with rfl | rfl | rfl <;> simp [Msg.wf])
    _ (wire_of_frames _)
  obtain ⟨r', h⟩ := this.2
  rw [h]; rfl

/-- the requirement `dirCompatible` of `lossless` is necessary: an inflater that forgets its context
while the deflater keeps it loses the second message (toy codec; `decNct` without `encNct`) -/
theorem incompatible_context_loses_data :
    (rxAll (Rx.init toy ⟨false, true, false, 15, 15, 8⟩)
      (((sendAll (Tx.init toy ⟨true, false, false, 15, 15, 8⟩) 0
        [.whole true false none [1, 2], .whole true false none [3]]).2.1).map
          fun f => ⟨f.fin, f.rsv, f.opcode, [f.payload]⟩)).map (·.2)
      = some [(true, [1, 2]), (true, [2])] := by
  decide +kernel

/-- **lossless with a send limit**: with `maxMessagePayloadSize = maxPayload` (any value), context takeover or
not, exactly the messages whose send was not refused are delivered, intact and in order. A send refused AFTER
compression cannot hurt: the sender drops its compression context, and a fresh deflater is in sync with whatever
the peer's inflater holds (`enc_reset`). (Before the repair 93aa9965 this was false with context takeover — the
refused message stayed in the shared deflater, finding F17 — and the theorem carried `a.encNct = true`.) -/
theorem lossless_with_send_limit {K : Codec} (L : K.Lawful) (a b : Pmce) (hc : dirCompatible a b)
    (maxPayload : Nat) (msgs : List Msg) (hwf : ∀ m ∈ msgs, m.wf) (wire : List WireFrame)
    (hw : wire.map WireFrame.toFrame = (sendAll (Tx.init K a) maxPayload msgs).2.1) :
    ∃ r', rxAll (Rx.init K b) wire = some (r', (sendAll (Tx.init K a) maxPayload msgs).2.2) :=
  send_recv_all_limit L a b hc maxPayload msgs _ _ ⟨rfl, rfl, rfl, Or.inl ⟨rfl, Or.inl rfl⟩⟩ hwf wire hw

/-- the F17 scenario now comes out right (toy codec, context takeover, limit 10): `[1,2,3]` is delivered, the
8-octet message is refused, `[9]` arrives as `[9]` -/
example :
    (rxAll (Rx.init toy ⟨false, false, false, 15, 15, 8⟩)
      (((sendAll (Tx.init toy ⟨true, false, false, 15, 15, 8⟩) 10
        [.whole true false none [1, 2, 3], .whole true false none [0, 0, 0, 0, 0, 0, 0, 0], .whole true false none [9]]).2.1).map
          fun f => ⟨f.fin, f.rsv, f.opcode, [f.payload]⟩)).map (·.2)
      = some [(true, [1, 2, 3]), (true, [9])] := by
  decide +kernel

/-- the hypotheses are satisfiable together with a refusal actually happening: toy codec, no context takeover,
limit 10 — the 8-octet message is refused, the other two arrive intact -/
example :
    (rxAll (Rx.init toy ⟨false, true, false, 15, 15, 8⟩)
      (((sendAll (Tx.init toy ⟨true, true, false, 15, 15, 8⟩) 10
        [.whole true false none [1, 2, 3], .whole true false none [0, 0, 0, 0, 0, 0, 0, 0], .whole true false none [9]]).2.1).map
          fun f => ⟨f.fin, f.rsv, f.opcode, [f.payload]⟩)).map (·.2)
      = some [(true, [1, 2, 3]), (true, [9])] := by
  decide +kernel

/-- **do-not-compress**: the message travels verbatim with RSV1 clear on every frame, and the deflater is not
touched (so it cannot disturb the context of compressed messages around it) -/
theorem doNotCompress_verbatim {K : Codec} (t : Tx K) (maxPayload : Nat) (bin : Bool) (frag : Option Nat)
    (payload : Bytes) (fs : List Frame) (t' : Tx K)
    (h : sendMessage t maxPayload bin true frag payload = (t', .sent fs)) :
    t' = t ∧ payloads fs = payload ∧ (∀ f ∈ fs, f.rsv = 0) ∧ ∃ f rest, fs = f :: rest ∧ f.opcode = opcodeOf bin := by
  have key : ∀ (t'' : Tx K), (if 0 < maxPayload ∧ maxPayload < payload.length then (t, SendRes.refused)
      else match fragment frag (opcodeOf bin) 0 payload with
        | none => (t, SendRes.error)
        | some fs => (t, SendRes.sent fs)) = (t'', SendRes.sent fs) →
      t'' = t ∧ fragment frag (opcodeOf bin) 0 payload = some fs := by
    intro t'' hk
    split at hk
    · cases hk
    · split at hk
      · cases hk
      · rename_i fs' hfs'
        simp only [Prod.mk.injEq, SendRes.sent.injEq] at hk
        exact ⟨hk.1.symm, by rw [hfs', hk.2]⟩
  have : t' = t ∧ fragment frag (opcodeOf bin) 0 payload = some fs := by
    unfold sendMessage at h
    cases hp : t.pmce with
    | none => simp only [hp] at h; exact key _ h
    | some p => simp only [hp] at h; exact key _ h
  obtain ⟨ht, hf⟩ := this
  obtain ⟨htr, hpl⟩ := fragment_train _ _ _ _ _ hf
  obtain ⟨f, rest, rfl, h1, h2, h3⟩ := htr.shape
  refine ⟨ht, hpl, ?_, f, rest, rfl, h2⟩
  intro g hg
  rcases List.mem_cons.1 hg with rfl | hg
  · exact h1
  · exact (h3 g hg).1

/-- **RSV1 on the first frame only**: a compressed `sendMessage` puts RSV1 (and the opcode) on the first frame and
on no other, for every fragment size; the frames carry exactly deflater output ++ stripped flush output -/
theorem rsv1_first_frame_only {K : Codec} (t : Tx K) (p : Pmce) (hp : t.pmce = some p) (maxPayload : Nat) (bin : Bool)
    (frag : Option Nat) (payload : Bytes) (fs : List Frame) (t' : Tx K)
    (h : sendMessage t maxPayload bin false frag payload = (t', .sent fs)) :
    ∃ f rest, fs = f :: rest ∧ f.rsv = 4 ∧ f.opcode = opcodeOf bin ∧ (∀ g ∈ rest, g.rsv = 0 ∧ g.opcode = 0)
      ∧ payloads fs = (K.compress (startCompress p t.comp) payload).2
          ++ (endCompress (K.compress (startCompress p t.comp) payload).1).2 := by
  unfold sendMessage at h
  simp only [hp] at h
  split at h
  · cases h
  · split at h
    · cases h
    · rename_i fs' hfs'
      simp only [Prod.mk.injEq, SendRes.sent.injEq] at h
      obtain ⟨_, rfl⟩ := h
      obtain ⟨htr, hpl⟩ := fragment_train _ _ _ _ _ hfs'
      obtain ⟨f, rest, rfl, h1, h2, h3⟩ := htr.shape
      exact ⟨f, rest, rfl, h1, h2, h3, hpl⟩

/-- the same for the streaming API (`beginMessage` / `sendMessageFrame`* / `endMessage`) -/
theorem rsv1_first_frame_only_stream {K : Codec} (t : Tx K) (p : Pmce) (hp : t.pmce = some p) (bin : Bool)
    (pieces : List Bytes) (hne : pieces ≠ []) :
    ∃ f rest, (sendStream t bin false pieces).2 = f :: rest ∧ f.rsv = 4 ∧ f.opcode = opcodeOf bin
      ∧ (∀ g ∈ rest, g.rsv = 0 ∧ g.opcode = 0) := by
  have hlen := compressAll_length (startCompress p t.comp) pieces
  simp only [sendStream, hp]
  cases hout : (K.compressAll (startCompress p t.comp) pieces).2 with
  | nil =>
    rw [hout] at hlen
    cases pieces with
    | nil => exact absurd rfl hne
    | cons _ _ => simp at hlen
  | cons o os =>
    obtain ⟨htr, _⟩ := stream_train (opcodeOf bin) 4 o os
      (endCompress (K.compressAll (startCompress p t.comp) pieces).1).2
    obtain ⟨f, rest, hfs, h1, h2, h3⟩ := htr.shape
    exact ⟨f, rest, hfs, h1, h2, h3⟩

end Abverif.Pmce
