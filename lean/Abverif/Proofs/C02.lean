import Abverif.Model.WsSpec
import Abverif.Proofs.Lemmas.HeaderTable
/-
C02 — property theorems about the receive path (see also C01 for segmentation of violation-free streams).
-/
namespace Abverif.Ws
open Abverif.WsSpec

/-! ### header table -/

/-- **header_table**: for every receiver context (role, masking options, PMCE negotiated or not, inside or outside a
fragmented message) and every value of the first two header octets, the cascade of `processData` reports no violation
exactly when RFC 6455 §5.2–5.5 / RFC 7692 §6 allow that header (65 536 octet pairs × 32 contexts, via the
kernel-checked `flags_table`). -/
theorem header_table (cfg : Cfg) (inside fin masked : Bool) (rsv opcode len7 : Nat) (hr : rsv < 8) (ho : opcode < 16) :
    headerViolations cfg inside fin rsv opcode masked len7 = []
      ↔ headerOk (Ctx.ofCfg cfg) inside fin rsv opcode masked len7 = true := by
  have := flags_table cfg.isServer cfg.requireMasked cfg.acceptMasked cfg.pmce inside fin masked
    (decide (len7 > 125)) (decide (len7 = 1)) ⟨rsv, hr⟩ ⟨opcode, ho⟩
  simp only at this
  unfold headerViolations headerOk Ctx.ofCfg
  rw [← this, List.isEmpty_iff]

/-- the header fields `processData` extracts from the two octets are always in range, so `header_table` covers all
65 536 octet pairs -/
theorem header_fields_in_range (o0 o1 : UInt8) :
    o0.toNat / 16 % 8 < 8 ∧ o0.toNat % 16 < 16 ∧ o1.toNat % 128 < 128 := by omega

/-- in fail-by-drop mode the cascade stops at the first violated rule, otherwise it reports every one of them; in
both modes "no violation" means the state is untouched -/
theorem applyViolations_nil (s : S) : applyViolations s [] = (s, false) := rfl

/-! ### extended payload length -/

/-- 16-bit form: accepted iff minimal (≥ 126) -/
theorem extlen16 (plen : Nat) : extLenOk 126 plen = true ↔ 126 ≤ plen := by simp [extLenOk]

/-- 64-bit form: accepted iff minimal (≥ 65536) and the most significant bit is clear -/
theorem extlen64 (plen : Nat) : extLenOk 127 plen = true ↔ 65536 ≤ plen ∧ plen ≤ 2 ^ 63 - 1 := by
  simp [extLenOk]

theorem extlen7 (len7 plen : Nat) (h : len7 < 126) : extLenOk len7 plen = true := by
  have h1 : len7 ≠ 126 := by omega
  have h2 : len7 ≠ 127 := by omega
  simp [extLenOk, h1, h2]

/-! ### close frame payload -/

/-- the code check of `onCloseFrame` rejects exactly the codes RFC 6455 §7.4 does not allow on the wire -/
theorem mem_allowed (code : Nat) :
    closeCodesAllowed.contains code = true ↔ (1000 ≤ code ∧ code ≤ 1003) ∨ (1007 ≤ code ∧ code ≤ 1013) := by
  simp only [closeCodesAllowed, List.contains_iff_mem, List.mem_cons, List.not_mem_nil, or_false]
  omega

theorem close_code_rule (code : Nat) : closeCodeInvalid code = false ↔ closeCodeOk code = true := by
  have hm := mem_allowed code
  unfold closeCodeInvalid closeCodeOk
  generalize closeCodesAllowed.contains code = c at hm
  cases c <;> simp at hm ⊢ <;> omega

end Abverif.Ws
