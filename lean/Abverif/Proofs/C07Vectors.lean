import Abverif.Model.Crypto7.Sha1
import Abverif.Model.Crypto7.Base64
/-
C07 — published test vectors for the SHA-1 and Base64 reference oracles, checked by kernel
evaluation (`decide +kernel`): RFC 3174 §7.3, RFC 4648 §10, RFC 6455 §1.3.

These are TESTS OF THE REFERENCE implementations `Abverif.Crypto7.Sha1.hash` / `Base64.encode` that `acceptDigest` is
built from — not statements of the property.  (The reference is additionally compared with hashlib / base64 on random
inputs of every length 0..129 and on every digest the harness uses.)
-/
namespace Abverif.C07.Vectors

open Abverif.Crypto7
open Abverif.Crypto7.Base64 (asc)

/-! ## `asc` is what it looks like -/

theorem asc_abc : asc "abc" = [0x61, 0x62, 0x63] := by decide +kernel

/-! ## SHA-1 (RFC 3174 §7.3; FIPS 180 examples) -/

theorem sha1_empty :
    Sha1.hash [] =
      [0xda, 0x39, 0xa3, 0xee, 0x5e, 0x6b, 0x4b, 0x0d, 0x32, 0x55,
       0xbf, 0xef, 0x95, 0x60, 0x18, 0x90, 0xaf, 0xd8, 0x07, 0x09] := by decide +kernel

theorem sha1_abc :
    Sha1.hash (asc "abc") =
      [0xa9, 0x99, 0x3e, 0x36, 0x47, 0x06, 0x81, 0x6a, 0xba, 0x3e,
       0x25, 0x71, 0x78, 0x50, 0xc2, 0x6c, 0x9c, 0xd0, 0xd8, 0x9d] := by decide +kernel

/-- 56 bytes: the padding spills into a second block. -/
theorem sha1_two_blocks :
    Sha1.hash (asc "abcdbcdecdefdefgefghfghighijhijkijkljklmklmnlmnomnopnopq") =
      [0x84, 0x98, 0x3e, 0x44, 0x1c, 0x3b, 0xd2, 0x6e, 0xba, 0xae,
       0x4a, 0xa1, 0xf9, 0x51, 0x29, 0xe5, 0xe5, 0x46, 0x70, 0xf1] := by decide +kernel

theorem sha1_abc_hex :
    Hex.encode (Sha1.hash (asc "abc")) = "a9993e364706816aba3e25717850c26c9cd0d89d" := by
  decide +kernel

/-! ## Base64 (RFC 4648 §10) -/

theorem b64_0 : Base64.encode (asc "") = asc "" := by decide +kernel
theorem b64_1 : Base64.encode (asc "f") = asc "Zg==" := by decide +kernel
theorem b64_2 : Base64.encode (asc "fo") = asc "Zm8=" := by decide +kernel
theorem b64_3 : Base64.encode (asc "foo") = asc "Zm9v" := by decide +kernel
theorem b64_4 : Base64.encode (asc "foob") = asc "Zm9vYg==" := by decide +kernel
theorem b64_5 : Base64.encode (asc "fooba") = asc "Zm9vYmE=" := by decide +kernel
theorem b64_6 : Base64.encode (asc "foobar") = asc "Zm9vYmFy" := by decide +kernel

theorem b64d_0 : Base64.decode (asc "") = some (asc "") := by decide +kernel
theorem b64d_1 : Base64.decode (asc "Zg==") = some (asc "f") := by decide +kernel
theorem b64d_2 : Base64.decode (asc "Zm8=") = some (asc "fo") := by decide +kernel
theorem b64d_3 : Base64.decode (asc "Zm9v") = some (asc "foo") := by decide +kernel
theorem b64d_4 : Base64.decode (asc "Zm9vYg==") = some (asc "foob") := by decide +kernel
theorem b64d_5 : Base64.decode (asc "Zm9vYmE=") = some (asc "fooba") := by decide +kernel
theorem b64d_6 : Base64.decode (asc "Zm9vYmFy") = some (asc "foobar") := by decide +kernel

/-- Strictness: bad length, interior padding, a non-alphabet character, data after padding. -/
theorem b64d_reject :
    Base64.decode (asc "Zm9") = none ∧ Base64.decode (asc "Zg=v") = none ∧
    Base64.decode (asc "Zm9*") = none ∧ Base64.decode (asc "Zg==Zm9v") = none ∧
    Base64.decode (asc "=g==") = none ∧ Base64.decode (asc "Z===") = none := by decide +kernel

/-- Non-canonical trailing bits are accepted (`Zh==` also decodes to `f`). -/
theorem b64d_noncanonical : Base64.decode (asc "Zh==") = some (asc "f") := by decide +kernel

/-! ## RFC 6455 §1.3: `Sec-WebSocket-Accept` of the sample nonce -/

theorem ws_accept_sample :
    Base64.encode
        (Sha1.hash (asc "dGhlIHNhbXBsZSBub25jZQ==" ++ asc "258EAFA5-E914-47DA-95CA-C5AB0DC85B11")) =
      asc "s3pPLMBiTxaQ9kYGzzhZRbK+xOo=" := by decide +kernel

/-- The intermediate digest quoted in RFC 6455 §1.3. -/
theorem ws_accept_sample_digest :
    Sha1.hash (asc "dGhlIHNhbXBsZSBub25jZQ==258EAFA5-E914-47DA-95CA-C5AB0DC85B11") =
      [0xb3, 0x7a, 0x4f, 0x2c, 0xc0, 0x62, 0x4f, 0x16, 0x90, 0xf6,
       0x46, 0x06, 0xcf, 0x38, 0x59, 0x45, 0xb2, 0xbe, 0xc4, 0xea] := by decide +kernel

end Abverif.C07.Vectors
