import Abverif.Model.Handshake
namespace Abverif.Handshake
theorem placeholder : True := trivial
end Abverif.Handshake
