import Abverif.Model.Handshake
import Abverif.Proofs.Lemmas.C07Str
import Abverif.Proofs.Lemmas.C07Stage
import Abverif.Proofs.Lemmas.C07Origin
import Abverif.Proofs.Lemmas.C07Render
/-!
C07 — the opening handshake admits exactly the valid peers and never crashes.  Property theorems.

All statements are about the models `Handshake.server` / `Handshake.client` / `Handshake.clientRequest`
(Abverif/Model/Handshake.lean) and quantify over ALL byte strings, configurations, environments and chunkings.
The two `…_iff_valid` theorems carried hypotheses (`StrictVersion`, `StrictStatus`, `factoryProtocols = protocols`) while
the code read the version / status code with `int()` and compared the subprotocol with `factory.protocols`; those defects
are repaired in the code, the model mirrors the repaired code, and the theorems are stated without hypotheses.
-/
namespace Abverif.Handshake
open Abverif Abverif.Http Abverif.Url

/-! ### vocabulary -/

/-- the header block of `data`: everything up to and including the first CRLF CRLF, parsed as `parseHttpHeader` does -/
def ParsedHead (data line : Bytes) (hs : List Hdr) : Prop :=
  ∃ eoh, find crlfcrlf data = some eoh ∧ parseHttpHeader (data.take (eoh + 4)) = some (line, hs)

/-- the protocols the client announced, as the server reads them -/
def offered (hs : List Hdr) : List Bytes :=
  match hget hs b!"sec-websocket-protocol" with
  | none => []
  | some h => (splitOn 44 h.val).map strip

/-- the user's `onConnect` accepts, with no subprotocol or one the client announced -/
def Accepts (env : SrvEnv) (hs : List Hdr) : Prop :=
  ∃ proto uh, env.onConnect = .accept proto uh ∧ ∀ p, proto = some p → p ∈ offered hs

def SrvOut.isOpened : SrvOut → Bool
  | .opened .. => true
  | _ => false

def SrvOut.isEscape : SrvOut → Bool
  | .escapes _ => true
  | _ => false

def CliOut.isOpened : CliOut → Bool
  | .opened .. => true
  | _ => false

def CliOut.isEscape : CliOut → Bool
  | .escapes _ => true
  | _ => false

/-! ### int() on RFC version numerals (the code converts the header with `int()` after matching it against the grammar) -/

theorem rfcVersion_pyInt {s : Bytes} {n : Nat} (h : rfcVersion s = some n) : pyInt s = some (n : Int) := by
  unfold rfcVersion at h
  split at h
  · next a =>
    split at h
    · next ha =>
      simp at h; subst h
      rw [pyInt_digits (by simp) (by simp [ha]) (by simp)]
      simp
    · simp at h
  · next a b =>
    split at h
    · next hab =>
      simp at h; subst h
      simp at hab
      have ha : isDigit a = true := by simp [isDigit]; exact ⟨by have := hab.1.1; exact UInt8.le_trans (by decide) this, hab.1.2⟩
      rw [pyInt_digits (by simp) (by simp [ha, hab.2]) (by simp)]
      simp
    · simp at h
  · next a b c =>
    split at h
    · next habc =>
      dsimp only at h
      split at h
      · simp at h; subst h
        simp at habc
        have ha : isDigit a = true := by
          rcases habc.1.1 with rfl | rfl <;> decide
        rw [pyInt_digits (by simp) (by simp [ha, habc.1.2, habc.2]) (by simp)]
        simp
        omega
      · simp at h
    · simp at h
  · simp at h

/-! ### what a stage can answer when it stops the chain -/

def IsFail (o : SrvOut) : Prop := ∃ c e, o = .fail c e

theorem bind_error {ε α β : Type} (x : Except ε α) (f : α → Except ε β) (e : ε) :
    (x >>= f) = .error e ↔ x = .error e ∨ ∃ a, x = .ok a ∧ f a = .error e := by
  cases x <;> simp [bind, Except.bind]

macro "stage_err" h:ident : tactic =>
  `(tactic| (repeat' (first | split at $h:ident | (dsimp only at $h:ident; split at $h:ident))) <;>
      first | (cases $h:ident; exact ⟨_, _, rfl⟩) | (cases $h:ident))

theorem stageLine_err {line : Bytes} {o : SrvOut} (h : stageLine line = .error o) : IsFail o := by
  unfold stageLine bad at h; stage_err h
theorem stageUri_err {env : SrvEnv} {uri : Bytes} {o : SrvOut} (h : stageUri env uri = .error o) : IsFail o := by
  unfold stageUri bad at h; stage_err h
theorem stageHost_err {cfg : SrvCfg} {hs : List Hdr} {o : SrvOut} (h : stageHost cfg hs = .error o) : IsFail o := by
  unfold stageHost bad at h; stage_err h
theorem stageConnection_err {hs : List Hdr} {o : SrvOut} (h : stageConnection hs = .error o) : IsFail o := by
  unfold stageConnection bad at h; stage_err h
theorem stageVersion_err {cfg : SrvCfg} {hs : List Hdr} {o : SrvOut} (h : stageVersion cfg hs = .error o) : IsFail o := by
  unfold stageVersion bad at h; stage_err h
theorem stageProtocols_err {hs : List Hdr} {o : SrvOut} (h : stageProtocols hs = .error o) : IsFail o := by
  unfold stageProtocols bad at h; stage_err h
theorem stageOrigin_err {cfg : SrvCfg} {env : SrvEnv} {hs : List Hdr} {v : Nat} {o : SrvOut}
    (h : stageOrigin cfg env hs v = .error o) : IsFail o := by
  unfold stageOrigin bad at h; stage_err h
theorem stageKey_err {hs : List Hdr} {o : SrvOut} (h : stageKey hs = .error o) : IsFail o := by
  unfold stageKey bad at h; stage_err h
theorem stageExtensions_err {hs : List Hdr} {o : SrvOut} (h : stageExtensions hs = .error o) : IsFail o := by
  unfold stageExtensions bad at h; stage_err h
theorem stageMax_err {cfg : SrvCfg} {env : SrvEnv} {o : SrvOut} (h : stageMax cfg env = .error o) : IsFail o := by
  unfold stageMax at h; stage_err h

/-- the web-status branch is the only place where the chain can end otherwise than in an HTTP error: status page or
redirect (a malformed `redirect` / `after` parameter is an HTTP 400 since fix cb4d1ff0) -/
theorem stageUpgrade_err {cfg : SrvCfg} {env : SrvEnv} {hs : List Hdr} {o : SrvOut}
    (h : stageUpgrade cfg env hs = .error o) :
    IsFail o ∨ (cfg.webStatus = true ∧ hget hs b!"upgrade" = none ∧
      ((∃ r, o = .statusPage r) ∨ (∃ u, o = .redirect303 u))) := by
  unfold stageUpgrade bad at h
  split at h
  · next hnone =>
    split at h
    · next hws =>
      split at h <;> cases h
      · exact .inr ⟨hws, hnone, .inl ⟨_, rfl⟩⟩
      · exact .inl ⟨_, _, rfl⟩
      · exact .inr ⟨hws, hnone, .inr ⟨_, rfl⟩⟩
      · exact .inl ⟨_, _, rfl⟩
      · exact .inr ⟨hws, hnone, .inl ⟨_, rfl⟩⟩
    · cases h; exact .inl ⟨_, _, rfl⟩
  · split at h
    · cases h
    · cases h; exact .inl ⟨_, _, rfl⟩

/-- how the validation chain can stop -/
theorem validate_error {cfg : SrvCfg} {env : SrvEnv} {line : Bytes} {hs : List Hdr} {o : SrvOut}
    (h : validate cfg env line hs = .error o) :
    IsFail o ∨ (cfg.webStatus = true ∧ hget hs b!"upgrade" = none ∧
      ((∃ r, o = .statusPage r) ∨ (∃ u, o = .redirect303 u))) := by
  unfold validate at h
  simp only [bind_error] at h
  rcases h with h | ⟨_, _, h⟩
  · exact .inl (stageLine_err h)
  rcases h with h | ⟨_, _, h⟩
  · exact .inl (stageUri_err h)
  rcases h with h | ⟨_, _, h⟩
  · exact .inl (stageHost_err h)
  rcases h with h | ⟨_, _, h⟩
  · exact stageUpgrade_err h
  rcases h with h | ⟨_, _, h⟩
  · exact .inl (stageConnection_err h)
  rcases h with h | ⟨_, _, h⟩
  · exact .inl (stageVersion_err h)
  rcases h with h | ⟨_, _, h⟩
  · exact .inl (stageProtocols_err h)
  rcases h with h | ⟨_, _, h⟩
  · exact .inl (stageOrigin_err h)
  rcases h with h | ⟨_, _, h⟩
  · exact .inl (stageKey_err h)
  rcases h with h | ⟨_, _, h⟩
  · exact .inl (stageExtensions_err h)
  rcases h with h | ⟨_, _, h⟩
  · exact .inl (stageMax_err h)
  · simp [pure, Except.pure] at h

/-! ### server: opens exactly for valid requests -/

theorem isFail_not_opened {o : SrvOut} (h : IsFail o) : o.isOpened = false := by
  obtain ⟨c, e, rfl⟩ := h; rfl

theorem validate_error_not_opened {cfg : SrvCfg} {env : SrvEnv} {line : Bytes} {hs : List Hdr} {o : SrvOut}
    (h : validate cfg env line hs = .error o) : o.isOpened = false := by
  rcases validate_error h with h | ⟨_, _, h | h⟩
  · exact isFail_not_opened h
  · obtain ⟨r, rfl⟩ := h; rfl
  · obtain ⟨r, rfl⟩ := h; rfl

theorem succeed_opened_iff (cfg : SrvCfg) (v : Validated) (proto : Option Bytes) (uh : List (Bytes × Bytes))
    (rest : Bytes) :
    (succeed cfg v proto uh rest).isOpened = true ↔
      (∀ p, proto = some p → p ∈ v.protocols) ∧
      (v.exts.filter (fun e => isPmce e.name)).all (pmceParamsOk true) = true := by
  unfold succeed
  dsimp only
  cases hall : (List.filter (fun e => isPmce e.name) v.exts).all (pmceParamsOk true) <;> cases proto with
  | none => simp [SrvOut.isOpened]
  | some p => by_cases hm : p ∈ v.protocols <;> cases haio : cfg.aio <;> simp [hm, SrvOut.isOpened]

/-- when the model opens: header block complete, chain passed, `onConnect` accepted with an announced subprotocol (or
none), every permessage-compress offer well-formed -/
theorem server_opened_iff (cfg : SrvCfg) (env : SrvEnv) (data : Bytes) :
    (server cfg env data).isOpened = true ↔
      ∃ line hs v proto uh, ParsedHead data line hs ∧ validate cfg env line hs = .ok v ∧
        env.onConnect = .accept proto uh ∧ (∀ p, proto = some p → p ∈ v.protocols) ∧
        (v.exts.filter (fun e => isPmce e.name)).all (pmceParamsOk true) = true := by
  unfold server ParsedHead
  cases hf : find crlfcrlf data with
  | none =>
    simp
    split <;> simp [SrvOut.isOpened]
  | some eoh =>
    simp only [Option.some.injEq, exists_eq_left']
    cases hp : parseHttpHeader (data.take (eoh + 4)) with
    | none => simp [SrvOut.isOpened]
    | some lh =>
      obtain ⟨line, hs⟩ := lh
      simp only [Option.some.injEq, Prod.mk.injEq]
      cases hv : validate cfg env line hs with
      | error o =>
        simp only [validate_error_not_opened hv]
        constructor
        · intro h; cases h
        · rintro ⟨l, h, v, p, u, ⟨rfl, rfl⟩, hv2, _⟩
          rw [hv] at hv2; cases hv2
      | ok v =>
        simp only
        cases hoc : env.onConnect with
        | deny c =>
          simp [SrvOut.isOpened]
        | raises =>
          simp [SrvOut.isOpened]
        | accept proto uh =>
          simp only [succeed_opened_iff]
          constructor
          · rintro ⟨h1, h2⟩
            exact ⟨line, hs, v, proto, uh, ⟨rfl, rfl⟩, hv, rfl, h1, h2⟩
          · rintro ⟨l, h, v', p', u', ⟨rfl, rfl⟩, hv', hacc, hproto, hall⟩
            rw [hv] at hv'
            cases hv'
            cases hacc
            exact ⟨hproto, hall⟩

theorem originOk_iff {cfg : SrvCfg} {env : SrvEnv} {hs : List Hdr} {ver : Nat}
    (hv : rfcVersion (value hs b!"sec-websocket-version") = some ver) :
    originOk cfg env hs = true ↔
      (count hs (originKey ver) = 0 ∨
       (count hs (originKey ver) = 1 ∧ originAllowed cfg env (value hs (originKey ver)) = true)) := by
  unfold originOk
  rw [hv]
  simp

/-- **server_accepts_iff_valid** (full since the repair of the `Sec-WebSocket-Version` syntax: no hypothesis).
For all byte strings, configurations and environments: the server model completes the handshake exactly when the header
block is complete, satisfies `ValidRequest`, and the user's `onConnect` accepts. -/
theorem server_accepts_iff_valid (cfg : SrvCfg) (env : SrvEnv) (data : Bytes) :
    (server cfg env data).isOpened = true ↔
      ∃ line hs, ParsedHead data line hs ∧ ValidRequest cfg env line hs ∧ Accepts env hs := by
  rw [server_opened_iff]
  constructor
  · rintro ⟨line, hs, v, proto, uh, hp, hv, hoc, hproto, hall⟩
    obtain ⟨eoh, hfind, hparse⟩ := hp
    have wf := parse_wf hparse
    obtain ⟨uri, h1, h2, h3, h4, h5, ver, h6, ps, h7, h8, key, h9, exts, h10, h11, rfl⟩ := (validate_ok _ _ _ _ _).1 hv
    have hver := (stageVersion_ok wf ver).1 h6
    have hrfc := hver.2.1
    have hps := (stageProtocols_ok hs ps).1 h7
    have hext := (stageExtensions_ok exts).1 h10
    refine ⟨line, hs, ⟨eoh, hfind, hparse⟩, ?_, ?_⟩
    · exact
        { line := (stageLineUri_ok env line).1 ⟨uri, h1, h2⟩
          host := (stageHost_ok wf).1 h3
          upgrade := (stageUpgrade_ok wf).1 h4
          connection := (stageConnection_ok wf).1 h5
          version := ⟨hver.1, ver, hver.2.2, hrfc⟩
          protocols := hps.1
          origin := (originOk_iff hrfc).2 ((stageOrigin_ok wf ver).1 h8)
          key := ((stageKey_ok wf key).1 h9).1
          extensions := ⟨hext.1, by unfold offersOk; rw [← hext.2]; exact hall⟩
          capacity := (stageMax_ok cfg env).1 h11 }
    · refine ⟨proto, uh, hoc, ?_⟩
      intro p hp
      have := hproto p hp
      simp only at this
      rw [hps.2] at this
      exact this
  · rintro ⟨line, hs, ⟨eoh, hfind, hparse⟩, hvalid, proto, uh, hoc, hproto⟩
    have wf := parse_wf hparse
    obtain ⟨uri, h1, h2⟩ := (stageLineUri_ok env line).2 hvalid.line
    obtain ⟨hvc, ver, hvm, hrfc⟩ := hvalid.version
    refine ⟨line, hs, ⟨ver, offered hs, strip (value hs b!"sec-websocket-key"),
      parseExtensions (value hs b!"sec-websocket-extensions")⟩, proto, uh, ⟨eoh, hfind, hparse⟩, ?_, hoc, hproto, ?_⟩
    · apply (validate_ok _ _ _ _ _).2
      refine ⟨uri, h1, h2, (stageHost_ok wf).2 hvalid.host, (stageUpgrade_ok wf).2 hvalid.upgrade,
        (stageConnection_ok wf).2 hvalid.connection, ver, (stageVersion_ok wf ver).2 ⟨hvc, hrfc, hvm⟩, offered hs,
        (stageProtocols_ok hs _).2 ⟨hvalid.protocols, rfl⟩,
        (stageOrigin_ok wf ver).2 ((originOk_iff hrfc).1 hvalid.origin), _,
        (stageKey_ok wf _).2 ⟨hvalid.key, rfl⟩, _, (stageExtensions_ok _).2 ⟨hvalid.extensions.1, rfl⟩,
        (stageMax_ok cfg env).2 hvalid.capacity, rfl⟩
    · have := hvalid.extensions.2
      unfold offersOk at this
      exact this

/-- the same on raw octets: the server model opens exactly when the Spec verdict `specRequest` is positive and
`onConnect` accepts with no subprotocol or an announced one -/
theorem server_accepts_iff_spec (cfg : SrvCfg) (env : SrvEnv) (data : Bytes) :
    (server cfg env data).isOpened = true ↔
      specRequest cfg env data = true ∧ ∃ line hs, ParsedHead data line hs ∧ Accepts env hs := by
  rw [server_accepts_iff_valid]
  unfold specRequest ParsedHead
  cases hf : find crlfcrlf data with
  | none => simp
  | some eoh =>
    simp only [Option.some.injEq, exists_eq_left']
    cases hp : parseHttpHeader (data.take (eoh + 4)) with
    | none => simp
    | some lh =>
      obtain ⟨line, hs⟩ := lh
      simp only [Option.some.injEq, Prod.mk.injEq, decide_eq_true_eq]
      constructor
      · rintro ⟨l, h, ⟨rfl, rfl⟩, hv, ha⟩
        exact ⟨hv, _, _, ⟨rfl, rfl⟩, ha⟩
      · rintro ⟨hv, l, h, ⟨rfl, rfl⟩, ha⟩
        exact ⟨_, _, ⟨rfl, rfl⟩, hv, ha⟩

/-! ### client: opens exactly for valid responses -/

macro "cstage_err" h:ident : tactic =>
  `(tactic| (repeat' (first | split at $h:ident | (dsimp only at $h:ident; split at $h:ident))) <;>
      first | (cases $h:ident; rfl) | (cases $h:ident))

theorem cstageStatus_err {line : Bytes} {o : CliOut} (h : cstageStatus line = .error o) : o = .fail := by
  unfold cstageStatus cbad at h; cstage_err h
theorem cstageUpgrade_err {hs : List Hdr} {o : CliOut} (h : cstageUpgrade hs = .error o) : o = .fail := by
  unfold cstageUpgrade cbad at h; cstage_err h
theorem cstageConnection_err {hs : List Hdr} {o : CliOut} (h : cstageConnection hs = .error o) : o = .fail := by
  unfold cstageConnection cbad at h; cstage_err h
theorem cstageAccept_err {key : Bytes} {hs : List Hdr} {o : CliOut} (h : cstageAccept key hs = .error o) : o = .fail := by
  unfold cstageAccept cbad at h; cstage_err h
theorem cstageExtensions_err {cfg : CliCfg} {hs : List Hdr} {o : CliOut} (h : cstageExtensions cfg hs = .error o) :
    o = .fail := by
  unfold cstageExtensions cbad at h; cstage_err h
theorem cstageProtocol_err {cfg : CliCfg} {hs : List Hdr} {o : CliOut} (h : cstageProtocol cfg hs = .error o) :
    o = .fail := by
  unfold cstageProtocol cbad at h; cstage_err h

/-- the client chain stops only by failing the handshake (drop), never by an exception -/
theorem cvalidate_error {cfg : CliCfg} {key line : Bytes} {hs : List Hdr} {o : CliOut}
    (h : cvalidate cfg key line hs = .error o) : o = .fail := by
  unfold cvalidate at h
  simp only [bind_error] at h
  rcases h with h | ⟨_, _, h⟩
  · exact cstageStatus_err h
  rcases h with h | ⟨_, _, h⟩
  · exact cstageUpgrade_err h
  rcases h with h | ⟨_, _, h⟩
  · exact cstageConnection_err h
  rcases h with h | ⟨_, _, h⟩
  · exact cstageAccept_err h
  rcases h with h | ⟨_, _, h⟩
  · exact cstageExtensions_err h
  rcases h with h | ⟨_, _, h⟩
  · exact cstageProtocol_err h
  · simp [pure, Except.pure] at h

theorem client_opened_iff (cfg : CliCfg) (key data : Bytes) :
    (client cfg key data).isOpened = true ↔
      ∃ eoh line hs r, find crlfcrlf data = some eoh ∧
        parseHttpHeader (data.take (eoh + 4)) = some (line, hs) ∧ cvalidate cfg key line hs = .ok r := by
  constructor
  · intro h
    unfold client at h
    cases hf : find crlfcrlf data with
    | none => simp [hf, CliOut.isOpened] at h
    | some eoh =>
      simp only [hf] at h
      cases hp : parseHttpHeader (data.take (eoh + 4)) with
      | none => simp [hp, CliOut.isOpened] at h
      | some lh =>
        obtain ⟨line, hs⟩ := lh
        simp only [hp] at h
        cases hv : cvalidate cfg key line hs with
        | error o =>
          rw [hv, cvalidate_error hv] at h
          simp [CliOut.isOpened] at h
        | ok r => exact ⟨eoh, line, hs, r, rfl, hp, hv⟩
  · rintro ⟨eoh, line, hs, r, hf, hp, hv⟩
    unfold client
    simp [hf, hp, hv, CliOut.isOpened]

/-- **client_opens_iff_valid** (full since the repairs of the status-code syntax and of the subprotocol comparison: no
hypothesis; non-UTF-8 header blocks are covered since fix 96829a53).  For all configurations, keys and byte strings the
client model completes the handshake exactly when the header block is complete and satisfies `ValidResponse` for the key
it sent and the subprotocols its request announced. -/
theorem client_opens_iff_valid (cfg : CliCfg) (key data : Bytes) :
    (client cfg key data).isOpened = true ↔ ∃ line hs, ParsedHead data line hs ∧ ValidResponse cfg key line hs := by
  rw [client_opened_iff]
  constructor
  · rintro ⟨eoh, line, hs, r, hfind, hparse, hv⟩
    have wf := parse_wf hparse
    obtain ⟨h1, h2, h3, h4, h5, h6⟩ := (cvalidate_ok _ _ _ _ _).1 hv
    have he := (cstageExtensions_ok cfg hs r.2).1 h5
    have hp := (cstageProtocol_ok cfg hs r.1).1 h6
    refine ⟨line, hs, ⟨eoh, hfind, hparse⟩, ?_⟩
    exact
      { status := cstageStatus_ok.1 h1
        upgrade := (cstageUpgrade_ok wf).1 h2
        connection := (cstageConnection_ok wf).1 h3
        accept := (cstageAccept_ok wf key).1 h4
        extensions := ⟨he.1, by rw [responseExtensionsOk_eq, he.2]; rfl⟩
        protocol := ⟨hp.1, by
          rcases hp.2 with ⟨h0, _⟩ | ⟨_, hm, _⟩
          · exact .inl h0
          · exact .inr hm⟩ }
  · rintro ⟨line, hs, ⟨eoh, hfind, hparse⟩, hvalid⟩
    have wf := parse_wf hparse
    have hext := hvalid.extensions.2
    rw [responseExtensionsOk_eq] at hext
    cases hl : cextLoop cfg (parseExtensions (value hs b!"sec-websocket-extensions")) false with
    | none => rw [hl] at hext; cases hext
    | some l =>
      let sp := strip (value hs b!"sec-websocket-protocol")
      refine ⟨eoh, line, hs, (if sp = [] then none else some sp, l), hfind, hparse, ?_⟩
      apply (cvalidate_ok _ _ _ _ _).2
      refine ⟨cstageStatus_ok.2 hvalid.status, (cstageUpgrade_ok wf).2 hvalid.upgrade,
        (cstageConnection_ok wf).2 hvalid.connection, (cstageAccept_ok wf key).2 hvalid.accept,
        (cstageExtensions_ok cfg hs l).2 ⟨hvalid.extensions.1, hl⟩, ?_⟩
      apply (cstageProtocol_ok cfg hs _).2
      refine ⟨hvalid.protocol.1, ?_⟩
      by_cases h0 : sp = []
      · exact .inl ⟨h0, by simp [h0]⟩
      · right
        refine ⟨h0, ?_, by simp [h0, sp]⟩
        rcases hvalid.protocol.2 with h | h
        · exact absurd h h0
        · exact h

/-- the same on raw octets: the client model opens exactly when the Spec verdict `specResponse` is positive -/
theorem client_opens_iff_spec (cfg : CliCfg) (key data : Bytes) :
    (client cfg key data).isOpened = true ↔ specResponse cfg key data = true := by
  rw [client_opens_iff_valid]
  unfold specResponse ParsedHead
  cases hf : find crlfcrlf data with
  | none => simp
  | some eoh =>
    simp only [Option.some.injEq, exists_eq_left']
    cases hp : parseHttpHeader (data.take (eoh + 4)) with
    | none => simp
    | some lh =>
      obtain ⟨line, hs⟩ := lh
      simp only [Option.some.injEq, Prod.mk.injEq, decide_eq_true_eq]
      constructor
      · rintro ⟨l, h, ⟨rfl, rfl⟩, hv⟩
        exact hv
      · intro hv
        exact ⟨_, _, ⟨rfl, rfl⟩, hv⟩

/-! ### segmentation independence -/

/-- what follows the header block is not part of the handshake verdict -/
def SrvOut.mapRest (f : Bytes → Bytes) : SrvOut → SrvOut
  | .opened r p e rest => .opened r p e (f rest)
  | o => o

def CliOut.mapRest (f : Bytes → Bytes) : CliOut → CliOut
  | .opened p e rest => .opened p e (f rest)
  | o => o

/-- the extension strings of the reply under the modelled accept policies -/
def replyExts (cfg : SrvCfg) (v : Validated) : List Bytes :=
  match cfg.accept with
  | .denyAll => []
  | .firstDeflate =>
    (match (v.exts.filter (fun e => isPmce e.name)).find? (·.name = b!"permessage-deflate") with
     | some o => [deflateAcceptString o]
     | none => [])

/-- `succeedHandshake` either refuses (independently of the pipelined rest) or opens, carrying the rest along -/
theorem succeed_cases (cfg : SrvCfg) (v : Validated) (proto : Option Bytes) (uh : List (Bytes × Bytes)) :
    (∃ o, o.isOpened = false ∧ o.isIncomplete = false ∧ o.isEscape = false ∧ ∀ r, succeed cfg v proto uh r = o) ∨
    (∀ r, succeed cfg v proto uh r =
      .opened (utf8Encode (renderResponse cfg uh proto v.key (replyExts cfg v))) proto (replyExts cfg v) r) := by
  unfold succeed
  dsimp only
  have tail : ∀ (c1 : Bool),
      (∃ o : SrvOut, o.isOpened = false ∧ o.isIncomplete = false ∧ o.isEscape = false ∧ ∀ r : Bytes,
        (if c1 = true then (if cfg.aio = true then SrvOut.fail 500 [] else SrvOut.stuck)
         else if (!(List.filter (fun e => isPmce e.name) v.exts).all (pmceParamsOk true)) = true then SrvOut.fail 400 []
         else SrvOut.opened (utf8Encode (renderResponse cfg uh proto v.key (replyExts cfg v))) proto (replyExts cfg v) r)
          = o) ∨
      (∀ r : Bytes,
        (if c1 = true then (if cfg.aio = true then SrvOut.fail 500 [] else SrvOut.stuck)
         else if (!(List.filter (fun e => isPmce e.name) v.exts).all (pmceParamsOk true)) = true then SrvOut.fail 400 []
         else SrvOut.opened (utf8Encode (renderResponse cfg uh proto v.key (replyExts cfg v))) proto (replyExts cfg v) r)
          = .opened (utf8Encode (renderResponse cfg uh proto v.key (replyExts cfg v))) proto (replyExts cfg v) r) := by
    intro c1
    cases c1
    · cases h2 : (!(List.filter (fun e => isPmce e.name) v.exts).all (pmceParamsOk true))
      · right; exact fun _ => rfl
      · left; exact ⟨.fail 400 [], rfl, rfl, rfl, fun _ => rfl⟩
    · left
      cases cfg.aio
      · exact ⟨.stuck, rfl, rfl, rfl, fun _ => rfl⟩
      · exact ⟨.fail 500 [], rfl, rfl, rfl, fun _ => rfl⟩
  cases proto with
  | none => exact tail false
  | some p => exact tail (decide (p ∉ v.protocols))

theorem SrvOut.mapRest_of_not_opened {o : SrvOut} (h : o.isOpened = false) (f : Bytes → Bytes) : o.mapRest f = o := by
  cases o <;> first | rfl | simp [SrvOut.isOpened] at h

theorem succeed_append (cfg : SrvCfg) (v : Validated) (proto : Option Bytes) (uh : List (Bytes × Bytes))
    (r t : Bytes) : succeed cfg v proto uh (r ++ t) = (succeed cfg v proto uh r).mapRest (· ++ t) := by
  rcases succeed_cases cfg v proto uh with ⟨o, h1, _, _, h⟩ | h
  · rw [h, h]; cases o <;> first | rfl | simp [SrvOut.isOpened] at h1
  · rw [h, h]; rfl

theorem take_append_of_le {α : Type} {n : Nat} {d : List α} (h : n ≤ d.length) (t : List α) :
    (d ++ t).take n = d.take n := by
  rw [List.take_append_of_le_length h]

theorem drop_append_of_le' {α : Type} {n : Nat} {d : List α} (h : n ≤ d.length) (t : List α) :
    (d ++ t).drop n = d.drop n ++ t := by
  rw [List.drop_append_of_le_length h]

/-- once the terminator is in the buffer, later octets only extend the pipelined rest -/
theorem server_append_done {cfg : SrvCfg} {env : SrvEnv} {d : Bytes} {i : Nat} (h : find crlfcrlf d = some i)
    (t : Bytes) : server cfg env (d ++ t) = (server cfg env d).mapRest (· ++ t) := by
  have hb : i + 4 ≤ d.length := by simpa [crlfcrlf] using find_bound h
  unfold server
  rw [find_prefix_stable h t, h]
  simp only [take_append_of_le hb, drop_append_of_le' hb]
  split
  · rfl
  · split
    · next o ho => exact (SrvOut.mapRest_of_not_opened (validate_error_not_opened ho) _).symm
    · split
      · rfl
      · rfl
      · exact succeed_append _ _ _ _ _ _

theorem client_append_done {cfg : CliCfg} {key d : Bytes} {i : Nat} (h : find crlfcrlf d = some i)
    (t : Bytes) : client cfg key (d ++ t) = (client cfg key d).mapRest (· ++ t) := by
  have hb : i + 4 ≤ d.length := by simpa [crlfcrlf] using find_bound h
  unfold client
  rw [find_prefix_stable h t, h]
  simp only [take_append_of_le hb, drop_append_of_le' hb]
  split
  · rfl
  · split
    · next o ho => rw [cvalidate_error ho]; rfl
    · rfl

theorem validate_error_not_incomplete {cfg : SrvCfg} {env : SrvEnv} {line : Bytes} {hs : List Hdr} {o : SrvOut}
    (h : validate cfg env line hs = .error o) : o.isIncomplete = false := by
  rcases validate_error h with h | ⟨_, _, h | h⟩
  · obtain ⟨c, e, rfl⟩ := h; rfl
  · obtain ⟨r, rfl⟩ := h; rfl
  · obtain ⟨r, rfl⟩ := h; rfl

theorem succeed_not_incomplete (cfg : SrvCfg) (v : Validated) (proto : Option Bytes) (uh : List (Bytes × Bytes))
    (r : Bytes) : (succeed cfg v proto uh r).isIncomplete = false := by
  rcases succeed_cases cfg v proto uh with ⟨o, _, h2, _, h⟩ | h
  · rw [h]; exact h2
  · rw [h]; rfl

/-- the model keeps buffering exactly while the terminator has not arrived (flash policy serving aside) -/
theorem server_incomplete_iff {cfg : SrvCfg} {env : SrvEnv} (hflash : cfg.flashPolicy = false) (d : Bytes) :
    (server cfg env d).isIncomplete = true ↔ find crlfcrlf d = none := by
  unfold server
  cases hf : find crlfcrlf d with
  | none => simp [hflash, SrvOut.isIncomplete]
  | some i =>
    simp only [reduceCtorEq, iff_false, Bool.not_eq_true]
    split
    · rfl
    · split
      · next o ho => exact validate_error_not_incomplete ho
      · split
        · rfl
        · rfl
        · exact succeed_not_incomplete _ _ _ _ _

theorem client_incomplete_iff (cfg : CliCfg) (key d : Bytes) :
    (client cfg key d).isIncomplete = true ↔ find crlfcrlf d = none := by
  unfold client
  cases hf : find crlfcrlf d with
  | none => simp [CliOut.isIncomplete]
  | some i =>
    simp only [reduceCtorEq, iff_false, Bool.not_eq_true]
    split
    · rfl
    · split
      · next o ho => rw [cvalidate_error ho]; rfl
      · rfl

theorem feedAll_done {α : Type} (judge : Bytes → α) (inc : α → Bool) (o : α) (cs : List Bytes) :
    feedAllWith judge inc (.done o) cs = .done o := by
  induction cs with
  | nil => rfl
  | cons c cs ih => simpa [feedAllWith, feedWith] using ih

/-- generic: a judge that (a) keeps buffering iff the terminator is absent and (b) is stable once it is present
gives, for any chunking, the verdict of the concatenation up to the pipelined rest -/
theorem feed_generic {α : Type} (judge : Bytes → α) (inc : α → Bool) (mapRest : (Bytes → Bytes) → α → α)
    (erase : α → α) (incv : α)
    (hinc : ∀ d, inc (judge d) = true ↔ find crlfcrlf d = none)
    (hincv : ∀ d, find crlfcrlf d = none → erase (judge d) = erase incv)
    (hstable : ∀ d i t, find crlfcrlf d = some i → judge (d ++ t) = mapRest (· ++ t) (judge d))
    (herase : ∀ f o, erase (mapRest f o) = erase o)
    (d : Bytes) (hd : find crlfcrlf d = none) (cs : List Bytes) :
    erase ((feedAllWith judge inc (.buffering d) cs).result incv) = erase (judge (d ++ cs.flatten)) := by
  induction cs generalizing d with
  | nil => simp [feedAllWith, Conn.result, hincv d hd]
  | cons c cs ih =>
    simp only [feedAllWith, List.foldl_cons, feedWith, List.flatten_cons]
    cases hf : find crlfcrlf (d ++ c) with
    | none =>
      have := (hinc (d ++ c)).2 hf
      simp only [this, if_true]
      have := ih (d ++ c) hf
      simp only [feedAllWith, List.append_assoc] at this
      exact this
    | some i =>
      have hni : inc (judge (d ++ c)) = false := by
        cases hx : inc (judge (d ++ c)) with
        | false => rfl
        | true => rw [(hinc _).1 hx] at hf; cases hf
      simp only [hni, Bool.false_eq_true, if_false]
      have := feedAll_done judge inc (judge (d ++ c)) cs
      simp only [feedAllWith] at this
      rw [this]
      simp only [Conn.result]
      rw [← List.append_assoc, hstable (d ++ c) i cs.flatten hf, herase]

def SrvOut.dropRest : SrvOut → SrvOut := SrvOut.mapRest (fun _ => [])
def CliOut.dropRest : CliOut → CliOut := CliOut.mapRest (fun _ => [])

/-- **segmentation_independent** (server; for configurations that do not serve the Flash policy file — with it the
verdict on `<policy-file-request/>\0` is given before a later header terminator could arrive, see the `example`):
feeding any chunking gives the verdict of feeding the concatenation, up to the pipelined octets after the header. -/
theorem segmentation_independent_server (cfg : SrvCfg) (env : SrvEnv) (hflash : cfg.flashPolicy = false)
    (cs : List Bytes) : (serverFeed cfg env cs).dropRest = (server cfg env cs.flatten).dropRest := by
  have := feed_generic (server cfg env) SrvOut.isIncomplete SrvOut.mapRest SrvOut.dropRest .incomplete
    (server_incomplete_iff hflash)
    (by
      intro d hd
      have := (server_incomplete_iff (env := env) hflash d).2 hd
      cases hs : server cfg env d <;> simp [hs, SrvOut.isIncomplete] at this
      rfl)
    (fun d i t h => server_append_done h t)
    (by intro f o; cases o <;> rfl)
    [] (by decide) cs
  simpa [serverFeed] using this

/-- **segmentation_independent** (client), for all keys, configurations and chunkings. -/
theorem segmentation_independent_client (cfg : CliCfg) (key : Bytes) (cs : List Bytes) :
    (clientFeed cfg key cs).dropRest = (client cfg key cs.flatten).dropRest := by
  have := feed_generic (client cfg key) CliOut.isIncomplete CliOut.mapRest CliOut.dropRest .incomplete
    (client_incomplete_iff cfg key)
    (by
      intro d hd
      have := (client_incomplete_iff cfg key d).2 hd
      cases hs : client cfg key d <;> simp [hs, CliOut.isIncomplete] at this
      rfl)
    (fun d i t h => client_append_done h t)
    (by intro f o; cases o <;> rfl)
    [] (by decide) cs
  simpa [clientFeed] using this

/-! ### never escapes -/

theorem isFail_not_escape {o : SrvOut} (h : IsFail o) : o.isEscape = false := by
  obtain ⟨c, e, rfl⟩ := h; rfl

/-- **server_never_escapes** (full, since fix cb4d1ff0): for every configuration, environment — whatever `parse_qs`,
`hyperlink`, `int`, `ipaddress` and the user's `onConnect` do — and every byte string, no exception leaves
`processHandshake`. -/
theorem server_never_escapes (cfg : SrvCfg) (env : SrvEnv) (data : Bytes) :
    (server cfg env data).isEscape = false := by
  unfold server
  split
  · split <;> rfl
  · split
    · rfl
    · split
      · next o ho =>
        rcases validate_error ho with h | ⟨_, _, h | h⟩
        · exact isFail_not_escape h
        · obtain ⟨r, rfl⟩ := h; rfl
        · obtain ⟨r, rfl⟩ := h; rfl
      · split
        · rfl
        · rfl
        · next proto uh _ =>
          rcases succeed_cases cfg _ proto uh with ⟨o, _, _, h3, h⟩ | h
          · rw [h]; exact h3
          · rw [h]; rfl

theorem feed_result_cases {α : Type} (judge : Bytes → α) (inc : α → Bool) (incv : α) (d : Bytes) (cs : List Bytes) :
    (feedAllWith judge inc (.buffering d) cs).result incv = incv ∨
    ∃ d', (feedAllWith judge inc (.buffering d) cs).result incv = judge d' := by
  induction cs generalizing d with
  | nil => left; rfl
  | cons c cs ih =>
    simp only [feedAllWith, List.foldl_cons, feedWith]
    split
    · exact ih (d ++ c)
    · right
      have := feedAll_done judge inc (judge (d ++ c)) cs
      simp only [feedAllWith] at this
      rw [this]
      exact ⟨d ++ c, rfl⟩

/-- … and therefore none leaves `dataReceived`, however the octets are segmented (full) -/
theorem serverFeed_never_escapes (cfg : SrvCfg) (env : SrvEnv) (cs : List Bytes) :
    (serverFeed cfg env cs).isEscape = false := by
  unfold serverFeed
  rcases feed_result_cases (server cfg env) SrvOut.isIncomplete .incomplete [] cs with h | ⟨d, h⟩
  · rw [h]; rfl
  · rw [h]; exact server_never_escapes cfg env d

/-- a complete header block always has a first line: `raw[0]` in `parseHttpHeader` cannot raise -/
theorem parse_head_some {data : Bytes} {i : Nat} (h : find crlfcrlf data = some i) :
    parseHttpHeader (data.take (i + 4)) ≠ none := by
  have hs := (find_some_iff crlfcrlf data i).1 h
  have hb : i + 4 ≤ data.length := by simpa [crlfcrlf] using find_bound h
  obtain ⟨t, ht⟩ := hs.2.1
  have : data.take (i + 4) = data.take i ++ [13, 10, 13, 10] := by
    have h1 : data = data.take i ++ (crlfcrlf ++ t) := by rw [ht, List.take_append_drop]
    have hl : (data.take i).length = i := by simp; omega
    conv => lhs; rw [h1]
    rw [List.take_append, hl]
    simp [crlfcrlf, List.take_take]
  rw [this]
  unfold parseHttpHeader
  have := splitlines_ends_crlfcrlf (data.take i)
  split
  · next hnil => exact absurd hnil this
  · simp

/-- **client_never_escapes** (full, since fix 96829a53): for every configuration, key and byte string — valid UTF-8 or
not — no exception leaves the client's `processHandshake` (the only raising operation left in the model, `raw[0]`, is
unreachable: `parse_head_some`). -/
theorem client_never_escapes (cfg : CliCfg) (key data : Bytes) : (client cfg key data).isEscape = false := by
  unfold client
  split
  · rfl
  · next eoh hf =>
    simp only
    split
    · next hp => exact absurd hp (parse_head_some hf)
    · split
      · next o ho => rw [cvalidate_error ho]; rfl
      · rfl

theorem clientFeed_never_escapes (cfg : CliCfg) (key : Bytes) (cs : List Bytes) :
    (clientFeed cfg key cs).isEscape = false := by
  unfold clientFeed
  rcases feed_result_cases (client cfg key) CliOut.isIncomplete .incomplete [] cs with h | ⟨d, h⟩
  · rw [h]; rfl
  · rw [h]; exact client_never_escapes cfg key d

/-- the inputs that used to escape (F5a, F5b, F4) now end in an HTTP 400 + drop, resp. a dropped connection -/
example : server {} { redirect := .url b!"http://x.y/" .bad }
    b!"GET /?redirect=http%3A%2F%2Fx.y&after=abc HTTP/1.1\r\nHost: a\r\n\r\n" = .fail 400 [] := by decide
example : server {} { redirect := .bad .urlParseError }
    b!"GET /?redirect=http%3A%2F%2F[ HTTP/1.1\r\nHost: a\r\n\r\n" = .fail 400 [] := by decide
example : client {} b!"AAAAAAAAAAAAAAAAAAAAAA==" (b!"HTTP/1.1 101 " ++ [0xff] ++ crlfcrlf) = .fail := by decide

/-! ### the 101 reply -/

/-- how an `opened` verdict comes about -/
theorem server_opened_eq {cfg : SrvCfg} {env : SrvEnv} {data resp rest : Bytes} {proto : Option Bytes} {exts : List Bytes}
    (h : server cfg env data = .opened resp proto exts rest) :
    ∃ eoh line hs v uh p', find crlfcrlf data = some eoh ∧ parseHttpHeader (data.take (eoh + 4)) = some (line, hs) ∧
      validate cfg env line hs = .ok v ∧ env.onConnect = .accept p' uh ∧
      succeed cfg v p' uh (data.drop (eoh + 4)) = .opened resp proto exts rest := by
  unfold server at h
  split at h
  · split at h <;> cases h
  · next eoh hf =>
    split at h
    · cases h
    · next line hs hp =>
      split at h
      · next o ho =>
        have := validate_error_not_opened ho
        rw [h] at this; cases this
      · next v hv =>
        split at h
        · cases h
        · cases h
        · next p' uh hoc => exact ⟨eoh, line, hs, v, uh, p', hf, hp, hv, hoc, h⟩

/-- the extension strings a reply can carry: the accept string of a permessage-deflate offer of the client -/
def ReplyExtOk (offers : List Ext) (e : Bytes) : Prop :=
  ∃ o ∈ offers, isPmce o.name = true ∧ o.name = b!"permessage-deflate" ∧ e = deflateAcceptString o

theorem replyExts_ok (cfg : SrvCfg) (v : Validated) : ∀ e ∈ replyExts cfg v, ReplyExtOk v.exts e := by
  intro e he
  unfold replyExts at he
  split at he
  · simp at he
  · split at he
    · next o ho =>
      simp at he
      subst he
      have hm := List.mem_of_find?_eq_some ho
      have hn := List.find?_some ho
      simp at hm hn
      exact ⟨o, hm.1, hm.2, hn, rfl⟩
    · simp at he

theorem succeed_opened_eq {cfg : SrvCfg} {v : Validated} {p' proto : Option Bytes} {uh : List (Bytes × Bytes)}
    {r resp rest : Bytes} {exts : List Bytes} (h : succeed cfg v p' uh r = .opened resp proto exts rest) :
    proto = p' ∧ rest = r ∧ (∀ p, proto = some p → p ∈ v.protocols) ∧
    resp = utf8Encode (renderResponse cfg uh proto v.key exts) ∧ ∀ e ∈ exts, ReplyExtOk v.exts e := by
  have hop : (succeed cfg v p' uh r).isOpened = true := by rw [h]; rfl
  have hpr := ((succeed_opened_iff cfg v p' uh r).1 hop).1
  rcases succeed_cases cfg v p' uh with ⟨o, h1, _, _, ho⟩ | ho
  · rw [ho] at hop; rw [h1] at hop; cases hop
  · rw [ho] at h
    cases h
    exact ⟨rfl, rfl, hpr, rfl, replyExts_ok cfg v⟩

/-- **server_reply_correct**: whenever the server model opens, for all inputs — the reply is the rendered 101 response for
the key the client sent (`Sec-WebSocket-Accept` = `acceptDigest key`), the subprotocol is none or one the client announced,
and every extension in the reply answers a permessage-deflate offer present in the request. -/
theorem server_reply_correct {cfg : SrvCfg} {env : SrvEnv} {data resp rest : Bytes} {proto : Option Bytes}
    {exts : List Bytes} (h : server cfg env data = .opened resp proto exts rest) :
    ∃ line hs uh, ParsedHead data line hs ∧ env.onConnect = .accept proto uh ∧
      resp = utf8Encode (renderResponse cfg uh proto (strip (value hs b!"sec-websocket-key")) exts) ∧
      (∀ p, proto = some p → p ∈ offered hs) ∧
      (∀ e ∈ exts, ReplyExtOk (parseExtensions (value hs b!"sec-websocket-extensions")) e) := by
  obtain ⟨eoh, line, hs, v, uh, p', hf, hp, hv, hoc, hs'⟩ := server_opened_eq h
  obtain ⟨rfl, _, hpr, hresp, hext⟩ := succeed_opened_eq hs'
  have wf := parse_wf hp
  obtain ⟨uri, h1, h2, h3, h4, h5, ver, h6, ps, h7, h8, key, h9, ex, h10, h11, rfl⟩ := (validate_ok _ _ _ _ _).1 hv
  have hps := (stageProtocols_ok hs ps).1 h7
  have hk := (stageKey_ok wf key).1 h9
  have hx := (stageExtensions_ok ex).1 h10
  refine ⟨line, hs, uh, ⟨eoh, hf, hp⟩, hoc, ?_, ?_, ?_⟩
  · rw [hresp]; simp only; rw [hk.2]
  · intro p hp2
    have := hpr p hp2
    simp only at this
    rw [hps.2] at this
    exact this
  · intro e he
    have := hext e he
    simp only at this
    rw [hx.2] at this
    exact this

/-- the rendered response is a 101 … -/
theorem renderResponse_status (cfg : SrvCfg) (uh : List (Bytes × Bytes)) (proto : Option Bytes) (key : Bytes)
    (exts : List Bytes) :
    ∃ t, renderResponse cfg uh proto key exts = b!"HTTP/1.1 101 Switching Protocols" ++ crlf ++ t := by
  unfold renderResponse
  simp only [List.append_assoc]
  exact ⟨_, rfl⟩

/-- … that carries `Sec-WebSocket-Accept: base64(sha1(key ++ GUID))` -/
theorem renderResponse_accept (cfg : SrvCfg) (uh : List (Bytes × Bytes)) (proto : Option Bytes) (key : Bytes)
    (exts : List Bytes) :
    ∃ a b, renderResponse cfg uh proto key exts =
      a ++ (b!"Sec-WebSocket-Accept: " ++ Crypto7.Base64.encode (Crypto7.Sha1.hash (key ++ guid)) ++ crlf) ++ b := by
  unfold renderResponse acceptDigest
  refine ⟨b!"HTTP/1.1 101 Switching Protocols" ++ crlf
    ++ (if cfg.serverHeader.isEmpty then [] else b!"Server: " ++ cfg.serverHeader ++ crlf)
    ++ b!"Upgrade: WebSocket" ++ crlf ++ b!"Connection: Upgrade" ++ crlf
    ++ renderHeaders cfg.headers ++ renderHeaders uh
    ++ (match proto with | some p => b!"Sec-WebSocket-Protocol: " ++ p ++ crlf | none => []),
    (if exts.isEmpty then [] else b!"Sec-WebSocket-Extensions: " ++ join [44] exts ++ crlf) ++ crlf, ?_⟩
  simp only [List.append_assoc]
  rfl

/-- the accept string of an offer names the extension of that offer -/
theorem deflateAcceptString_prefix (o : Ext) : b!"permessage-deflate" <+: deflateAcceptString o := by
  unfold deflateAcceptString
  dsimp only
  have h2 : b!"permessage-deflate" <+:
      (if (paramVals o b!"server_no_context_takeover").isEmpty then b!"permessage-deflate"
       else b!"permessage-deflate" ++ b!"; server_no_context_takeover") := by
    split
    · exact List.prefix_rfl
    · exact List.prefix_append _ _
  split
  · split
    · exact (h2.trans (List.prefix_append _ _)).trans (List.prefix_append _ _)
    · exact h2
  · exact h2

/-! ### origin -/

/-- **origin_whole_match**: a request that passes the origin stage has no origin header (of its version), or a
`null`-like origin with `allowNullOrigin`, or an origin whose reconstruction `scheme://host:port` is matched IN FULL by one
of the allowed patterns.  (The stage evaluates the regex of `wildcards2patterns`, `^…$` with `$` also matching before a
final newline; `originHeader_noNl` shows that no reconstructed origin contains a newline, so this is `Glob.fullMatch`.) -/
theorem origin_whole_match {cfg : SrvCfg} {env : SrvEnv} {hs : List Hdr} (wf : HdrsWf hs) {ver : Nat}
    (h : stageOrigin cfg env hs ver = .ok ()) :
    count hs (originKey ver) = 0 ∨
    (urlToOrigin env.brOk (strip (value hs (originKey ver))) = some .null ∧ cfg.allowNullOrigin = true) ∨
    ∃ s hst p pat, urlToOrigin env.brOk (strip (value hs (originKey ver))) = some (.triple s hst p) ∧
      pat ∈ cfg.allowedOrigins ∧ Glob.fullMatch pat (originHeader s hst p) = true := by
  rcases (stageOrigin_ok wf ver).1 h with h0 | ⟨_, ha⟩
  · exact .inl h0
  · right
    unfold originAllowed at ha
    split at ha
    · cases ha
    · next heq => exact .inl ⟨heq, ha⟩
    · next s hst p heq =>
      simp at ha
      obtain ⟨pat, hm, hf⟩ := ha
      exact .inr ⟨s, hst, p, pat, heq, hm, hf⟩

/-- whole match is not prefix match: the classic bypass is refused, for the model as for the Spec -/
example : Glob.fullMatch b!"*good.com:80" b!"http://good.com:80" = true ∧
    Glob.fullMatch b!"*good.com:80" b!"http://good.com:80.evil.com:80" = false := by decide

example : (server { allowedOrigins := [b!"http://good.com:80"] } {}
    b!"GET / HTTP/1.1\r\nHost: a\r\nUpgrade: websocket\r\nConnection: Upgrade\r\nOrigin: http://good.com.evil.com\r\nSec-WebSocket-Key: dGhlIHNhbXBsZSBub25jZQ==\r\nSec-WebSocket-Version: 13\r\n\r\n")
    = .fail 400 [] := by decide +kernel

/-! ### the inputs of the repaired defects (each was a known finding with a negation witness here; model and Spec now agree) -/

/-- `Sec-WebSocket-Version: +13` (what `int()` used to read as 13) — refused, as the Spec says -/
example : server {} {} b!"GET / HTTP/1.1\r\nHost: a\r\nUpgrade: websocket\r\nConnection: Upgrade\r\nSec-WebSocket-Key: dGhlIHNhbXBsZSBub25jZQ==\r\nSec-WebSocket-Version: +13\r\n\r\n" = .fail 400 []
    ∧ specRequest {} {} b!"GET / HTTP/1.1\r\nHost: a\r\nUpgrade: websocket\r\nConnection: Upgrade\r\nSec-WebSocket-Key: dGhlIHNhbXBsZSBub25jZQ==\r\nSec-WebSocket-Version: +13\r\n\r\n" = false := by
  decide

/-- … and a plain `13` satisfies both -/
example : (server {} {} b!"GET / HTTP/1.1\r\nHost: a\r\nUpgrade: websocket\r\nConnection: Upgrade\r\nSec-WebSocket-Key: dGhlIHNhbXBsZSBub25jZQ==\r\nSec-WebSocket-Version: 13\r\n\r\n").isOpened = true
    ∧ specRequest {} {} b!"GET / HTTP/1.1\r\nHost: a\r\nUpgrade: websocket\r\nConnection: Upgrade\r\nSec-WebSocket-Key: dGhlIHNhbXBsZSBub25jZQ==\r\nSec-WebSocket-Version: 13\r\n\r\n" = true := by
  decide

/-- the other spellings `int()` took for 13 / 8, and numerals outside 0–255: none is a version numeral -/
example : [b!"+13", b!"1_3", b!"013", b!"+8", b!"08", b!" 13", b!"13 ", b!"256", b!"299", b!"1000", b!"-13", b!""].map versionNumeral
    = List.replicate 12 none ∧
    [b!"0", b!"8", b!"13", b!"99", b!"100", b!"199", b!"249", b!"255"].map versionNumeral
    = [some 0, some 8, some 13, some 99, some 100, some 199, some 249, some 255] := by decide

/-- status `+101` (what `int()` used to read as 101) — the client fails the handshake, as the Spec says -/
example : client {} b!"dGhlIHNhbXBsZSBub25jZQ==" b!"HTTP/1.1 +101 X\r\nUpgrade: websocket\r\nConnection: Upgrade\r\nSec-WebSocket-Accept: s3pPLMBiTxaQ9kYGzzhZRbK+xOo=\r\n\r\n" = .fail
    ∧ specResponse {} b!"dGhlIHNhbXBsZSBub25jZQ==" b!"HTTP/1.1 +101 X\r\nUpgrade: websocket\r\nConnection: Upgrade\r\nSec-WebSocket-Accept: s3pPLMBiTxaQ9kYGzzhZRbK+xOo=\r\n\r\n" = false := by
  decide +kernel

example : [b!"+101", b!"1_01", b!"0101", b!"00101", b!" 101", b!"101 ", b!"10", b!""].map statusCode = List.replicate 8 none
    ∧ statusCode b!"101" = some 101 ∧ statusCode b!"200" = some 200 ∧ statusCode b!"007" = some 7 := by decide

/-- a client that announced `b` (its `onConnecting` returned a request of its own; `factory.protocols` plays no part any
more) refuses `a`, which it never requested, and accepts `b` -/
example : client { protocols := [b!"b"] } b!"dGhlIHNhbXBsZSBub25jZQ=="
      b!"HTTP/1.1 101 X\r\nUpgrade: websocket\r\nConnection: Upgrade\r\nSec-WebSocket-Accept: s3pPLMBiTxaQ9kYGzzhZRbK+xOo=\r\nSec-WebSocket-Protocol: a\r\n\r\n" = .fail
    ∧ client { protocols := [b!"b"] } b!"dGhlIHNhbXBsZSBub25jZQ=="
      b!"HTTP/1.1 101 X\r\nUpgrade: websocket\r\nConnection: Upgrade\r\nSec-WebSocket-Accept: s3pPLMBiTxaQ9kYGzzhZRbK+xOo=\r\nSec-WebSocket-Protocol: b\r\n\r\n" = .opened (some b!"b") [] [] := by
  decide +kernel

/-- with the Flash policy file served, the verdict depends on segmentation (why `segmentation_independent_server` asks
for `flashPolicy = false`) -/
example : serverFeed { flashPolicy := true } {} [flashRequest, b!"\r\n\r\n"] = .flash
    ∧ server { flashPolicy := true } {} (flashRequest ++ b!"\r\n\r\n") = .fail 400 [] := by decide

/-! ### the client request -/

/-- **request_targets_url**: for every configuration and key the request line is `GET <resource> HTTP/1.1`, followed
(after the optional User-Agent) by `Host: <host>:<port>` — the `(host, port, resource)` the factory holds, the host in
brackets when it is an IPv6 address (`hostHeader`). -/
theorem request_targets_url (cfg : CliCfg) (key : Bytes) :
    ∃ ua rest, (ua = [] ∨ ua = b!"User-Agent: " ++ cfg.useragent ++ crlf) ∧
      clientRequest cfg key = utf8Encode (b!"GET " ++ cfg.resource ++ b!" HTTP/1.1" ++ crlf ++ ua ++
        b!"Host: " ++ hostHeader cfg.host ++ b!":" ++ natDigits cfg.port ++ crlf ++ rest) := by
  unfold clientRequest
  generalize hostHeader cfg.host = hh
  by_cases hu : cfg.useragent.isEmpty = true
  · exact ⟨[], _, .inl rfl, by rw [if_pos hu]; simp only [List.append_assoc, List.append_nil, List.nil_append]; rfl⟩
  · exact ⟨_, _, .inr rfl, by rw [if_neg hu]; simp only [List.append_assoc]; rfl⟩

/-- `hostHeader` leaves a registered name or IPv4 address alone and brackets an IPv6 address exactly once -/
theorem hostHeader_plain {h : Bytes} (hc : contains 58 h = false) : hostHeader h = h := by
  simp [hostHeader, hc]

theorem hostHeader_v6 {h : Bytes} (hc : contains 58 h = true) (hb : h.head? ≠ some 91) :
    hostHeader h = [91] ++ h ++ [93] := by
  unfold hostHeader
  have : (h.head? != some 91) = true := by simpa using hb
  simp [hc, this]

theorem hostHeader_bracketed (h : Bytes) : hostHeader (91 :: h) = 91 :: h := by
  simp [hostHeader]

/-- what `parse_url` hands to the factory (model `parseUrl`) -/
example : parseUrl (fun _ => true) b!"wss://example.com:8443/p/q?x=1" = some ⟨true, b!"example.com", 8443, b!"/p/q?x=1"⟩ := by
  decide
/-- path parameters of the last segment stay in the resource (they were dropped: repaired finding) -/
example : parseUrl (fun _ => true) b!"ws://h/a;x=1?q=2" = some ⟨false, b!"h", 80, b!"/a;x=1?q=2"⟩
    ∧ parseUrl (fun _ => true) b!"ws://h/;" = some ⟨false, b!"h", 80, b!"/;"⟩ := by decide
/-- an IPv6 host is still handed to the factory without its brackets … -/
example : parseUrl (fun _ => true) b!"ws://[::1]:9000/" = some ⟨false, b!"::1", 9000, b!"/"⟩ := by decide
/-- … and the request puts them back: `Host: [::1]:9000` (it said `Host: ::1:9000`: repaired finding) -/
example : hostHeader b!"::1" = b!"[::1]" ∧ hostHeader b!"[::1]" = b!"[::1]" ∧ hostHeader b!"example.com" = b!"example.com"
    ∧ hostHeader b!"127.0.0.1" = b!"127.0.0.1" := by decide

theorem ite_none_some {α : Type} {c : Prop} [Decidable c] {a w : α} (h : (if c then none else some a) = some w) :
    a = w := by
  split at h
  · cases h
  · exact Option.some.inj h

/-- **resource_is_path_and_query**: whenever `parseUrl` accepts a URL, the resource is the path as `urlsplit` returns it
(`/` if empty) followed by `?query` when the query is not empty — nothing of the path is dropped -/
theorem resource_is_path_and_query {brOk : Bytes → Bool} {url : Bytes} {w : WsUrl} (h : parseUrl brOk url = some w) :
    ∃ u, urlsplit brOk url = some u ∧
      w.resource = (if u.path = [] then b!"/" else u.path) ++ (if u.query ≠ [] then b!"?" ++ u.query else []) := by
  unfold parseUrl at h
  split at h
  · cases h
  · next u hu =>
    refine ⟨u, hu, ?_⟩
    split at h
    · cases h
    split at h
    · cases h
    split at h
    · cases h
    split at h
    · cases h
    dsimp only at h
    split at h
    · cases h
    · have := ite_none_some h
      subst this
      simp only
      by_cases hq : u.query ≠ [] <;> simp [hq]

/-- `HeaderSafe` is satisfiable, so `parse_render_headers` applies to what the client and server render -/
example : HeaderSafe (b!"X-Custom", b!"some value") :=
  ⟨by decide, by decide +kernel, by decide +kernel, by decide +kernel, by decide +kernel⟩

end Abverif.Handshake
