import Abverif.Model.WsSpec
import Abverif.Proofs.Lemmas.WsExt
/-
C05 — WebSocket connections close exactly once, in order.
Theorems over ARBITRARY operation sequences (`run (start cfg) ops`, any length), by induction with the relation `Ext`
(Proofs/Lemmas/WsExt.lean) that every operation except the framework's connection-lost notification satisfies.
-/
namespace Abverif.Ws

/-! ### the framework's connection-lost notification -/

def countOnClose (log : List Out) : Nat := (log.filter Out.isOnClose).length

theorem markClosed_st (s : S) : (markClosed s).st = .closed := by
  unfold markClosed
  split
  · rfl
  · rename_i h; simpa using h

theorem reportClose_st (s : S) : (reportClose s).st = s.st := by
  unfold reportClose
  split
  · dsimp only; split <;> rfl
  · rfl

theorem reportClose_lost (s : S) : (reportClose s).lost = s.lost := by
  unfold reportClose
  split
  · dsimp only; split <;> rfl
  · rfl

theorem markClosed_lost (s : S) : (markClosed s).lost = s.lost := by
  unfold markClosed
  split <;> rfl

theorem reportClose_count (s : S) : countOnClose (reportClose s).log = countOnClose s.log + 1 := by
  unfold reportClose countOnClose
  split
  · dsimp only
    split <;> simp [S.emit, List.filter_append] <;> rfl
  · simp [S.emit, List.filter_append]; rfl

theorem markClosed_count (s : S) : countOnClose (markClosed s).log = countOnClose s.log := by
  unfold markClosed countOnClose
  split
  · simp [S.emit, List.filter_append, Out.isOnClose]
  · rfl

theorem unsentUnclean_st (s : S) : (unsentUnclean s).st = s.st := by unfold unsentUnclean; split <;> rfl
theorem unsentUnclean_lost (s : S) : (unsentUnclean s).lost = s.lost := by unfold unsentUnclean; split <;> rfl
theorem unsentUnclean_log (s : S) : (unsentUnclean s).log = s.log := by unfold unsentUnclean; split <;> rfl

theorem connectionLost_rank (s : S) : s.st.rank ≤ (connectionLost s).st.rank := by
  unfold connectionLost
  split
  · exact Nat.le_refl _
  · rw [reportClose_st, unsentUnclean_st, markClosed_st]; exact rank_le_closed _

theorem connectionLost_closed (s : S) (h : s.lost = false) :
    (connectionLost s).st = .closed ∧ (connectionLost s).lost = true := by
  unfold connectionLost
  rw [if_neg (by simp [h])]
  exact ⟨by rw [reportClose_st, unsentUnclean_st, markClosed_st], by rw [reportClose_lost, unsentUnclean_lost, markClosed_lost]; rfl⟩

/-- `connectionLost` on a connection that has not been lost yet emits exactly one `onClose` -/
theorem connectionLost_emits_one (s : S) (h : s.lost = false) :
    countOnClose (connectionLost s).log = countOnClose s.log + 1 := by
  unfold connectionLost
  rw [if_neg (by simp [h]), reportClose_count, unsentUnclean_log, markClosed_count]
  rfl

theorem connectionLost_idem (s : S) (h : s.lost = true) : connectionLost s = s := by
  unfold connectionLost; simp [h]

/-! ### invariants over arbitrary histories -/

theorem Ext.count {a b : S} (h : Ext a b) : countOnClose b.log = countOnClose a.log := by
  obtain ⟨d, e, n⟩ := h.log
  unfold countOnClose
  rw [e, List.filter_append]
  have : d.filter Out.isOnClose = [] := by
    rw [List.filter_eq_nil_iff]
    intro o ho
    simp [n o ho]
  simp [this]

theorem step_rank (s : S) (op : Op) : s.st.rank ≤ (step s op).st.rank := by
  unfold step
  refine Nat.le_trans ?_ (pump_Ext _).rank
  by_cases h : op = .lost
  · subst h; exact connectionLost_rank s
  · exact (stepCore_Ext s op h).rank

/-- **state_monotone**: the connection state only moves forward (CONNECTING < OPEN < CLOSING < CLOSED) under every
sequence of API calls, reads, clock advances and connection loss -/
theorem state_monotone (s : S) (ops : List Op) : s.st.rank ≤ (run s ops).st.rank := by
  induction ops generalizing s with
  | nil => exact Nat.le_refl _
  | cons op ops ih =>
    simp only [run, List.foldl_cons]
    exact Nat.le_trans (step_rank s op) (ih _)

/-- the close notification has been delivered exactly when the transport is gone, and never more than once -/
def CloseOnce (s : S) : Prop :=
  (s.lost = false ∧ countOnClose s.log = 0) ∨ (s.lost = true ∧ countOnClose s.log = 1)

theorem step_closeOnce (s : S) (op : Op) (h : CloseOnce s) : CloseOnce (step s op) := by
  unfold step
  have hp := pump_Ext (stepCore s op)
  unfold CloseOnce
  rw [hp.lost, hp.count]
  by_cases hop : op = .lost
  · subst hop
    simp only [stepCore]
    rcases h with ⟨hl, hc⟩ | ⟨hl, hc⟩
    · right
      exact ⟨(connectionLost_closed s hl).2, by rw [connectionLost_emits_one s hl, hc]⟩
    · right
      rw [connectionLost_idem s hl]; exact ⟨hl, hc⟩
  · have he := stepCore_Ext s op hop
    rw [he.lost, he.count]
    exact h

theorem run_closeOnce (s : S) (ops : List Op) (h : CloseOnce s) : CloseOnce (run s ops) := by
  induction ops generalizing s with
  | nil => exact h
  | cons op ops ih =>
    simp only [run, List.foldl_cons]
    exact ih _ (step_closeOnce s op h)

theorem start_closeOnce (cfg : Cfg) : CloseOnce (start cfg) := by
  unfold start CloseOnce
  dsimp only
  split <;> simp [armPingNext, S.timer, countOnClose]

/-- **onClose_at_most_once** (and exactly once after the transport is gone, never before): for every configuration
and every history -/
theorem onClose_at_most_once (cfg : Cfg) (ops : List Op) :
    countOnClose (run (start cfg) ops).log ≤ 1 ∧
    ((run (start cfg) ops).lost = true ↔ countOnClose (run (start cfg) ops).log = 1) := by
  rcases run_closeOnce _ ops (start_closeOnce cfg) with ⟨hl, hc⟩ | ⟨hl, hc⟩
  · simp [hl, hc]
  · simp [hl, hc]

/-- only the connection-lost event delivers `onClose` (so it comes after the transport is gone) -/
theorem onClose_only_at_lost (s : S) (op : Op) (h : op ≠ .lost) :
    countOnClose (step s op).log = countOnClose s.log := by
  unfold step
  rw [(pump_Ext _).count, (stepCore_Ext s op h).count]

/-- once the transport is gone the connection is CLOSED -/
theorem lost_closed (s : S) (h : s.lost = false) : (step s .lost).st = .closed := by
  unfold step
  have h1 := (connectionLost_closed s h).1
  have h2 := (pump_Ext (stepCore s .lost)).rank
  simp only [stepCore] at h2 ⊢
  rw [h1] at h2
  generalize (pump (connectionLost s)).st = st at h2
  cases st <;> simp [St.rank] at h2 ⊢

end Abverif.Ws

namespace Abverif.Ws

/-! ### nothing is delivered or written after the close notification -/

def Out.isRaised : Out → Bool
  | .raised _ => true
  | _ => false

/-- a connection whose transport is gone -/
def Dead (s : S) : Prop := s.lost = true ∧ s.st = .closed

/-- `b` is `a` plus exceptions raised to the caller: nothing written, delivered, dropped or notified -/
def OnlyRaised (a b : S) : Prop := Dead b ∧ ∃ d, b.log = a.log ++ d ∧ ∀ o ∈ d, o.isRaised = true

theorem OnlyRaised.refl {a : S} (h : Dead a) : OnlyRaised a a := ⟨h, [], by simp, by simp⟩

theorem OnlyRaised.trans {a b c : S} (h1 : OnlyRaised a b) (h2 : OnlyRaised b c) : OnlyRaised a c := by
  obtain ⟨_, d1, e1, n1⟩ := h1
  obtain ⟨hc, d2, e2, n2⟩ := h2
  refine ⟨hc, d1 ++ d2, by rw [e2, e1, List.append_assoc], ?_⟩
  intro o ho
  rcases List.mem_append.mp ho with h | h
  · exact n1 o h
  · exact n2 o h

theorem OnlyRaised.raise {a : S} (h : Dead a) (e : Err) : OnlyRaised a (a.emit (.raised e)) :=
  ⟨h, [.raised e], rfl, by simp [Out.isRaised]⟩

theorem fire_dead (s : S) (k : TK) (h : Dead s) : OnlyRaised s (fire s k) := by
  have hi := timers_inert_after_close' s k h.2
  refine ⟨⟨?_, hi.2⟩, [], by simp [hi.1], by simp⟩
  rw [(fire_Ext s k).lost]; exact h.1
where
  timers_inert_after_close' (s : S) (k : TK) (h : s.st = .closed) : (fire s k).log = s.log ∧ (fire s k).st = .closed := by
    cases k
    · simp [fire, h]
    · simp [fire, h]
    · simp [fire, h]
    · simp [fire, h]
    · have hp : sendPing (beginAutoPing s) ((beginAutoPing s).pingPending.getD []) = beginAutoPing s := by
        unfold sendPing
        rw [if_pos (by simp [beginAutoPing, h])]
      simp only [fire, sendAutoPing, hp]
      split <;> simp [armPingTimeout, S.timer, beginAutoPing, h]
    · simp only [fire, sendTick]
      split
      · simp [S.timer, S.emit, h]
      · simp [h]

theorem advanceTo_dead (target fuel : Nat) (s : S) (h : Dead s) : OnlyRaised s (advanceTo target fuel s) := by
  induction fuel generalizing s with
  | zero => exact OnlyRaised.refl h
  | succ n ih =>
    unfold advanceTo
    split
    · rename_i k d q hn
      split
      · have h1 : Dead { s with now := max s.now d } := h
        have h2 := fire_dead { s with now := max s.now d } k h1
        have h3 := ih _ h2.1
        exact OnlyRaised.trans (a := s) ⟨h2.1, h2.2⟩ h3
      · exact ⟨h, [], by simp, by simp⟩
    · exact ⟨h, [], by simp, by simp⟩

/-- **silent_after_onClose**: once the transport is gone (and the close notification delivered), no operation of any
kind — late data, timers, API calls — writes, delivers, drops or notifies anything; API calls at most raise -/
theorem silent_after_onClose (s : S) (op : Op) (h : Dead s) : OnlyRaised s (step s op) := by
  unfold step pump
  have core : OnlyRaised s (stepCore s op) := by
    have hst := h.2
    have hl := h.1
    cases op <;> simp only [stepCore]
    · simp [dataReceived, hl]; exact OnlyRaised.refl h
    · rw [connectionLost_idem s hl]; exact OnlyRaised.refl h
    · exact advanceTo_dead _ _ _ h
    · simp [sendMessage, hst]; exact OnlyRaised.raise h _
    · unfold sendPrepared
      dsimp only
      have hk : Dead (prepareKey s).1 := by
        unfold prepareKey; split <;> exact h
      have hlog : (prepareKey s).1.log = s.log := by unfold prepareKey; split <;> rfl
      split
      · exact ⟨hk, [.raised .exception], by simp [S.emit, hlog], by simp [Out.isRaised]⟩
      · rw [if_pos (by rw [hk.2]; simp)]
        exact ⟨hk, [.raised .disconnected], by simp [S.emit, hlog], by simp [Out.isRaised]⟩
    · simp [beginMessage, hst]; exact OnlyRaised.refl h
    · simp [beginMessageFrame, hst]; exact OnlyRaised.refl h
    · simp [sendMessageFrameData, hst]; exact OnlyRaised.refl h
    · simp [endMessage, hst]; exact OnlyRaised.refl h
    · simp [sendMessageFrame, hst]; exact OnlyRaised.refl h
    · simp [sendPing, hst]; exact OnlyRaised.refl h
    · simp [sendPong, hst]; exact OnlyRaised.refl h
    · unfold sendClose
      split
      · exact OnlyRaised.raise h _
      · split
        · exact OnlyRaised.raise h _
        · simp [sendCloseFrame, hst]; exact OnlyRaised.refl h
    · simp [handshakeDone, hst]; exact OnlyRaised.refl h
    · simp [handshakeDone, hst, dataReceived, hl]; exact OnlyRaised.refl h
  exact OnlyRaised.trans core (advanceTo_dead _ _ _ core.1)

/-- after the transport is gone the connection stays dead for the whole rest of the history -/
theorem dead_forever (s : S) (ops : List Op) (h : Dead s) : Dead (run s ops) := by
  induction ops generalizing s with
  | nil => exact h
  | cons op ops ih =>
    simp only [run, List.foldl_cons]
    exact ih _ (silent_after_onClose s op h).1

end Abverif.Ws

namespace Abverif.Ws

/-! ### at most one close frame, and only a legal one -/

/-- invariant on the record of close frames sent (`closeSent` is a history variable appended to by `sendCloseFrame`
at the place where it hands the frame `8 ‖ closePayload code reason` to `sendFrame`) -/
def CloseInv (s : S) : Prop :=
  s.closeSent.length ≤ 1 ∧ (s.closeSent ≠ [] → 2 ≤ s.st.rank) ∧ ∀ x ∈ s.closeSent, LegalClose x

theorem Ext.closeInv {a b : S} (h : Ext a b) (ha : CloseInv a) : CloseInv b := by
  obtain ⟨h1, h2, h3⟩ := ha
  rcases h.cs with e | ⟨ra, rb, x, ex, lx⟩
  · rw [CloseInv, e]
    exact ⟨h1, fun hne => Nat.le_trans (h2 hne) h.rank, h3⟩
  · have hnil : a.closeSent = [] := by
      cases hcs : a.closeSent with
      | nil => rfl
      | cons y ys => have := h2 (by simp [hcs]); omega
    rw [CloseInv, ex, hnil]
    refine ⟨by simp, fun _ => rb, ?_⟩
    intro y hy
    simp at hy; subst hy; exact lx

theorem connectionLost_closeSent (s : S) : (connectionLost s).closeSent = s.closeSent := by
  unfold connectionLost
  split
  · rfl
  · unfold reportClose unsentUnclean markClosed cancelOnLost
    split <;> split <;> (try split) <;> (try split) <;> rfl

theorem step_closeInv (s : S) (op : Op) (h : CloseInv s) : CloseInv (step s op) := by
  unfold step
  refine (pump_Ext _).closeInv ?_
  by_cases hop : op = .lost
  · subst hop
    simp only [stepCore]
    obtain ⟨h1, h2, h3⟩ := h
    rw [CloseInv, connectionLost_closeSent]
    exact ⟨h1, fun hne => Nat.le_trans (h2 hne) (connectionLost_rank s), h3⟩
  · exact (stepCore_Ext s op hop).closeInv h

theorem run_closeInv (s : S) (ops : List Op) (h : CloseInv s) : CloseInv (run s ops) := by
  induction ops generalizing s with
  | nil => exact h
  | cons op ops ih =>
    simp only [run, List.foldl_cons]
    exact ih _ (step_closeInv s op h)

theorem start_closeInv (cfg : Cfg) : CloseInv (start cfg) := by
  unfold start CloseInv
  dsimp only
  split <;> simp [armPingNext, S.timer]

/-- **one_close_frame / close_frame_legal**: for every configuration and every history, at most one close frame is
ever sent; when one has been sent the connection is CLOSING or CLOSED; and its status code is one RFC 6455 §7.4 allows
on the wire (whether it comes from `sendClose`, from a failure, or is the echoed peer code) and its reason is at most
123 octets long -/
theorem one_close_frame (cfg : Cfg) (ops : List Op) :
    (run (start cfg) ops).closeSent.length ≤ 1 ∧
    ((run (start cfg) ops).closeSent ≠ [] → 2 ≤ (run (start cfg) ops).st.rank) ∧
    ∀ x ∈ (run (start cfg) ops).closeSent, LegalClose x :=
  run_closeInv _ ops (start_closeInv cfg)

/-- the frame handed to `sendFrame` for a recorded close is exactly opcode 8 with payload `code ‖ reason` -/
theorem close_frame_on_wire (s : S) (code : Option Nat) (reason : Option Bytes) (r : Bool) (h : s.st = .opened) :
    ∃ s', s' = sendFrame s 8 (closePayload code reason) ∧
      (sendCloseFrame s code reason r).log = s'.log ∧
      (sendCloseFrame s code reason r).closeSent = s.closeSent ++ [(code, reason)] := by
  refine ⟨_, rfl, ?_, ?_⟩
  · unfold sendCloseFrame
    simp only [h]
    split <;> rfl
  · unfold sendCloseFrame
    simp only [h]
    have := (sendFrame_SendEq s 8 (closePayload code reason) true 0 false 0).closeSent
    split
    · show (sendFrame s 8 (closePayload code reason)).closeSent ++ _ = _; rw [this]
    · show (sendFrame s 8 (closePayload code reason)).closeSent ++ _ = _; rw [this]

/-- the payload of a close frame is never of length 1 (a status code takes two octets) -/
theorem closePayload_length (code : Option Nat) (reason : Option Bytes) (h : reason.isSome → code.isSome) :
    (closePayload code reason).length ≠ 1 := by
  unfold closePayload
  cases code with
  | none =>
    cases reason with
    | none => simp
    | some r => simp at h
  | some c => simp [beBytes_length']; omega
where
  beBytes_length' (k n : Nat) : (beBytes k n).length = k := by
    induction k generalizing n with
    | zero => rfl
    | succ k ih => simp [beBytes, ih]

end Abverif.Ws

namespace Abverif.Ws

/-! ### once closing has begun a drop timer is armed -/

theorem step_cbInv (s : S) (op : Op) (h : CBInv s) : CBInv (step s op) := by
  unfold step
  refine (pump_Ext _).cb ?_
  by_cases hop : op = .lost
  · subst hop
    simp only [stepCore]
    intro hc
    by_cases hl : s.lost = true
    · rw [connectionLost_idem s hl] at hc ⊢; exact h hc
    · have := (connectionLost_closed s (by simpa using hl)).1
      rw [this] at hc; cases hc
  · exact (stepCore_Ext s op hop).cb h

theorem start_cbInv (cfg : Cfg) : CBInv (start cfg) := by
  unfold start CBInv
  dsimp only
  split <;> simp [armPingNext, S.timer]

/-- **closing_has_timer** (the invariant behind "closing is bounded"): in every reachable state, for every
configuration and history, a connection in CLOSING has the closing-handshake timer armed, or is a client with the
server-connection-drop timer armed — unless the respective timeout is configured to 0 (disabled).  Together with
`close_timeout_drops` / `server_drop_timeout_drops` (C17) — an armed timer whose deadline has passed means CLOSED — and
`batched_le` (the deadline is never later than now + timeout), CLOSING cannot outlive the configured timeouts. -/
theorem closing_has_timer (cfg : Cfg) (ops : List Op) : CBInv (run (start cfg) ops) := by
  suffices ∀ (s : S), CBInv s → CBInv (run s ops) from this _ (start_cbInv cfg)
  induction ops with
  | nil => intro s h; exact h
  | cons op ops ih =>
    intro s h
    simp only [run, List.foldl_cons]
    exact ih _ (step_cbInv s op h)

/-- non-vacuity: a client that answered the server's close frame is CLOSING with the server-drop timer armed -/
example : (run (start { isServer := false }) [.feed [0x88, 0x00]]).st = .closing ∧
    (run (start { isServer := false }) [.feed [0x88, 0x00]]).tServerDrop.isSome = true := by decide

/-- **late_connect_result_inert** — the application's `onConnect()` may return a pending Deferred/Future; its result
(script op `res`, model `hsDone` = `succeedHandshake` / client `on_connect_success`) arriving when the connection is no
longer CONNECTING changes nothing at all: no state change, nothing written, no callback.  (The real code re-opened a
CLOSED connection here until the repair recorded as `onOpen-after-onClose:deferred-onConnect`; the general statements
`state_monotone`, `silent_after_onClose`, `dead_forever` quantify over `hsDone` like over every other operation, this is
the pointwise form.) -/
theorem late_connect_result_inert (s : S) (h : s.st ≠ .connecting) : stepCore s .hsDone = s := by
  simp [stepCore, handshakeDone, h]

/-- … and while the connection is still CONNECTING the same result opens it, cancelling the opening-handshake timer -/
theorem connect_result_in_time_opens (s : S) (h : s.st = .connecting) :
    (stepCore s .hsDone).st = .opened ∧ (stepCore s .hsDone).tOpenHs = none := by
  simp only [stepCore, handshakeDone, h]
  simp
  split <;> simp [armPingNext, S.timer]

/-- a pending `onConnect` leaves the opening-handshake timer in charge: a server still CONNECTING when the timer's deadline
passes is dropped, and the result arriving afterwards is ignored (corpus case `pending-onconnect-timeout-then-result-server`) -/
example : (run (startConnecting { isServer := true, openHsTimeout := 1048576 }) [.advance 1048584, .hsDone]).st = .closed := by
  decide

end Abverif.Ws
