import Abverif.Proofs.C05
import Mathlib.Data.List.Induction
/-
# C05: the reason of a close frame we send is valid UTF-8 (and at most 123 octets)

`encodeTruncate_valid`: cutting a valid UTF-8 string at any limit and dropping the incomplete code point at the end
(`encode_truncate`: at most three octets are dropped, a fourth try is never needed) gives a valid UTF-8 string.
With `encodeTruncate_le` (≤ limit) this is the property clause "a valid-UTF-8 reason of at most 123 bytes" for both
places a reason comes from: the application's `sendClose(reason=…)` (`sendClose_reason`) and the echoed peer reason
(`replyClose_reason`; the peer's reason was validated by `closeReasonStep` before it was stored).
-/
namespace Abverif.Ws

theorem u8run_append (s : U8) (a b : Bytes) : u8run s (a ++ b) = u8run (u8run s a) b := by
  unfold u8run; rw [List.foldl_append]

theorem u8run_rej (bs : Bytes) : u8run .rej bs = .rej := by
  induction bs with
  | nil => rfl
  | cons b bs ih => unfold u8run at *; simp only [List.foldl_cons]; exact ih

/-- how many octets of an unfinished code point a state can stand for -/
def U8.R : U8 → Nat → Prop
  | .s0, c => c = 0
  | .c1, c => c = 1 ∨ c = 2 ∨ c = 3
  | .e0, c => c = 1
  | .c2, c => c = 1 ∨ c = 2
  | .ed, c => c = 1
  | .f0, c => c = 1
  | .c3, c => c = 1
  | .f4, c => c = 1
  | .rej, _ => False

theorem U8.R_le {st : U8} {c : Nat} (h : st.R c) : c ≤ 3 := by
  cases st <;> simp only [U8.R] at h <;> omega

/-- one more octet: the automaton rejects, or it is at a boundary again, or the unfinished code point has grown by one -/
theorem U8.R_step (st : U8) (c : Nat) (b : UInt8) (h : st.R c) (hn : st.step b ≠ .rej) :
    (st.step b = .s0) ∨ (st.step b).R (c + 1) := by
  cases st <;> simp only [U8.R] at h <;> simp only [U8.step] at hn ⊢
  · -- s0
    subst h
    split
    · left; rfl
    · right
      split
      · simp [U8.R]
      · split
        · simp [U8.R]
        · split
          · simp [U8.R]
          · split
            · simp [U8.R]
            · split
              · simp [U8.R]
              · split
                · simp [U8.R]
                · split
                  · simp [U8.R]
                  · simp_all
  · split
    · left; rfl
    · simp_all
  · split
    · right; subst h; simp [U8.R]
    · simp_all
  · split
    · right; rcases h with h | h <;> subst h <;> simp [U8.R]
    · simp_all
  · split
    · right; subst h; simp [U8.R]
    · simp_all
  · split
    · right; subst h; simp [U8.R]
    · simp_all
  · split
    · right; subst h; simp [U8.R]
    · simp_all
  · split
    · right; subst h; simp [U8.R]
    · simp_all

/-- a string the automaton has not rejected ends at most three octets after a code point boundary -/
theorem boundary_near_end (bs : Bytes) (h : u8run .s0 bs ≠ .rej) :
    ∃ c, c ≤ bs.length ∧ (u8run .s0 bs).R c ∧ u8run .s0 (bs.take (bs.length - c)) = .s0 := by
  induction bs using List.reverseRecOn with
  | nil => exact ⟨0, Nat.le_refl _, rfl, rfl⟩
  | append_singleton init b ih =>
    have hrun : u8run .s0 (init ++ [b]) = (u8run .s0 init).step b := by
      rw [u8run_append]; rfl
    have hi : u8run .s0 init ≠ .rej := by
      intro e; apply h; rw [hrun, e]; rfl
    obtain ⟨c, hc, hR, hb⟩ := ih hi
    rw [hrun] at h ⊢
    rcases U8.R_step _ c b hR h with h0 | h1
    · refine ⟨0, Nat.zero_le _, by rw [h0]; rfl, ?_⟩
      rw [Nat.sub_zero, List.take_length, hrun]; exact h0
    · refine ⟨c + 1, by simp; omega, h1, ?_⟩
      have : (init ++ [b]).length - (c + 1) = init.length - c := by simp
      rw [this, List.take_append_of_le_length (Nat.sub_le _ _)]
      exact hb

theorem dropIncompleteTail_valid :
    ∀ (fuel : Nat) (bs : Bytes) (c : Nat), c < fuel → c ≤ bs.length →
      u8run .s0 (bs.take (bs.length - c)) = .s0 → u8run .s0 (dropIncompleteTail bs fuel) = .s0 := by
  intro fuel
  induction fuel with
  | zero => intro bs c h; omega
  | succ n ih =>
    intro bs c hc hl hb
    unfold dropIncompleteTail
    split
    · rename_i h0; exact h0
    · rename_i h0
      have hc0 : c ≠ 0 := by
        intro e; subst e
        rw [Nat.sub_zero, List.take_length] at hb
        exact h0 hb
      apply ih bs.dropLast (c - 1) (by omega) (by simp; omega)
      have e : bs.dropLast.take (bs.dropLast.length - (c - 1)) = bs.take (bs.length - c) := by
        rw [List.dropLast_eq_take, List.take_take]
        congr 1
        simp
        omega
      rw [e]; exact hb

/-- **`encode_truncate` keeps UTF-8 validity** -/
theorem encodeTruncate_valid (u : Bytes) (limit : Nat) (hv : utf8Valid u = true) :
    utf8Valid (encodeTruncate u limit) = true := by
  unfold encodeTruncate
  split
  · have hs0 : u8run .s0 u = .s0 := by unfold utf8Valid at hv; simpa using hv
    have hnr : u8run .s0 (u.take limit) ≠ .rej := by
      intro e
      have : u8run .s0 u = .rej := by
        conv => lhs; rw [← List.take_append_drop limit u]
        rw [u8run_append, e, u8run_rej]
      rw [hs0] at this; cases this
    obtain ⟨c, hc, hR, hb⟩ := boundary_near_end (u.take limit) hnr
    have := dropIncompleteTail_valid 4 (u.take limit) c (by have := U8.R_le hR; omega) hc hb
    unfold utf8Valid
    simp [this]
  · exact hv

/-- the reason `sendClose(code, reason)` puts into its close frame: valid UTF-8 if the application's text is, ≤ 123 octets -/
theorem sendClose_reason (r : Bytes) (hv : utf8Valid r = true) :
    utf8Valid (encodeTruncate r 123) = true ∧ (encodeTruncate r 123).length ≤ 123 :=
  ⟨encodeTruncate_valid r 123 hv, encodeTruncate_le r 123⟩

/-- the peer's reason is stored only after it passed the UTF-8 check … -/
theorem closeReasonStep_valid (s : S) (reason : Option Bytes) (r : Bytes)
    (h : (closeReasonStep s reason).1.remoteCloseReason = some r) (h0 : s.remoteCloseReason = none)
    (hf : s.cfg.failByDrop = true) : utf8Valid r = true := by
  unfold closeReasonStep at h
  split at h
  · rename_i x
    split at h
    · -- invalid: the violation path does not store a reason
      rename_i hbad
      unfold violation failConnection at h
      simp only [hf] at h
      unfold dropConnection at h
      split at h <;> (try split at h) <;> simp_all [S.emit]
    · rename_i hok
      simp only [Option.some.injEq] at h
      subst h
      simpa using hok
  · rw [h0] at h; cases h

end Abverif.Ws

namespace Abverif.Ws

/-- not vacuous, and the cut really happens inside a code point: 41 copies of "€" (3 octets each) are 123 octets; one
more and the text is cut after 123 octets = exactly 41 whole characters; with a leading "a" the cut at 123 falls inside
a character and two octets are dropped -/
example : utf8Valid ((List.replicate 42 [0xE2, 0x82, 0xAC]).flatten) = true ∧
    (encodeTruncate ((List.replicate 42 [0xE2, 0x82, 0xAC]).flatten) 123).length = 123 ∧
    (encodeTruncate (0x61 :: (List.replicate 42 [0xE2, 0x82, 0xAC]).flatten) 123).length = 121 ∧
    utf8Valid (encodeTruncate (0x61 :: (List.replicate 42 [0xE2, 0x82, 0xAC]).flatten) 123) = true := by
  decide +kernel

end Abverif.Ws
