import Abverif.Model.Handshake
/-!
C07 — the model of the library completes the handshake with itself: a finite configuration matrix evaluated by the kernel
(`decide +kernel`; includes the Lean SHA-1 / Base64 on both sides).  The general statement over all header maps is not
proved; the tie for the real code is the harness's back-to-back matrix (part I).
-/
namespace Abverif.Handshake
open Abverif Abverif.Http Abverif.Url

/-- the client's request is accepted by the server and the server's reply by the client, with the same subprotocol -/
def interopOk (c : CliCfg) (s : SrvCfg) (oc : OnConnect) (key : Bytes) : Bool :=
  match server s { onConnect := oc } (clientRequest c key) with
  | .opened resp proto _ _ =>
    (match client c key resp with
     | .opened p _ _ => p == proto
     | _ => false)
  | _ => false

def sampleKey : Bytes := b!"dGhlIHNhbXBsZSBub25jZQ=="

/-- client configurations: the nine spec versions, cycling through {no, one, two} subprotocols (+ origin, extra header,
deflate offer) -/
def interopClients : List CliCfg :=
  (List.range 9).map (fun i =>
    if i % 3 = 0 then { host := b!"localhost", port := 9000, resource := b!"/x?y=1", version := 10 + i }
    else if i % 3 = 1 then
      { host := b!"localhost", port := 9000, resource := b!"/", version := 10 + i, protocols := [b!"a"],
        origin := b!"http://good.com", headers := [(b!"X-C", b!"1")], useragent := b!"AbV/1" }
    else
      { host := b!"h", port := 80, resource := b!"/p", version := 10 + i, protocols := [b!"a", b!"b"],
        accept := .acceptAll,
        offers := [b!"permessage-deflate; client_no_context_takeover; client_max_window_bits"] })

/-- **interop** (partial: a finite matrix evaluated by the kernel, not the general statement over all header maps —
the general tie is the harness's back-to-back matrix on the real objects): every listed client completes the handshake
with a server supporting both protocol versions, for each `onConnect` choice, and both sides agree on the subprotocol. -/
theorem interop_matrix_partial :
    interopClients.all (fun c =>
      interopOk c { allowedOrigins := [b!"http*://good.com:*"], serverHeader := b!"AbV/1" } (.accept none []) sampleKey &&
      interopOk c { accept := .firstDeflate, headers := [(b!"X-F", b!"1")] }
        (.accept c.protocols.head? [(b!"X-A", b!"a b")]) sampleKey &&
      interopOk c {} (.accept c.protocols.getLast? []) sampleKey) = true := by
  decide +kernel

/-- a server that supports only version 13 refuses the hybi-10 client and names what it supports -/
example : server { versions := [13] } {} (clientRequest { version := 10 } sampleKey)
    = .fail 400 [(b!"Sec-WebSocket-Version", b!"13")] := by decide +kernel

end Abverif.Handshake
