import Abverif.Proofs.Lemmas.C13Conn
import Abverif.Model.WsSub
/-
C13 — WAMP transports attach a session only after valid negotiation and fail closed.

Property theorems. Names ending in `_partial` are the part of a full-strength statement that today's
code satisfies; the full statement is kept next to it as a `def … : Prop` and its negation is witnessed
by a concrete `example` (F12, F13, F14 of DESIGN.md §5, and N1 found by this check).
-/
namespace Abverif.RawSocket
open Abverif.Gen

/-! ## bit-level helpers -/

theorem and15 (x : Nat) : x &&& 15 = x % 16 := Nat.and_two_pow_sub_one_eq_mod x 4
theorem shr4 (x : Nat) : x >>> 4 = x / 16 := by rw [Nat.shiftRight_eq_div_pow]

theorem u8_eq_7f (o : UInt8) : o.toNat ≠ 127 ↔ ¬ o = 0x7F := by
  rw [← UInt8.toNat_inj]; rfl

theorem u8_ne_zero (o : UInt8) : o.toNat ≠ 0 ↔ ¬ o = 0 := by
  rw [← UInt8.toNat_inj]; rfl

theorem nibbles : ∀ e, e < 16 → ∀ s, s < 16 →
    (e <<< 4 ||| s) < 256 ∧ (e <<< 4 ||| s) % 16 = s ∧ (e <<< 4 ||| s) / 16 = e := by decide

theorem replyOctet_some {exp ser : Nat} (he : exp ≤ 15) (hs : ser < 16) :
    ∃ r, replyOctet exp ser = some r ∧ r.toNat % 16 = ser ∧ r.toNat / 16 = exp := by
  obtain ⟨h1, h2, h3⟩ := nibbles exp (by omega) ser hs
  refine ⟨UInt8.ofNat (exp <<< 4 ||| ser), by simp [replyOctet, h1], ?_, ?_⟩
  · rw [UInt8.toNat_ofNat_of_lt' h1]; exact h2
  · rw [UInt8.toNat_ofNat_of_lt' h1]; exact h3

theorem contains_iff (l : List Nat) (x : Nat) : l.contains x = true ↔ x ∈ l := by simp

/-! ## rs_accept_iff -/

/-- **A RawSocket handshake is accepted iff** the first octet is 0x7F and the serializer nibble is one
the endpoint supports (and, on asyncio, the reserved octets are zero) — for all 2^32 handshakes, every
serializer list, both roles, both frameworks. -/
theorem rs_accept_iff (c : Cfg) (o1 o2 o3 o4 : UInt8) (hexp : c.exp ≤ 15)
    (hcl : c.role = .client → ∃ m, c.supported = [m] ∧ (c.variant = .asyncio → m ≠ 0)) :
    (hsEval c o1 o2 o3 o4).accepted = true ↔ acceptSpec c.variant c.supported o1 o2 o3 o4 := by
  obtain ⟨v, r, sup, exp, mr⟩ := c
  dsimp only at hexp hcl
  have hlo : o2.toNat % 16 < 16 := Nat.mod_lt _ (by decide)
  cases v <;> cases r
  · -- twisted server
    simp only [hsEval, twServerHs, acceptSpec, loNibble, WampTransport.twServerMagic,
      WampTransport.twServerSerMask, and15]
    by_cases h1 : o1 = 0x7F
    · have : ¬ o1.toNat ≠ 127 := by rw [u8_eq_7f]; simpa using h1
      simp only [this, if_false]
      by_cases hm : sup.contains (o2.toNat % 16) = true
      · obtain ⟨r, hr, _⟩ := replyOctet_some (ser := o2.toNat % 16) hexp hlo
        simp only [hm, if_true, hr]
        simp [h1, (contains_iff _ _).mp hm]
      · simp only [hm]
        have : ¬ (o2.toNat % 16 ∈ sup) := fun h => hm ((contains_iff _ _).mpr h)
        simp [this]
    · have : o1.toNat ≠ 127 := (u8_eq_7f o1).mpr h1
      simp [this, h1]
  · -- twisted client
    obtain ⟨m, hm, _⟩ := hcl rfl
    subst hm
    simp only [hsEval, twClientHs, acceptSpec, loNibble, WampTransport.twClientMagic,
      WampTransport.twClientSerMask, and15, Cfg.mySer, List.headD]
    by_cases h1 : o1 = 0x7F
    · have : ¬ o1.toNat ≠ 127 := by rw [u8_eq_7f]; simpa using h1
      simp only [this, if_false]
      by_cases hs : o2.toNat % 16 = m
      · simp [hs, h1]
      · simp [hs, h1]
    · have : o1.toNat ≠ 127 := (u8_eq_7f o1).mpr h1
      simp [this, h1]
  · -- asyncio server
    simp only [hsEval, aioServerHs, aioParseHandshake, acceptSpec, loNibble, WampTransport.aioMagic,
      WampTransport.aioSerMask, and15]
    by_cases h1 : o1 = 0x7F
    · have : ¬ o1.toNat ≠ 127 := by rw [u8_eq_7f]; simpa using h1
      simp only [this, if_false]
      by_cases h3 : o3 = 0 ∧ o4 = 0
      · have : ¬ (o3.toNat ≠ 0 ∨ o4.toNat ≠ 0) := by
          rw [u8_ne_zero, u8_ne_zero]; simp [h3.1, h3.2]
        simp only [this, if_false]
        by_cases hm : sup.contains (o2.toNat % 16) = true
        · obtain ⟨r, hr, _⟩ := replyOctet_some (ser := o2.toNat % 16) hexp hlo
          simp only [hm, if_true, Nat.mod_mod, hr]
          simp [h1, h3.1, h3.2, (contains_iff _ _).mp hm]
        · simp only [hm]
          have : ¬ (o2.toNat % 16 ∈ sup) := fun h => hm ((contains_iff _ _).mpr h)
          simp [this]
      · have : (o3.toNat ≠ 0 ∨ o4.toNat ≠ 0) := by
          rw [u8_ne_zero, u8_ne_zero]
          by_cases h : o3 = 0
          · right; intro h'; exact h3 ⟨h, h'⟩
          · left; exact h
        simp only [this, if_true]
        simp [h3]
    · have : o1.toNat ≠ 127 := (u8_eq_7f o1).mpr h1
      simp [this, h1]
  · -- asyncio client
    obtain ⟨m, hm, hz⟩ := hcl rfl
    subst hm
    have hz := hz rfl
    simp only [hsEval, aioClientHs, aioParseHandshake, acceptSpec, loNibble, WampTransport.aioMagic,
      WampTransport.aioSerMask, and15, Cfg.mySer, List.headD]
    by_cases h1 : o1 = 0x7F
    · have : ¬ o1.toNat ≠ 127 := by rw [u8_eq_7f]; simpa using h1
      simp only [this, if_false]
      by_cases h3 : o3 = 0 ∧ o4 = 0
      · have : ¬ (o3.toNat ≠ 0 ∨ o4.toNat ≠ 0) := by
          rw [u8_ne_zero, u8_ne_zero]; simp [h3.1, h3.2]
        simp only [this, if_false]
        by_cases hs : o2.toNat % 16 = m
        · simp [hz, hs, h1, h3.1, h3.2]
        · by_cases h0 : o2.toNat % 16 = 0
          · have hm0 : ¬ 0 = m := fun h => hz h.symm
            simp [h0, hm0]
          · have : ¬ m = o2.toNat % 16 := fun h => hs h.symm
            simp [h0, this, hs]
      · have : (o3.toNat ≠ 0 ∨ o4.toNat ≠ 0) := by
          rw [u8_ne_zero, u8_ne_zero]
          by_cases h : o3 = 0
          · right; intro h'; exact h3 ⟨h, h'⟩
          · left; exact h
        simp only [this, if_true]
        simp [h3]
    · have : o1.toNat ≠ 127 := (u8_eq_7f o1).mpr h1
      simp [this, h1]


/-! ## reserved octets -/

theorem reserved_cond (o3 o4 : UInt8) : (o3.toNat ≠ 0 ∨ o4.toNat ≠ 0) ↔ ¬ (o3 = 0 ∧ o4 = 0) := by
  rw [u8_ne_zero, u8_ne_zero]
  constructor
  · rintro (h | h) ⟨h3, h4⟩
    · exact h h3
    · exact h h4
  · intro h
    by_cases h3 : o3 = 0
    · right; intro h4; exact h ⟨h3, h4⟩
    · left; exact h3

/-- the handshake reads octets 3 and 4 only through "both are zero" (so the 2^16 table over octets 1–2
with reserved octets zero, plus this, covers all 2^32 handshakes) -/
theorem rs_reserved_symbolic (c : Cfg) (o1 o2 o3 o4 p3 p4 : UInt8)
    (h : (o3 = 0 ∧ o4 = 0) ↔ (p3 = 0 ∧ p4 = 0)) : hsEval c o1 o2 o3 o4 = hsEval c o1 o2 p3 p4 := by
  obtain ⟨v, r, sup, exp, mr⟩ := c
  have hc : (o3.toNat ≠ 0 ∨ o4.toNat ≠ 0) ↔ (p3.toNat ≠ 0 ∨ p4.toNat ≠ 0) := by
    rw [reserved_cond, reserved_cond, h]
  cases v <;> cases r
  · rfl
  · rfl
  · simp only [hsEval, aioServerHs, aioParseHandshake, hc]
  · simp only [hsEval, aioClientHs, aioParseHandshake, hc]

/-- the Twisted endpoints never look at the reserved octets -/
theorem tw_ignores_reserved (r : Role) (sup : List Nat) (exp mr : Nat) (o1 o2 o3 o4 : UInt8) :
    hsEval ⟨.twisted, r, sup, exp, mr⟩ o1 o2 o3 o4 = hsEval ⟨.twisted, r, sup, exp, mr⟩ o1 o2 0 0 := by
  cases r <;> rfl

/-! ## what an accepted handshake fixes -/

theorem replyOctet_props {exp ser : Nat} {r : UInt8} (hs : ser < 16) (hr : replyOctet exp ser = some r) :
    r.toNat % 16 = ser ∧ r.toNat / 16 = exp ∧ exp ≤ 15 := by
  simp only [replyOctet] at hr
  split at hr
  · rename_i hlt
    simp only [Option.some.injEq] at hr
    subst hr
    rw [UInt8.toNat_ofNat_of_lt' hlt]
    have he : exp ≤ 15 := by
      by_cases he : exp ≤ 15
      · exact he
      · exfalso
        have h1 : exp <<< 4 ≤ exp <<< 4 ||| ser := Nat.left_le_or
        have h2 : exp <<< 4 = exp * 16 := by rw [Nat.shiftLeft_eq]
        omega
    obtain ⟨_, h2, h3⟩ := nibbles exp (by omega) _ hs
    exact ⟨h2, h3, he⟩
  · simp at hr

/-- normal form of an accepted handshake: serializer = low nibble of octet 2, send limit = `2^(9 + high
nibble)`, nothing closed, nothing raised; a server has written `7F (exp<<4|ser) 00 00`, a client nothing -/
theorem accepted_form (c : Cfg) (o1 o2 o3 o4 : UInt8) (h : (hsEval c o1 o2 o3 o4).accepted = true) :
    ∃ w, hsEval c o1 o2 o3 o4 =
        { accepted := true, ser := loNibble o2, maxSend := some (maxLenOfExp (hiNibble o2)), written := w,
          tclose := .none, exc := none } ∧
      (c.role = .client → w = []) ∧
      (c.role = .server → ∃ r : UInt8, w = [0x7F, r, 0, 0] ∧ r.toNat % 16 = loNibble o2 ∧
          r.toNat / 16 = c.exp ∧ c.exp ≤ 15) := by
  obtain ⟨v, r, sup, exp, mr⟩ := c
  have hlo : o2.toNat % 16 < 16 := Nat.mod_lt _ (by decide)
  cases v <;> cases r
  · -- twisted server
    simp only [hsEval, twServerHs, WampTransport.twServerMagic, WampTransport.twServerSerMask,
      WampTransport.twServerPowBase, WampTransport.twServerExpAdd, WampTransport.twServerShift,
      and15, shr4, loNibble, hiNibble, maxLenOfExp] at h ⊢
    by_cases hm : o1.toNat = 127
    · by_cases hs : o2.toNat % 16 ∈ sup
      · cases hr : replyOctet exp (o2.toNat % 16) with
        | none => simp [hm, hs, hr] at h
        | some q =>
          refine ⟨[0x7F, q, 0, 0], by simp [hm, hs, hr], by simp, fun _ => ⟨q, rfl, ?_⟩⟩
          exact replyOctet_props hlo hr
      · simp [hm, hs] at h
    · simp [hm] at h
  · -- twisted client
    simp only [hsEval, twClientHs, WampTransport.twClientMagic, WampTransport.twClientSerMask,
      WampTransport.twClientPowBase, WampTransport.twClientExpAdd, WampTransport.twClientShift,
      and15, shr4, loNibble, hiNibble, maxLenOfExp] at h ⊢
    by_cases hm : o1.toNat = 127
    · by_cases hs : o2.toNat % 16 = Cfg.mySer ⟨.twisted, .client, sup, exp, mr⟩
      · exact ⟨[], by simp [hm, hs], by simp, by simp⟩
      · simp [hm, hs] at h
    · simp [hm] at h
  · -- asyncio server
    simp only [hsEval, aioServerHs, aioParseHandshake, WampTransport.aioMagic, WampTransport.aioSerMask,
      WampTransport.aioPowBase, WampTransport.aioExpAdd, WampTransport.aioShift,
      and15, shr4, loNibble, hiNibble, maxLenOfExp] at h ⊢
    by_cases hm : o1.toNat = 127
    · by_cases h3 : o3.toNat ≠ 0 ∨ o4.toNat ≠ 0
      · simp [hm, h3] at h
      · by_cases hs : o2.toNat % 16 ∈ sup
        · cases hr : replyOctet exp (o2.toNat % 16) with
          | none => simp [hm, h3, hs, hr] at h
          | some q =>
            refine ⟨[0x7F, q, 0, 0], ?_, by simp, fun _ => ⟨q, rfl, replyOctet_props hlo hr⟩⟩
            simp [hm, h3, hs, hr, aioMaxSend, Nat.add_comm]
        · simp [hm, h3, hs] at h
    · simp [hm] at h
  · -- asyncio client
    simp only [hsEval, aioClientHs, aioParseHandshake, WampTransport.aioMagic, WampTransport.aioSerMask,
      WampTransport.aioPowBase, WampTransport.aioExpAdd, WampTransport.aioShift,
      and15, shr4, loNibble, hiNibble, maxLenOfExp] at h ⊢
    by_cases hm : o1.toNat = 127
    · by_cases h3 : o3.toNat ≠ 0 ∨ o4.toNat ≠ 0
      · simp [hm, h3] at h
      · by_cases hz : o2.toNat % 16 = 0
        · simp [hm, h3, hz] at h
        · by_cases hs : Cfg.mySer ⟨.asyncio, .client, sup, exp, mr⟩ = o2.toNat % 16
          · refine ⟨[], ?_, by simp, by simp⟩
            simp [hm, h3, hz, hs, aioMaxSend, Nat.add_comm]
          · simp [hm, h3, hz, hs] at h
    · simp [hm] at h

/-- the serializer both ends settle on is the low nibble of octet 2 -/
theorem hs_ser (c : Cfg) (o1 o2 o3 o4 : UInt8) (h : (hsEval c o1 o2 o3 o4).accepted = true) :
    (hsEval c o1 o2 o3 o4).ser = loNibble o2 := by
  obtain ⟨w, hw, _⟩ := accepted_form c o1 o2 o3 o4 h
  rw [hw]

/-- after an accepted handshake the send limit is `2^(9+n)`, `n` the high nibble the peer sent -/
theorem rs_maxsend_announced (c : Cfg) (o1 o2 o3 o4 : UInt8) (h : (hsEval c o1 o2 o3 o4).accepted = true) :
    (hsEval c o1 o2 o3 o4).maxSend = some (maxLenOfExp (hiNibble o2)) := by
  obtain ⟨w, hw, _⟩ := accepted_form c o1 o2 o3 o4 h
  rw [hw]

/-- an accepting server answers `7F | (exp << 4 | ser) | 00 | 00` -/
theorem server_written (v : Variant) (sup : List Nat) (exp mr : Nat) (o1 o2 o3 o4 : UInt8)
    (h : (hsEval ⟨v, .server, sup, exp, mr⟩ o1 o2 o3 o4).accepted = true) :
    ∃ r : UInt8, (hsEval ⟨v, .server, sup, exp, mr⟩ o1 o2 o3 o4).written = [0x7F, r, 0, 0] ∧
      r.toNat % 16 = loNibble o2 ∧ r.toNat / 16 = exp ∧ exp ≤ 15 := by
  obtain ⟨w, hw, _, hsrv⟩ := accepted_form _ o1 o2 o3 o4 h
  obtain ⟨r, rfl, h1, h2, h3⟩ := hsrv rfl
  exact ⟨r, by rw [hw], h1, h2, h3⟩

/-- an accepted handshake closes nothing and raises nothing -/
theorem accepted_clean (c : Cfg) (o1 o2 o3 o4 : UInt8) (h : (hsEval c o1 o2 o3 o4).accepted = true) :
    (hsEval c o1 o2 o3 o4).tclose = .none ∧ (hsEval c o1 o2 o3 o4).exc = none := by
  obtain ⟨w, hw, _⟩ := accepted_form c o1 o2 o3 o4 h
  rw [hw]; exact ⟨rfl, rfl⟩

/-! ## refusal -/

/-- full-strength statement: every refused handshake is refused by closing the transport, with no
exception leaving `dataReceived` / `data_received` -/
def RsRefuseCleanFull : Prop :=
  ∀ (c : Cfg) (o1 o2 o3 o4 : UInt8), c.exp ≤ 15 → (hsEval c o1 o2 o3 o4).accepted = false →
    (hsEval c o1 o2 o3 o4).exc = none ∧ (hsEval c o1 o2 o3 o4).tclose ≠ .none

/-- what holds today: everything except the asyncio server meeting an unsupported serializer (F12) -/
theorem rs_refuse_clean_partial (c : Cfg) (o1 o2 o3 o4 : UInt8) (hexp : c.exp ≤ 15)
    (hF12 : ¬ (c.variant = .asyncio ∧ c.role = .server ∧ o1 = 0x7F ∧ o3 = 0 ∧ o4 = 0 ∧ loNibble o2 ∉ c.supported))
    (h : (hsEval c o1 o2 o3 o4).accepted = false) :
    (hsEval c o1 o2 o3 o4).exc = none ∧ (hsEval c o1 o2 o3 o4).tclose ≠ .none := by
  obtain ⟨v, r, sup, exp, mr⟩ := c
  dsimp only at hexp hF12
  have hlo : o2.toNat % 16 < 16 := Nat.mod_lt _ (by decide)
  cases v <;> cases r
  · simp only [hsEval, twServerHs, WampTransport.twServerMagic, WampTransport.twServerSerMask, and15] at h ⊢
    by_cases hm : o1.toNat = 127
    · by_cases hs : o2.toNat % 16 ∈ sup
      · obtain ⟨q, hq, _⟩ := replyOctet_some (ser := o2.toNat % 16) hexp hlo
        simp [hm, hs, hq] at h
      · simp [hm, hs]
    · simp [hm]
  · simp only [hsEval, twClientHs, WampTransport.twClientMagic] at h ⊢
    by_cases hm : o1.toNat = 127
    · by_cases hs : o2.toNat &&& WampTransport.twClientSerMask = Cfg.mySer ⟨.twisted, .client, sup, exp, mr⟩
      · simp [hm, hs] at h
      · simp [hm, hs]
    · simp [hm]
  · simp only [hsEval, aioServerHs, aioParseHandshake, WampTransport.aioSerMask, WampTransport.aioMagic, and15,
      loNibble] at h hF12 ⊢
    by_cases hm : o1.toNat = 127
    · by_cases h3 : o3.toNat ≠ 0 ∨ o4.toNat ≠ 0
      · simp [hm, h3]
      · by_cases hs : o2.toNat % 16 ∈ sup
        · obtain ⟨q, hq, _⟩ := replyOctet_some (ser := o2.toNat % 16) hexp hlo
          simp [hm, h3, hs, hq] at h
        · exfalso
          apply hF12
          have h1 : o1 = 0x7F := by
            apply Classical.byContradiction
            intro hne; exact (u8_eq_7f o1).mpr hne hm
          have h34 : o3 = 0 ∧ o4 = 0 := by
            apply Classical.byContradiction
            intro hne; exact h3 ((reserved_cond o3 o4).mpr hne)
          exact ⟨trivial, trivial, h1, h34.1, h34.2, hs⟩
    · simp [hm]
  · simp only [hsEval, aioClientHs, aioParseHandshake, WampTransport.aioMagic] at h ⊢
    by_cases hm : o1.toNat = 127
    · by_cases h3 : o3.toNat ≠ 0 ∨ o4.toNat ≠ 0
      · simp [hm, h3]
      · by_cases hz : o2.toNat &&& WampTransport.aioSerMask = 0
        · simp [hm, h3, hz]
        · by_cases hs : Cfg.mySer ⟨.asyncio, .client, sup, exp, mr⟩ = o2.toNat &&& WampTransport.aioSerMask
          · simp [hm, h3, hz, hs] at h
          · simp [hm, h3, hz, hs]
    · simp [hm]

/-- F12: asyncio server, serializers = [json], handshake `7f f2 00 00`: `TransportLost` leaves
`data_received`, the transport is not closed, no error reply is written -/
example : ¬ RsRefuseCleanFull := by
  intro h
  have := h ⟨.asyncio, .server, [1], 15, 16777216⟩ 0x7F 0xF2 0 0 (by decide) (by decide)
  revert this; decide

example : hsEval ⟨.asyncio, .server, [1], 15, 16777216⟩ 0x7F 0xF2 0 0 =
    { accepted := false, ser := 2, maxSend := some 16777216, written := [], tclose := .none,
      exc := some .transportLost } := by decide

/-! ## rs_same_serializer -/

/-- **Both ends use the same serializer, and each learns the other's length limit**: whatever a client
(either framework) requests, if a server (either framework) accepts it, the client accepts the server's
reply, both have the requested serializer, the server may send up to `2^(9+expC)`, the client up to `2^(9+expS)`. -/
theorem rs_same_serializer (vc vs : Variant) (sup : List Nat) (mySer expC expS mrC mrS : Nat)
    (hs : mySer < 16) (h0 : mySer ≠ 0) (hc : expC ≤ 15)
    (a b c d : UInt8) (hreq : clientRequest vc expC mySer = some [a, b, c, d])
    (hacc : (hsEval ⟨vs, .server, sup, expS, mrS⟩ a b c d).accepted = true) :
    ∃ r1 r2 r3 r4 : UInt8,
      (hsEval ⟨vs, .server, sup, expS, mrS⟩ a b c d).written = [r1, r2, r3, r4] ∧
      (hsEval ⟨vs, .server, sup, expS, mrS⟩ a b c d).ser = mySer ∧ mySer ∈ sup ∧
      (hsEval ⟨vs, .server, sup, expS, mrS⟩ a b c d).maxSend = some (maxLenOfExp expC) ∧
      (hsEval ⟨vc, .client, [mySer], expC, mrC⟩ r1 r2 r3 r4).accepted = true ∧
      (hsEval ⟨vc, .client, [mySer], expC, mrC⟩ r1 r2 r3 r4).ser = mySer ∧
      (hsEval ⟨vc, .client, [mySer], expC, mrC⟩ r1 r2 r3 r4).maxSend = some (maxLenOfExp expS) := by
  -- the request octets
  obtain ⟨q, hq, hq1, hq2⟩ := replyOctet_some hc hs
  have habcd : a = 0x7F ∧ b = q ∧ c = 0 ∧ d = 0 := by
    cases vc <;> simp [clientRequest, hq, WampTransport.aioMagic] at hreq <;>
      exact ⟨hreq.1.symm, hreq.2.1.symm, hreq.2.2.1.symm, hreq.2.2.2.symm⟩
  obtain ⟨rfl, rfl, rfl, rfl⟩ := habcd
  have hlo : loNibble b = mySer := hq1
  have hhi : hiNibble b = expC := hq2
  -- the server side
  have hexpS : (⟨vs, .server, sup, expS, mrS⟩ : Cfg).exp ≤ 15 ∨ True := Or.inr trivial
  obtain ⟨r, hw, hr1, hr2, hexpS'⟩ := server_written vs sup expS mrS _ _ _ _ hacc
  have hser := hs_ser _ _ _ _ _ hacc
  have hms := rs_maxsend_announced _ _ _ _ _ hacc
  have hspec := (rs_accept_iff ⟨vs, .server, sup, expS, mrS⟩ _ _ _ _ hexpS' (by intro h; cases h)).mp hacc
  have hmem : mySer ∈ sup := by have := hspec.2.1; rwa [hlo] at this
  -- the client side
  have hcacc : (hsEval ⟨vc, .client, [mySer], expC, mrC⟩ 0x7F r 0 0).accepted = true := by
    apply (rs_accept_iff ⟨vc, .client, [mySer], expC, mrC⟩ _ _ _ _ hc
      (by intro _; exact ⟨mySer, rfl, fun _ => h0⟩)).mpr
    refine ⟨rfl, ?_, fun _ => ⟨rfl, rfl⟩⟩
    simp only [loNibble, hr1, hlo, List.mem_singleton]
    exact hlo
  refine ⟨0x7F, r, 0, 0, hw, ?_, hmem, ?_, hcacc, ?_, ?_⟩
  · rw [hser, hlo]
  · rw [hms, hhi]
  · rw [hs_ser _ _ _ _ _ hcacc]; simp only [loNibble, hr1]; exact hlo
  · rw [rs_maxsend_announced _ _ _ _ _ hcacc]; simp only [hiNibble, hr2]

end Abverif.RawSocket
