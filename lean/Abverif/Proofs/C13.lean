import Abverif.Proofs.Lemmas.C13Conn
import Abverif.Proofs.Lemmas.C13TableTwS
import Abverif.Proofs.Lemmas.C13TableTwC
import Abverif.Proofs.Lemmas.C13TableAioS
import Abverif.Proofs.Lemmas.C13TableAioC
import Abverif.Model.WsSub
/-
C13 — WAMP transports attach a session only after valid negotiation and fail closed.

Property theorems. Every defect of this property found so far was repaired in /repo — F12 (77273b88), F14 (11645fb6),
F13 (4c355c2c), N1 (3817d6f2),
N2 (8cc5721d) — and the model follows the source through generated constants, so
`rs_refuse_clean`, `rs_limits_error_class`, `prefix_never_raises`, `rs_never_raises`, `aio_serves`, `rs_send_delivered`
are full theorems; re-introducing a defect changes a generated constant and the theorem stops checking.
-/
namespace Abverif.RawSocket
open Abverif.Gen

/-! ## bit-level helpers -/

theorem and15 (x : Nat) : x &&& 15 = x % 16 := Nat.and_two_pow_sub_one_eq_mod x 4
theorem shr4 (x : Nat) : x >>> 4 = x / 16 := by rw [Nat.shiftRight_eq_div_pow]

theorem u8_eq_7f (o : UInt8) : o.toNat ≠ 127 ↔ ¬ o = 0x7F := by
  rw [← UInt8.toNat_inj]; rfl

theorem u8_ne_zero (o : UInt8) : o.toNat ≠ 0 ↔ ¬ o = 0 := by
  rw [← UInt8.toNat_inj]; rfl

theorem nibbles : ∀ e, e < 16 → ∀ s, s < 16 →
    (e <<< 4 ||| s) < 256 ∧ (e <<< 4 ||| s) % 16 = s ∧ (e <<< 4 ||| s) / 16 = e := by decide

theorem replyOctet_some {exp ser : Nat} (he : exp ≤ 15) (hs : ser < 16) :
    ∃ r, replyOctet exp ser = some r ∧ r.toNat % 16 = ser ∧ r.toNat / 16 = exp := by
  obtain ⟨h1, h2, h3⟩ := nibbles exp (by omega) ser hs
  refine ⟨UInt8.ofNat (exp <<< 4 ||| ser), by simp [replyOctet, h1], ?_, ?_⟩
  · rw [UInt8.toNat_ofNat_of_lt' h1]; exact h2
  · rw [UInt8.toNat_ofNat_of_lt' h1]; exact h3

theorem contains_iff (l : List Nat) (x : Nat) : l.contains x = true ↔ x ∈ l := by simp

/-- the error reply of the asyncio server: `7F 10 00 00` (ERR_SERIALIZER_UNSUPPORTED in the high nibble) -/
theorem errReply : replyOctet WampTransport.aioErrSerUnsupported (0 &&& 0x0F) = some 0x10 := by decide
theorem errReply0 : replyOctet WampTransport.aioErrSerUnsupported 0 = some 0x10 := by decide

/-! ## rs_accept_iff -/

/-- **A RawSocket handshake is accepted iff** the first octet is 0x7F and the serializer nibble is one
the endpoint supports (and, on asyncio, the reserved octets are zero) — for all 2^32 handshakes, every
serializer list, both roles, both frameworks. -/
theorem rs_accept_iff (c : Cfg) (o1 o2 o3 o4 : UInt8) (hexp : c.exp ≤ 15)
    (hcl : c.role = .client → ∃ m, c.supported = [m] ∧ (c.variant = .asyncio → m ≠ 0)) :
    (hsEval c o1 o2 o3 o4).accepted = true ↔ acceptSpec c.variant c.supported o1 o2 o3 o4 := by
  obtain ⟨v, r, sup, exp, mr⟩ := c
  dsimp only at hexp hcl
  have hlo : o2.toNat % 16 < 16 := Nat.mod_lt _ (by decide)
  cases v <;> cases r
  · -- twisted server
    simp only [hsEval, twServerHs, acceptSpec, loNibble, WampTransport.twServerMagic,
      WampTransport.twServerSerMask, and15]
    by_cases h1 : o1 = 0x7F
    · have : ¬ o1.toNat ≠ 127 := by rw [u8_eq_7f]; simpa using h1
      simp only [this, if_false]
      by_cases hm : sup.contains (o2.toNat % 16) = true
      · obtain ⟨r, hr, _⟩ := replyOctet_some (ser := o2.toNat % 16) hexp hlo
        simp only [hm, if_true, hr]
        simp [h1, (contains_iff _ _).mp hm]
      · simp only [hm]
        have : ¬ (o2.toNat % 16 ∈ sup) := fun h => hm ((contains_iff _ _).mpr h)
        simp [this]
    · have : o1.toNat ≠ 127 := (u8_eq_7f o1).mpr h1
      simp [this, h1]
  · -- twisted client
    obtain ⟨m, hm, _⟩ := hcl rfl
    subst hm
    simp only [hsEval, twClientHs, acceptSpec, loNibble, WampTransport.twClientMagic,
      WampTransport.twClientSerMask, and15, Cfg.mySer, List.headD]
    by_cases h1 : o1 = 0x7F
    · have : ¬ o1.toNat ≠ 127 := by rw [u8_eq_7f]; simpa using h1
      simp only [this, if_false]
      by_cases hs : o2.toNat % 16 = m
      · simp [hs, h1]
      · simp [hs, h1]
    · have : o1.toNat ≠ 127 := (u8_eq_7f o1).mpr h1
      simp [this, h1]
  · -- asyncio server
    simp only [hsEval, aioServerHs, aioParseHandshake, acceptSpec, loNibble, WampTransport.aioMagic,
      WampTransport.aioSerMask, and15]
    by_cases h1 : o1 = 0x7F
    · have : ¬ o1.toNat ≠ 127 := by rw [u8_eq_7f]; simpa using h1
      simp only [this, if_false]
      by_cases h3 : o3 = 0 ∧ o4 = 0
      · have : ¬ (o3.toNat ≠ 0 ∨ o4.toNat ≠ 0) := by
          rw [u8_ne_zero, u8_ne_zero]; simp [h3.1, h3.2]
        simp only [this, if_false]
        by_cases hm : sup.contains (o2.toNat % 16) = true
        · obtain ⟨r, hr, _⟩ := replyOctet_some (ser := o2.toNat % 16) hexp hlo
          simp only [hm, if_true, Nat.mod_mod, hr]
          simp [h1, h3.1, h3.2, (contains_iff _ _).mp hm]
        · simp only [hm]
          have : ¬ (o2.toNat % 16 ∈ sup) := fun h => hm ((contains_iff _ _).mpr h)
          simp [this, WampTransport.aioServerAbortsOnUnsupported, errReply, errReply0]
      · have : (o3.toNat ≠ 0 ∨ o4.toNat ≠ 0) := by
          rw [u8_ne_zero, u8_ne_zero]
          by_cases h : o3 = 0
          · right; intro h'; exact h3 ⟨h, h'⟩
          · left; exact h
        simp only [this, if_true]
        simp [h3]
    · have : o1.toNat ≠ 127 := (u8_eq_7f o1).mpr h1
      simp [this, h1]
  · -- asyncio client
    obtain ⟨m, hm, hz⟩ := hcl rfl
    subst hm
    have hz := hz rfl
    simp only [hsEval, aioClientHs, aioParseHandshake, acceptSpec, loNibble, WampTransport.aioMagic,
      WampTransport.aioSerMask, and15, Cfg.mySer, List.headD]
    by_cases h1 : o1 = 0x7F
    · have : ¬ o1.toNat ≠ 127 := by rw [u8_eq_7f]; simpa using h1
      simp only [this, if_false]
      by_cases h3 : o3 = 0 ∧ o4 = 0
      · have : ¬ (o3.toNat ≠ 0 ∨ o4.toNat ≠ 0) := by
          rw [u8_ne_zero, u8_ne_zero]; simp [h3.1, h3.2]
        simp only [this, if_false]
        by_cases hs : o2.toNat % 16 = m
        · simp [hz, hs, h1, h3.1, h3.2]
        · by_cases h0 : o2.toNat % 16 = 0
          · have hm0 : ¬ 0 = m := fun h => hz h.symm
            simp [h0, hm0]
          · have : ¬ m = o2.toNat % 16 := fun h => hs h.symm
            simp [h0, this, hs]
      · have : (o3.toNat ≠ 0 ∨ o4.toNat ≠ 0) := by
          rw [u8_ne_zero, u8_ne_zero]
          by_cases h : o3 = 0
          · right; intro h'; exact h3 ⟨h, h'⟩
          · left; exact h
        simp only [this, if_true]
        simp [h3]
    · have : o1.toNat ≠ 127 := (u8_eq_7f o1).mpr h1
      simp [this, h1]


/-! ## reserved octets -/

theorem reserved_cond (o3 o4 : UInt8) : (o3.toNat ≠ 0 ∨ o4.toNat ≠ 0) ↔ ¬ (o3 = 0 ∧ o4 = 0) := by
  rw [u8_ne_zero, u8_ne_zero]
  constructor
  · rintro (h | h) ⟨h3, h4⟩
    · exact h h3
    · exact h h4
  · intro h
    by_cases h3 : o3 = 0
    · right; intro h4; exact h ⟨h3, h4⟩
    · left; exact h3

/-- the handshake reads octets 3 and 4 only through "both are zero" (so the 2^16 table over octets 1–2
with reserved octets zero, plus this, covers all 2^32 handshakes) -/
theorem rs_reserved_symbolic (c : Cfg) (o1 o2 o3 o4 p3 p4 : UInt8)
    (h : (o3 = 0 ∧ o4 = 0) ↔ (p3 = 0 ∧ p4 = 0)) : hsEval c o1 o2 o3 o4 = hsEval c o1 o2 p3 p4 := by
  obtain ⟨v, r, sup, exp, mr⟩ := c
  have hc : (o3.toNat ≠ 0 ∨ o4.toNat ≠ 0) ↔ (p3.toNat ≠ 0 ∨ p4.toNat ≠ 0) := by
    rw [reserved_cond, reserved_cond, h]
  cases v <;> cases r
  · rfl
  · rfl
  · simp only [hsEval, aioServerHs, aioParseHandshake, hc]
  · simp only [hsEval, aioClientHs, aioParseHandshake, hc]

/-- the Twisted endpoints never look at the reserved octets -/
theorem tw_ignores_reserved (r : Role) (sup : List Nat) (exp mr : Nat) (o1 o2 o3 o4 : UInt8) :
    hsEval ⟨.twisted, r, sup, exp, mr⟩ o1 o2 o3 o4 = hsEval ⟨.twisted, r, sup, exp, mr⟩ o1 o2 0 0 := by
  cases r <;> rfl

/-! ## what an accepted handshake fixes -/

theorem replyOctet_props {exp ser : Nat} {r : UInt8} (hs : ser < 16) (hr : replyOctet exp ser = some r) :
    r.toNat % 16 = ser ∧ r.toNat / 16 = exp ∧ exp ≤ 15 := by
  simp only [replyOctet] at hr
  split at hr
  · rename_i hlt
    simp only [Option.some.injEq] at hr
    subst hr
    rw [UInt8.toNat_ofNat_of_lt' hlt]
    have he : exp ≤ 15 := by
      by_cases he : exp ≤ 15
      · exact he
      · exfalso
        have h1 : exp <<< 4 ≤ exp <<< 4 ||| ser := Nat.left_le_or
        have h2 : exp <<< 4 = exp * 16 := by rw [Nat.shiftLeft_eq]
        omega
    obtain ⟨_, h2, h3⟩ := nibbles exp (by omega) _ hs
    exact ⟨h2, h3, he⟩
  · simp at hr

/-- normal form of an accepted handshake: serializer = low nibble of octet 2, send limit = `2^(9 + high
nibble)`, nothing closed, nothing raised; a server has written `7F (exp<<4|ser) 00 00`, a client nothing -/
theorem accepted_form (c : Cfg) (o1 o2 o3 o4 : UInt8) (h : (hsEval c o1 o2 o3 o4).accepted = true) :
    ∃ w, hsEval c o1 o2 o3 o4 =
        { accepted := true, ser := loNibble o2, maxSend := some (maxLenOfExp (hiNibble o2)), written := w,
          tclose := .none, exc := none } ∧
      (c.role = .client → w = []) ∧
      (c.role = .server → ∃ r : UInt8, w = [0x7F, r, 0, 0] ∧ r.toNat % 16 = loNibble o2 ∧
          r.toNat / 16 = c.exp ∧ c.exp ≤ 15) := by
  obtain ⟨v, r, sup, exp, mr⟩ := c
  have hlo : o2.toNat % 16 < 16 := Nat.mod_lt _ (by decide)
  cases v <;> cases r
  · -- twisted server
    simp only [hsEval, twServerHs, WampTransport.twServerMagic, WampTransport.twServerSerMask,
      WampTransport.twServerPowBase, WampTransport.twServerExpAdd, WampTransport.twServerShift,
      and15, shr4, loNibble, hiNibble, maxLenOfExp] at h ⊢
    by_cases hm : o1.toNat = 127
    · by_cases hs : o2.toNat % 16 ∈ sup
      · cases hr : replyOctet exp (o2.toNat % 16) with
        | none => simp [hm, hs, hr] at h
        | some q =>
          refine ⟨[0x7F, q, 0, 0], by simp [hm, hs, hr], by simp, fun _ => ⟨q, rfl, ?_⟩⟩
          exact replyOctet_props hlo hr
      · simp [hm, hs] at h
    · simp [hm] at h
  · -- twisted client
    simp only [hsEval, twClientHs, WampTransport.twClientMagic, WampTransport.twClientSerMask,
      WampTransport.twClientPowBase, WampTransport.twClientExpAdd, WampTransport.twClientShift,
      and15, shr4, loNibble, hiNibble, maxLenOfExp] at h ⊢
    by_cases hm : o1.toNat = 127
    · by_cases hs : o2.toNat % 16 = Cfg.mySer ⟨.twisted, .client, sup, exp, mr⟩
      · exact ⟨[], by simp [hm, hs], by simp, by simp⟩
      · simp [hm, hs] at h
    · simp [hm] at h
  · -- asyncio server
    simp only [hsEval, aioServerHs, aioParseHandshake, WampTransport.aioMagic, WampTransport.aioSerMask,
      WampTransport.aioPowBase, WampTransport.aioExpAdd, WampTransport.aioShift,
      and15, shr4, loNibble, hiNibble, maxLenOfExp] at h ⊢
    by_cases hm : o1.toNat = 127
    · by_cases h3 : o3.toNat ≠ 0 ∨ o4.toNat ≠ 0
      · simp [hm, h3] at h
      · by_cases hs : o2.toNat % 16 ∈ sup
        · cases hr : replyOctet exp (o2.toNat % 16) with
          | none => simp [hm, h3, hs, hr] at h
          | some q =>
            refine ⟨[0x7F, q, 0, 0], ?_, by simp, fun _ => ⟨q, rfl, replyOctet_props hlo hr⟩⟩
            simp [hm, h3, hs, hr, aioMaxSend, Nat.add_comm]
        · simp [hm, h3, hs, WampTransport.aioServerAbortsOnUnsupported, errReply, errReply0] at h
    · simp [hm] at h
  · -- asyncio client
    simp only [hsEval, aioClientHs, aioParseHandshake, WampTransport.aioMagic, WampTransport.aioSerMask,
      WampTransport.aioPowBase, WampTransport.aioExpAdd, WampTransport.aioShift,
      and15, shr4, loNibble, hiNibble, maxLenOfExp] at h ⊢
    by_cases hm : o1.toNat = 127
    · by_cases h3 : o3.toNat ≠ 0 ∨ o4.toNat ≠ 0
      · simp [hm, h3] at h
      · by_cases hz : o2.toNat % 16 = 0
        · simp [hm, h3, hz] at h
        · by_cases hs : Cfg.mySer ⟨.asyncio, .client, sup, exp, mr⟩ = o2.toNat % 16
          · refine ⟨[], ?_, by simp, by simp⟩
            simp [hm, h3, hz, hs, aioMaxSend, Nat.add_comm]
          · simp [hm, h3, hz, hs] at h
    · simp [hm] at h

/-- the serializer both ends settle on is the low nibble of octet 2 -/
theorem hs_ser (c : Cfg) (o1 o2 o3 o4 : UInt8) (h : (hsEval c o1 o2 o3 o4).accepted = true) :
    (hsEval c o1 o2 o3 o4).ser = loNibble o2 := by
  obtain ⟨w, hw, _⟩ := accepted_form c o1 o2 o3 o4 h
  rw [hw]

/-- after an accepted handshake the send limit is `2^(9+n)`, `n` the high nibble the peer sent -/
theorem rs_maxsend_announced (c : Cfg) (o1 o2 o3 o4 : UInt8) (h : (hsEval c o1 o2 o3 o4).accepted = true) :
    (hsEval c o1 o2 o3 o4).maxSend = some (maxLenOfExp (hiNibble o2)) := by
  obtain ⟨w, hw, _⟩ := accepted_form c o1 o2 o3 o4 h
  rw [hw]

/-- an accepting server answers `7F | (exp << 4 | ser) | 00 | 00` -/
theorem server_written (v : Variant) (sup : List Nat) (exp mr : Nat) (o1 o2 o3 o4 : UInt8)
    (h : (hsEval ⟨v, .server, sup, exp, mr⟩ o1 o2 o3 o4).accepted = true) :
    ∃ r : UInt8, (hsEval ⟨v, .server, sup, exp, mr⟩ o1 o2 o3 o4).written = [0x7F, r, 0, 0] ∧
      r.toNat % 16 = loNibble o2 ∧ r.toNat / 16 = exp ∧ exp ≤ 15 := by
  obtain ⟨w, hw, _, hsrv⟩ := accepted_form _ o1 o2 o3 o4 h
  obtain ⟨r, rfl, h1, h2, h3⟩ := hsrv rfl
  exact ⟨r, by rw [hw], h1, h2, h3⟩

/-- an accepted handshake closes nothing and raises nothing -/
theorem accepted_clean (c : Cfg) (o1 o2 o3 o4 : UInt8) (h : (hsEval c o1 o2 o3 o4).accepted = true) :
    (hsEval c o1 o2 o3 o4).tclose = .none ∧ (hsEval c o1 o2 o3 o4).exc = none := by
  obtain ⟨w, hw, _⟩ := accepted_form c o1 o2 o3 o4 h
  rw [hw]; exact ⟨rfl, rfl⟩

/-! ## refusal -/

/-- **every refused handshake is refused by closing the transport, and no exception leaves
`dataReceived` / `data_received`** — both roles, both frameworks, all 2^32 handshakes, every serializer list.
(Before /repo 77273b88 this failed for the asyncio server meeting an unsupported serializer — F12 — and was
only provable as `rs_refuse_clean_partial` with that case excluded; the model follows the source through the
generated flag `aioServerAbortsOnUnsupported`, so re-introducing the defect breaks this theorem.) -/
def RsRefuseCleanFull : Prop :=
  ∀ (c : Cfg) (o1 o2 o3 o4 : UInt8), c.exp ≤ 15 → (hsEval c o1 o2 o3 o4).accepted = false →
    (hsEval c o1 o2 o3 o4).exc = none ∧ (hsEval c o1 o2 o3 o4).tclose ≠ .none

theorem rs_refuse_clean (c : Cfg) (o1 o2 o3 o4 : UInt8) (hexp : c.exp ≤ 15)
    (h : (hsEval c o1 o2 o3 o4).accepted = false) :
    (hsEval c o1 o2 o3 o4).exc = none ∧ (hsEval c o1 o2 o3 o4).tclose ≠ .none := by
  obtain ⟨v, r, sup, exp, mr⟩ := c
  dsimp only at hexp
  have hlo : o2.toNat % 16 < 16 := Nat.mod_lt _ (by decide)
  cases v <;> cases r
  · simp only [hsEval, twServerHs, WampTransport.twServerMagic, WampTransport.twServerSerMask, and15] at h ⊢
    by_cases hm : o1.toNat = 127
    · by_cases hs : o2.toNat % 16 ∈ sup
      · obtain ⟨q, hq, _⟩ := replyOctet_some (ser := o2.toNat % 16) hexp hlo
        simp [hm, hs, hq] at h
      · simp [hm, hs]
    · simp [hm]
  · simp only [hsEval, twClientHs, WampTransport.twClientMagic] at h ⊢
    by_cases hm : o1.toNat = 127
    · by_cases hs : o2.toNat &&& WampTransport.twClientSerMask = Cfg.mySer ⟨.twisted, .client, sup, exp, mr⟩
      · simp [hm, hs] at h
      · simp [hm, hs]
    · simp [hm]
  · simp only [hsEval, aioServerHs, aioParseHandshake, WampTransport.aioSerMask, WampTransport.aioMagic, and15] at h ⊢
    by_cases hm : o1.toNat = 127
    · by_cases h3 : o3.toNat ≠ 0 ∨ o4.toNat ≠ 0
      · simp [hm, h3]
      · by_cases hs : o2.toNat % 16 ∈ sup
        · obtain ⟨q, hq, _⟩ := replyOctet_some (ser := o2.toNat % 16) hexp hlo
          simp [hm, h3, hs, hq] at h
        · simp [hm, h3, hs, WampTransport.aioServerAbortsOnUnsupported, errReply, errReply0]
    · simp [hm]
  · simp only [hsEval, aioClientHs, aioParseHandshake, WampTransport.aioMagic] at h ⊢
    by_cases hm : o1.toNat = 127
    · by_cases h3 : o3.toNat ≠ 0 ∨ o4.toNat ≠ 0
      · simp [hm, h3]
      · by_cases hz : o2.toNat &&& WampTransport.aioSerMask = 0
        · simp [hm, h3, hz]
        · by_cases hs : Cfg.mySer ⟨.asyncio, .client, sup, exp, mr⟩ = o2.toNat &&& WampTransport.aioSerMask
          · simp [hm, h3, hz, hs] at h
          · simp [hm, h3, hz, hs]
    · simp [hm]

theorem rs_refuse_clean_full : RsRefuseCleanFull := fun c o1 o2 o3 o4 he h => rs_refuse_clean c o1 o2 o3 o4 he h

/-- the F12 input today: asyncio server, serializers = [json], handshake `7f f2 00 00` — the error reply
`7f 10 00 00` is written and the transport is closed (before the repair: `TransportLost` escaped, nothing written) -/
example : hsEval ⟨.asyncio, .server, [1], 15, 16777216⟩ 0x7F 0xF2 0 0 =
    { accepted := false, ser := 2, maxSend := some 16777216, written := [0x7F, 0x10, 0, 0], tclose := .close,
      exc := none } := by decide

/-! ## rs_same_serializer -/

/-- **Both ends use the same serializer, and each learns the other's length limit**: whatever a client
(either framework) requests, if a server (either framework) accepts it, the client accepts the server's
reply, both have the requested serializer, the server may send up to `2^(9+expC)`, the client up to `2^(9+expS)`. -/
theorem rs_same_serializer (vc vs : Variant) (sup : List Nat) (mySer expC expS mrC mrS : Nat)
    (hs : mySer < 16) (h0 : mySer ≠ 0) (hc : expC ≤ 15)
    (a b c d : UInt8) (hreq : clientRequest vc expC mySer = some [a, b, c, d])
    (hacc : (hsEval ⟨vs, .server, sup, expS, mrS⟩ a b c d).accepted = true) :
    ∃ r1 r2 r3 r4 : UInt8,
      (hsEval ⟨vs, .server, sup, expS, mrS⟩ a b c d).written = [r1, r2, r3, r4] ∧
      (hsEval ⟨vs, .server, sup, expS, mrS⟩ a b c d).ser = mySer ∧ mySer ∈ sup ∧
      (hsEval ⟨vs, .server, sup, expS, mrS⟩ a b c d).maxSend = some (maxLenOfExp expC) ∧
      (hsEval ⟨vc, .client, [mySer], expC, mrC⟩ r1 r2 r3 r4).accepted = true ∧
      (hsEval ⟨vc, .client, [mySer], expC, mrC⟩ r1 r2 r3 r4).ser = mySer ∧
      (hsEval ⟨vc, .client, [mySer], expC, mrC⟩ r1 r2 r3 r4).maxSend = some (maxLenOfExp expS) := by
  -- the request octets
  obtain ⟨q, hq, hq1, hq2⟩ := replyOctet_some hc hs
  have habcd : a = 0x7F ∧ b = q ∧ c = 0 ∧ d = 0 := by
    cases vc <;> simp [clientRequest, hq, WampTransport.aioMagic] at hreq <;>
      exact ⟨hreq.1.symm, hreq.2.1.symm, hreq.2.2.1.symm, hreq.2.2.2.symm⟩
  obtain ⟨rfl, rfl, rfl, rfl⟩ := habcd
  have hlo : loNibble b = mySer := hq1
  have hhi : hiNibble b = expC := hq2
  -- the server side
  have hexpS : (⟨vs, .server, sup, expS, mrS⟩ : Cfg).exp ≤ 15 ∨ True := Or.inr trivial
  obtain ⟨r, hw, hr1, hr2, hexpS'⟩ := server_written vs sup expS mrS _ _ _ _ hacc
  have hser := hs_ser _ _ _ _ _ hacc
  have hms := rs_maxsend_announced _ _ _ _ _ hacc
  have hspec := (rs_accept_iff ⟨vs, .server, sup, expS, mrS⟩ _ _ _ _ hexpS' (by intro h; cases h)).mp hacc
  have hmem : mySer ∈ sup := by have := hspec.2.1; rwa [hlo] at this
  -- the client side
  have hcacc : (hsEval ⟨vc, .client, [mySer], expC, mrC⟩ 0x7F r 0 0).accepted = true := by
    apply (rs_accept_iff ⟨vc, .client, [mySer], expC, mrC⟩ _ _ _ _ hc
      (by intro _; exact ⟨mySer, rfl, fun _ => h0⟩)).mpr
    refine ⟨rfl, ?_, fun _ => ⟨rfl, rfl⟩⟩
    simp only [loNibble, hr1, hlo, List.mem_singleton]
    exact hlo
  refine ⟨0x7F, r, 0, 0, hw, ?_, hmem, ?_, hcacc, ?_, ?_⟩
  · rw [hser, hlo]
  · rw [hms, hhi]
  · rw [hs_ser _ _ _ _ _ hcacc]; simp only [loNibble, hr1]; exact hlo
  · rw [rs_maxsend_announced _ _ _ _ _ hcacc]; simp only [hiNibble, hr2]


/-! ## the complete 2^16 table (kernel evaluation), tied to the serializer ids in the source -/

open Table in
/-- all 2^16 values of octets 1–2 (reserved octets zero), both roles, both frameworks, with the
server supporting every RAWSOCKET_SERIALIZER_ID that wamp/serializer.py defines and the client asking
for JSON: the model accepts exactly when octet 1 is 0x7F and the serializer nibble is supported.
Checked cell by cell by the kernel (`decide +kernel` in Proofs/Lemmas/C13Table*.lean); together with
`rs_reserved_symbolic` this covers all 2^32 handshakes for those configurations. -/
theorem rs_accept_table (n : Nat) (hn : n < 65536) :
    (twServerHs genIds 15 (o1 n) (o2 n) 0 0).accepted = specB genIds n ∧
    (twClientHs 1 (o1 n) (o2 n) 0 0).accepted = specB [1] n ∧
    (aioServerHs genIds 15 (o1 n) (o2 n) 0 0).accepted = specB genIds n ∧
    (aioClientHs 1 (o1 n) (o2 n) 0 0).accepted = specB [1] n := by
  have h1 := allRange_sound _ 16 0 tableTwS n (by omega) (by omega)
  have h2 := allRange_sound _ 16 0 tableTwC n (by omega) (by omega)
  have h3 := allRange_sound _ 16 0 tableAioS n (by omega) (by omega)
  have h4 := allRange_sound _ 16 0 tableAioC n (by omega) (by omega)
  simp only [chkTwS, chkTwC, chkAioS, chkAioC, beq_iff_eq] at h1 h2 h3 h4
  exact ⟨h1, h2, h3, h4⟩

/-- the ids the table ranges over are the ones in the source today -/
example : Table.genIds = [1, 2, 3, 4, 5] := by decide

/-! ## rs_limits -/

/-- the 4-octet prefix `struct.pack("!L"/"!I", n)` of a payload that fits the 24-bit length field is the header of a
data frame: type octet 0, then the length -/
theorem be32enc_data_header (n : Nat) (h : n ≤ frameMax) : be32enc n = frameHeader 0 n := by
  simp only [frameMax] at h
  have h0 : n / 16777216 % 256 = 0 := by omega
  simp [be32enc, frameHeader, h0]

/-- both send guards let a payload through iff it is within the peer's announced maximum *and* fits the length field -/
theorem sendGuard_none_iff (v : Variant) (m len : Nat) (hm : 0 < m) :
    sendGuard v m len = none ↔ len ≤ m ∧ len ≤ frameMax := by
  cases v
  · simp only [sendGuard, capped, WampTransport.twSendFrameCap, frameMax]
    simp only [show ¬ (16777215 = 0) by decide, if_false]
    by_cases h : 0 < min m 16777215 ∧ min m 16777215 < len
    · simp only [h, and_self, if_true]
      constructor
      · intro h'; cases h'
      · intro h'; omega
    · simp only [h, if_false, true_iff]
      omega
  · simp only [sendGuard, capped, WampTransport.aioSendFrameCap, frameMax]
    simp only [show ¬ (16777215 = 0) by decide, if_false]
    by_cases h : len > min m 16777215
    · simp only [h, if_true]
      constructor
      · intro h'; cases h'
      · intro h'; omega
    · simp only [h, if_false, true_iff]
      omega

/-- **A sender never emits a message longer than the maximum the peer announced, nor one that does not fit the 24-bit
length field; it gets an error instead** — and what it emits is exactly one data frame: type octet 0, the 24-bit
length, the payload. (Before /repo 8cc5721d a payload of exactly 2^24 octets, which exponent 15
nominally admits, went out with prefix `01 00 00 00` — N2; the caps are read from the source, `twSendFrameCap`,
`aioSendFrameCap`.) -/
theorem rs_limits (v : Variant) (m : Nat) (p : Bytes) (hm : 0 < m) :
    (∀ w, send v m p = .sent w → p.length ≤ m ∧ p.length ≤ frameMax ∧ w = encodeFrame 0 p) ∧
    (∀ e, send v m p = .error e → m < p.length ∨ frameMax < p.length) := by
  have hg := sendGuard_none_iff v m p.length hm
  cases hs : sendGuard v m p.length with
  | none =>
    have hb := hg.mp hs
    simp only [send, hs]
    constructor
    · intro w hw
      simp only [SendOut.sent.injEq] at hw
      refine ⟨hb.1, hb.2, ?_⟩
      rw [← hw, be32enc_data_header _ hb.2, encodeFrame]
    · intro e he; cases he
  | some x =>
    simp only [send, hs]
    constructor
    · intro w hw; cases hw
    · intro e _
      have : ¬ (p.length ≤ m ∧ p.length ≤ frameMax) := fun hc => by rw [hg.mpr hc] at hs; cases hs
      omega

/-- the same one level down: asyncio `PrefixProtocol.sendString` called directly never writes a frame longer than the
peer's announced maximum, nor one whose length does not fit the length field (it raises) -/
theorem send_string_limits (m len : Nat) : aioSendStringGuard m len = none ↔ len ≤ m ∧ len ≤ frameMax := by
  simp only [aioSendStringGuard, capped, WampTransport.aioSendStringFrameCap, frameMax]
  simp only [show ¬ (16777215 = 0) by decide, if_false]
  by_cases h : len > min m 16777215
  · simp only [h, if_true]
    constructor
    · intro h'; cases h'
    · intro h'; omega
  · simp only [h, if_false, true_iff]
    omega

/-- the limit in force after a handshake is the one the peer announced -/
theorem rs_limits_after_handshake (c : Cfg) (o1 o2 o3 o4 : UInt8) (p : Bytes) (m : Nat)
    (h : (hsEval c o1 o2 o3 o4).accepted = true) (hm : (hsEval c o1 o2 o3 o4).maxSend = some m) :
    ∀ w, send c.variant m p = .sent w → p.length ≤ 2 ^ (9 + hiNibble o2) ∧ p.length < 2 ^ 24 := by
  rw [rs_maxsend_announced c o1 o2 o3 o4 h] at hm
  simp only [Option.some.injEq, maxLenOfExp] at hm
  intro w hw
  have hpos : 0 < m := by rw [← hm]; exact Nat.two_pow_pos _
  have := (rs_limits c.variant m p hpos).1 w hw
  simp only [frameMax] at this
  omega

/-- **the send side is exactly the Spec** — a payload within the announced maximum that fits the length field goes out as
one data frame; any other is refused with `PayloadExceededError` (which the WAMP session layer catches to send its fallback
ERROR) and nothing is written.
(Before /repo 11645fb6 the asyncio transport raised `ValueError` — F14; the class raised is read from the source into
`aioSendOverLimitExc`. Before /repo 8cc5721d exactly 2^24 octets were misframed — N2.) -/
def RsLimitsErrorClassFull : Prop := ∀ (v : Variant) (m : Nat) (p : Bytes), 0 < m → send v m p = sendSpec m p

theorem rs_limits_error_class (v : Variant) (m : Nat) (p : Bytes) (hm : 0 < m) : send v m p = sendSpec m p := by
  have hg := sendGuard_none_iff v m p.length hm
  by_cases hb : p.length ≤ m ∧ p.length ≤ frameMax
  · simp only [send, hg.mpr hb, sendSpec, sendGuardSpec, hb, and_self, if_true]
    rw [be32enc_data_header _ hb.2, encodeFrame]
  · have hne : sendGuard v m p.length ≠ none := fun hc => hb (hg.mp hc)
    have hx : sendGuard v m p.length = some .payloadExceeded := by
      cases v
      · simp only [sendGuard] at hne ⊢
        split
        · rfl
        · rename_i h; simp [h] at hne
      · simp only [sendGuard, excOfCode, WampTransport.aioSendOverLimitExc] at hne ⊢
        split
        · rfl
        · rename_i h; simp [h] at hne
    simp only [send, hx, sendSpec, sendGuardSpec, hb, if_false]

theorem rs_limits_error_class_full : RsLimitsErrorClassFull := rs_limits_error_class

/-- the F14 input today: asyncio, peer maximum 2^9, 513 octets: `PayloadExceededError` (was `ValueError`) -/
example : sendGuard .asyncio 512 513 = some .payloadExceeded ∧ sendGuardSpec 512 513 = some .payloadExceeded := by decide

/-- the N2 input today: the peer announced 2^24 (exponent 15): 2^24 - 1 octets go out, exactly 2^24 are refused
(were sent with prefix `01 00 00 00`), by both frameworks and by `sendString` as well -/
example : sendGuard .twisted 16777216 16777215 = none ∧ sendGuard .twisted 16777216 16777216 = some .payloadExceeded ∧
    sendGuard .asyncio 16777216 16777215 = none ∧ sendGuard .asyncio 16777216 16777216 = some .payloadExceeded ∧
    aioSendStringGuard 16777216 16777216 = some .valueError ∧ sendGuardSpec 16777216 16777216 = some .payloadExceeded := by decide

/-! ## what an endpoint announces -/

theorem clog2_spec (n : Nat) (h : 2 ≤ n) : n ≤ 2 ^ clog2 n ∧ 2 ^ (clog2 n - 1) < n := by
  have h1 : ¬ n ≤ 1 := by omega
  simp only [clog2, h1, if_false, Nat.add_sub_cancel]
  have hne : n - 1 ≠ 0 := by omega
  constructor
  · have := Nat.lt_log2_self (n := n - 1)
    omega
  · have := Nat.log2_self_le hne
    omega

/-- a Twisted endpoint configured with `512 ≤ size ≤ 2^24` announces an exponent nibble `e ≤ 15` with
`size ≤ 2^(9+e) = MAX_LENGTH`, and no smaller exponent would do -/
theorem rs_announce (size : Nat) (h1 : 512 ≤ size) (h2 : size ≤ 16777216) :
    twAnnounceExp size ≤ 15 ∧ twMaxRecv size = maxLenOfExp (twAnnounceExp size) ∧ size ≤ twMaxRecv size ∧
    (twAnnounceExp size = 0 ∨ maxLenOfExp (twAnnounceExp size - 1) < size) := by
  obtain ⟨hle, hlt⟩ := clog2_spec size (by omega)
  have h9 : 9 ≤ clog2 size := by
    apply Classical.byContradiction
    intro hc
    have : 2 ^ clog2 size ≤ 2 ^ 8 := Nat.pow_le_pow_right (by decide) (by omega)
    omega
  have h24 : clog2 size ≤ 24 := by
    apply Classical.byContradiction
    intro hc
    have : 2 ^ 24 ≤ 2 ^ (clog2 size - 1) := Nat.pow_le_pow_right (by decide) (by omega)
    omega
  simp only [twAnnounceExp, twMaxRecv, maxLenOfExp]
  refine ⟨by omega, by rw [show 9 + (clog2 size - 9) = clog2 size by omega], hle, ?_⟩
  by_cases h0 : clog2 size - 9 = 0
  · left; exact h0
  · right
    rw [show 9 + (clog2 size - 9 - 1) = clog2 size - 1 by omega]
    exact hlt

/-! ## rs_hs_segmentation_independent -/

/-- **Any split of the byte stream into reads gives the same outcome**: for every configuration (both
roles, both frameworks) and every list of reads — any number, any sizes, empty reads included — the
events (reply octets, session attachment, delivered strings, close/abort, exceptions) and the final
phase equal those of one read of the concatenation. -/
theorem rs_hs_segmentation_independent (c : Cfg) (cs : List Bytes) :
    connFeedAll c Phase.init cs = connFeed c Phase.init cs.flatten :=
  conn_segmentation c cs [] (by decide)

/-- in particular every split of the four handshake octets evaluates the handshake exactly once, on
those four octets -/
theorem rs_hs_four_octets (c : Cfg) (cs : List Bytes) (o1 o2 o3 o4 : UInt8) (h : cs.flatten = [o1, o2, o3, o4]) :
    connFeedAll c Phase.init cs =
      ((if (hsEval c o1 o2 o3 o4).accepted then .established PSt.init else .dead),
       hsEvents (hsEval c o1 o2 o3 o4)) := by
  rw [rs_hs_segmentation_independent, h]
  simp only [Phase.init, connFeed_hs c [] _ (by decide : ([] : Bytes).length < 4), List.nil_append, hsStep, split4,
    finishHs]
  split <;> simp

/-- two segmentations of the same stream cannot be told apart -/
theorem rs_segmentations_agree (c : Cfg) (cs cs' : List Bytes) (h : cs.flatten = cs'.flatten) :
    connFeedAll c Phase.init cs = connFeedAll c Phase.init cs' := by
  rw [rs_hs_segmentation_independent, rs_hs_segmentation_independent, h]

/-- fewer than four octets: nothing is written, nothing is attached, nothing is closed — the connection waits -/
theorem rs_hs_waits (c : Cfg) (cs : List Bytes) (h : cs.flatten.length < 4) :
    connFeedAll c Phase.init cs = (.handshake cs.flatten, []) := by
  rw [rs_hs_segmentation_independent]
  simp only [Phase.init, connFeed_hs c [] _ (by decide : ([] : Bytes).length < 4), List.nil_append, hsStep]
  rw [split4_none.mpr h]

/-! ### what the two framings can emit -/

/-- asyncio: a refused header closes the transport — nothing else -/
theorem aio_reject_evs (max : Nat) (b0 b1 b2 b3 : UInt8) (evs : List Ev)
    (h : (aioFraming max).judge b0 b1 b2 b3 = .reject evs) : evs = [.tclose .close] := by
  simp only [aioFraming] at h
  split at h
  · simpa using h.symm
  · split at h
    · simpa using h.symm
    · cases h

/-- Twisted: a refused header aborts the transport — nothing else (N1 repaired: no exception) -/
theorem tw_reject_evs (max : Nat) (b0 b1 b2 b3 : UInt8) (evs : List Ev)
    (h : (twFraming max).judge b0 b1 b2 b3 = .reject evs) : evs = [.tclose .abort] := by
  simp only [twFraming] at h
  split at h
  · have : twLimitEvents = [.tclose .abort] := by decide
    rw [this] at h
    simpa using h.symm
  · cases h

/-- asyncio: a complete frame is handed to `stringReceived`, or answered with one PONG, or consumed; the callback never
raises (F13 repaired) -/
theorem aio_dispatch_cases (k : Nat) (p : Bytes) :
    aioDispatch k p = ([.string p], false) ∨ aioDispatch k p = ([.written (aioPingReply p)], false) ∨
    aioDispatch k p = ([], false) := by
  unfold aioDispatch
  split
  · exact Or.inl rfl
  · split
    · right; left; simp [WampTransport.aioPingRaises]
    · right; right; simp [WampTransport.aioPongRaises]

/-- the framings emit strings, PONG frames and closes — never `attach` -/
theorem parse_no_attach (c : Cfg) (n : Nat) (s : Bytes) (ser ms : Nat) :
    Ev.attach ser ms ∉ (parse (framingOf c) n s).1 := by
  intro hmem
  refine parse_events_src (framingOf c) (fun e => e ≠ Ev.attach ser ms) ?_ ?_ n s _ hmem rfl
  · intro b0 b1 b2 b3 evs hj e he
    cases hv : c.variant <;> simp only [framingOf, hv] at hj
    · rw [tw_reject_evs _ _ _ _ _ _ hj] at he; simp at he; subst he; simp
    · rw [aio_reject_evs _ _ _ _ _ _ hj] at he; simp at he; subst he; simp
  · intro k p e he
    cases hv : c.variant <;> simp only [framingOf, hv, twFraming, aioFraming] at he
    · simp at he; subst he; simp
    · rcases aio_dispatch_cases k p with h | h | h <;> rw [h] at he <;> simp at he <;> (try subst he) <;> simp

/-- a session is attached only by an acceptable handshake: if the events of any read sequence contain
`attach`, the first four octets of the stream satisfied the Spec -/
theorem rs_attach_only_if_acceptable (c : Cfg) (cs : List Bytes) (ser ms : Nat) (hexp : c.exp ≤ 15)
    (hcl : c.role = .client → ∃ m, c.supported = [m] ∧ (c.variant = .asyncio → m ≠ 0))
    (h : Ev.attach ser ms ∈ (connFeedAll c Phase.init cs).2) :
    ∃ o1 o2 o3 o4 rest, cs.flatten = o1 :: o2 :: o3 :: o4 :: rest ∧ acceptSpec c.variant c.supported o1 o2 o3 o4 ∧
      ser = loNibble o2 ∧ ms = maxLenOfExp (hiNibble o2) := by
  rw [rs_hs_segmentation_independent] at h
  simp only [Phase.init, connFeed_hs c [] _ (by decide : ([] : Bytes).length < 4), List.nil_append, hsStep] at h
  cases h4 : split4 cs.flatten with
  | none => simp [h4] at h
  | some q =>
    obtain ⟨o1, o2, o3, o4, rest⟩ := q
    rw [h4] at h
    simp only [finishHs_eq] at h
    refine ⟨o1, o2, o3, o4, rest, split4_some.mp h4, ?_⟩
    by_cases ha : (hsEval c o1 o2 o3 o4).accepted = true
    · obtain ⟨w, hw, _⟩ := accepted_form c o1 o2 o3 o4 ha
      refine ⟨(rs_accept_iff c o1 o2 o3 o4 hexp hcl).mp ha, ?_⟩
      simp only [ha, if_true, List.mem_append] at h
      rcases h with h | h
      · rw [hw] at h
        simp only [hsEvents, Option.getD_some] at h
        split at h <;> simp at h <;> exact ⟨h.1, h.2⟩
      · -- the framing never emits `attach`
        exfalso
        have hf := feed_eq (framingOf c) PSt.init rest (inv_init _)
        rw [hf] at h
        simp only [canon, PSt.init, List.nil_append] at h
        exact parse_no_attach c _ _ _ _ h
    · simp only [ha] at h
      exfalso
      have hacc : (hsEval c o1 o2 o3 o4).accepted = false := by simpa using ha
      simp only [hsEvents, hacc, Bool.false_eq_true, if_false, List.append_nil, List.mem_append] at h
      rcases h with (h | h) | h
      · split at h <;> simp at h
      · split at h <;> simp at h
      · split at h <;> simp at h


/-! ## prefix_refines_spec -/

/-- **For every chunking, the frames delivered are those of the whole-stream length-prefix parse**
(both framings; `canon` only re-attaches the saved header a live model state carries). -/
theorem prefix_refines_spec (F : Framing) (cs : List Bytes) :
    feedAll F (some PSt.init) cs = canon F (parseStream F cs.flatten) := by
  have := feedAll_eq_parse F cs PSt.init (inv_init F)
  simpa [PSt.init] using this

/-- the same after a handshake, for either framework and role: what reaches `stringReceived` does not
depend on how TCP cut the stream -/
theorem prefix_chunking_irrelevant (F : Framing) (cs cs' : List Bytes) (h : cs.flatten = cs'.flatten) :
    feedAll F (some PSt.init) cs = feedAll F (some PSt.init) cs' := feedAll_chunking F cs cs' h

/-! ### the Spec read declaratively: a stream is a sequence of frames, then either an unfinished
frame (kept), a rejected header (refused at once, whatever follows it), or a frame whose callback raises -/

inductive Framed (F : Framing) : Bytes → List Ev → Option Bytes → Prop
  | tail (t : Bytes) (h : Settled F t) : Framed F t [] (some t)
  | reject (b0 b1 b2 b3 : UInt8) (rest : Bytes) (evs : List Ev) (h : F.judge b0 b1 b2 b3 = .reject evs) :
      Framed F (b0 :: b1 :: b2 :: b3 :: rest) evs none
  | raised (b0 b1 b2 b3 : UInt8) (k l : Nat) (payload rest : Bytes) (hj : F.judge b0 b1 b2 b3 = .frame k l)
      (hl : payload.length = l) (hr : (F.dispatch k payload).2 = true) :
      Framed F (b0 :: b1 :: b2 :: b3 :: (payload ++ rest)) (F.dispatch k payload).1 none
  | frame (b0 b1 b2 b3 : UInt8) (k l : Nat) (payload rest : Bytes) (evs : List Ev) (r : Option Bytes)
      (hj : F.judge b0 b1 b2 b3 = .frame k l) (hl : payload.length = l)
      (hr : (F.dispatch k payload).2 = false) (ht : Framed F rest evs r) :
      Framed F (b0 :: b1 :: b2 :: b3 :: (payload ++ rest)) ((F.dispatch k payload).1 ++ evs) r

/-- the executable whole-stream parser computes the declarative reading -/
theorem parse_framed (F : Framing) {s : Bytes} {evs : List Ev} {r : Option Bytes} (h : Framed F s evs r) :
    parseStream F s = (evs, r) := by
  induction h with
  | tail t h => exact h
  | reject b0 b1 b2 b3 rest evs h => exact parse_reject F _ rfl h
  | raised b0 b1 b2 b3 k l payload rest hj hl hr =>
    have hl' : l ≤ (payload ++ rest).length := by simp; omega
    have ht : (payload ++ rest).take l = payload := by rw [← hl]; simp
    have := parse_raise F ((b0 :: b1 :: b2 :: b3 :: (payload ++ rest)).length)
      (s := b0 :: b1 :: b2 :: b3 :: (payload ++ rest)) rfl hj hl' (by rw [ht]; exact hr)
    rw [ht] at this
    exact this
  | frame b0 b1 b2 b3 k l payload rest evs r hj hl hr _ ih =>
    have hl' : l ≤ (payload ++ rest).length := by simp; omega
    have ht : (payload ++ rest).take l = payload := by rw [← hl]; simp
    have hd : (payload ++ rest).drop l = rest := by rw [← hl]; simp
    have := parse_ok F ((b0 :: b1 :: b2 :: b3 :: (payload ++ rest)).length)
      (s := b0 :: b1 :: b2 :: b3 :: (payload ++ rest)) rfl hj hl' (by rw [ht]; exact hr)
    rw [ht, hd] at this
    unfold parseStream
    rw [this, ← parseStream_eq F rest _ (by simp; omega), ih]

/-- **every chunking of a framed stream delivers exactly its frames, in order** -/
theorem framed_delivery (F : Framing) (cs : List Bytes) (evs : List Ev) (r : Option Bytes)
    (h : Framed F cs.flatten evs r) :
    (feedAll F (some PSt.init) cs).2 = evs ∧
    ((feedAll F (some PSt.init) cs).1 = none ↔ r = none) := by
  rw [prefix_refines_spec, parse_framed F h]
  simp [canon]

theorem settled_short (F : Framing) (t : Bytes) (h : t.length < 4) : Settled F t :=
  parse_none F _ (split4_none.mpr h)

theorem settled_incomplete (F : Framing) (b0 b1 b2 b3 : UInt8) (rest : Bytes) (k l : Nat)
    (hj : F.judge b0 b1 b2 b3 = .frame k l) (hl : rest.length < l) : Settled F (b0 :: b1 :: b2 :: b3 :: rest) :=
  parse_short F _ rfl hj (by omega)

/-! ### instances: data frames and oversize headers of the two framings -/

theorem u8_small (x : Nat) (h : x < 256) : (UInt8.ofNat x).toNat = x := UInt8.toNat_ofNat_of_lt' h

/-- asyncio: the header of a data frame that fits is judged "data frame of that length" -/
theorem aio_judge_data (max : Nat) (p : Bytes) (h1 : p.length ≤ max) (h2 : p.length < 16777216) :
    (aioFraming max).judge (UInt8.ofNat 0) (UInt8.ofNat (p.length / 65536 % 256))
      (UInt8.ofNat (p.length / 256 % 256)) (UInt8.ofNat (p.length % 256)) = .frame 0 p.length := by
  have e : be24 (UInt8.ofNat (p.length / 65536 % 256)) (UInt8.ofNat (p.length / 256 % 256))
      (UInt8.ofNat (p.length % 256)) = p.length := by
    simp only [be24]
    rw [u8_small _ (Nat.mod_lt _ (by decide)), u8_small _ (Nat.mod_lt _ (by decide)),
      u8_small _ (Nat.mod_lt _ (by decide))]
    omega
  simp only [aioFraming, e, WampTransport.aioTypeMask, WampTransport.aioTypePong]
  have : ¬ p.length > max := by omega
  simp [this]

/-- Twisted: the 32-bit header of a string that fits -/
theorem tw_judge_data (max : Nat) (p : Bytes) (h1 : p.length ≤ max) (h2 : p.length < 4294967296) :
    (twFraming max).judge (UInt8.ofNat (p.length / 16777216 % 256)) (UInt8.ofNat (p.length / 65536 % 256))
      (UInt8.ofNat (p.length / 256 % 256)) (UInt8.ofNat (p.length % 256)) = .frame 0 p.length := by
  have e : be32 (UInt8.ofNat (p.length / 16777216 % 256)) (UInt8.ofNat (p.length / 65536 % 256))
      (UInt8.ofNat (p.length / 256 % 256)) (UInt8.ofNat (p.length % 256)) = p.length := by
    simp only [be32, be24]
    rw [u8_small _ (Nat.mod_lt _ (by decide)), u8_small _ (Nat.mod_lt _ (by decide)),
      u8_small _ (Nat.mod_lt _ (by decide)), u8_small _ (Nat.mod_lt _ (by decide))]
    omega
  simp only [twFraming, e]
  have : ¬ p.length > max := by omega
  simp [this]

theorem aio_dispatch_data (p : Bytes) : aioDispatch 0 p = ([.string p], false) := by
  simp [aioDispatch, WampTransport.aioTypeData]

/-- the stream of data frames `ps`, followed by `tailS` -/
def aioStream (ps : List Bytes) (tailS : Bytes) : Bytes := (ps.map (encodeFrame 0)).flatten ++ tailS
def twStream (ps : List Bytes) (tailS : Bytes) : Bytes := (ps.map (fun p => be32enc p.length ++ p)).flatten ++ tailS

theorem aio_framed (max : Nat) (ps : List Bytes) (hps : ∀ p ∈ ps, p.length ≤ max ∧ p.length < 16777216)
    (tailS : Bytes) (evs : List Ev) (r : Option Bytes) (ht : Framed (aioFraming max) tailS evs r) :
    Framed (aioFraming max) (aioStream ps tailS) (ps.map Ev.string ++ evs) r := by
  induction ps with
  | nil => simpa [aioStream] using ht
  | cons p ps ih =>
    have hp := hps p (by simp)
    have := Framed.frame (F := aioFraming max) _ _ _ _ 0 p.length p (aioStream ps tailS) _ r
      (aio_judge_data max p hp.1 hp.2) rfl (by simp [aioFraming, aio_dispatch_data])
      (ih (fun q hq => hps q (by simp [hq])))
    have hd : (aioFraming max).dispatch 0 p = ([.string p], false) := aio_dispatch_data p
    rw [hd] at this
    simpa [aioStream, encodeFrame, frameHeader, List.append_assoc] using this

theorem tw_framed (max : Nat) (ps : List Bytes) (hps : ∀ p ∈ ps, p.length ≤ max ∧ p.length < 4294967296)
    (tailS : Bytes) (evs : List Ev) (r : Option Bytes) (ht : Framed (twFraming max) tailS evs r) :
    Framed (twFraming max) (twStream ps tailS) (ps.map Ev.string ++ evs) r := by
  induction ps with
  | nil => simpa [twStream] using ht
  | cons p ps ih =>
    have hp := hps p (by simp)
    have := Framed.frame (F := twFraming max) _ _ _ _ 0 p.length p (twStream ps tailS) _ r
      (tw_judge_data max p hp.1 hp.2) rfl (by simp [twFraming])
      (ih (fun q hq => hps q (by simp [hq])))
    simpa [twStream, be32enc, twFraming, List.append_assoc] using this

/-- **intact, in order, under any segmentation** (asyncio): data frames `ps` followed by an unfinished
frame are delivered as exactly `ps`, and the connection stays open holding the unfinished part -/
theorem aio_delivers (max : Nat) (ps : List Bytes) (hps : ∀ p ∈ ps, p.length ≤ max ∧ p.length < 16777216)
    (tailS : Bytes) (ht : Settled (aioFraming max) tailS) (cs : List Bytes)
    (hcs : cs.flatten = aioStream ps tailS) :
    feedAll (aioFraming max) (some PSt.init) cs =
      (some ⟨tailS, hdrOf (aioFraming max) tailS⟩, ps.map Ev.string) := by
  have hf := aio_framed max ps hps tailS [] (some tailS) (Framed.tail tailS ht)
  rw [prefix_refines_spec, hcs, parse_framed _ hf]
  simp [canon]

/-- the same for the Twisted framing -/
theorem tw_delivers (max : Nat) (ps : List Bytes) (hps : ∀ p ∈ ps, p.length ≤ max ∧ p.length < 4294967296)
    (tailS : Bytes) (ht : Settled (twFraming max) tailS) (cs : List Bytes)
    (hcs : cs.flatten = twStream ps tailS) :
    feedAll (twFraming max) (some PSt.init) cs =
      (some ⟨tailS, hdrOf (twFraming max) tailS⟩, ps.map Ev.string) := by
  have hf := tw_framed max ps hps tailS [] (some tailS) (Framed.tail tailS ht)
  rw [prefix_refines_spec, hcs, parse_framed _ hf]
  simp [canon]

/-- **a declared length above the local maximum is rejected on the header alone** (asyncio): after any
data frames, a header whose 24-bit length exceeds `max` closes the transport; `rest` — whatever follows
the header, *including nothing at all* — plays no role, so no payload octet of that frame is ever waited
for or handed on, under any segmentation -/
theorem aio_oversize_rejected (max : Nat) (ps : List Bytes) (hps : ∀ p ∈ ps, p.length ≤ max ∧ p.length < 16777216)
    (b0 b1 b2 b3 : UInt8) (hbig : be24 b1 b2 b3 > max) (rest : Bytes) (cs : List Bytes)
    (hcs : cs.flatten = aioStream ps (b0 :: b1 :: b2 :: b3 :: rest)) :
    feedAll (aioFraming max) (some PSt.init) cs = (none, ps.map Ev.string ++ [.tclose .close]) := by
  have hj : (aioFraming max).judge b0 b1 b2 b3 = .reject [.tclose .close] := by
    simp only [aioFraming]
    split
    · rfl
    · simp [hbig]
  have hf := aio_framed max ps hps _ _ none (Framed.reject b0 b1 b2 b3 rest _ hj)
  rw [prefix_refines_spec, hcs, parse_framed _ hf]
  simp [canon]

/-- Twisted: the same decision point (`length > MAX_LENGTH` → `lengthLimitExceeded` before anything is
waited for), and the same orderly outcome: the transport is aborted, no exception leaves `dataReceived`
(N1, repaired in /repo 3817d6f2: the override used to raise `PayloadExceededError`) -/
theorem tw_oversize_rejected (max : Nat) (ps : List Bytes) (hps : ∀ p ∈ ps, p.length ≤ max ∧ p.length < 4294967296)
    (b0 b1 b2 b3 : UInt8) (hbig : be32 b0 b1 b2 b3 > max) (rest : Bytes) (cs : List Bytes)
    (hcs : cs.flatten = twStream ps (b0 :: b1 :: b2 :: b3 :: rest)) :
    feedAll (twFraming max) (some PSt.init) cs = (none, ps.map Ev.string ++ [.tclose .abort]) := by
  have hj : (twFraming max).judge b0 b1 b2 b3 = .reject [.tclose .abort] := by
    have : twLimitEvents = [.tclose .abort] := by decide
    simp [twFraming, hbig, this]
  have hf := tw_framed max ps hps _ _ none (Framed.reject b0 b1 b2 b3 rest _ hj)
  rw [prefix_refines_spec, hcs, parse_framed _ hf]
  simp [canon]

/-! ### PING / PONG (asyncio) against the WAMP RawSocket Spec -/

/-- what the WAMP RawSocket Spec asks of the receiver of one complete frame `(type, payload)`: a regular message (type 0)
is handed on, a PING (type 1) is answered with exactly one PONG (type 2) that echoes the payload, a PONG is consumed -/
def frameSpec : Nat × Bytes → List Ev
  | (0, p) => [.string p]
  | (1, p) => [.written (encodeFrame 2 p)]
  | _ => []

/-- the stream of frames `fs` (type, payload), followed by `tailS` -/
def aioFrames (fs : List (Nat × Bytes)) (tailS : Bytes) : Bytes :=
  (fs.map (fun f => encodeFrame f.1 f.2)).flatten ++ tailS

/-- the reply `ping()` writes is the PONG frame of the Spec -/
theorem aioPingReply_eq (p : Bytes) : aioPingReply p = encodeFrame 2 p := by
  simp [aioPingReply, encodeFrame, frameHeader, be32enc, WampTransport.aioPingReplyType]

/-- the dispatch of the three frame types is the Spec's -/
theorem aio_dispatch_spec (t : Nat) (ht : t ≤ 2) (p : Bytes) : aioDispatch t p = (frameSpec (t, p), false) := by
  have : t = 0 ∨ t = 1 ∨ t = 2 := by omega
  rcases this with rfl | rfl | rfl
  · exact aio_dispatch_data p
  · simp [aioDispatch, frameSpec, WampTransport.aioTypeData, WampTransport.aioTypePing, WampTransport.aioPingRaises, aioPingReply_eq]
  · simp [aioDispatch, frameSpec, WampTransport.aioTypeData, WampTransport.aioTypePing, WampTransport.aioPongRaises]

/-- the header of a frame of type `t ≤ 2` that fits is judged "frame of type `t` and that length" -/
theorem aio_judge_frame (max t : Nat) (ht : t ≤ 2) (p : Bytes) (h1 : p.length ≤ max) (h2 : p.length < 16777216) :
    (aioFraming max).judge (UInt8.ofNat t) (UInt8.ofNat (p.length / 65536 % 256))
      (UInt8.ofNat (p.length / 256 % 256)) (UInt8.ofNat (p.length % 256)) = .frame t p.length := by
  have e : be24 (UInt8.ofNat (p.length / 65536 % 256)) (UInt8.ofNat (p.length / 256 % 256))
      (UInt8.ofNat (p.length % 256)) = p.length := by
    simp only [be24]
    rw [u8_small _ (Nat.mod_lt _ (by decide)), u8_small _ (Nat.mod_lt _ (by decide)),
      u8_small _ (Nat.mod_lt _ (by decide))]
    omega
  have hm : ¬ p.length > max := by omega
  have : t = 0 ∨ t = 1 ∨ t = 2 := by omega
  rcases this with rfl | rfl | rfl <;>
    simp [aioFraming, e, WampTransport.aioTypeMask, WampTransport.aioTypePong, hm]

theorem aio_framed_typed (max : Nat) (fs : List (Nat × Bytes))
    (hfs : ∀ f ∈ fs, f.1 ≤ 2 ∧ f.2.length ≤ max ∧ f.2.length < 16777216)
    (tailS : Bytes) (evs : List Ev) (r : Option Bytes) (ht : Framed (aioFraming max) tailS evs r) :
    Framed (aioFraming max) (aioFrames fs tailS) (fs.flatMap frameSpec ++ evs) r := by
  induction fs with
  | nil => simpa [aioFrames] using ht
  | cons f fs ih =>
    obtain ⟨t, p⟩ := f
    have hp := hfs (t, p) (by simp)
    have hd : (aioFraming max).dispatch t p = (frameSpec (t, p), false) := aio_dispatch_spec t hp.1 p
    have := Framed.frame (F := aioFraming max) _ _ _ _ t p.length p (aioFrames fs tailS) _ r
      (aio_judge_frame max t hp.1 p hp.2.1 hp.2.2) rfl (by rw [hd])
      (ih (fun q hq => hfs q (by simp [hq])))
    rw [hd] at this
    simpa [aioFrames, encodeFrame, frameHeader, List.append_assoc] using this

/-- **PING is answered, PONG is consumed, messages are delivered — in order, under any segmentation** (asyncio): a stream of
complete frames of the three types (each within the local maximum) followed by an unfinished frame produces exactly the
events the Spec asks for, frame by frame; nothing is closed, nothing is raised, and the connection goes on holding the
unfinished part. (Before /repo 4c355c2c `NotImplementedError` left `data_received` at the first PING or PONG — F13.) -/
theorem aio_serves (max : Nat) (fs : List (Nat × Bytes))
    (hfs : ∀ f ∈ fs, f.1 ≤ 2 ∧ f.2.length ≤ max ∧ f.2.length < 16777216)
    (tailS : Bytes) (ht : Settled (aioFraming max) tailS) (cs : List Bytes)
    (hcs : cs.flatten = aioFrames fs tailS) :
    feedAll (aioFraming max) (some PSt.init) cs =
      (some ⟨tailS, hdrOf (aioFraming max) tailS⟩, fs.flatMap frameSpec) := by
  have hf := aio_framed_typed max fs hfs tailS [] (some tailS) (Framed.tail tailS ht)
  rw [prefix_refines_spec, hcs, parse_framed _ hf]
  simp [canon]

/-- the only octets the framing ever writes are PONG frames echoing a payload -/
theorem aio_writes_only_pongs (max : Nat) (cs : List Bytes) (w : Bytes)
    (h : Ev.written w ∈ (feedAll (aioFraming max) (some PSt.init) cs).2) : ∃ p, w = encodeFrame 2 p := by
  refine feedAll_events_src (aioFraming max) (fun e => ∀ w, e = Ev.written w → ∃ p, w = encodeFrame 2 p) ?_ ?_ cs _ h w rfl
  · intro b0 b1 b2 b3 evs hj e he w' hw'
    rw [aio_reject_evs _ _ _ _ _ _ hj] at he; simp at he; subst he; cases hw'
  · intro k p e he w' hw'
    simp only [aioFraming] at he
    rcases aio_dispatch_cases k p with h | h | h <;> rw [h] at he <;> simp at he
    · subst he; cases hw'
    · subst he; simp only [Ev.written.injEq] at hw'; exact ⟨p, by rw [← hw', aioPingReply_eq]⟩

/-! ### no exception leaves `dataReceived` / `data_received` -/

/-- full-strength statement: no stream, however cut, makes an exception leave `data_received` -/
def PrefixNeverRaisesFull (F : Framing) : Prop :=
  ∀ (cs : List Bytes) (e : Exc), Ev.raised e ∉ (feedAll F (some PSt.init) cs).2

/-- asyncio: every stream whatsoever, under every segmentation (F13 repaired: PING and PONG frames included) -/
theorem aio_never_raises (max : Nat) : PrefixNeverRaisesFull (aioFraming max) := by
  intro cs e hmem
  refine feedAll_events_src (aioFraming max) (fun x => x ≠ Ev.raised e) ?_ ?_ cs _ hmem rfl
  · intro b0 b1 b2 b3 evs hj x hx
    rw [aio_reject_evs _ _ _ _ _ _ hj] at hx; simp at hx; subst hx; simp
  · intro k p x hx
    simp only [aioFraming] at hx
    rcases aio_dispatch_cases k p with h | h | h <;> rw [h] at hx <;> simp at hx <;> (try subst hx) <;> simp

/-- Twisted: every stream whatsoever, under every segmentation (N1 repaired: over-long and PING/PONG headers included) -/
theorem tw_never_raises (max : Nat) : PrefixNeverRaisesFull (twFraming max) := by
  intro cs e hmem
  refine feedAll_events_src (twFraming max) (fun x => x ≠ Ev.raised e) ?_ ?_ cs _ hmem rfl
  · intro b0 b1 b2 b3 evs hj x hx
    rw [tw_reject_evs _ _ _ _ _ _ hj] at hx; simp at hx; subst hx; simp
  · intro k p x hx
    simp only [twFraming] at hx; simp at hx; subst hx; simp

/-- **after the handshake no stream, however cut, makes an exception leave `dataReceived` / `data_received`** (both
frameworks; was `prefix_never_raises_partial` — data frames only — while F13 and N1 were open) -/
theorem prefix_never_raises (c : Cfg) : PrefixNeverRaisesFull (framingOf c) := by
  cases hv : c.variant <;> simp only [framingOf, hv]
  · exact tw_never_raises _
  · exact aio_never_raises _

/-- **… and none does during the whole life of a connection**: handshake (valid or not, any role, either framework)
followed by any octets whatsoever, cut into reads in any way -/
theorem rs_never_raises (c : Cfg) (hexp : c.exp ≤ 15) (cs : List Bytes) (e : Exc) :
    Ev.raised e ∉ (connFeedAll c Phase.init cs).2 := by
  intro h
  rw [rs_hs_segmentation_independent] at h
  simp only [Phase.init, connFeed_hs c [] _ (by decide : ([] : Bytes).length < 4), List.nil_append, hsStep] at h
  cases h4 : split4 cs.flatten with
  | none => simp [h4] at h
  | some q =>
    obtain ⟨o1, o2, o3, o4, rest⟩ := q
    rw [h4] at h
    simp only [finishHs_eq] at h
    have hclean : Ev.raised e ∉ hsEvents (hsEval c o1 o2 o3 o4) := by
      have hexc : (hsEval c o1 o2 o3 o4).exc = none := by
        cases ha : (hsEval c o1 o2 o3 o4).accepted with
        | true => exact (accepted_clean c o1 o2 o3 o4 ha).2
        | false => exact (rs_refuse_clean c o1 o2 o3 o4 hexp ha).1
      intro hm
      simp only [hsEvents, hexc, List.append_nil, List.mem_append] at hm
      rcases hm with (hm | hm) | hm
      · split at hm <;> simp at hm
      · split at hm <;> simp at hm
      · split at hm <;> simp at hm
    by_cases ha : (hsEval c o1 o2 o3 o4).accepted = true
    · simp only [ha, if_true, List.mem_append] at h
      rcases h with h | h
      · exact hclean h
      · have := prefix_never_raises c [rest] e
        simp only [feedAll] at this
        apply this
        cases hf : (feed (framingOf c) PSt.init rest).1 <;> simp [feedAll, h]
    · simp only [ha] at h
      exact hclean h

/-- the F13 inputs today (asyncio, after the handshake): the PING frame `01 00 00 01 41` is answered with the PONG
`02 00 00 01 41`, the PONG frame `02 00 00 00` is consumed; the connection stays open with an empty buffer
(both used to raise `NotImplementedError` out of `data_received`) -/
example : feedAll (aioFraming 16777216) (some PSt.init) [[0x01, 0x00, 0x00, 0x01, 0x41]]
    = (some PSt.init, [.written [0x02, 0x00, 0x00, 0x01, 0x41]]) := by decide
example : feedAll (aioFraming 16777216) (some PSt.init) [[0x02, 0x00], [0x00, 0x00]] = (some PSt.init, []) := by decide

/-- the N1 input today: Twisted, `MAX_LENGTH = 512`, header declaring 513 octets: the transport is aborted, nothing is
raised (used to raise `PayloadExceededError` out of `dataReceived`); a PING header is an over-long length to Twisted -/
example : feedAll (twFraming 512) (some PSt.init) [[0x00, 0x00], [0x02, 0x01]] = (none, [.tclose .abort]) := by decide
example : feedAll (twFraming 16777216) (some PSt.init) [[0x01, 0x00, 0x00, 0x01, 0x41]] = (none, [.tclose .abort]) := by decide

/-! ### what a sender emits, a receiver delivers -/

/-- **a message a sender emits is delivered intact by a receiver of either framework whose own maximum admits it, however
TCP cuts it**: the wire form is one data frame that both framings read as exactly that payload — there is no length
for which the 4-octet prefix means something else. (Before /repo 8cc5721d a payload of exactly 2^24 octets went
out as `01 00 00 00 …`, which an asyncio receiver reads as a PING of length 0 followed by garbage — N2.) -/
theorem rs_send_delivered (v : Variant) (m : Nat) (p w : Bytes) (hm : 0 < m) (hs : send v m p = .sent w)
    (c : Cfg) (hr : p.length ≤ c.maxRecv) (cs : List Bytes) (hcs : cs.flatten = w) :
    feedAll (framingOf c) (some PSt.init) cs = (some PSt.init, [.string p]) := by
  obtain ⟨_, hfm, hw⟩ := (rs_limits v m p hm).1 w hs
  simp only [frameMax] at hfm
  have hset : ∀ F : Framing, Settled F [] := fun F => settled_short F [] (by decide)
  cases hv : c.variant <;> simp only [framingOf, hv]
  · have := tw_delivers c.maxRecv [p] (by intro q hq; simp at hq; subst hq; exact ⟨hr, by omega⟩) [] (hset _) cs
      (by rw [hcs, hw, encodeFrame, ← be32enc_data_header _ (by simp only [frameMax]; omega)]; simp [twStream])
    rw [this]; simp [PSt.init, hdrOf, split4]
  · have := aio_delivers c.maxRecv [p] (by intro q hq; simp at hq; subst hq; exact ⟨hr, by omega⟩) [] (hset _) cs
      (by rw [hcs, hw]; simp [aioStream])
    rw [this]; simp [PSt.init, hdrOf, split4]

/-- concrete segmentation instance: three reads cutting through headers and payloads -/
example : (feedAll (aioFraming 100) (some PSt.init) [[0, 0, 0], [2, 65, 66, 0], [0, 0, 1, 67, 0, 0]]).2
    = [.string [65, 66], .string [67]] := by decide

/-! ## exception ladders and the transport-gone notification -/

/-- **fail closed**: whatever `unserialize` / `session.onMessage` raises (other than Twisted's
`CancelledError`, which is an internal cancellation, not peer input), the transport is aborted -/
theorem ladder_fail_closed (v : Variant) (e : Exc) (h : ¬ (v = .twisted ∧ e = .cancelled)) :
    ladder v e = .abort := by
  cases v <;> cases e <;> simp_all [ladder]

theorem lrun_told_le (s : LSt) (h : List LEv) : (lrun s h).told ≤ s.told + (if s.session then 1 else 0) + h.count .attach := by
  induction h generalizing s with
  | nil => simp [lrun]
  | cons e es ih =>
    simp only [lrun, List.foldl_cons] at ih ⊢
    have := ih (lstep s e)
    cases e with
    | attach =>
      simp only [lstep, List.count_cons_self] at this ⊢
      split at this <;> (split <;> omega)
    | lost =>
      simp only [lstep] at this ⊢
      have hc : List.count LEv.attach (LEv.lost :: es) = List.count LEv.attach es := by
        simp [List.count_cons]
      rw [hc]
      split at this
      · rename_i hs
        simp only [hs, if_true] at this ⊢
        simp at this
        omega
      · rename_i hs
        simp only [hs] at this ⊢
        exact this

/-- **the session is told at most once** that the transport is gone, whatever the order and number of
`connectionLost` / `onClose` notifications (a transport object attaches at most one session) -/
theorem session_told_once (h : List LEv) (h1 : h.count .attach ≤ 1) : (lrun ⟨false, 0⟩ h).told ≤ 1 := by
  have := lrun_told_le ⟨false, 0⟩ h
  simp at this
  omega

/-- … and exactly once when a session was attached and the transport was then lost -/
theorem session_told_exactly_once (pre mid post : List LEv) (hpre : pre.count .attach = 0)
    (hmid : mid.count .attach = 0) (hpost : post.count .attach = 0) :
    (lrun ⟨false, 0⟩ (pre ++ [.attach] ++ mid ++ [.lost] ++ post)).told = 1 := by
  have noatt : ∀ (l : List LEv) (s : LSt), l.count .attach = 0 → s.session = false → lrun s l = s := by
    intro l
    induction l with
    | nil => intro s _ _; rfl
    | cons e es ih =>
      intro s hc hs
      cases e with
      | attach => simp at hc
      | lost =>
        have hc' : es.count .attach = 0 := by simpa [List.count_cons] using hc
        simp only [lrun, List.foldl_cons, lstep, hs]
        exact ih s hc' hs
  have att : ∀ (l : List LEv) (s : LSt), l.count .attach = 0 → s.session = true →
      (lrun s (l ++ [.lost])).told = s.told + 1 ∧ (lrun s (l ++ [.lost])).session = false := by
    intro l
    induction l with
    | nil => intro s _ hs; simp [lrun, lstep, hs]
    | cons e es ih =>
      intro s hc hs
      cases e with
      | attach => simp at hc
      | lost =>
        have hc' : es.count .attach = 0 := by simpa [List.count_cons] using hc
        simp only [List.cons_append, lrun, List.foldl_cons, lstep, hs, if_true]
        have h2 := noatt (es ++ [.lost]) ⟨false, s.told + 1⟩ (by simp [List.count_append, hc', List.count_cons]) rfl
        simp only [lrun] at h2
        rw [h2]
        exact ⟨rfl, rfl⟩
  have e1 : lrun ⟨false, 0⟩ (pre ++ [.attach] ++ mid ++ [.lost] ++ post)
      = lrun (lrun (lstep (lrun ⟨false, 0⟩ pre) .attach) (mid ++ [.lost])) post := by
    simp [lrun, List.foldl_append]
  rw [e1, noatt pre _ hpre rfl]
  obtain ⟨h1, h2⟩ := att mid (lstep ⟨false, 0⟩ .attach) hmid rfl
  rw [noatt post _ hpost h2, h1]
  rfl

example : (lrun ⟨false, 0⟩ [.lost, .attach, .lost, .lost, .lost]).told = 1 := by decide

/-! ## non-vacuity: concrete instances of the hypotheses used above -/

-- rs_accept_iff / rs_same_serializer: an asyncio client (exp 15, JSON) against a Twisted server announcing 2^12
example : clientRequest .asyncio 15 1 = some [0x7F, 0xF1, 0, 0] := by decide
example : acceptSpec .twisted [1, 3] 0x7F 0xF1 0 0 := by decide
example : hsEval ⟨.twisted, .server, [1, 3], 3, 4096⟩ 0x7F 0xF1 0 0 =
    { accepted := true, ser := 1, maxSend := some 16777216, written := [0x7F, 0x31, 0, 0], tclose := .none, exc := none } := by
  decide
example : hsEval ⟨.asyncio, .client, [1], 15, 16777216⟩ 0x7F 0x31 0 0 =
    { accepted := true, ser := 1, maxSend := some 4096, written := [], tclose := .none, exc := none } := by decide
-- refusals
example : (hsEval ⟨.twisted, .server, [1], 15, 16777216⟩ 0x7E 0xF1 0 0).tclose = .abort := by decide
example : (hsEval ⟨.asyncio, .client, [1], 15, 16777216⟩ 0x7F 0xF1 0 1).tclose = .close := by decide
example : (hsEval ⟨.twisted, .client, [1], 15, 16777216⟩ 0x7F 0xF1 0 1).accepted = true := by decide
-- rs_hs_segmentation_independent: five reads (one empty) through handshake and a frame, asyncio server
example : connFeedAll ⟨.asyncio, .server, [1], 15, 16777216⟩ Phase.init
      [[0x7F], [], [0x11, 0], [0, 0, 0, 0, 1], [0x41, 0]]
    = (.established ⟨[0], none⟩, [.written [0x7F, 0xF1, 0, 0], .attach 1 1024, .string [0x41]]) := by decide
-- aio_delivers / tw_delivers: settled tails
/-- `aio_serves`: a message, a PING, a PONG, another message, then an unfinished frame — cut through headers and payloads -/
example : (∀ f ∈ [(0, [65]), (1, [66, 67]), (2, [68]), (0, [])], f.1 ≤ 2 ∧ f.2.length ≤ 100 ∧ f.2.length < 16777216) ∧
    Settled (aioFraming 100) [1, 0, 0] := by
  refine ⟨by decide, ?_⟩; unfold Settled; decide
example : feedAll (aioFraming 100) (some PSt.init) [[0, 0, 0], [1, 65, 1, 0, 0, 2, 66], [67, 2, 0, 0, 1, 68, 0, 0, 0], [0, 1, 0, 0]]
    = (some ⟨[1, 0, 0], none⟩, [.string [65], .written [2, 0, 0, 2, 66, 67], .string []]) := by decide
/-- `rs_never_raises`: handshake, PING and an ill-typed frame in one read (asyncio server); an over-long header (Twisted client) -/
example : connFeedAll ⟨.asyncio, .server, [1], 15, 16777216⟩ Phase.init [[0x7F, 0x11, 0, 0, 1, 0, 0, 1, 0x41, 7, 0, 0, 0]]
    = (.dead, [.written [0x7F, 0xF1, 0, 0], .attach 1 1024, .written [2, 0, 0, 1, 0x41], .tclose .close]) := by decide
example : connFeedAll ⟨.twisted, .client, [1], 0, 512⟩ Phase.init [[0x7F, 0xF1], [0, 0, 0, 0, 2], [1]]
    = (.dead, [.attach 1 16777216, .tclose .abort]) := by decide
/-- `rs_send_delivered`: three octets to a peer that announced 512 -/
example : send .asyncio 512 [1, 2, 3] = .sent [0, 0, 0, 3, 1, 2, 3] ∧ send .twisted 512 [1, 2, 3] = .sent [0, 0, 0, 3, 1, 2, 3] := by decide
example : Settled (aioFraming 100) [0, 0, 0] := by unfold Settled; decide
example : Settled (aioFraming 100) [0, 0, 0, 5, 1, 2] := by unfold Settled; decide
example : Settled (twFraming 512) [0, 0, 2] := by unfold Settled; decide
-- rs_announce
example : twAnnounceExp 1000 = 1 ∧ twMaxRecv 1000 = 1024 ∧ twAnnounceExp 16777216 = 15 ∧ twAnnounceExp 512 = 0 := by decide

end Abverif.RawSocket

namespace Abverif.WsSub
open Abverif.Gen

/-! ## Python string primitives -/

theorem splitDot_ne_nil (s : Str) : splitDot s ≠ [] := by
  cases s with
  | nil => simp [splitDot]
  | cons c cs =>
    simp only [splitDot]
    split
    · simp
    · split <;> simp

theorem splitDot_exists (s : Str) : ∃ h t, splitDot s = h :: t := by
  cases e : splitDot s with
  | nil => exact absurd e (splitDot_ne_nil s)
  | cons h t => exact ⟨h, t, rfl⟩

theorem splitDot_dot (cs : Str) : splitDot ('.' :: cs) = [] :: splitDot cs := by
  obtain ⟨h, t, e⟩ := splitDot_exists cs
  simp [splitDot, e]

theorem splitDot_char (c : Char) (cs : Str) (hc : c ≠ '.') (h : Str) (t : List Str) (e : splitDot cs = h :: t) :
    splitDot (c :: cs) = (c :: h) :: t := by
  simp [splitDot, e, hc]

/-- `".".join(s.split("."))` is `s` -/
theorem joinDot_splitDot (s : Str) : joinDot (splitDot s) = s := by
  induction s with
  | nil => simp [splitDot, joinDot]
  | cons c cs ih =>
    obtain ⟨h, t, e⟩ := splitDot_exists cs
    by_cases hc : c = '.'
    · subst hc
      rw [splitDot_dot, e]
      rw [e] at ih
      simp [joinDot, ih]
    · rw [splitDot_char c cs hc h t e]
      rw [e] at ih
      cases t with
      | nil => simp only [joinDot] at ih ⊢; rw [ih]
      | cons t1 ts => simp only [joinDot, List.cons_append] at ih ⊢; rw [ih]

/-- the subprotocol the factory advertises for serializer id `sid` parses back to `(2, sid)` — for every
id string, dots included (`json.batched`) -/
theorem parseSub_protocol (sid : Str) : parseSub (WampTransport.wsPrefix ++ sid) = some ((2 : Int), sid) := by
  obtain ⟨h, t, e⟩ := splitDot_exists sid
  have hs : splitDot (WampTransport.wsPrefix ++ sid) = ['w', 'a', 'm', 'p'] :: ['2'] :: splitDot sid := by
    simp only [WampTransport.wsPrefix, List.cons_append, List.nil_append]
    rw [splitDot_char 'w' _ (by decide) ['a', 'm', 'p'] (['2'] :: splitDot sid)]
    rw [splitDot_char 'a' _ (by decide) ['m', 'p'] (['2'] :: splitDot sid)]
    rw [splitDot_char 'm' _ (by decide) ['p'] (['2'] :: splitDot sid)]
    rw [splitDot_char 'p' _ (by decide) [] (['2'] :: splitDot sid)]
    rw [splitDot_dot]
    rw [splitDot_char '2' _ (by decide) [] (splitDot sid)]
    rw [splitDot_dot]
  have hi : pyInt ['2'] = some 2 := by decide
  simp only [parseSub, hs, WampTransport.wsWord, ne_eq, not_true_eq_false, if_false, hi, joinDot_splitDot]

/-! ## ws_select_first_common -/

theorem good_iff (sup : List Str) (p sid : Str) : good sup p = some sid ↔ IsGood sup p sid := by
  simp only [good, IsGood, WampTransport.wsVersion]
  cases hp : parseSub p with
  | none => simp
  | some vs =>
    obtain ⟨v, s⟩ := vs
    by_cases hv : v = (2 : Int)
    · subst hv
      by_cases hm : s ∈ sup
      · have hc : sup.contains s = true := by simpa using hm
        have h2 : ((2 : Int) = Int.ofNat 2 ∧ sup.contains s = true) := ⟨rfl, hc⟩
        simp only [h2, if_true, Option.some.injEq, Prod.mk.injEq, true_and]
        constructor
        · intro h; subst h; exact ⟨rfl, hm⟩
        · intro h; exact h.1
      · have hc : ¬ sup.contains s = true := by simpa using hm
        have h2 : ¬ ((2 : Int) = Int.ofNat 2 ∧ sup.contains s = true) := fun h => hc h.2
        simp only [h2, if_false, Option.some.injEq, Prod.mk.injEq, true_and]
        constructor
        · intro h; cases h
        · intro h; obtain ⟨h1, h2'⟩ := h; subst h1; exact absurd h2' hm
    · have h2 : ¬ (v = Int.ofNat 2 ∧ sup.contains s = true) := fun h => hv h.1
      simp only [h2, if_false, Option.some.injEq, Prod.mk.injEq]
      constructor
      · intro h; cases h
      · intro h; exact absurd h.1.1 hv

theorem good_none_iff (sup : List Str) (p : Str) : good sup p = none ↔ ∀ s, ¬ IsGood sup p s := by
  constructor
  · intro h s hs
    rw [← good_iff] at hs
    rw [h] at hs; cases hs
  · intro h
    cases hg : good sup p with
    | none => rfl
    | some s => exact absurd ((good_iff sup p s).mp hg) (h s)

/-- **The server selects the first protocol in the client's order of preference that is `wamp.2.<s>`
with `s` one of its serializers** … -/
theorem ws_select_first_common (sup l : List Str) (p sid : Str) :
    serverOnConnect true sup l = .chosen p sid ↔ FirstGood sup l p sid := by
  induction l with
  | nil =>
    simp only [serverOnConnect, if_true]
    constructor
    · intro h; cases h
    · rintro ⟨pre, post, h, _⟩
      cases pre <;> simp at h
  | cons q qs ih =>
    simp only [serverOnConnect]
    cases hg : good sup q with
    | some s =>
      simp only
      constructor
      · intro h
        simp only [Sel.chosen.injEq] at h
        obtain ⟨rfl, rfl⟩ := h
        exact ⟨[], qs, rfl, (good_iff sup q s).mp hg, by simp⟩
      · rintro ⟨pre, post, h, hgood, hpre⟩
        cases pre with
        | nil =>
          simp only [List.nil_append, List.cons.injEq] at h
          obtain ⟨rfl, _⟩ := h
          have := (good_iff sup q sid).mpr hgood
          rw [hg] at this
          simp only [Option.some.injEq] at this
          subst this; rfl
        | cons a as =>
          simp only [List.cons_append, List.cons.injEq] at h
          obtain ⟨rfl, _⟩ := h
          exact absurd ((good_iff sup q s).mp hg) (hpre q (by simp) s)
    | none =>
      simp only
      rw [ih]
      have hnone := (good_none_iff sup q).mp hg
      constructor
      · rintro ⟨pre, post, h, hgood, hpre⟩
        refine ⟨q :: pre, post, by simp [h], hgood, ?_⟩
        intro x hx s
        simp only [List.mem_cons] at hx
        rcases hx with rfl | hx
        · exact hnone s
        · exact hpre x hx s
      · rintro ⟨pre, post, h, hgood, hpre⟩
        cases pre with
        | nil =>
          simp only [List.nil_append, List.cons.injEq] at h
          obtain ⟨rfl, _⟩ := h
          exact absurd hgood (hnone sid)
        | cons a as =>
          simp only [List.cons_append, List.cons.injEq] at h
          obtain ⟨rfl, rfl⟩ := h
          exact ⟨as, post, rfl, hgood, fun x hx s => hpre x (by simp [hx]) s⟩

/-- … **and refuses (HTTP 400) iff there is none** -/
theorem ws_select_none_iff (sup l : List Str) :
    serverOnConnect true sup l = .deny ↔ ∀ q ∈ l, ∀ s, ¬ IsGood sup q s := by
  induction l with
  | nil => simp [serverOnConnect]
  | cons q qs ih =>
    simp only [serverOnConnect]
    cases hg : good sup q with
    | some s =>
      simp only
      constructor
      · intro h; cases h
      · intro h; exact absurd ((good_iff sup q s).mp hg) (h q (by simp) s)
    | none =>
      simp only
      rw [ih]
      have hnone := (good_none_iff sup q).mp hg
      constructor
      · intro h x hx s
        simp only [List.mem_cons] at hx
        rcases hx with rfl | hx
        · exact hnone s
        · exact h x hx s
      · intro h x hx s; exact h x (by simp [hx]) s

/-- the strict server never falls back -/
theorem ws_strict_no_fallback (sup l : List Str) (o : Option Str) : serverOnConnect true sup l ≠ .fallback o := by
  induction l with
  | nil => simp [serverOnConnect]
  | cons q qs ih =>
    simp only [serverOnConnect]
    split
    · simp
    · exact ih

/-! ## ws_both_same_serializer_and_framing -/

theorem mem_protocolsOf (cs : List Str) (p : Str) : p ∈ protocolsOf cs ↔ ∃ sid ∈ cs, p = WampTransport.wsPrefix ++ sid := by
  simp only [protocolsOf, List.mem_map]
  constructor
  · rintro ⟨a, ha, rfl⟩; exact ⟨a, ha, rfl⟩
  · rintro ⟨a, ha, rfl⟩; exact ⟨a, ha, rfl⟩

/-- **Both ends use the same serializer with the matching text/binary framing**: when a (strict) server
with serializers `ss` selects `p` from the list a client with serializers `cs` advertises, the (strict)
client accepts `p`, both attach the *same* serializer id `sid`, `sid` is one both were configured with,
`p` is literally `wamp.2.<sid>` — and since text/binary framing is a function of the serializer
(`binaryOf sid`), both frame alike. -/
theorem ws_both_same_serializer_and_framing (cs ss : List Str) (p sid : Str)
    (h : serverOnConnect true ss (protocolsOf cs) = .chosen p sid) :
    clientOnConnect true cs (some p) = .attached sid ∧ sid ∈ ss ∧ sid ∈ cs ∧ p = WampTransport.wsPrefix ++ sid := by
  obtain ⟨pre, post, hl, ⟨hparse, hss⟩, _⟩ := (ws_select_first_common ss _ p sid).mp h
  have hp : p ∈ protocolsOf cs := by rw [hl]; simp
  obtain ⟨id, hid, rfl⟩ := (mem_protocolsOf cs p).mp hp
  rw [parseSub_protocol] at hparse
  simp only [Option.some.injEq, Prod.mk.injEq, true_and] at hparse
  subst hparse
  refine ⟨?_, hss, hid, rfl⟩
  simp only [clientOnConnect]
  simp [hp, parseSub_protocol, hid]

/-- **no common serializer ⇒ refused on both sides**: the server denies, and a strict client given no
(or a foreign) subprotocol refuses to attach a session -/
theorem ws_no_common_refused (cs ss : List Str) (hdisj : ∀ sid ∈ cs, sid ∉ ss) :
    serverOnConnect true ss (protocolsOf cs) = .deny ∧ clientOnConnect true cs none = .refused := by
  constructor
  · rw [ws_select_none_iff]
    intro q hq s ⟨hparse, hs⟩
    obtain ⟨id, hid, rfl⟩ := (mem_protocolsOf cs q).mp hq
    rw [parseSub_protocol] at hparse
    simp only [Option.some.injEq, Prod.mk.injEq, true_and] at hparse
    subst hparse
    exact hdisj id hid hs
  · simp [clientOnConnect]

/-- a strict client never attaches on a subprotocol it did not ask for -/
theorem ws_client_only_requested (cs : List Str) (p sid : Str) (h : clientOnConnect true cs (some p) = .attached sid) :
    p ∈ protocolsOf cs ∧ sid ∈ cs := by
  simp only [clientOnConnect] at h
  by_cases hp : p ∈ protocolsOf cs
  · cases hq : parseSub p with
    | none => simp [hp, hq] at h
    | some vs =>
      obtain ⟨v, s⟩ := vs
      by_cases hs : s ∈ cs
      · simp [hp, hq, hs] at h
        subst h
        exact ⟨hp, hs⟩
      · simp [hp, hq, hs] at h
  · simp [hp] at h

/-- framing of the installed serializers: JSON text, the others binary (batched variants alike) -/
example : binaryOf ['j', 's', 'o', 'n'] = some false ∧ binaryOf ['c', 'b', 'o', 'r'] = some true ∧
    binaryOf ['m', 's', 'g', 'p', 'a', 'c', 'k'] = some true ∧ binaryOf ['u', 'b', 'j', 's', 'o', 'n'] = some true ∧
    binaryOf ['j', 's', 'o', 'n', '.', 'b', 'a', 't', 'c', 'h', 'e', 'd'] = some false := by decide

/-- concrete instance: the client prefers cbor, the server only has json and msgpack -/
example : serverOnConnect true [['j', 's', 'o', 'n'], ['m', 's', 'g', 'p', 'a', 'c', 'k']]
    (protocolsOf [['c', 'b', 'o', 'r'], ['m', 's', 'g', 'p', 'a', 'c', 'k'], ['j', 's', 'o', 'n']])
    = .chosen (WampTransport.wsPrefix ++ ['m', 's', 'g', 'p', 'a', 'c', 'k']) ['m', 's', 'g', 'p', 'a', 'c', 'k'] := by decide

/-! ## close_code_mapping -/

/-- undecodable data / wrong frame type / WAMP protocol violation → 1002; anything else raised while
handling a message or in `onOpen` → 1011 (constants read from the source) -/
theorem close_code_mapping :
    closeCodeOnMessage .protocolError = 1002 ∧ closeCodeOnMessage .other = 1011 ∧ closeCodeOnOpen = 1011 := by
  decide

end Abverif.WsSub
