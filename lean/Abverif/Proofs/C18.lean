import Abverif.Model.Errors
/-!
C18 — Remote exceptions arrive with their URI, arguments and class.

All statements are about `Abverif.Errors` (mirror of `define`, `_message_from_exception`,
`_exception_from_message`, `uri.error`, `ApplicationError.__init__`); the tie to the code is the differential run
of harness/c18.py (two real sessions, every serializer, both frameworks).

`Spec.caller` is the property read literally. The full statement `UriArgsKwargsPreserved` is FALSE for the code
(hence for the model): `ApplicationError.__init__` pops the keys `enc_algo, callee, callee_authid, callee_authrole,
forward_for` out of the keyword arguments, so a remote exception whose kwargs use one of these names reaches the
caller without it when it surfaces as a generic application error (`reserved_key_lost`, replayed by the harness,
known finding). The `_partial` theorems exclude exactly those keys; `*_modulo_reserved` hold for all inputs.
-/
namespace Abverif.Errors
open AList

/-! ### dict lemmas -/
section alist
variable {K : Type} [DecidableEq K] {A : Type}

theorem find_del_self (k : K) (l : List (K × A)) : find k (del k l) = none := by
  induction l with
  | nil => rfl
  | cons h t ih =>
    obtain ⟨k', a⟩ := h
    by_cases hk : k' = k
    · simp [del, hk, ih]
    · simp [del, find, hk, ih]

theorem find_del_other {k k' : K} (h : k' ≠ k) (l : List (K × A)) : find k (del k' l) = find k l := by
  induction l with
  | nil => rfl
  | cons hd t ih =>
    obtain ⟨k'', a⟩ := hd
    by_cases h1 : k'' = k'
    · subst h1
      simp [del, find, h, ih]
    · by_cases h2 : k'' = k
      · subst h2; simp [del, find, h1]
      · simp [del, find, h1, h2, ih]

theorem find_put_self (k : K) (a : A) (l : List (K × A)) : find k (put k a l) = some a := by
  simp [put, find]

theorem find_put_other {k k' : K} (h : k' ≠ k) (a : A) (l : List (K × A)) : find k (put k' a l) = find k l := by
  simp [put, find, h, find_del_other h]

theorem del_of_find_none {k : K} {l : List (K × A)} (h : find k l = none) : del k l = l := by
  induction l with
  | nil => rfl
  | cons hd t ih =>
    obtain ⟨k', a⟩ := hd
    by_cases hk : k' = k
    · simp [find, hk] at h
    · simp [find, hk] at h
      simp [del, hk, ih h]

theorem delAll_of_find_none {ks : List K} {l : List (K × A)} (h : ∀ k ∈ ks, find k l = none) :
    delAll ks l = l := by
  induction ks generalizing l with
  | nil => rfl
  | cons k r ih =>
    have hk : del k l = l := del_of_find_none (h k (by simp))
    simp only [delAll, List.foldl_cons, hk]
    exact ih (fun k' hk' => h k' (by simp [hk']))

theorem find_delAll_other {ks : List K} {k : K} (h : k ∉ ks) (l : List (K × A)) :
    find k (delAll ks l) = find k l := by
  induction ks generalizing l with
  | nil => rfl
  | cons k' r ih =>
    have h1 : k' ≠ k := fun e => h (by simp [e])
    have h2 : k ∉ r := fun e => h (by simp [e])
    simp only [delAll, List.foldl_cons]
    have := ih h2 (del k' l)
    simp only [delAll] at this
    rw [this, find_del_other h1]

end alist

/-! ### projections of the caller-side exception -/
def RExc.args {V} : RExc V → List V
  | .app _ a _ => a
  | .user _ a _ => a
def RExc.kwargs {V} : RExc V → Kwargs V
  | .app _ _ k => k
  | .user _ _ k => k
/-- the error URI an application error carries -/
def RExc.appUri {V} : RExc V → Option Uri
  | .app u _ _ => some u
  | .user _ _ _ => none
def RExc.cls? {V} : RExc V → Option Cls
  | .app _ _ _ => none
  | .user c _ _ => some c

def NoReserved {V} (k : Kwargs V) : Prop := ∀ r ∈ RESERVED, find r k = none

instance {V} [DecidableEq V] (k : Kwargs V) : Decidable (NoReserved k) := by
  unfold NoReserved; infer_instance

/-! ### the message on the wire carries URI, args, kwargs of the exception (callee side) -/

/-- ERROR sent by the callee: URI as the statement prescribes, `args = list(exc.args)`, kwargs = the exception's
(with the traceback under key "traceback" when forwarding is on). All inputs. -/
theorem error_message_carries {V} (reg : Registry) (e : Exc V) (tb : Option V) :
    (toError reg e tb).uri = Spec.uri reg e ∧
    (callArgs (wire (toError reg e tb))).1 = Spec.args e ∧
    (callArgs (wire (toError reg e tb))).2 = Spec.kwargs e tb := by
  obtain ⟨c, ap, a, k⟩ := e
  refine ⟨?_, ?_, ?_⟩
  · cases ap with
    | some u => simp [toError, errorUri, Spec.uri]
    | none =>
      simp only [toError, errorUri, Spec.uri]
      cases h : find c reg.clsToPats with
      | none => rfl
      | some l => cases l <;> rfl
  · cases tb <;> rcases a with _ | _ | ⟨x, xs⟩ <;> rcases k with _ | _ | ⟨y, ys⟩ <;>
      simp [toError, wire, callArgs, truthy, Spec.args, put]
  · cases tb <;> rcases a with _ | _ | ⟨x, xs⟩ <;> rcases k with _ | _ | ⟨y, ys⟩ <;>
      simp [toError, wire, callArgs, truthy, Spec.kwargs, put, del]

theorem wire_uri {V} (m : ErrorMsg V) : (wire m).uri = m.uri := by
  unfold wire; split
  · rfl
  · split <;> rfl

/-! ### uri_args_kwargs_preserved -/

/-- the full statement (false for the code, see `reserved_key_lost`) -/
def UriArgsKwargsPreserved (V : Type) : Prop :=
  ∀ (regCallee regCaller : Registry) (ctor : Cls → List V → Kwargs V → Ctor) (e : Exc V) (tb : Option V),
    roundtrip regCallee regCaller ctor e tb = Spec.caller regCallee regCaller ctor e tb

theorem roundtrip_eq {V} (regCallee regCaller : Registry) (ctor : Cls → List V → Kwargs V → Ctor)
    (e : Exc V) (tb : Option V) :
    roundtrip regCallee regCaller ctor e tb =
      (match find (Spec.uri regCallee e) regCaller.uriToCls with
       | some c => if ctor c (Spec.args e) (Spec.kwargs e tb) = .ok then .user c (Spec.args e) (Spec.kwargs e tb)
                   else mkApp (Spec.uri regCallee e) (Spec.args e) (Spec.kwargs e tb)
       | none => mkApp (Spec.uri regCallee e) (Spec.args e) (Spec.kwargs e tb)) := by
  obtain ⟨hu, ha, hk⟩ := error_message_carries regCallee e tb
  unfold roundtrip fromError
  generalize hm : wire (toError regCallee e tb) = m at ha hk
  have hmu : m.uri = Spec.uri regCallee e := by rw [← hm, wire_uri, hu]
  rcases hc : callArgs m with ⟨a, k⟩
  rw [hc] at ha hk
  simp only at ha hk
  subst ha hk
  simp only [hmu]
  cases find (Spec.uri regCallee e) regCaller.uriToCls with
  | none => rfl
  | some c => simp only; cases ctor c (Spec.args e) (Spec.kwargs e tb) <;> simp

/-- `fromError (toError e)` is what the statement prescribes — URI class-mapped, args, kwargs (∪ traceback) —
whenever the keyword arguments do not use one of the five names `ApplicationError.__init__` consumes.
Missing for the full statement: exactly those keys (negation: `reserved_key_lost`). -/
theorem uri_args_kwargs_preserved_partial {V} (regCallee regCaller : Registry)
    (ctor : Cls → List V → Kwargs V → Ctor) (e : Exc V) (tb : Option V)
    (h : NoReserved (Spec.kwargs e tb)) :
    roundtrip regCallee regCaller ctor e tb = Spec.caller regCallee regCaller ctor e tb := by
  rw [roundtrip_eq]
  unfold Spec.caller mkApp
  rw [delAll_of_find_none h]
  rfl

/-- no hypothesis is needed when the caller can build the registered class -/
theorem uri_args_kwargs_preserved_registered {V} (regCallee regCaller : Registry)
    (ctor : Cls → List V → Kwargs V → Ctor) (e : Exc V) (tb : Option V) (c : Cls)
    (hc : find (Spec.uri regCallee e) regCaller.uriToCls = some c)
    (hk : ctor c (Spec.args e) (Spec.kwargs e tb) = .ok) :
    roundtrip regCallee regCaller ctor e tb = .user c (Spec.args e) (Spec.kwargs e tb) := by
  rw [roundtrip_eq, hc]; simp [hk]

/-- non-vacuity: `define`d on both sides, constructor accepts -/
example : roundtrip (V := Nat) { clsToPats := [("E", ["com.e"])], uriToCls := [("com.e", "E")] }
    { clsToPats := [("E", ["com.e"])], uriToCls := [("com.e", "E")] } (fun _ _ _ => .ok)
    { cls := "E", appError := none, args := some [1, 2], kwargs := some [("code", 3)] } (some 9)
    = .user "E" [1, 2] [("traceback", 9), ("code", 3)] := by decide

/-- for ALL inputs: URI and args arrive exactly, and so does every keyword argument except the five reserved names -/
theorem uri_args_kwargs_preserved_modulo_reserved {V} (regCallee regCaller : Registry)
    (ctor : Cls → List V → Kwargs V → Ctor) (e : Exc V) (tb : Option V) :
    let r := roundtrip regCallee regCaller ctor e tb
    r.args = Spec.args e ∧
    (∀ key, key ∉ RESERVED → find key r.kwargs = find key (Spec.kwargs e tb)) ∧
    (∀ u, r.appUri = some u → u = Spec.uri regCallee e) := by
  intro r
  have hr : r = _ := roundtrip_eq regCallee regCaller ctor e tb
  cases hg : find (Spec.uri regCallee e) regCaller.uriToCls with
  | none =>
    rw [hg] at hr; simp only at hr
    rw [hr]
    refine ⟨rfl, fun key hk => ?_, fun u hu => ?_⟩
    · simp only [mkApp, RExc.kwargs]; exact find_delAll_other hk _
    · simp only [mkApp, RExc.appUri, Option.some.injEq] at hu; exact hu.symm
  | some c =>
    rw [hg] at hr; simp only at hr
    by_cases hk : ctor c (Spec.args e) (Spec.kwargs e tb) = .ok
    · rw [if_pos hk] at hr; rw [hr]
      exact ⟨rfl, fun _ _ => rfl, fun u hu => by simp [RExc.appUri] at hu⟩
    · rw [if_neg hk] at hr; rw [hr]
      refine ⟨rfl, fun key hk => ?_, fun u hu => ?_⟩
      · simp only [mkApp, RExc.kwargs]; exact find_delAll_other hk _
      · simp only [mkApp, RExc.appUri, Option.some.injEq] at hu; exact hu.symm

/-- Negation witness of the full statement: kwargs `{callee: 7}` on an exception of an unregistered URI. -/
example : ¬ UriArgsKwargsPreserved Nat := by
  intro h
  have := h Registry.init Registry.init (fun _ _ _ => .ok)
    { cls := "E", appError := some "com.app.err", args := some [1], kwargs := some [("callee", 7)] } none
  revert this
  decide

theorem reserved_key_lost :
    roundtrip (V := Nat) Registry.init Registry.init (fun _ _ _ => .ok)
      { cls := "E", appError := some "com.app.err", args := some [1], kwargs := some [("callee", 7)] } none
      = .app "com.app.err" [1] [] := by decide

/-- non-vacuity of the `_partial` hypothesis (a traceback and two ordinary keys) -/
example : NoReserved (Spec.kwargs (V := Nat)
    { cls := "E", appError := none, args := some [1, 2], kwargs := some [("code", 5), ("traceback", 0)] } (some 9)) := by
  decide

/-! ### the invocation error path (`str(exc)` runs before the message is built) -/

theorem del_del {K : Type} [DecidableEq K] {A : Type} (k : K) (l : List (K × A)) : del k (del k l) = del k l :=
  del_of_find_none (find_del_self k l)

/-- `ApplicationError.__unicode__` is harmless unless an application error carries a USER keyword argument named
"traceback" -/
theorem invocation_path_eq_of_no_traceback {V} (isStr : V → Bool) (dots : V) (reg : Registry) (e : Exc V) (tb : Option V)
    (h : e.appError = none ∨ ∀ kw, e.kwargs = some kw → find TRACEBACK kw = none) :
    invocationError isStr dots reg e tb = toError reg e tb := by
  obtain ⟨c, ap, a, k⟩ := e
  unfold invocationError strEffect
  cases ap with
  | none => rfl
  | some u =>
    cases k with
    | none => rfl
    | some kw =>
      rcases h with h | h
      · cases h
      · simp [h kw rfl]

/-- … and when traceback forwarding is on, the forwarded traceback overwrites the key anyway -/
theorem invocation_path_eq_of_forwarding {V} (isStr : V → Bool) (dots : V) (reg : Registry) (e : Exc V) (t : V) :
    invocationError isStr dots reg e (some t) = toError reg e (some t) := by
  obtain ⟨c, ap, a, k⟩ := e
  unfold invocationError strEffect
  cases ap with
  | none => rfl
  | some u =>
    cases k with
    | none => rfl
    | some kw =>
      simp only
      cases hf : find TRACEBACK kw with
      | none => rfl
      | some x =>
        have hne : kw ≠ [] := by intro h; subst h; simp [find] at hf
        have htr : truthy (some kw) = true := by cases kw with
          | nil => exact absurd rfl hne
          | cons _ _ => rfl
        simp only
        by_cases hs : isStr x = true
        · simp only [hs, if_true, toError, errorUri, htr]
          simp [truthy, put, del, del_del]
        · simp only [hs]
          simp only [toError, errorUri, htr, Bool.false_eq_true, if_false, if_true, Option.getD_some]
          cases hd : del TRACEBACK kw with
          | nil => simp [truthy, put, hd]
          | cons y ys => simp [truthy, put, ← hd, del_del]

/-- the invocation path end to end, under the two exclusions (reserved names; a user "traceback" on an application
error while forwarding is off) -/
theorem uri_args_kwargs_preserved_invocation_partial {V} (isStr : V → Bool) (dots : V) (regCallee regCaller : Registry)
    (ctor : Cls → List V → Kwargs V → Ctor) (e : Exc V) (tb : Option V)
    (h : NoReserved (Spec.kwargs e tb))
    (ht : tb ≠ none ∨ e.appError = none ∨ ∀ kw, e.kwargs = some kw → find TRACEBACK kw = none) :
    roundtripInv isStr dots regCallee regCaller ctor e tb = Spec.caller regCallee regCaller ctor e tb := by
  have : invocationError isStr dots regCallee e tb = toError regCallee e tb := by
    rcases ht with ht | ht
    · cases tb with
      | none => exact absurd rfl ht
      | some t => exact invocation_path_eq_of_forwarding isStr dots regCallee e t
    · exact invocation_path_eq_of_no_traceback isStr dots regCallee e tb ht
  unfold roundtripInv
  rw [this]
  exact uri_args_kwargs_preserved_partial regCallee regCaller ctor e tb h

/-- Negation witness (replayed by the harness, known finding): `ApplicationError("com.x", traceback=7)` with 7 standing
for the text "user-tb" leaves as `traceback = "..."` (0 stands for "...") -/
example : (invocationError (V := Nat) (fun _ => true) 0 Registry.init
    { cls := "ApplicationError", appError := some "com.x", args := some [], kwargs := some [("traceback", 7)] } none).kwargs
    = some [("traceback", 0)] := by decide

/-! ### class_is_registered_or_generic -/

/-- The caller sees either the class registered (at the caller) for the error URI — and then the constructor
accepted exactly (args, kwargs) — or a generic `ApplicationError` carrying that URI. All inputs. -/
theorem class_is_registered_or_generic {V} (regCallee regCaller : Registry)
    (ctor : Cls → List V → Kwargs V → Ctor) (e : Exc V) (tb : Option V) :
    let r := roundtrip regCallee regCaller ctor e tb
    (∃ c, r.cls? = some c ∧ find (Spec.uri regCallee e) regCaller.uriToCls = some c ∧
          ctor c r.args r.kwargs = .ok) ∨
    (r.cls? = none ∧ r.appUri = some (Spec.uri regCallee e) ∧
       (find (Spec.uri regCallee e) regCaller.uriToCls = none ∨
        ∃ c, find (Spec.uri regCallee e) regCaller.uriToCls = some c ∧
             ctor c (Spec.args e) (Spec.kwargs e tb) ≠ .ok)) := by
  intro r
  have hr : r = _ := roundtrip_eq regCallee regCaller ctor e tb
  cases hg : find (Spec.uri regCallee e) regCaller.uriToCls with
  | none =>
    rw [hg] at hr; simp only at hr
    right; rw [hr]; exact ⟨rfl, rfl, Or.inl rfl⟩
  | some c =>
    rw [hg] at hr; simp only at hr
    by_cases hk : ctor c (Spec.args e) (Spec.kwargs e tb) = .ok
    · rw [if_pos hk] at hr
      left; rw [hr]; exact ⟨c, rfl, rfl, hk⟩
    · rw [if_neg hk] at hr
      right; rw [hr]; exact ⟨rfl, rfl, Or.inr ⟨c, rfl, hk⟩⟩

/-- the URI chosen on the callee side: carried URI for application errors (and subclasses), first registered
pattern for registered classes, the generic runtime-error URI otherwise -/
theorem uri_by_class {V} (reg : Registry) (e : Exc V) :
    (∀ u, e.appError = some u → errorUri reg e = u) ∧
    (e.appError = none → ∀ u rest, find e.cls reg.clsToPats = some (u :: rest) → errorUri reg e = u) ∧
    (e.appError = none → find e.cls reg.clsToPats = none → errorUri reg e = RUNTIME_ERROR) := by
  refine ⟨fun u h => ?_, fun h u rest hg => ?_, fun h hg => ?_⟩
  · simp [errorUri, h]
  · simp [errorUri, h, hg]
  · simp [errorUri, h, hg]

/-! ### never_lost -/

/-- the full statement: a registered class that cannot be constructed (raises, or yields a falsy instance)
gives `ApplicationError(uri, *args, **kwargs)` with the message's URI, args and kwargs. False for reserved keys. -/
def NeverLost (V : Type) : Prop :=
  ∀ (reg : Registry) (ctor : Cls → List V → Kwargs V → Ctor) (m : ErrorMsg V) (c : Cls),
    find m.uri reg.uriToCls = some c → ctor c (callArgs m).1 (callArgs m).2 ≠ .ok →
    fromError reg ctor m = .app m.uri (callArgs m).1 (callArgs m).2

/-- `fromError` is a total function (every ERROR yields an exception object); when the registered class cannot be
constructed the result is the generic application error with the same URI, args and kwargs.
Missing for the full statement: kwargs using one of the five reserved names. -/
theorem never_lost_partial {V} (reg : Registry) (ctor : Cls → List V → Kwargs V → Ctor) (m : ErrorMsg V) (c : Cls)
    (hc : find m.uri reg.uriToCls = some c) (hk : ctor c (callArgs m).1 (callArgs m).2 ≠ .ok)
    (hres : NoReserved (callArgs m).2) :
    fromError reg ctor m = .app m.uri (callArgs m).1 (callArgs m).2 := by
  unfold fromError
  rcases h : callArgs m with ⟨a, k⟩
  rw [h] at hk hres
  simp only [hc]
  simp only at hk hres
  cases hct : ctor c a k with
  | ok => exact absurd hct hk
  | raises => simp [mkApp, delAll_of_find_none hres]
  | falsy => simp [mkApp, delAll_of_find_none hres]

/-- All inputs: whatever the registry and the constructors do, the exception handed to the caller carries the
message's args, every non-reserved keyword argument, and — when generic — the message's URI. -/
theorem never_lost_modulo_reserved {V} (reg : Registry) (ctor : Cls → List V → Kwargs V → Ctor) (m : ErrorMsg V) :
    let r := fromError reg ctor m
    r.args = (callArgs m).1 ∧
    (∀ key, key ∉ RESERVED → find key r.kwargs = find key (callArgs m).2) ∧
    (r.cls? = none → r.appUri = some m.uri) ∧
    (∀ c, r.cls? = some c → find m.uri reg.uriToCls = some c ∧ ctor c (callArgs m).1 (callArgs m).2 = .ok) := by
  intro r
  have hr : r = fromError reg ctor m := rfl
  unfold fromError at hr
  rcases h : callArgs m with ⟨a, k⟩
  rw [h] at hr
  simp only at hr ⊢
  cases hg : find m.uri reg.uriToCls with
  | none =>
    rw [hg] at hr; simp only at hr; rw [hr]
    exact ⟨rfl, fun key hk => find_delAll_other hk _, fun _ => rfl, fun c hc => by simp [mkApp, RExc.cls?] at hc⟩
  | some c =>
    rw [hg] at hr; simp only at hr
    cases hct : ctor c a k with
    | ok =>
      rw [hct] at hr; simp only at hr; rw [hr]
      refine ⟨rfl, fun _ _ => rfl, fun h => by simp [RExc.cls?] at h, fun c' hc' => ?_⟩
      simp only [RExc.cls?, Option.some.injEq] at hc'
      subst hc'; exact ⟨rfl, hct⟩
    | raises =>
      rw [hct] at hr; simp only at hr; rw [hr]
      exact ⟨rfl, fun key hk => find_delAll_other hk _, fun _ => rfl, fun c hc => by simp [mkApp, RExc.cls?] at hc⟩
    | falsy =>
      rw [hct] at hr; simp only at hr; rw [hr]
      exact ⟨rfl, fun key hk => find_delAll_other hk _, fun _ => rfl, fun c hc => by simp [mkApp, RExc.cls?] at hc⟩

example : ¬ NeverLost Nat := by
  intro h
  have := h { clsToPats := [], uriToCls := [("com.e", "E")] } (fun _ _ _ => .raises)
    { uri := "com.e", args := some [1], kwargs := some [("forward_for", 3)] } "E" (by decide) (by decide)
  revert this
  decide

/-- non-vacuity: a registered class whose constructor raises, ordinary kwargs -/
example : fromError (V := Nat) { clsToPats := [], uriToCls := [("com.e", "E")] } (fun _ _ _ => .raises)
    { uri := "com.e", args := some [1, 2], kwargs := some [("code", 3)] } = .app "com.e" [1, 2] [("code", 3)] := by
  decide

/-! ### define_roundtrip -/

/-- a plain instance of class `c` (not an application error) -/
def plain {V} (c : Cls) (a : Option (List V)) (k : Option (Kwargs V)) : Exc V :=
  { cls := c, appError := none, args := a, kwargs := k }

/-- explicit registration `session.define(cls, uri)` on both sides: an instance of `cls` travels as `uri` and
comes back as `cls(*args, **kwargs)` whenever the constructor accepts them. -/
theorem define_roundtrip_explicit {V} (patOk : Uri → Bool) (reg1 reg2 reg1' reg2' : Registry) (c : Cls) (u : Uri)
    (h1 : define patOk reg1 c none (some u) = .ok reg1') (h2 : define patOk reg2 c none (some u) = .ok reg2')
    (ctor : Cls → List V → Kwargs V → Ctor) (a : Option (List V)) (k : Option (Kwargs V)) (tb : Option V)
    (hk : ctor c (Spec.args (plain c a k)) (Spec.kwargs (plain c a k) tb) = .ok) :
    (toError reg1' (plain c a k) tb).uri = u ∧
    roundtrip reg1' reg2' ctor (plain c a k) tb = .user c (Spec.args (plain c a k)) (Spec.kwargs (plain c a k) tb) := by
  have e1 : find c reg1'.clsToPats = some [u] := by
    unfold define at h1
    simp only at h1
    split at h1
    · cases h1
    · split at h1
      · cases h1
      · cases h1; exact find_put_self _ _ _
  have e2 : find u reg2'.uriToCls = some c := by
    unfold define at h2
    simp only at h2
    split at h2
    · cases h2
    · split at h2
      · cases h2
      · cases h2; exact find_put_self _ _ _
  have hu : Spec.uri reg1' (plain c a k) = u := by simp [Spec.uri, plain, e1]
  refine ⟨?_, ?_⟩
  · rw [(error_message_carries reg1' (plain c a k) tb).1, hu]
  · exact uri_args_kwargs_preserved_registered reg1' reg2' ctor (plain c a k) tb c (by rw [hu, e2]) hk

/-- decorated registration: `@error(u)` on a class that does not inherit a `_wampuris` list, then
`session.define(cls)` on both sides. -/
theorem define_roundtrip_decorated {V} (patOk : Uri → Bool) (env env' : ClassEnv) (reg1 reg2 reg1' reg2' : Registry)
    (c : Cls) (u : Uri)
    (hown : env.owner c = none) (hself : (env.mro c).head? = some c)
    (hd : decorate patOk env c u = (env', .ok))
    (h1 : define patOk reg1 c (env'.wampuris c) none = .ok reg1')
    (h2 : define patOk reg2 c (env'.wampuris c) none = .ok reg2')
    (ctor : Cls → List V → Kwargs V → Ctor) (a : Option (List V)) (k : Option (Kwargs V)) (tb : Option V)
    (hk : ctor c (Spec.args (plain c a k)) (Spec.kwargs (plain c a k) tb) = .ok) :
    env'.wampuris c = some [u] ∧
    (toError reg1' (plain c a k) tb).uri = u ∧
    roundtrip reg1' reg2' ctor (plain c a k) tb = .user c (Spec.args (plain c a k)) (Spec.kwargs (plain c a k) tb) := by
  have hw : env'.wampuris c = some [u] := by
    unfold decorate at hd
    simp only [hown] at hd
    split at hd
    · cases hd
    · split at hd
      · cases hd
      · simp only [Prod.mk.injEq, and_true] at hd
        subst hd
        have hm : ∃ rest, env.mro c = c :: rest := by
          cases hmro : env.mro c with
          | nil => simp [hmro] at hself
          | cons x rest => simp [hmro] at hself; exact ⟨rest, by rw [hself]⟩
        obtain ⟨rest, hm⟩ := hm
        simp [ClassEnv.wampuris, ClassEnv.owner, hm, hasKey, put, find]
  rw [hw] at h1 h2
  have e1 : find c reg1'.clsToPats = some [u] := by
    simp only [define] at h1; cases h1; exact find_put_self _ _ _
  have e2 : find u reg2'.uriToCls = some c := by
    simp only [define] at h2; cases h2; exact find_put_self _ _ _
  have hu : Spec.uri reg1' (plain c a k) = u := by simp [Spec.uri, plain, e1]
  refine ⟨hw, ?_, ?_⟩
  · rw [(error_message_carries reg1' (plain c a k) tb).1, hu]
  · exact uri_args_kwargs_preserved_registered reg1' reg2' ctor (plain c a k) tb c (by rw [hu, e2]) hk

/-- registering another class under another URI does not disturb an existing registration -/
theorem define_preserves_other (patOk : Uri → Bool) (reg reg' : Registry) (c c2 : Cls) (u : Uri)
    (w : Option (List Uri)) (err : Option Uri)
    (hd : define patOk reg c2 w err = .ok reg') (hc : c2 ≠ c)
    (hu : ∀ x, (err = some x ∨ (err = none ∧ ∃ rest, w = some (x :: rest))) → x ≠ u) :
    find c reg'.clsToPats = find c reg.clsToPats ∧ find u reg'.uriToCls = find u reg.uriToCls := by
  unfold define at hd
  cases err with
  | none =>
    cases w with
    | none => cases hd
    | some pats =>
      cases pats with
      | nil => cases hd
      | cons x rest =>
        simp only at hd; cases hd
        exact ⟨find_put_other hc _ _, find_put_other (hu x (Or.inr ⟨rfl, rest, rfl⟩)) _ _⟩
  | some e =>
    cases w with
    | some _ => cases hd
    | none =>
      simp only at hd
      split at hd
      · cases hd
      · split at hd
        · cases hd
        · cases hd
          exact ⟨find_put_other hc _ _, find_put_other (hu e (Or.inl rfl)) _ _⟩

theorem init_wf : Registry.init.WF := by
  intro c h; simp [Registry.init, find] at h

/-- successful definitions never register an empty pattern list, so the `IndexError` branch of
`_message_from_exception` (totalised in the model) is unreachable from `Registry.init` through successful `define`s -/
theorem define_preserves_wf (patOk : Uri → Bool) (reg reg' : Registry) (c : Cls) (w : Option (List Uri))
    (err : Option Uri) (hwf : reg.WF) (hd : define patOk reg c w err = .ok reg') : reg'.WF := by
  have key : ∀ (pats : List Uri), pats ≠ [] → ∀ c', find c' (put c pats reg.clsToPats) ≠ some [] := by
    intro pats hp c'
    by_cases hc : c = c'
    · subst hc; rw [find_put_self]; intro h; exact hp (Option.some.inj h)
    · rw [find_put_other hc]; exact hwf c'
  unfold define at hd
  cases err with
  | none =>
    cases w with
    | none => cases hd
    | some pats =>
      cases pats with
      | nil => cases hd
      | cons x rest => simp only at hd; cases hd; exact key _ (by simp)
  | some e =>
    cases w with
    | some _ => cases hd
    | none =>
      simp only at hd
      split at hd
      · cases hd
      · split at hd
        · cases hd
        · cases hd; exact key _ (by simp)

/-- non-vacuity of `define_roundtrip_explicit` / `_decorated` -/
example : define (fun _ => true) Registry.init "MyErr" none (some "com.myapp.err") =
    .ok { clsToPats := [("MyErr", ["com.myapp.err"])],
          uriToCls := [("com.myapp.err", "MyErr"), (INVALID_PAYLOAD, "SerializationError"),
                       (PAYLOAD_SIZE_EXCEEDED, "PayloadExceededError")] } := by decide

def envPlain : ClassEnv := { mro := fun c => if c = "B" then ["B", "A"] else [c], own := [] }

example : (decorate (fun _ => true) envPlain "A" "com.a").2 = .ok ∧
    (decorate (fun _ => true) envPlain "A" "com.a").1.wampuris "A" = some ["com.a"] := by decide

/-- A quirk the model reproduces (replayed by the harness, known finding): decorating a SUBCLASS of a decorated
class appends to the base's list, so the subclass is announced under the BASE's URI and `define(B)` takes over
the base's URI → class entry. -/
example :
    let env1 := (decorate (fun _ => true) envPlain "A" "com.a").1
    let env2 := (decorate (fun _ => true) env1 "B" "com.b").1
    let reg : Registry :=
      { clsToPats := [("B", ["com.a", "com.b"])],
        uriToCls := [("com.a", "B"), (INVALID_PAYLOAD, "SerializationError"),
                     (PAYLOAD_SIZE_EXCEEDED, "PayloadExceededError")] }
    env2.wampuris "B" = some ["com.a", "com.b"] ∧ env2.wampuris "A" = some ["com.a", "com.b"] ∧
    define (fun _ => true) Registry.init "B" (env2.wampuris "B") none = .ok reg ∧
    errorUri (V := Nat) reg (plain "B" none none) = "com.a" ∧ find "com.a" reg.uriToCls = some "B" := by decide

end Abverif.Errors
