import Abverif.Model.Errors
/-!
C18 — Remote exceptions arrive with their URI, arguments and class.

All statements are about `Abverif.Errors` (mirror of `define`, `_message_from_exception`,
`_exception_from_message`, `uri.error`, `ApplicationError.__init__`); the tie to the code is the differential run
of harness/c18.py (two real sessions, every serializer, both frameworks).

`Spec.caller` is the property read literally, and `uri_args_kwargs_preserved` proves it of the model for ALL inputs.
(Before the repairs of the code it was false in three places, each found by the harness on the real code and now a
regression example here: the generic `ApplicationError` was built through the public constructor, which takes the five
names `enc_algo, callee, callee_authid, callee_authrole, forward_for` out of the keyword arguments —
`reserved_key_kept`; `str(exc)` in the invocation error path rewrote a user keyword argument named "traceback" —
`user_traceback_kwarg_kept`; `@error` on a subclass of a decorated class appended to the list of the base —
`decorated_subclass_own_uri`.)
-/
namespace Abverif.Errors
open AList

/-! ### dict lemmas -/
section alist
variable {K : Type} [DecidableEq K] {A : Type}

theorem find_del_self (k : K) (l : List (K × A)) : find k (del k l) = none := by
  induction l with
  | nil => rfl
  | cons h t ih =>
    obtain ⟨k', a⟩ := h
    by_cases hk : k' = k
    · simp [del, hk, ih]
    · simp [del, find, hk, ih]

theorem find_del_other {k k' : K} (h : k' ≠ k) (l : List (K × A)) : find k (del k' l) = find k l := by
  induction l with
  | nil => rfl
  | cons hd t ih =>
    obtain ⟨k'', a⟩ := hd
    by_cases h1 : k'' = k'
    · subst h1
      simp [del, find, h, ih]
    · by_cases h2 : k'' = k
      · subst h2; simp [del, find, h1]
      · simp [del, find, h1, h2, ih]

theorem find_put_self (k : K) (a : A) (l : List (K × A)) : find k (put k a l) = some a := by
  simp [put, find]

theorem find_put_other {k k' : K} (h : k' ≠ k) (a : A) (l : List (K × A)) : find k (put k' a l) = find k l := by
  simp [put, find, h, find_del_other h]

theorem del_of_find_none {k : K} {l : List (K × A)} (h : find k l = none) : del k l = l := by
  induction l with
  | nil => rfl
  | cons hd t ih =>
    obtain ⟨k', a⟩ := hd
    by_cases hk : k' = k
    · simp [find, hk] at h
    · simp [find, hk] at h
      simp [del, hk, ih h]

theorem delAll_of_find_none {ks : List K} {l : List (K × A)} (h : ∀ k ∈ ks, find k l = none) :
    delAll ks l = l := by
  induction ks generalizing l with
  | nil => rfl
  | cons k r ih =>
    have hk : del k l = l := del_of_find_none (h k (by simp))
    simp only [delAll, List.foldl_cons, hk]
    exact ih (fun k' hk' => h k' (by simp [hk']))

theorem find_delAll_other {ks : List K} {k : K} (h : k ∉ ks) (l : List (K × A)) :
    find k (delAll ks l) = find k l := by
  induction ks generalizing l with
  | nil => rfl
  | cons k' r ih =>
    have h1 : k' ≠ k := fun e => h (by simp [e])
    have h2 : k ∉ r := fun e => h (by simp [e])
    simp only [delAll, List.foldl_cons]
    have := ih h2 (del k' l)
    simp only [delAll] at this
    rw [this, find_del_other h1]

end alist

/-! ### projections of the caller-side exception -/
def RExc.args {V} : RExc V → List V
  | .app _ a _ => a
  | .user _ a _ => a
def RExc.kwargs {V} : RExc V → Kwargs V
  | .app _ _ k => k
  | .user _ _ k => k
/-- the error URI an application error carries -/
def RExc.appUri {V} : RExc V → Option Uri
  | .app u _ _ => some u
  | .user _ _ _ => none
def RExc.cls? {V} : RExc V → Option Cls
  | .app _ _ _ => none
  | .user c _ _ => some c

def NoReserved {V} (k : Kwargs V) : Prop := ∀ r ∈ RESERVED, find r k = none

instance {V} [DecidableEq V] (k : Kwargs V) : Decidable (NoReserved k) := by
  unfold NoReserved; infer_instance

/-! ### the message on the wire carries URI, args, kwargs of the exception (callee side) -/

/-- ERROR sent by the callee: URI as the statement prescribes, `args = list(exc.args)`, kwargs = the exception's
(with the traceback under key "traceback" when forwarding is on). All inputs. -/
theorem error_message_carries {V} (reg : Registry) (e : Exc V) (tb : Option V) :
    (toError reg e tb).uri = Spec.uri reg e ∧
    (callArgs (wire (toError reg e tb))).1 = Spec.args e ∧
    (callArgs (wire (toError reg e tb))).2 = Spec.kwargs e tb := by
  obtain ⟨c, ap, a, k⟩ := e
  refine ⟨?_, ?_, ?_⟩
  · cases ap with
    | some u => simp [toError, errorUri, Spec.uri]
    | none =>
      simp only [toError, errorUri, Spec.uri]
      cases h : find c reg.clsToPats with
      | none => rfl
      | some l => cases l <;> rfl
  · cases tb <;> rcases a with _ | _ | ⟨x, xs⟩ <;> rcases k with _ | _ | ⟨y, ys⟩ <;>
      simp [toError, wire, callArgs, truthy, Spec.args, put]
  · cases tb <;> rcases a with _ | _ | ⟨x, xs⟩ <;> rcases k with _ | _ | ⟨y, ys⟩ <;>
      simp [toError, wire, callArgs, truthy, Spec.kwargs, put, del]

theorem wire_uri {V} (m : ErrorMsg V) : (wire m).uri = m.uri := by
  unfold wire; split
  · rfl
  · split <;> rfl

/-! ### uri_args_kwargs_preserved -/

/-- the full statement -/
def UriArgsKwargsPreserved (V : Type) : Prop :=
  ∀ (regCallee regCaller : Registry) (ctor : Cls → List V → Kwargs V → Ctor) (e : Exc V) (tb : Option V),
    roundtrip regCallee regCaller ctor e tb = Spec.caller regCallee regCaller ctor e tb

/-- `fromError (toError e)` is what the statement prescribes — URI class-mapped, args, kwargs (∪ traceback) —
for every registry pair, every constructor behaviour, every exception and payload. -/
theorem uri_args_kwargs_preserved {V} (regCallee regCaller : Registry)
    (ctor : Cls → List V → Kwargs V → Ctor) (e : Exc V) (tb : Option V) :
    roundtrip regCallee regCaller ctor e tb = Spec.caller regCallee regCaller ctor e tb := by
  obtain ⟨hu, ha, hk⟩ := error_message_carries regCallee e tb
  unfold roundtrip fromError Spec.caller
  generalize hm : wire (toError regCallee e tb) = m at ha hk
  have hmu : m.uri = Spec.uri regCallee e := by rw [← hm, wire_uri, hu]
  rcases hc : callArgs m with ⟨a, k⟩
  rw [hc] at ha hk
  simp only at ha hk
  subst ha hk
  simp only [hmu]
  cases find (Spec.uri regCallee e) regCaller.uriToCls with
  | none => rfl
  | some c => simp only; cases h : ctor c (Spec.args e) (Spec.kwargs e tb) <;> simp [genericApp]

theorem uri_args_kwargs_preserved_all (V : Type) : UriArgsKwargsPreserved V :=
  fun r1 r2 ctor e tb => uri_args_kwargs_preserved r1 r2 ctor e tb

/-- the shape used below -/
theorem roundtrip_eq {V} (regCallee regCaller : Registry) (ctor : Cls → List V → Kwargs V → Ctor)
    (e : Exc V) (tb : Option V) :
    roundtrip regCallee regCaller ctor e tb =
      (match find (Spec.uri regCallee e) regCaller.uriToCls with
       | some c => if ctor c (Spec.args e) (Spec.kwargs e tb) = .ok then .user c (Spec.args e) (Spec.kwargs e tb)
                   else .app (Spec.uri regCallee e) (Spec.args e) (Spec.kwargs e tb)
       | none => .app (Spec.uri regCallee e) (Spec.args e) (Spec.kwargs e tb)) := by
  rw [uri_args_kwargs_preserved]; rfl

/-- when the caller can build the registered class -/
theorem uri_args_kwargs_preserved_registered {V} (regCallee regCaller : Registry)
    (ctor : Cls → List V → Kwargs V → Ctor) (e : Exc V) (tb : Option V) (c : Cls)
    (hc : find (Spec.uri regCallee e) regCaller.uriToCls = some c)
    (hk : ctor c (Spec.args e) (Spec.kwargs e tb) = .ok) :
    roundtrip regCallee regCaller ctor e tb = .user c (Spec.args e) (Spec.kwargs e tb) := by
  rw [roundtrip_eq, hc]; simp [hk]

/-- non-vacuity: `define`d on both sides, constructor accepts -/
example : roundtrip (V := Nat) { clsToPats := [("E", ["com.e"])], uriToCls := [("com.e", "E")] }
    { clsToPats := [("E", ["com.e"])], uriToCls := [("com.e", "E")] } (fun _ _ _ => .ok)
    { cls := "E", appError := none, args := some [1, 2], kwargs := some [("code", 3)] } (some 9)
    = .user "E" [1, 2] [("traceback", 9), ("code", 3)] := by decide

/-- read componentwise: URI, args and every keyword argument arrive exactly -/
theorem uri_args_kwargs_componentwise {V} (regCallee regCaller : Registry)
    (ctor : Cls → List V → Kwargs V → Ctor) (e : Exc V) (tb : Option V) :
    let r := roundtrip regCallee regCaller ctor e tb
    r.args = Spec.args e ∧ r.kwargs = Spec.kwargs e tb ∧
    (∀ u, r.appUri = some u → u = Spec.uri regCallee e) := by
  intro r
  have hr : r = _ := roundtrip_eq regCallee regCaller ctor e tb
  cases hg : find (Spec.uri regCallee e) regCaller.uriToCls with
  | none =>
    rw [hg] at hr; simp only at hr
    rw [hr]
    exact ⟨rfl, rfl, fun u hu => by simp only [RExc.appUri, Option.some.injEq] at hu; exact hu.symm⟩
  | some c =>
    rw [hg] at hr; simp only at hr
    by_cases hk : ctor c (Spec.args e) (Spec.kwargs e tb) = .ok
    · rw [if_pos hk] at hr; rw [hr]
      exact ⟨rfl, rfl, fun u hu => by simp [RExc.appUri] at hu⟩
    · rw [if_neg hk] at hr; rw [hr]
      exact ⟨rfl, rfl, fun u hu => by simp only [RExc.appUri, Option.some.injEq] at hu; exact hu.symm⟩

/-- Regression example (the input of the former finding `reserved-kwarg-dropped-by-generic-application-error`):
kwargs `{callee: 7}` on an exception of an unregistered URI reach the caller. With the generic error built through
the public constructor (`mkApp`) the key was lost — second part. -/
theorem reserved_key_kept :
    roundtrip (V := Nat) Registry.init Registry.init (fun _ _ _ => .ok)
      { cls := "E", appError := some "com.app.err", args := some [1], kwargs := some [("callee", 7)] } none
      = .app "com.app.err" [1] [("callee", 7)] ∧
    mkApp (V := Nat) "com.app.err" [1] [("callee", 7)] = .app "com.app.err" [1] [] := by decide

/-- the public constructor and the generic fallback agree when no reserved name is used -/
theorem genericApp_eq_mkApp {V} (u : Uri) (a : List V) (k : Kwargs V) (h : NoReserved k) :
    genericApp u a k = mkApp u a k := by
  unfold genericApp mkApp
  rw [delAll_of_find_none h]

/-! ### the invocation error path (`str(exc)` runs before the message is built) -/

/-- `ApplicationError.__unicode__` leaves the instance alone: the invocation path sends what `toError` builds -/
theorem invocation_path_eq {V} (reg : Registry) (e : Exc V) (tb : Option V) :
    invocationError reg e tb = toError reg e tb := rfl

/-- the invocation path end to end, all inputs -/
theorem uri_args_kwargs_preserved_invocation {V} (regCallee regCaller : Registry)
    (ctor : Cls → List V → Kwargs V → Ctor) (e : Exc V) (tb : Option V) :
    roundtripInv regCallee regCaller ctor e tb = Spec.caller regCallee regCaller ctor e tb :=
  uri_args_kwargs_preserved regCallee regCaller ctor e tb

/-- Regression example (the input of the former finding `application-error-str-clobbers-traceback-kwarg`):
`ApplicationError("com.x", traceback=7)`, forwarding off — the user's value is on the wire and at the caller. -/
theorem user_traceback_kwarg_kept :
    (invocationError (V := Nat) Registry.init
      { cls := "ApplicationError", appError := some "com.x", args := some [], kwargs := some [("traceback", 7)] } none).kwargs
      = some [("traceback", 7)] ∧
    roundtripInv (V := Nat) Registry.init Registry.init (fun _ _ _ => .ok)
      { cls := "ApplicationError", appError := some "com.x", args := some [], kwargs := some [("traceback", 7)] } none
      = .app "com.x" [] [("traceback", 7)] := by decide

/-! ### class_is_registered_or_generic -/

/-- The caller sees either the class registered (at the caller) for the error URI — and then the constructor
accepted exactly (args, kwargs) — or a generic `ApplicationError` carrying that URI. All inputs. -/
theorem class_is_registered_or_generic {V} (regCallee regCaller : Registry)
    (ctor : Cls → List V → Kwargs V → Ctor) (e : Exc V) (tb : Option V) :
    let r := roundtrip regCallee regCaller ctor e tb
    (∃ c, r.cls? = some c ∧ find (Spec.uri regCallee e) regCaller.uriToCls = some c ∧
          ctor c r.args r.kwargs = .ok) ∨
    (r.cls? = none ∧ r.appUri = some (Spec.uri regCallee e) ∧
       (find (Spec.uri regCallee e) regCaller.uriToCls = none ∨
        ∃ c, find (Spec.uri regCallee e) regCaller.uriToCls = some c ∧
             ctor c (Spec.args e) (Spec.kwargs e tb) ≠ .ok)) := by
  intro r
  have hr : r = _ := roundtrip_eq regCallee regCaller ctor e tb
  cases hg : find (Spec.uri regCallee e) regCaller.uriToCls with
  | none =>
    rw [hg] at hr; simp only at hr
    right; rw [hr]; exact ⟨rfl, rfl, Or.inl rfl⟩
  | some c =>
    rw [hg] at hr; simp only at hr
    by_cases hk : ctor c (Spec.args e) (Spec.kwargs e tb) = .ok
    · rw [if_pos hk] at hr
      left; rw [hr]; exact ⟨c, rfl, rfl, hk⟩
    · rw [if_neg hk] at hr
      right; rw [hr]; exact ⟨rfl, rfl, Or.inr ⟨c, rfl, hk⟩⟩

/-- the URI chosen on the callee side: carried URI for application errors (and subclasses), first registered
pattern for registered classes, the generic runtime-error URI otherwise -/
theorem uri_by_class {V} (reg : Registry) (e : Exc V) :
    (∀ u, e.appError = some u → errorUri reg e = u) ∧
    (e.appError = none → ∀ u rest, find e.cls reg.clsToPats = some (u :: rest) → errorUri reg e = u) ∧
    (e.appError = none → find e.cls reg.clsToPats = none → errorUri reg e = RUNTIME_ERROR) := by
  refine ⟨fun u h => ?_, fun h u rest hg => ?_, fun h hg => ?_⟩
  · simp [errorUri, h]
  · simp [errorUri, h, hg]
  · simp [errorUri, h, hg]

/-! ### never_lost -/

/-- the full statement: a registered class that cannot be constructed (raises, or yields a falsy instance)
gives a generic application error with the message's URI, args and kwargs. -/
def NeverLost (V : Type) : Prop :=
  ∀ (reg : Registry) (ctor : Cls → List V → Kwargs V → Ctor) (m : ErrorMsg V) (c : Cls),
    find m.uri reg.uriToCls = some c → ctor c (callArgs m).1 (callArgs m).2 ≠ .ok →
    fromError reg ctor m = .app m.uri (callArgs m).1 (callArgs m).2

/-- `fromError` is a total function (every ERROR yields an exception object); when the registered class cannot be
constructed the result is the generic application error with the same URI, args and kwargs. All inputs. -/
theorem never_lost {V} (reg : Registry) (ctor : Cls → List V → Kwargs V → Ctor) (m : ErrorMsg V) (c : Cls)
    (hc : find m.uri reg.uriToCls = some c) (hk : ctor c (callArgs m).1 (callArgs m).2 ≠ .ok) :
    fromError reg ctor m = .app m.uri (callArgs m).1 (callArgs m).2 := by
  unfold fromError
  rcases h : callArgs m with ⟨a, k⟩
  rw [h] at hk
  simp only [hc]
  simp only at hk
  cases hct : ctor c a k with
  | ok => exact absurd hct hk
  | raises => simp [genericApp]
  | falsy => simp [genericApp]

theorem never_lost_all (V : Type) : NeverLost V := fun reg ctor m c hc hk => never_lost reg ctor m c hc hk

/-- All inputs: whatever the registry and the constructors do, the exception handed to the caller carries the
message's args and kwargs, and — when generic — the message's URI; a user class only if it is the one registered for the
URI and its constructor accepted exactly these arguments. -/
theorem from_error_carries {V} (reg : Registry) (ctor : Cls → List V → Kwargs V → Ctor) (m : ErrorMsg V) :
    let r := fromError reg ctor m
    r.args = (callArgs m).1 ∧
    r.kwargs = (callArgs m).2 ∧
    (r.cls? = none → r.appUri = some m.uri) ∧
    (∀ c, r.cls? = some c → find m.uri reg.uriToCls = some c ∧ ctor c (callArgs m).1 (callArgs m).2 = .ok) := by
  intro r
  have hr : r = fromError reg ctor m := rfl
  unfold fromError at hr
  rcases h : callArgs m with ⟨a, k⟩
  rw [h] at hr
  simp only at hr ⊢
  cases hg : find m.uri reg.uriToCls with
  | none =>
    rw [hg] at hr; simp only at hr; rw [hr]
    exact ⟨rfl, rfl, fun _ => rfl, fun c hc => by simp [genericApp, RExc.cls?] at hc⟩
  | some c =>
    rw [hg] at hr; simp only at hr
    cases hct : ctor c a k with
    | ok =>
      rw [hct] at hr; simp only at hr; rw [hr]
      refine ⟨rfl, rfl, fun h => by simp [RExc.cls?] at h, fun c' hc' => ?_⟩
      simp only [RExc.cls?, Option.some.injEq] at hc'
      subst hc'; exact ⟨rfl, hct⟩
    | raises =>
      rw [hct] at hr; simp only at hr; rw [hr]
      exact ⟨rfl, rfl, fun _ => rfl, fun c hc => by simp [genericApp, RExc.cls?] at hc⟩
    | falsy =>
      rw [hct] at hr; simp only at hr; rw [hr]
      exact ⟨rfl, rfl, fun _ => rfl, fun c hc => by simp [genericApp, RExc.cls?] at hc⟩

/-- non-vacuity: a registered class whose constructor raises; ordinary and reserved keyword names -/
example : fromError (V := Nat) { clsToPats := [], uriToCls := [("com.e", "E")] } (fun _ _ _ => .raises)
    { uri := "com.e", args := some [1, 2], kwargs := some [("code", 3), ("forward_for", 4)] }
    = .app "com.e" [1, 2] [("code", 3), ("forward_for", 4)] := by
  decide

/-! ### define_roundtrip -/

/-- a plain instance of class `c` (not an application error) -/
def plain {V} (c : Cls) (a : Option (List V)) (k : Option (Kwargs V)) : Exc V :=
  { cls := c, appError := none, args := a, kwargs := k }

/-- explicit registration `session.define(cls, uri)` on both sides: an instance of `cls` travels as `uri` and
comes back as `cls(*args, **kwargs)` whenever the constructor accepts them. -/
theorem define_roundtrip_explicit {V} (patOk : Uri → Bool) (reg1 reg2 reg1' reg2' : Registry) (c : Cls) (u : Uri)
    (h1 : define patOk reg1 c none (some u) = .ok reg1') (h2 : define patOk reg2 c none (some u) = .ok reg2')
    (ctor : Cls → List V → Kwargs V → Ctor) (a : Option (List V)) (k : Option (Kwargs V)) (tb : Option V)
    (hk : ctor c (Spec.args (plain c a k)) (Spec.kwargs (plain c a k) tb) = .ok) :
    (toError reg1' (plain c a k) tb).uri = u ∧
    roundtrip reg1' reg2' ctor (plain c a k) tb = .user c (Spec.args (plain c a k)) (Spec.kwargs (plain c a k) tb) := by
  have e1 : find c reg1'.clsToPats = some [u] := by
    unfold define at h1
    simp only at h1
    split at h1
    · cases h1
    · split at h1
      · cases h1
      · cases h1; exact find_put_self _ _ _
  have e2 : find u reg2'.uriToCls = some c := by
    unfold define at h2
    simp only at h2
    split at h2
    · cases h2
    · split at h2
      · cases h2
      · cases h2; exact find_put_self _ _ _
  have hu : Spec.uri reg1' (plain c a k) = u := by simp [Spec.uri, plain, e1]
  refine ⟨?_, ?_⟩
  · rw [(error_message_carries reg1' (plain c a k) tb).1, hu]
  · exact uri_args_kwargs_preserved_registered reg1' reg2' ctor (plain c a k) tb c (by rw [hu, e2]) hk

/-- the decorator touches the `_wampuris` list of the decorated class only — whatever the outcome, the lists of all
other classes (bases and subclasses included) are as before -/
theorem decorate_frame (patOk : Uri → Bool) (env : ClassEnv) (c c' : Cls) (u : Uri) (h : c ≠ c') :
    find c' (decorate patOk env c u).1.own = find c' env.own := by
  have h1 : find c' (if hasKey c env.own then env else { env with own := put c [] env.own }).own = find c' env.own := by
    split
    · rfl
    · exact find_put_other h _ _
  unfold decorate
  simp only
  split
  · exact h1
  · split
    · exact h1
    · simp only; rw [find_put_other h]; exact h1

/-- … and appends the new pattern to the class's own list (a fresh list when the class had none of its own) -/
theorem decorate_own (patOk : Uri → Bool) (env : ClassEnv) (c : Cls) (u : Uri)
    (hd : (decorate patOk env c u).2 = .ok) :
    find c (decorate patOk env c u).1.own = some ((find c env.own).getD [] ++ [u]) := by
  unfold decorate at hd ⊢
  simp only at hd ⊢
  split
  · rename_i h; rw [if_pos h] at hd; cases hd
  · rename_i h; rw [if_neg h] at hd
    split
    · rename_i h2; rw [if_pos h2] at hd; cases hd
    · simp only; rw [find_put_self]
      by_cases hk : hasKey c env.own = true
      · simp [hk]
      · simp only [hk]
        have : find c env.own = none := by
          simpa [hasKey, Option.isSome_iff_ne_none] using hk
        simp [this, find_put_self]

/-- decorated registration: `@error(u)` on a class that has not been decorated itself before — its bases may be —,
then `session.define(cls)` on both sides: the class travels under `u` and comes back as itself. -/
theorem define_roundtrip_decorated {V} (patOk : Uri → Bool) (env env' : ClassEnv) (reg1 reg2 reg1' reg2' : Registry)
    (c : Cls) (u : Uri)
    (hfresh : find c env.own = none) (hself : (env.mro c).head? = some c)
    (hd : decorate patOk env c u = (env', .ok))
    (h1 : define patOk reg1 c (env'.wampuris c) none = .ok reg1')
    (h2 : define patOk reg2 c (env'.wampuris c) none = .ok reg2')
    (ctor : Cls → List V → Kwargs V → Ctor) (a : Option (List V)) (k : Option (Kwargs V)) (tb : Option V)
    (hk : ctor c (Spec.args (plain c a k)) (Spec.kwargs (plain c a k) tb) = .ok) :
    env'.wampuris c = some [u] ∧
    (toError reg1' (plain c a k) tb).uri = u ∧
    roundtrip reg1' reg2' ctor (plain c a k) tb = .user c (Spec.args (plain c a k)) (Spec.kwargs (plain c a k) tb) := by
  have hown : find c env'.own = some [u] := by
    have := decorate_own patOk env c u (by rw [hd])
    rw [hd, hfresh] at this
    simpa using this
  have hw : env'.wampuris c = some [u] := by
    have hm : ∃ rest, env'.mro c = c :: rest := by
      have hmro : env'.mro = env.mro := by
        have := congrArg (fun p => p.1.mro) hd
        simp only at this
        rw [← this]
        unfold decorate
        simp only
        split
        · split <;> rfl
        · split
          · split <;> rfl
          · split <;> rfl
      rw [hmro]
      cases hmro' : env.mro c with
      | nil => simp [hmro'] at hself
      | cons x rest => simp [hmro'] at hself; exact ⟨rest, by rw [hself]⟩
    obtain ⟨rest, hm⟩ := hm
    simp [ClassEnv.wampuris, ClassEnv.owner, hm, hasKey, hown]
  rw [hw] at h1 h2
  have e1 : find c reg1'.clsToPats = some [u] := by
    simp only [define] at h1; cases h1; exact find_put_self _ _ _
  have e2 : find u reg2'.uriToCls = some c := by
    simp only [define] at h2; cases h2; exact find_put_self _ _ _
  have hu : Spec.uri reg1' (plain c a k) = u := by simp [Spec.uri, plain, e1]
  refine ⟨hw, ?_, ?_⟩
  · rw [(error_message_carries reg1' (plain c a k) tb).1, hu]
  · exact uri_args_kwargs_preserved_registered reg1' reg2' ctor (plain c a k) tb c (by rw [hu, e2]) hk

/-- registering another class under another URI does not disturb an existing registration -/
theorem define_preserves_other (patOk : Uri → Bool) (reg reg' : Registry) (c c2 : Cls) (u : Uri)
    (w : Option (List Uri)) (err : Option Uri)
    (hd : define patOk reg c2 w err = .ok reg') (hc : c2 ≠ c)
    (hu : ∀ x, (err = some x ∨ (err = none ∧ ∃ rest, w = some (x :: rest))) → x ≠ u) :
    find c reg'.clsToPats = find c reg.clsToPats ∧ find u reg'.uriToCls = find u reg.uriToCls := by
  unfold define at hd
  cases err with
  | none =>
    cases w with
    | none => cases hd
    | some pats =>
      cases pats with
      | nil => cases hd
      | cons x rest =>
        simp only at hd; cases hd
        exact ⟨find_put_other hc _ _, find_put_other (hu x (Or.inr ⟨rfl, rest, rfl⟩)) _ _⟩
  | some e =>
    cases w with
    | some _ => cases hd
    | none =>
      simp only at hd
      split at hd
      · cases hd
      · split at hd
        · cases hd
        · cases hd
          exact ⟨find_put_other hc _ _, find_put_other (hu e (Or.inl rfl)) _ _⟩

theorem init_wf : Registry.init.WF := by
  intro c h; simp [Registry.init, find] at h

/-- successful definitions never register an empty pattern list, so the `IndexError` branch of
`_message_from_exception` (totalised in the model) is unreachable from `Registry.init` through successful `define`s -/
theorem define_preserves_wf (patOk : Uri → Bool) (reg reg' : Registry) (c : Cls) (w : Option (List Uri))
    (err : Option Uri) (hwf : reg.WF) (hd : define patOk reg c w err = .ok reg') : reg'.WF := by
  have key : ∀ (pats : List Uri), pats ≠ [] → ∀ c', find c' (put c pats reg.clsToPats) ≠ some [] := by
    intro pats hp c'
    by_cases hc : c = c'
    · subst hc; rw [find_put_self]; intro h; exact hp (Option.some.inj h)
    · rw [find_put_other hc]; exact hwf c'
  unfold define at hd
  cases err with
  | none =>
    cases w with
    | none => cases hd
    | some pats =>
      cases pats with
      | nil => cases hd
      | cons x rest => simp only at hd; cases hd; exact key _ (by simp)
  | some e =>
    cases w with
    | some _ => cases hd
    | none =>
      simp only at hd
      split at hd
      · cases hd
      · split at hd
        · cases hd
        · cases hd; exact key _ (by simp)

/-- non-vacuity of `define_roundtrip_explicit` / `_decorated` -/
example : define (fun _ => true) Registry.init "MyErr" none (some "com.myapp.err") =
    .ok { clsToPats := [("MyErr", ["com.myapp.err"])],
          uriToCls := [("com.myapp.err", "MyErr"), (INVALID_PAYLOAD, "SerializationError"),
                       (PAYLOAD_SIZE_EXCEEDED, "PayloadExceededError")] } := by decide

def envPlain : ClassEnv := { mro := fun c => if c = "B" then ["B", "A"] else [c], own := [] }

example : (decorate (fun _ => true) envPlain "A" "com.a").2 = .ok ∧
    (decorate (fun _ => true) envPlain "A" "com.a").1.wampuris "A" = some ["com.a"] := by decide

/-- Regression example (the input of the former finding `decorated-subclass-shares-base-wampuris`): decorating a
SUBCLASS of a decorated class gives the subclass its own list; base and subclass are announced under their own URIs and
each URI maps back to its own class. (`define_roundtrip_decorated` covers the subclass: `find "B" env1.own = none`.) -/
theorem decorated_subclass_own_uri :
    let env1 := (decorate (fun _ => true) envPlain "A" "com.a").1
    let env2 := (decorate (fun _ => true) env1 "B" "com.b").1
    let regA : Registry :=
      { clsToPats := [("A", ["com.a"])],
        uriToCls := [("com.a", "A"), (INVALID_PAYLOAD, "SerializationError"),
                     (PAYLOAD_SIZE_EXCEEDED, "PayloadExceededError")] }
    let reg : Registry :=
      { clsToPats := [("B", ["com.b"]), ("A", ["com.a"])],
        uriToCls := [("com.b", "B"), ("com.a", "A"), (INVALID_PAYLOAD, "SerializationError"),
                     (PAYLOAD_SIZE_EXCEEDED, "PayloadExceededError")] }
    env2.wampuris "B" = some ["com.b"] ∧ env2.wampuris "A" = some ["com.a"] ∧
    find "B" env1.own = none ∧
    define (fun _ => true) Registry.init "A" (env2.wampuris "A") none = .ok regA ∧
    define (fun _ => true) regA "B" (env2.wampuris "B") none = .ok reg ∧
    errorUri (V := Nat) reg (plain "B" none none) = "com.b" ∧ errorUri (V := Nat) reg (plain "A" none none) = "com.a" ∧
    find "com.a" reg.uriToCls = some "A" ∧ find "com.b" reg.uriToCls = some "B" := by decide

/-- a subclass that is NOT decorated itself is still seen by `define` with the list of its decorated base
(`hasattr` walks the MRO) -/
example :
    let env1 := (decorate (fun _ => true) envPlain "A" "com.a").1
    env1.wampuris "B" = some ["com.a"] := by decide

end Abverif.Errors
