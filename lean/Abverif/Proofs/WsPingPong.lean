import Abverif.Proofs.WsRoundtrip
import Abverif.Proofs.Lemmas.WsOps
/-
# C02: a ping is answered with a pong that carries the same payload

`ping_answered_same_payload`: when the engine handles a ping frame (payload ≤ 125 octets, as `recv_refines_judge`
guarantees for every ping it delivers: `delivered_ping_short`) on an OPEN connection, the application is told
(`onPing payload`) and exactly one frame is produced: opcode 10, FIN set, RSV clear, payload = the ping's payload,
masked according to the role; its octets are appended to what the endpoint has produced so far.  (What the judge reads
back from these octets is `judgeStep_encodeFrame`.)
-/
namespace Abverif.Ws

theorem ping_answered_same_payload (s : S) (p : Bytes) (ho : s.st = .opened) (hp : p.length ≤ 125)
    (hl : ¬ (s.lost = true ∧ s.cfg.asyncio = true)) :
    ∃ raw, encodeFrame true 0 10 (drawKey (s.emit (.onPing p))).2 s.cfg.applyMask p = some raw ∧
      wire (onPingFrame s p) = wire s ++ raw ∧
      (onPingFrame s p).sentOps = s.sentOps ++ [10] ∧
      (∃ d, (onPingFrame s p).log = s.log ++ Out.onPing p :: d) := by
  obtain ⟨raw, hraw⟩ := encodeFrame_some true 0 10 (drawKey (s.emit (.onPing p))).2 s.cfg.applyMask p
    (by have : (125 : Nat) < 2 ^ 63 := by decide
        omega)
  have hst : (s.emit (.onPing p)).st = .opened := ho
  have hne : (s.emit (.onPing p)).st ≠ .closed := by rw [hst]; decide
  refine ⟨raw, hraw, ?_, ?_, ?_⟩
  · unfold onPingFrame sendPong
    simp only [hst, if_true, ne_eq, not_true_eq_false, if_false, show ¬ (p.length > 125) by omega]
    rw [sendFrame_wire (s.emit (.onPing p)) 10 p true 0 false 0 raw hne hl hraw]
    have : wire (s.emit (.onPing p)) = wire s := by
      unfold wire written
      simp [S.emit, List.filterMap_append, writeOf]
    rw [this]
  · unfold onPingFrame sendPong
    simp only [hst, if_true, ne_eq, not_true_eq_false, if_false, show ¬ (p.length > 125) by omega]
    rcases sendFrame_sentOps (s.emit (.onPing p)) 10 p true 0 false 0 with h | h
    · exfalso
      unfold sendFrame at h
      simp only [show (drawKey (s.emit (.onPing p))).1.cfg.applyMask = s.cfg.applyMask from by
        rw [(drawKey_SendEq _).cfg]; rfl, hraw] at h
      rw [sendData_sentOps] at h
      have hk : (drawKey (s.emit (.onPing p))).1.sentOps = s.sentOps := by unfold drawKey; split <;> rfl
      simp [recordOp, hk] at h
      have e0 : (s.emit (Out.onPing p)).sentOps = s.sentOps := rfl
      rw [e0] at h
      simp at h
    · exact h
  · unfold onPingFrame sendPong
    simp only [hst, if_true, ne_eq, not_true_eq_false, if_false, show ¬ (p.length > 125) by omega]
    have e := sendFrame_SendEq (s.emit (.onPing p)) 10 p true 0 false 0
    -- the log only grows
    have hg : ∃ d, (sendFrame (s.emit (.onPing p)) 10 p true 0 false 0).log = (s.emit (.onPing p)).log ++ d :=
      (sendFrame_Ext (s.emit (.onPing p)) 10 p true 0 false 0).log.imp fun d h => h.1
    obtain ⟨d, hd⟩ := hg
    exact ⟨d, by rw [hd]; simp [S.emit]⟩

end Abverif.Ws
