import Abverif.Proofs.C12
import Abverif.Proofs.Lemmas.PmceRtSingle
/-
C12 — negotiation soundness at the level of the two WHOLE handshakes (multi-offer selection included).

`Proofs/C12.lean` proves compatibility for the pipeline `negotiate` (one offer, rendered and re-parsed). The real
server walks a list of offers (`collectOffers`, `applyPolicy`: several permessage-deflate offers with different
parameters, other compression kinds, unknown extensions in between) and the real client walks the whole parsed response
header (`clientLoop`). The theorems here close that gap: whatever request header the server read and whichever offer its
policy picked, a client that completes its handshake on the server's rendered response holds parameters compatible with
the server's in both directions, and the response is permitted by an offer that really was in the request header.
-/
namespace Abverif.Pmce
open Abverif.DeflateConsts

/-- `PerMessageDeflateOffer.parse` only returns offers the constructor lets through -/
theorem Offer.parse_guard (ps : Params) (o : Offer) (h : Offer.parse ps = some o) : o.guard = true := by
  unfold Offer.parse at h
  cases hf : ps.foldl Offer.parseStep (some ⟨true, false, false, 0⟩) with
  | none => simp [hf] at h
  | some o' =>
    rw [hf] at h
    simp only [Option.bind_some] at h
    split at h
    · rename_i hg; cases h; exact hg
    · cases h

theorem parseAnyOffer_deflate (n : List Char) (ps : Params) (o : Offer)
    (h : parseAnyOffer n ps = some (some (.deflate o))) : n = extensionName ∧ Offer.parse ps = some o := by
  unfold parseAnyOffer at h
  split at h
  · rename_i hn
    refine ⟨hn, ?_⟩
    cases hp : Offer.parse ps with
    | none => simp [hp] at h
    | some o2 => simpa [hp] using h
  · split at h
    · cases hb : BzOffer.parse ps <;> simp [hb] at h
    · split at h
      · cases hb : BrOffer.parse ps <;> simp [hb] at h
      · cases h

/-- every offer the server collected was parsed from an entry of the request header carrying that extension's name -/
theorem collectOffers_deflate_mem (exts : List (List Char × Params)) (offers : List AnyOffer) (o : Offer)
    (h : collectOffers exts = some offers) (hm : AnyOffer.deflate o ∈ offers) :
    ∃ ps, (extensionName, ps) ∈ exts ∧ Offer.parse ps = some o := by
  induction exts generalizing offers with
  | nil => simp [collectOffers] at h; subst h; simp at hm
  | cons e rest ih =>
    obtain ⟨n, ps⟩ := e
    simp only [collectOffers] at h
    split at h
    · obtain ⟨ps', hps', hp⟩ := ih offers h hm
      exact ⟨ps', List.mem_cons_of_mem _ hps', hp⟩
    · cases h
    · rename_i o1 ho1
      cases hr : collectOffers rest with
      | none => simp [hr] at h
      | some offs =>
        rw [hr] at h
        simp only [Option.map_some, Option.some.injEq] at h
        subst h
        rcases List.mem_cons.mp hm with heq | hin
        · subst heq
          obtain ⟨hn, hp⟩ := parseAnyOffer_deflate n ps o ho1
          subst hn
          exact ⟨ps, List.mem_cons_self, hp⟩
        · obtain ⟨ps', hps', hp⟩ := ih offs hr hin
          exact ⟨ps', List.mem_cons_of_mem _ hps', hp⟩

/-- **the policy's pick is one of the offers.** Whatever the list of offers, a permessage-deflate result of
`applyPolicy` is the accept of an offer that is in the list, built with the policy's arguments, and its constructor
guard passed. -/
theorem applyPolicy_deflate (pol : ServerPolicy) (offers : List AnyOffer) (s : List Char) (p : Pmce)
    (h : applyPolicy pol offers = some (s, .deflate p)) :
    ∃ o x, AnyOffer.deflate o ∈ offers ∧ pol.deflate = some x ∧ (x.on o).guard = true
      ∧ s = (x.on o).render ∧ p = Pmce.fromOfferAccept true (x.on o) := by
  induction offers with
  | nil => simp [applyPolicy] at h
  | cons a rest ih =>
    simp only [applyPolicy] at h
    split at h
    · obtain ⟨o, x, hm, hx, hg, hs, hp⟩ := ih h
      exact ⟨o, x, List.mem_cons_of_mem _ hm, hx, hg, hs, hp⟩
    · rename_i r hr
      subst h
      cases a with
      | deflate o =>
        simp only [acceptOne] at hr
        cases hx : pol.deflate with
        | none => simp [hx] at hr
        | some x =>
          rw [hx] at hr
          simp only [Option.map_some, Option.some.injEq] at hr
          split at hr
          · rename_i hg
            simp only [Option.some.injEq, Prod.mk.injEq, AnyPmce.deflate.injEq] at hr
            exact ⟨o, x, List.mem_cons_self, rfl, hg, hr.1.symm, hr.2.symm⟩
          · cases hr
      | bzip2 o =>
        simp only [acceptOne] at hr
        cases hx : pol.bzip2 with
        | none => simp [hx] at hr
        | some x =>
          rw [hx] at hr
          simp only [Option.map_some, Option.some.injEq] at hr
          split at hr <;> simp at hr
      | brotli o =>
        simp only [acceptOne] at hr
        cases hx : pol.brotli with
        | none => simp [hx] at hr
        | some x =>
          rw [hx] at hr
          simp only [Option.map_some, Option.some.injEq] at hr
          split at hr <;> simp at hr

/-- the response header a server renders parses to exactly one entry, the permessage-deflate one, and
`PerMessageDeflateResponse.parse` reads back the four parameters the server wrote -/
theorem response_header_single (a : OfferAccept) (ho : a.offer.guard = true) (ha : a.guard = true) :
    ∃ rps, parseExtensionsHeader a.render = [(extensionName, rps)] ∧ Response.parse rps = some a.response := by
  have hw : a.reqMwb ∈ winVals := by
    apply mem_winVals
    simp only [OfferAccept.guard, Bool.and_eq_true] at ha
    exact ha.1.1.1.1.2
  have h1 := response_header_single_all a.offer.reqNct (mem_bools _) a.offer.reqMwb (mem_winVals ho)
    a.reqNct (mem_bools _) a.reqMwb hw
  rw [← OfferAccept.render_congr] at h1
  have h2 := parse_render_response a ho ha
  unfold OfferAccept.reparse at h2
  cases hl : parseExtensionsHeader a.render with
  | nil => rw [hl] at h1; simp at h1
  | cons e rest =>
    rw [hl] at h1 h2
    obtain ⟨n, rps⟩ := e
    simp only [List.map_cons, List.cons.injEq, List.map_eq_nil_iff] at h1
    obtain ⟨hn, hr⟩ := h1
    subst hr
    have hn' : n = extensionName := hn
    subst hn'
    simp only [findDeflate, if_true, Option.bind_some] at h2
    exact ⟨rps, rfl, h2⟩

/-- **whole-handshake soundness (permessage-deflate).** For EVERY request header value (any number of offers of any
kind, unknown extensions in between), every server policy and every client policy: if the server completes with a
permessage-deflate response `s` and the client completes its handshake on `s`, then
* `s` was built for an offer `o` that the request header really carried, and what the client parses from `s` is
  permitted by that offer (RFC 7692 §7.1: server parameters only as requested, client window only if the offer
  allowed it);
* the client ends up with a permessage-deflate object, and the two ends are compatible in both directions
  (inflater window ≥ deflater window; an inflater that forgets its context only faces a deflater that does) —
  exactly the hypothesis `lossless` needs. -/
theorem handshake_compatible (spol : ServerPolicy) (cpol : ClientPolicy) (hdr s : List Char)
    (sp : AnyPmce) (cp : Option AnyPmce)
    (hs : serverHandshake spol hdr = .ok (some s) (some sp))
    (hd : ∃ p, sp = .deflate p)
    (hc : clientHandshake cpol s = .ok none cp) :
    ∃ (o : Offer) (a : OfferAccept) (p q : Pmce) (ps : Params),
      (extensionName, ps) ∈ parseExtensionsHeader hdr ∧ Offer.parse ps = some o
      ∧ a.offer = o ∧ s = a.render ∧ permittedBy o a.response
      ∧ sp = .deflate p ∧ cp = some (.deflate q)
      ∧ dirCompatible p q ∧ dirCompatible q p := by
  obtain ⟨p, rfl⟩ := hd
  -- server side
  unfold serverHandshake at hs
  cases hco : collectOffers (parseExtensionsHeader hdr) with
  | none => simp [hco] at hs
  | some offers =>
    rw [hco] at hs
    simp only at hs
    cases hap : applyPolicy spol offers with
    | none => simp [hap] at hs
    | some sr =>
      obtain ⟨s', p'⟩ := sr
      rw [hap] at hs
      simp only [HsResult.ok.injEq, Option.some.injEq] at hs
      obtain ⟨rfl, rfl⟩ := hs
      obtain ⟨o, x, hm, _hx, hg, rfl, rfl⟩ := applyPolicy_deflate spol offers s' p hap
      obtain ⟨ps, hps, hpo⟩ := collectOffers_deflate_mem _ offers o hco hm
      have hog : o.guard = true := Offer.parse_guard ps o hpo
      have hoa : (x.on o).offer.guard = true := by simpa [AcceptArgs.on] using hog
      obtain ⟨rps, hl, hrp⟩ := response_header_single (x.on o) hoa hg
      -- client side
      unfold clientHandshake at hc
      rw [hl] at hc
      cases hcl : clientLoop cpol [(extensionName, rps)] none with
      | none => simp [hcl] at hc
      | some r =>
        rw [hcl] at hc
        simp only [HsResult.ok.injEq, true_and] at hc
        subst hc
        rcases clientLoop_ok cpol _ r hcl with ⟨hnil, _⟩ | ⟨n, ps2, q0, hex, hacc, hr⟩
        · simp at hnil
        · simp only [List.cons.injEq, Prod.mk.injEq, and_true] at hex
          obtain ⟨rfl, rfl⟩ := hex
          subst hr
          unfold acceptResponse at hacc
          simp only [if_true, hrp, Option.bind_some, Option.some.injEq] at hacc
          cases hy : cpol.deflate with
          | none => simp [hy] at hacc
          | some y =>
            rw [hy] at hacc
            simp only [Option.bind_some] at hacc
            split at hacc
            · rename_i hyg
              simp only [Option.some.injEq] at hacc
              subst hacc
              have hperm : permittedBy o (x.on o).response := by
                have hon : o.normalize.guard = true := by simpa [Offer.normalize, Offer.guard] using hog
                have hgn : (x.on o.normalize).guard = true := by
                  -- normalising (acceptNct := true) can only make the accept guard easier to pass
                  revert hg
                  obtain ⟨a1, a2, a3, a4⟩ := o
                  obtain ⟨x1, x2, x3, x4, x5⟩ := x
                  simp only [AcceptArgs.on, Offer.normalize, OfferAccept.guard]
                  cases a1 <;> cases x1 <;> simp
                have h := (response_subset_of_offer o x hog hgn).2
                simpa [OfferAccept.response, AcceptArgs.on, Offer.normalize] using h
              have hcc := compat_core (x.on o) y hg hyg hoa
              exact ⟨o, x.on o, _, _, ps, hps, hpo, rfl, rfl, hperm, rfl, rfl, hcc.1, hcc.2⟩
            · cases hacc

/-- the hypotheses of `handshake_compatible` are met by a request carrying an unknown extension, a permessage-bzip2
offer the server does not enable, and TWO permessage-deflate offers: the first one the policy can serve is picked
(here with the server's own `window_bits = 10` override), and a client with an override of its own completes on the
rendered response. -/
example :
    let spol : ServerPolicy := ⟨some ⟨false, 0, none, some 10, none⟩, none, none⟩
    let cpol : ClientPolicy := ⟨some ⟨some true, none, some 1⟩, none, none⟩
    let hdr := "x-foo; a=1, permessage-bzip2, permessage-deflate; server_max_window_bits=10, permessage-deflate; client_max_window_bits".toList
    (match serverHandshake spol hdr with
     | .ok (some s) (some (.deflate p)) =>
        p.sMwb == 10 && (match clientHandshake cpol s with
                         | .ok none (some (.deflate q)) => q.sMwb == 10 && q.cNct
                         | _ => false)
     | _ => false) = true := by
  decide +kernel

end Abverif.Pmce
