import Abverif.Proofs.Lemmas.SessReply
import Abverif.Proofs.Lemmas.SessGone
import Abverif.Model.SessTrace
/-
C06 — WAMP sessions end cleanly on every path and leave nothing pending.

Statements about `Model/Session.lean` (lifecycle part) for every state / every history `h : List SEv`, both scheduling
modes (`Sched.sync` = Twisted, `Sched.deferred` = asyncio) and every behaviour of the user hooks.
The reference notions are those of `Model/SessTrace.lean` (the property as predicates over a trace).
-/
namespace Abverif.Session
open Abverif.SessCodes Abverif.SessTrace

/-! ## pre_session_gate -/

/-- messages a client session may legally get before it is established -/
def legalBefore : InMsg → Bool
  | .welcome _ | .abort | .challenge => true
  | _ => false

/-- handshake messages: never legal once the session is established (`other` stands for HELLO / AUTHENTICATE and every
other class a client never receives) -/
def handshake : InMsg → Bool
  | .welcome _ | .abort | .challenge | .other => true
  | _ => false

/-- `pre_session_gate`: before the session is established anything but WELCOME / ABORT / CHALLENGE — and afterwards
every handshake message — raises `ProtocolError` out of `onMessage` and changes *nothing*: no hook runs, nothing is
sent, no future is touched. For every state, both scheduling modes, whatever the hooks would do. -/
theorem pre_session_gate (s : Sess) (beh : List HAct) (m : InMsg) :
    (s.sessionId = none → legalBefore m = false → step s (.msg m beh) = (s, [.raise_ .protocolError])) ∧
    (s.sessionId.isSome = true → handshake m = true → step s (.msg m beh) = (s, [.raise_ .protocolError])) := by
  constructor
  · intro hs hm
    simp only [step, onMessage, hs]
    cases m <;> simp [legalBefore] at hm <;> rfl
  · intro hs hm
    obtain ⟨sid, hsid⟩ := Option.isSome_iff_exists.mp hs
    simp only [step, onMessage, hsid]
    cases m <;> simp [handshake] at hm <;> rfl

/-- the Spec's notion of an illegal message agrees with the two predicates above -/
theorem isIllegal_iff (welcomed : Bool) (m : InMsg) :
    isIllegal welcomed m = (if welcomed then handshake m else (!legalBefore m || m == .other)) := by
  cases welcomed <;> cases m <;> rfl

/-- non-vacuity: RESULT before WELCOME; a second WELCOME, a CHALLENGE and an ABORT inside the session -/
example : runOuts (init .sync) [.open_ [], .msg (.result 1 {} false) [], .msg (.welcome 5) [], .msg (.welcome 6) [],
      .msg .challenge [], .msg .abort [], .msg .other []] =
    [.fire .connect, .hook .onConnect 0, .send { typ := .hello }, .raise_ .protocolError,
     .hook .onWelcome 0, .fire .join, .hook .onJoin 0, .fire .ready,
     .raise_ .protocolError, .raise_ .protocolError, .raise_ .protocolError, .raise_ .protocolError] := by decide

/-! ## api_fails_fast_after_end -/

/-- `api_fails_fast_after_end`: without a transport every request API raises `TransportLost` at once — nothing is
recorded, no id is drawn, no future is created, nothing can hang. (`unsubscribe` / `unregister` on a handle that is no
longer active raise "no longer active" instead.) -/
theorem api_fails_fast_after_end (s : Sess) (ht : s.transport = false) :
    (∀ u a k o r, step s (.api (.call u a k o r)) = (s, [.raise_ .transportLost])) ∧
    (∀ u a k o r, step s (.api (.publish u a k o r)) = (s, [.raise_ .transportLost])) ∧
    (∀ h t o r, step s (.api (.subscribe h t o r)) = (s, [.raise_ .transportLost])) ∧
    (∀ h p o r, step s (.api (.register h p o r)) = (s, [.raise_ .transportLost])) ∧
    (∀ obj r, step s (.api (.unsubscribe obj r)) = (s, [.raise_ .transportLost]) ∨
              step s (.api (.unsubscribe obj r)) = (s, [.raise_ .exception])) ∧
    (∀ obj r, step s (.api (.unregister obj r)) = (s, [.raise_ .transportLost]) ∨
              step s (.api (.unregister obj r)) = (s, [.raise_ .exception])) := by
  refine ⟨?_, ?_, ?_, ?_, ?_, ?_⟩
  · intro u a k o r; simp [step, apiStep, apiCall, ht]
  · intro u a k o r; simp [step, apiStep, apiPublish, ht]
  · intro h t o r; simp [step, apiStep, apiSubscribe, ht]
  · intro h p o r; simp [step, apiStep, apiRegister, ht]
  · intro obj r
    simp only [step, apiStep, apiUnsubscribe]
    cases findSub obj s.subs <;> simp [ht]
  · intro obj r
    simp only [step, apiStep, apiUnregister]
    cases findReg obj s.regs <;> simp [ht]

/-! the transport reference is dropped by `onClose` and by nothing else: hooks, default bodies and whatever user code
calls leave it alone -/

/-- `transport` (and the scheduling mode) unchanged -/
def Stable (s : Sess) (_ : List SOut) (s' : Sess) : Prop := s'.transport = s.transport ∧ s'.mode = s.mode

theorem stableLiftQ : LiftQ Stable (fun _ => True) where
  refl := fun _ => ⟨rfl, rfl⟩
  trans := fun h1 h2 => ⟨h2.1.trans h1.1, h2.2.trans h1.2⟩
  post := fun _ _ => trivial
  caught := fun r => r
  quiet := fun _ q => by
    have := q.life
    simp only [Sess.life, Life.mk.injEq] at this
    exact ⟨this.2.1, this.1⟩
  lifeApi := fun {s} a ha _ => by
    cases a <;> simp [Api.isLife] at ha
    · simp only [apiStep, apiJoin]; split <;> (try split) <;> exact ⟨rfl, rfl⟩
    · simp only [apiStep, apiLeave]; split <;> (try split) <;> (try split) <;> exact ⟨rfl, rfl⟩
    · simp only [apiStep, apiDisconnect]; split <;> exact ⟨rfl, rfl⟩

theorem emitCb_stable (s : Sess) (o : SOut) : Stable s (emitCb s o).2 (emitCb s o).1 := by
  have := emitCb_life s o
  simp only [Sess.life, Life.mk.injEq] at this
  exact ⟨this.2.1, this.1⟩

theorem stable_trans {s1 s2 s3 : Sess} {o1 o2 o3 : List SOut} (h1 : Stable s1 o1 s2) (h2 : Stable s2 o2 s3) : Stable s1 o3 s3 :=
  ⟨h2.1.trans h1.1, h2.2.trans h1.2⟩

theorem runHook_stable (s : Sess) (h : Hook) (arg : Nat) (act : HAct) (body : Sess → Sess × List SOut)
    (hb : ∀ s, Stable s (body s).2 (body s).1) : Stable s (runHook s h arg act body).2 (runHook s h arg act body).1 := by
  unfold runHook
  have hb1 : Stable s (if act.dflt then body s else (s, [])).2 (if act.dflt then body s else (s, [])).1 := by
    split
    · exact hb s
    · exact ⟨rfl, rfl⟩
  generalize (if act.dflt = true then body s else (s, [])) = r1 at hb1 ⊢
  simp only []
  split
  · exact hb1
  · exact stable_trans hb1 (stableLiftQ.toLift.runCalls trivial none act.calls)

theorem deferLeaf_closeIfTransport_stable (s : Sess) : Stable s (deferLeaf s .closeIfTransport).2 (deferLeaf s .closeIfTransport).1 := by
  unfold deferLeaf
  split
  · simp only [runLeaf]; split <;> exact ⟨rfl, rfl⟩
  · exact ⟨rfl, rfl⟩

theorem onLeaveDefault_stable (s : Sess) (reason : Nat) : Stable s (onLeaveDefault s reason).2 (onLeaveDefault s reason).1 := by
  unfold onLeaveDefault
  have h1 : Stable s (rejectList s.clearTables (.closed reason) s.outstanding).2 (rejectList s.clearTables (.closed reason) s.outstanding).1 :=
    stableLiftQ.quiet trivial (Quiet.congr_left (rejectList_quiet _ _ _) rfl rfl)
  exact stable_trans h1 (deferLeaf_closeIfTransport_stable _)

theorem onDisconnectDefault_stable (s : Sess) : Stable s (onDisconnectDefault s).2 (onDisconnectDefault s).1 :=
  stableLiftQ.quiet trivial (Quiet.congr_left (rejectList_quiet _ _ _) rfl rfl)

theorem leaveHook_stable (s : Sess) (reason : Nat) (act : HAct) : Stable s (leaveHook s reason act).2 (leaveHook s reason act).1 := by
  unfold leaveHook
  exact stable_trans (runHook_stable s .onLeave reason act _ (fun s => onLeaveDefault_stable s reason)) (emitCb_stable _ _)

theorem disconnectHook_stable (s : Sess) (act : HAct) : Stable s (disconnectHook s act).2 (disconnectHook s act).1 := by
  unfold disconnectHook
  exact stable_trans (runHook_stable s .onDisconnect 0 act _ onDisconnectDefault_stable) (emitCb_stable _ _)

/-- after `onClose` — whatever the hooks do, in both scheduling modes — the session holds no transport and no session
id: from here on (until the object is given a new transport) `api_fails_fast_after_end` applies -/
theorem closed_ends_everything (s : Sess) (acts : List HAct) :
    (step s (.closed acts)).1.transport = false := by
  simp only [step, onClose]
  split
  · have h1 := leaveHook_stable { s with transport := false } 1 (acts.headD {})
    have h2 := disconnectHook_stable { (leaveHook { s with transport := false } 1 (acts.headD {})).1 with sessionId := none } (acts.tail.headD {})
    rw [h2.1]; exact h1.1
  · exact (disconnectHook_stable { s with transport := false } (acts.tail.headD {})).1

/-- … and it stays so under everything but a new `onOpen`: user code (API calls of any kind) cannot bring it back -/
theorem api_keeps_transport_down (s : Sess) (a : Api) : (step s (.api a)).1.transport = s.transport :=
  (stableLiftQ.toLift.api a trivial).1

/-! the same for every other event: only `onOpen` / `onClose` write the transport reference -/

theorem stable_refl (s : Sess) (o : List SOut) : Stable s o s := ⟨rfl, rfl⟩

theorem runLeaf_stable (s : Sess) (k : Cont) : Stable s (runLeaf s k).2 (runLeaf s k).1 := by
  cases k with
  | closeIfTransport => simp only [runLeaf]; split <;> exact ⟨rfl, rfl⟩
  | welcome2 act => simp only [runLeaf]; exact runHook_stable s .onJoin 0 act _ (fun s => ⟨rfl, rfl⟩)
  | connect _ => exact ⟨rfl, rfl⟩
  | welcome1 _ _ _ => exact ⟨rfl, rfl⟩
  | challenge1 _ _ => exact ⟨rfl, rfl⟩
  | invDone _ _ => exact ⟨rfl, rfl⟩

theorem deferLeaf_stable (s : Sess) (k : Cont) : Stable s (deferLeaf s k).2 (deferLeaf s k).1 := by
  unfold deferLeaf
  split
  · exact runLeaf_stable s k
  · exact ⟨rfl, rfl⟩

theorem replySend_stable (s : Sess) (m : OutMsg) : Stable s (replySend s m).2.1 (replySend s m).1 := by
  unfold replySend; split <;> exact ⟨rfl, rfl⟩

theorem sendWithFallback_stable (s : Sess) (r : ReqId) (m : OutMsg) : Stable s (sendWithFallback s r m).2 (sendWithFallback s r m).1 := by
  unfold sendWithFallback
  simp only []
  split
  · exact replySend_stable s m
  · split
    · exact replySend_stable s m
    · exact stable_trans (replySend_stable s m) (replySend_stable _ _)

theorem invDone_stable (s : Sess) (r : ReqId) (o : EOut) : Stable s (invDone s r o).2 (invDone s r o).1 := by
  unfold invDone
  split
  · exact ⟨rfl, rfl⟩
  · simp only []
    split
    · split
      · exact ⟨rfl, rfl⟩
      · exact stable_trans (s2 := { s with invs := adel r s.invs }) (o1 := []) ⟨rfl, rfl⟩ (sendWithFallback_stable _ _ _)
    · split
      · exact ⟨rfl, rfl⟩
      · split
        · exact ⟨rfl, rfl⟩
        · exact stable_trans (s2 := { s with invs := adel r s.invs }) (o1 := []) ⟨rfl, rfl⟩ (sendWithFallback_stable _ _ _)

theorem challengeFail_stable (s : Sess) (lact : HAct) : Stable s (challengeFail s lact).2 (challengeFail s lact).1 := by
  unfold challengeFail
  split
  · exact ⟨rfl, rfl⟩
  · exact leaveHook_stable s 3 lact

theorem runCont_stable (s : Sess) (k : Cont) : Stable s (runCont s k).2 (runCont s k).1 := by
  cases k with
  | closeIfTransport => exact runLeaf_stable s _
  | welcome2 act => exact runLeaf_stable s _
  | connect act =>
    simp only [runCont]
    exact runHook_stable s .onConnect 0 act apiJoin (fun s => stableLiftQ.toLift.api .join trivial)
  | welcome1 sid res jact =>
    simp only [runCont]
    cases res with
    | deny => simp only []; split <;> exact ⟨rfl, rfl⟩
    | raised => simp only []; split <;> exact ⟨rfl, rfl⟩
    | ok =>
      simp only []
      split
      · exact ⟨rfl, rfl⟩
      · exact stable_trans (s2 := { s with sessionId := some sid }) (o1 := []) ⟨rfl, rfl⟩ (deferLeaf_stable _ _)
  | challenge1 res lact =>
    simp only [runCont]
    cases res with
    | sig =>
      simp only []
      split
      · exact ⟨rfl, rfl⟩
      · split
        · exact ⟨rfl, rfl⟩
        · exact challengeFail_stable s lact
    | none_ =>
      simp only []
      split
      · exact ⟨rfl, rfl⟩
      · exact challengeFail_stable s lact
    | raised => exact challengeFail_stable s lact
  | invDone r o => exact invDone_stable s r o

theorem defer_stable (s : Sess) (k : Cont) : Stable s (defer s k).2 (defer s k).1 := by
  unfold defer
  split
  · exact runCont_stable s k
  · exact ⟨rfl, rfl⟩

theorem settleInv_stable (s : Sess) (r : ReqId) (o : EOut) : Stable s (settleInv s r o).2 (settleInv s r o).1 := by
  unfold settleInv
  split
  · exact ⟨rfl, rfl⟩
  · next x _ =>
    split
    · exact ⟨rfl, rfl⟩
    · exact stable_trans (s2 := { s with invs := aupd r { x with st := .fired } s.invs }) (o1 := []) ⟨rfl, rfl⟩ (defer_stable _ _)

theorem progressLoop_stable (s : Sess) (r : ReqId) (vs : List Val) : Stable s (progressLoop s r vs).2.1 (progressLoop s r vs).1 := by
  induction vs generalizing s with
  | nil => exact ⟨rfl, rfl⟩
  | cons v vs ih =>
    unfold progressLoop
    split
    · exact ⟨rfl, rfl⟩
    · simp only []
      split
      · exact stable_trans (replySend_stable s _) (ih _)
      · exact replySend_stable s _

theorem onInvocation_stable (s : Sess) (beh : List HAct) (r : ReqId) (reg : RegId) (p : Payload) (rp : Bool) :
    Stable s (onInvocation s beh r reg p rp).2 (onInvocation s beh r reg p rp).1 := by
  unfold onInvocation
  split
  · exact ⟨rfl, rfl⟩
  · split
    · exact ⟨rfl, rfl⟩
    · next g _ =>
      simp only []
      generalize hs0 : (if (g.detailsArg.isSome && rp) = true then { s with progs := r :: s.progs } else s) = s0
      have h0 : Stable s ([] : List SOut) s0 := by subst hs0; split <;> exact ⟨rfl, rfl⟩
      have h1 := progressLoop_stable s0 r (if (g.detailsArg.isSome && rp) = true then (beh.headD {}).progress else [])
      generalize (progressLoop s0 r (if (g.detailsArg.isSome && rp) = true then (beh.headD {}).progress else [])) = r1 at h1 ⊢
      have h2 : Stable r1.1 (if r1.2.2 = true then (r1.1, []) else runCalls r1.1 none (beh.headD {}).calls).2
          (if r1.2.2 = true then (r1.1, []) else runCalls r1.1 none (beh.headD {}).calls).1 := by
        split
        · exact ⟨rfl, rfl⟩
        · exact stableLiftQ.toLift.runCalls trivial none _
      generalize (if r1.2.2 = true then (r1.1, []) else runCalls r1.1 none (beh.headD {}).calls) = r2 at h2 ⊢
      generalize (if r1.2.2 = true then some (EOut.raised .sendExc)
        else if (beh.headD {}).raises = true then some (EOut.raised (beh.headD {}).exc)
        else if (beh.headD {}).ret = Ret.pending then none else some (retOut (beh.headD {}).ret)) = outcome
      have h012 : Stable s ([] : List SOut) r2.1 := stable_trans (stable_trans h0 h1 (o3 := [])) h2
      cases outcome with
      | none => exact ⟨h012.1, h012.2⟩
      | some o =>
        have h3 := defer_stable { r2.1 with invs := aset r { reg := reg, st := IState.fired } r2.1.invs } (.invDone r o)
        exact ⟨h3.1.trans h012.1, h3.2.trans h012.2⟩

theorem lateProgress_stable (s : Sess) (r : ReqId) (v : Val) : Stable s (lateProgress s r v).2 (lateProgress s r v).1 := by
  unfold lateProgress
  split
  · exact ⟨rfl, rfl⟩
  · split
    · exact ⟨rfl, rfl⟩
    · exact replySend_stable s _

theorem preSession_stable (s : Sess) (beh : List HAct) (m : InMsg) : Stable s (preSession s beh m).2 (preSession s beh m).1 := by
  cases m with
  | welcome sid =>
    simp only [preSession]
    exact stable_trans (runHook_stable s .onWelcome 0 _ _ (fun s => ⟨rfl, rfl⟩)) (defer_stable _ _)
  | abort => exact leaveHook_stable s 2 _
  | challenge =>
    simp only [preSession]
    exact stable_trans (runHook_stable s .onChallenge 0 _ _ (fun s => ⟨rfl, rfl⟩)) (defer_stable _ _)
  | goodbye => exact ⟨rfl, rfl⟩
  | result _ _ _ => exact ⟨rfl, rfl⟩
  | error _ _ _ _ => exact ⟨rfl, rfl⟩
  | published _ _ => exact ⟨rfl, rfl⟩
  | subscribed _ _ => exact ⟨rfl, rfl⟩
  | unsubscribed _ => exact ⟨rfl, rfl⟩
  | registered _ _ => exact ⟨rfl, rfl⟩
  | unregistered _ _ => exact ⟨rfl, rfl⟩
  | event _ _ _ => exact ⟨rfl, rfl⟩
  | invocation _ _ _ _ => exact ⟨rfl, rfl⟩
  | interrupt _ => exact ⟨rfl, rfl⟩
  | other => exact ⟨rfl, rfl⟩

theorem onEstablished_stable (s : Sess) (beh : List HAct) (m : InMsg) : Stable s (onEstablished s beh m).2 (onEstablished s beh m).1 := by
  by_cases hm : m.isReplySide = true
  · exact stableLiftQ.established trivial beh m hm
  · cases m <;> simp [InMsg.isReplySide] at hm
    · simp only [onEstablished]
      split
      · exact ⟨rfl, rfl⟩
      · exact stable_trans (s2 := { s with sessionId := none }) (o1 := []) ⟨rfl, rfl⟩ (leaveHook_stable _ 0 _)
    · exact onInvocation_stable s beh _ _ _ _
    · exact settleInv_stable s _ _

theorem tickList_stable (s : Sess) (items : List SOut) : Stable s (tickList s items).2 (tickList s items).1 := by
  induction items generalizing s with
  | nil => exact ⟨rfl, rfl⟩
  | cons o rest ih =>
    cases o with
    | later k => simp only [tickList]; exact stable_trans (runCont_stable s k) (ih _)
    | _ => simp only [tickList]; exact ih s

theorem drain_stable (n : Nat) (s : Sess) : Stable s (drain n s).2 (drain n s).1 := by
  induction n generalizing s with
  | zero => exact ⟨rfl, rfl⟩
  | succ n ih =>
    unfold drain
    split
    · exact ⟨rfl, rfl⟩
    · exact stable_trans (o3 := []) (stable_trans (s2 := { s with cbq := [] }) (o1 := []) (o3 := []) ⟨rfl, rfl⟩ (tickList_stable _ _)) (ih _)

/-- `transport_written_only_by_onOpen_and_onClose`: no other event — message of any kind, API call, loop iteration,
completion of an endpoint result, … with whatever user code runs inside — changes whether the session holds a
transport. So after `onClose` the API guard of `api_fails_fast_after_end` applies until the object is opened again. -/
theorem transport_written_only_by_onOpen_and_onClose (s : Sess) (e : SEv) (ho : ∀ acts, e ≠ .open_ acts) (hc : ∀ acts, e ≠ .closed acts) :
    (step s e).1.transport = s.transport := by
  cases e with
  | api a => exact (stableLiftQ.toLift.api a trivial).1
  | msg m beh =>
    simp only [step, onMessage]
    split
    · exact (preSession_stable s beh m).1
    · exact (onEstablished_stable s beh m).1
  | pump => exact (drain_stable 8 s).1
  | tick => exact (stable_trans (s2 := { s with cbq := [] }) (o1 := []) (o3 := []) ⟨rfl, rfl⟩ (tickList_stable _ _)).1
  | open_ acts => exact absurd rfl (ho acts)
  | closed acts => exact absurd rfl (hc acts)
  | fault l => rfl
  | resolve r v => exact (settleInv_stable s r _).1
  | fail r x => exact (settleInv_stable s r _).1
  | lateProgress r v => exact (lateProgress_stable s r v).1

/-- `api_fails_fast_after_end`, over whole histories: after `onClose`, through any continuation that does not open the
object again, every `call()` raises `TransportLost` at once and changes nothing (likewise publish / subscribe /
register, see `api_fails_fast_after_end`) -/
theorem api_fails_fast_after_end_history (s : Sess) (acts : List HAct) (h2 : List SEv) (hno : ∀ e ∈ h2, ∀ a, e ≠ .open_ a)
    (u : Uri) (a : Args) (k : Kwargs) (o : Option CallOpts) (r : SendRes) :
    let s' := runState (step s (.closed acts)).1 h2
    step s' (.api (.call u a k o r)) = (s', [.raise_ .transportLost]) := by
  have key : ∀ (t : Sess) (h : List SEv), t.transport = false → (∀ e ∈ h, ∀ a, e ≠ .open_ a) → (runState t h).transport = false := by
    intro t h
    induction h generalizing t with
    | nil => intro ht _; exact ht
    | cons e es ih =>
      intro ht hn
      rw [runState_cons]
      refine ih _ ?_ (fun e' he' => hn e' (List.mem_cons_of_mem _ he'))
      by_cases hcl : ∃ acts, e = .closed acts
      · obtain ⟨acts, rfl⟩ := hcl; exact closed_ends_everything t acts
      · rw [transport_written_only_by_onOpen_and_onClose t e (hn e List.mem_cons_self) (fun acts he => hcl ⟨acts, he⟩)]; exact ht
  exact (api_fails_fast_after_end _ (key _ h2 (closed_ends_everything s acts) hno)).1 u a k o r

/-! ## goodbye_at_most_once / goodbye_answered_iff_not_initiator -/

def isGoodbye : SOut → Bool
  | .send m => m.typ == .goodbye
  | _ => false

/-- `goodbye_answered_iff_not_initiator`: in an established session (transport up) the peer's GOODBYE is answered with
a GOODBYE — the first thing the step does — exactly when this side has not sent one itself (`leave()` was not called
in this session); either way the session is over afterwards and `onLeave` is called, whatever it does. -/
theorem goodbye_answered_iff_not_initiator (s : Sess) (sid : Nat) (hs : s.sessionId = some sid) (ht : s.transport = true)
    (beh : List HAct) :
    let r := step s (.msg .goodbye beh)
    (s.goodbyeSent = false → r.2 = .send { typ := .goodbye } :: (leaveHook { s with sessionId := none } 0 (beh.headD {})).2) ∧
    (s.goodbyeSent = true → r.2 = (leaveHook { s with sessionId := none } 0 (beh.headD {})).2) ∧
    r.1 = (leaveHook { s with sessionId := none } 0 (beh.headD {})).1 := by
  simp only [step, onMessage, hs, onEstablished, ht]
  refine ⟨fun h => by simp [h], fun h => by simp [h], by simp⟩

/-- what `onLeave` brings with it contains no GOODBYE unless user code calls `leave()` … which finds no session any more -/
theorem leave_sends_iff (s : Sess) :
    (apiLeave s).2 = (if s.sessionId.isSome && !s.goodbyeSent && s.transport then [.send { typ := .goodbye }] else
                      if s.sessionId.isSome && !s.goodbyeSent then [.raise_ .attributeError] else []) ∧
    ((apiLeave s).2.any isGoodbye = true → (apiLeave s).1.goodbyeSent = true) ∧
    (apiLeave s).1.sessionId = s.sessionId := by
  unfold apiLeave
  cases h1 : s.sessionId <;> cases h2 : s.goodbyeSent <;> cases h3 : s.transport <;> simp [isGoodbye, h1, h2, h3]

/-- `goodbye_at_most_once`, step by step: `leave()` sends GOODBYE only in a joined session that has not sent one, and
records it; a second `leave()` sends nothing; the reply to the peer's GOODBYE is sent only if none was sent and ends the
session; `join()` — the only thing that clears the record — is refused while a session is joined. -/
theorem goodbye_at_most_once_steps (s : Sess) :
    (s.goodbyeSent = true → (apiLeave s).2.any isGoodbye = false) ∧
    (s.sessionId = none → (apiLeave s).2 = []) ∧
    (s.sessionId.isSome = true → (apiJoin s) = (s, [.raise_ .exception])) ∧
    ((apiJoin s).1.sessionId = s.sessionId) := by
  refine ⟨?_, ?_, ?_, ?_⟩
  · intro h; unfold apiLeave; cases h1 : s.sessionId <;> simp [h, isGoodbye]
  · intro h; simp [apiLeave, h]
  · intro h; simp [apiJoin, h]
  · unfold apiJoin; split <;> (try split) <;> rfl

/-! ## nothing_pending_after_end -/

theorem clearTables_tbl (s : Sess) (k : Kind) : s.clearTables.tbl k = [] := by cases k <;> rfl

theorem rejectList_tbl (s : Sess) (o : Outcome) (fs : List FutId) (k : Kind) : (rejectList s o fs).1.tbl k = s.tbl k := by
  induction fs generalizing s with
  | nil => rfl
  | cons f fs ih =>
    rw [rejectList_cons]; split
    · exact ih s
    · simp only []; rw [ih, settle_tbl]

/-- the default clean-up body: afterwards the six tables are empty -/
theorem errback_outstanding_empties (s : Sess) (o : Outcome) (k : Kind) :
    (rejectList s.clearTables o s.outstanding).1.tbl k = [] := by
  rw [rejectList_tbl, clearTables_tbl]

theorem settle_called_self {s : Sess} {f : Nat} (hf : f < s.futs.length) (o : Outcome) : (settle s f o).1.called f = true := by
  have hx : s.futs[f]? = some s.futs[f] := by simp [hf]
  unfold settle
  rw [hx]
  simp only []
  split
  · next hc => simp [called_eq, hf, hc]
  · split
    · rw [called_eq, (emitCb_fields _ _).2.2.1]; simp [hf]
    · simp [called_eq, hf]

theorem settle_called_mono {s : Sess} (f g : Nat) (o : Outcome) (h : s.called g = true) : (settle s f o).1.called g = true := by
  unfold settle
  split
  · exact h
  · next x hx =>
    have key : ∀ y : Fut, (y.cell.isSome = true ∨ f ≠ g) → y.cell.isSome = x.cell.isSome ∨ y.cell.isSome = true →
        Sess.called { s with futs := s.futs.set f y } g = true := by
      intro y _ hy
      rw [called_eq] at h ⊢
      by_cases e : f = g
      · subst e
        simp only [hx] at h
        have hl : f < s.futs.length := by
          rcases Nat.lt_or_ge f s.futs.length with h1 | h1
          · exact h1
          · simp [List.getElem?_eq_none h1] at hx
        simp only [List.getElem?_set_self hl]
        rcases hy with hy | hy
        · rw [hy]; exact h
        · exact hy
      · simpa [List.getElem?_set_ne e] using h
    split
    · exact key _ (Or.inl (by simp [*])) (Or.inl rfl)
    · split
      · rw [called_eq, (emitCb_fields _ _).2.2.1, ← called_eq]
        exact key _ (Or.inl rfl) (Or.inr rfl)
      · exact key _ (Or.inl rfl) (Or.inr rfl)

theorem settle_futs_length (s : Sess) (f : Nat) (o : Outcome) : (settle s f o).1.futs.length = s.futs.length :=
  (settle_fields s f o).2.1

theorem rejectList_called (s : Sess) (o : Outcome) (fs : List FutId) :
    (∀ g, s.called g = true → (rejectList s o fs).1.called g = true) ∧
    (∀ f ∈ fs, (f : Nat) < s.futs.length → (rejectList s o fs).1.called f = true) := by
  induction fs generalizing s with
  | nil => exact ⟨fun g h => h, fun f hf => by simp at hf⟩
  | cons f fs ih =>
    rw [rejectList_cons]
    split
    · next hc =>
      obtain ⟨i1, i2⟩ := ih s
      refine ⟨i1, fun g hg hl => ?_⟩
      rcases List.mem_cons.mp hg with e | e
      · subst e; exact i1 _ hc
      · exact i2 g e hl
    · obtain ⟨i1, i2⟩ := ih (settle s f o).1
      simp only []
      refine ⟨fun g h => i1 g (settle_called_mono f g o h), fun g hg hl => ?_⟩
      rcases List.mem_cons.mp hg with e | e
      · subst e; exact i1 _ (settle_called_self hl o)
      · exact i2 g e (by rw [settle_futs_length]; exact hl)

/-- `nothing_pending_after_end` (the default clean-up body, which `onLeave` runs when a session ends or the router aborts
and `onDisconnect` runs as the backstop when the transport goes): every request recorded in any of the six tables has its
future completed, the tables are empty, and no future that was completed before is touched. -/
theorem nothing_pending_after_end (s : Sess) (hi : Inv s) (o : Outcome) :
    let s' := (rejectList s.clearTables o s.outstanding).1
    (∀ k, s'.tbl k = []) ∧ (∀ k, ∀ e ∈ s.tbl k, s'.called e.2.fut = true) ∧ (∀ g, s.called g = true → s'.called g = true) := by
  obtain ⟨h1, h2⟩ := rejectList_called s.clearTables o s.outstanding
  refine ⟨fun k => errback_outstanding_empties s o k, fun k e he => ?_, fun g hg => h1 g hg⟩
  refine h2 e.2.fut ?_ (hi.2.futb k e he)
  simp only [Sess.outstanding, List.mem_map, List.mem_flatMap]
  exact ⟨e, ⟨k, by cases k <;> simp [Kind.all], he⟩, rfl⟩

/-- the transport-loss path reaches that body: with the default `onDisconnect` (whatever `onLeave` did, raised or
replaced) the state right after the body — before the override's own calls, which can no longer record anything, see
`api_fails_fast_after_end` — has empty tables -/
theorem onDisconnect_is_backstop (s : Sess) (k : Kind) : (onDisconnectDefault s).1.tbl k = [] :=
  errback_outstanding_empties s (.closed 1) k

/-! ## the property as a whole, on traces (`SessTrace.check`) -/

/-- `callbacks_ordered_once` and the other clauses of the property, as the trace Spec states them, for the model's own
trace of a history -/
def CleanEnd (mode : Sched) (h : List SEv) : Prop := check mode (traceOf (init mode) h) = []

instance (mode : Sched) (h : List SEv) : Decidable (CleanEnd mode h) := by unfold CleanEnd; infer_instance

/-- the full statement: for every history -/
def CallbacksOrderedOnce : Prop := ∀ (mode : Sched) (h : List SEv), CleanEnd mode h

/-- it fails (F11): two ABORT before WELCOME — `onLeave` (and 'leave') a second time -/
theorem callbacks_ordered_once_fails_F11 : ¬ CallbacksOrderedOnce := by
  intro h
  have := h .sync [.open_ [], .msg .abort [], .msg .abort [], .closed []]
  revert this; decide

/-- … the same root cause (the pre-session branch keeps no record that the join attempt or the session is over): WELCOME
after the GOODBYE that ended the session joins again — `onJoin` after `onLeave` -/
theorem callbacks_ordered_once_fails_welcome_after_goodbye : ¬ CallbacksOrderedOnce := by
  intro h
  have := h .sync [.open_ [], .msg (.welcome 7) [], .msg .goodbye [], .msg (.welcome 9) [], .closed []]
  revert this; decide

/-- … on asyncio: GOODBYE one loop iteration after WELCOME — `onLeave` before `onJoin` -/
theorem callbacks_ordered_once_fails_asyncio_goodbye_before_onJoin : ¬ CallbacksOrderedOnce := by
  intro h
  have := h .deferred [.open_ [], .pump, .msg (.welcome 7) [], .tick, .msg .goodbye [], .pump, .closed [], .pump]
  revert this; decide

/-- … and on asyncio: GOODBYE in the same loop iteration as WELCOME is rejected as a protocol violation -/
theorem clean_end_fails_asyncio_goodbye_with_welcome : ¬ CallbacksOrderedOnce := by
  intro h
  have := h .deferred [.open_ [], .pump, .msg (.welcome 7) [], .msg .goodbye [], .pump, .closed [], .pump]
  revert this; decide

/-- non-vacuity: conversations of the session grammar with raising hooks, outstanding requests, local leave and
transport loss satisfy every clause, on both schedulings -/
example : CleanEnd .sync [.open_ [], .msg .challenge [{ ret := .val 1 }], .msg (.welcome 7) [{}, { raises := true }],
    .api (.call 1 [] [] none .ok), .api (.subscribe 1 2 none .ok), .api .leave, .msg .goodbye [{ raises := true }],
    .closed [{}, { raises := true }], .api (.call 1 [] [] none .ok)] := by decide
example : CleanEnd .deferred [.open_ [], .pump, .msg .challenge [{ raises := true }, {}], .pump, .closed [], .pump] := by decide
example : CleanEnd .deferred [.open_ [{ raises := true }], .pump, .msg (.welcome 7) [], .pump, .api (.call 1 [] [] none .ok),
    .api (.publish 2 [] [] (some { acknowledge := some true }) .ok), .msg .goodbye [{ dflt := false }], .pump,
    .closed [{ raises := true }, {}], .pump, .api (.subscribe 1 1 none .ok)] := by decide
example : CleanEnd .sync [.open_ [], .msg .abort [{ dflt := false, raises := true }], .closed []] := by decide

end Abverif.Session
