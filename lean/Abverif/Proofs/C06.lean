import Abverif.Proofs.Lemmas.SessInvWalk
import Abverif.Model.SessTrace
/-
C06 — WAMP sessions end cleanly on every path and leave nothing pending.

Statements about `Model/Session.lean` (lifecycle part) for every state / every history `h : List SEv`, both scheduling
modes (`Sched.sync` = Twisted, `Sched.deferred` = asyncio) and every behaviour of the user hooks.
The reference notions are those of `Model/SessTrace.lean` (the property as predicates over a trace).
-/
namespace Abverif.Session
open Abverif.SessCodes Abverif.SessTrace

/-! ## pre_session_gate -/

/-- messages a client session may legally get before it is established -/
def legalBefore : InMsg → Bool
  | .welcome _ | .abort | .challenge => true
  | _ => false

/-- handshake messages: never legal once the session is established (`other` stands for HELLO / AUTHENTICATE and every
other class a client never receives) -/
def handshake : InMsg → Bool
  | .welcome _ | .abort | .challenge | .other => true
  | _ => false

/-- `pre_session_gate`: before the session is established anything but WELCOME / ABORT / CHALLENGE — and afterwards
every handshake message — raises `ProtocolError` out of `onMessage` and changes *nothing*: no hook runs, nothing is
sent, no future is touched. For every state, both scheduling modes, whatever the hooks would do. -/
theorem pre_session_gate (s : Sess) (beh : List HAct) (m : InMsg) :
    (s.sessionId = none → legalBefore m = false → step s (.msg m beh) = (s, [.raise_ .protocolError])) ∧
    (s.sessionId.isSome = true → handshake m = true → step s (.msg m beh) = (s, [.raise_ .protocolError])) := by
  constructor
  · intro hs hm
    simp only [step, onMessage, hs]
    cases m <;> simp [legalBefore] at hm <;> rfl
  · intro hs hm
    obtain ⟨sid, hsid⟩ := Option.isSome_iff_exists.mp hs
    simp only [step, onMessage, hsid]
    cases m <;> simp [handshake] at hm <;> rfl

/-- the Spec's notion of an illegal message agrees with the two predicates above -/
theorem isIllegal_iff (welcomed : Bool) (m : InMsg) :
    isIllegal welcomed m = (if welcomed then handshake m else (!legalBefore m || m == .other)) := by
  cases welcomed <;> cases m <;> rfl

/-- non-vacuity: RESULT before WELCOME; a second WELCOME, a CHALLENGE and an ABORT inside the session -/
example : runOuts (init .sync) [.open_ [], .msg (.result 1 {} false) [], .msg (.welcome 5) [], .msg (.welcome 6) [],
      .msg .challenge [], .msg .abort [], .msg .other []] =
    [.fire .connect, .hook .onConnect 0, .send { typ := .hello }, .raise_ .protocolError,
     .hook .onWelcome 0, .fire .join, .hook .onJoin 0, .fire .ready,
     .raise_ .protocolError, .raise_ .protocolError, .raise_ .protocolError, .raise_ .protocolError] := by decide

end Abverif.Session
