import Abverif.Proofs.Lemmas.SessEnd
import Abverif.Proofs.Lemmas.SessOrderStep
import Abverif.Model.SessTrace
/-
C06 — WAMP sessions end cleanly on every path and leave nothing pending.

Statements about `Model/Session.lean` (lifecycle part) for every state / every history `h : List SEv`, both scheduling
modes (`Sched.sync` = Twisted, `Sched.deferred` = asyncio) and every behaviour of the user hooks.
The reference notions are those of `Model/SessTrace.lean` (the property as predicates over a trace).
-/
namespace Abverif.Session
open Abverif.SessCodes Abverif.SessTrace

/-! ## pre_session_gate -/

/-- messages a client session may legally get before it is established -/
def legalBefore : InMsg → Bool
  | .welcome _ | .abort | .challenge => true
  | _ => false

/-- handshake messages: never legal once the session is established (`other` stands for HELLO / AUTHENTICATE and every
other class a client never receives) -/
def handshake : InMsg → Bool
  | .welcome _ | .abort | .challenge | .other => true
  | _ => false

/-- `pre_session_gate`: before the session is established anything but WELCOME / ABORT / CHALLENGE — afterwards
every handshake message — and once the session or the attempt to join is over (`onLeave` has been called, `join()` not
again) EVERY message, WELCOME / ABORT / CHALLENGE included (ledger F11 and its family, repaired) — raises `ProtocolError`
out of `onMessage` and changes *nothing*: no hook runs, nothing is sent, no future is touched. For every state, both
scheduling modes, whatever the hooks would do. -/
theorem pre_session_gate (s : Sess) (beh : List HAct) (m : InMsg) :
    (s.sessionId = none → legalBefore m = false → step s (.msg m beh) = (s, [.raise_ .protocolError])) ∧
    (s.sessionId.isSome = true → handshake m = true → step s (.msg m beh) = (s, [.raise_ .protocolError])) ∧
    (s.sessionId = none → s.ended = true → step s (.msg m beh) = (s, [.raise_ .protocolError])) := by
  refine ⟨?_, ?_, ?_⟩
  · intro hs hm
    simp only [step, onMessage, hs, preSession]
    split
    · rfl
    · cases m <;> simp [legalBefore] at hm <;> rfl
  · intro hs hm
    obtain ⟨sid, hsid⟩ := Option.isSome_iff_exists.mp hs
    simp only [step, onMessage, hsid]
    cases m <;> simp [handshake] at hm <;> rfl
  · intro hs he
    simp [step, onMessage, hs, preSession, he]

/-- the Spec's notion of an illegal message agrees with the predicates above -/
theorem isIllegal_iff (welcomed ended : Bool) (m : InMsg) :
    isIllegal welcomed ended m =
      (if welcomed then handshake m else (!legalBefore m || m == .other || (ended && handshake m))) := by
  cases welcomed <;> cases ended <;> cases m <;> rfl

/-- `session_end_is_recorded`: each of the three ways a session / an attempt to join ends inside `onMessage` — router
ABORT, the GOODBYE that ends a joined session, a failing `onChallenge` (own ABORT) — leaves the session without id and
with the record set *whatever `onLeave` does short of calling `join()` again*; stated here for the state `onLeave` is
entered with, which is what a `join()` made from inside `onLeave` (the re-join idiom) overwrites -/
theorem session_end_is_recorded (s : Sess) (beh : List HAct) (lact : HAct) :
    (s.sessionId = none → s.ended = false →
      step s (.msg .abort beh) = leaveHook { s with ended := true } 2 (beh.headD {})) ∧
    (∀ sid, s.sessionId = some sid → s.transport = true →
      (step s (.msg .goodbye beh)).1 = (leaveHook { s with sessionId := none, ended := true } 0 (beh.headD {})).1) ∧
    (s.transport = true →
      challengeFail s lact = ((leaveHook { s with ended := true } 3 lact).1,
        [.userError, .send { typ := .abort }] ++ (leaveHook { s with ended := true } 3 lact).2)) := by
  refine ⟨?_, ?_, ?_⟩
  · intro hs he; simp [step, onMessage, hs, preSession, he, preSessionOpen]
  · intro sid hs ht; simp [step, onMessage, hs, onEstablished, ht]
  · intro ht; simp [challengeFail, ht]

/-- `onOpen` and `join()` — and nothing else — clear the record: a new connection, a new attempt -/
theorem open_and_join_clear_the_record (s : Sess) (acts : List HAct) :
    (s.sessionId = none → s.transport = true → (apiJoin s).1.ended = false ∧ (apiJoin s).2 = [.send { typ := .hello }]) ∧
    (apiLeave s).1.ended = s.ended ∧ (apiDisconnect s).1.ended = s.ended := by
  refine ⟨?_, ?_, ?_⟩
  · intro hs ht; simp [apiJoin, hs, ht]
  · unfold apiLeave; split <;> (try split) <;> (try split) <;> rfl
  · unfold apiDisconnect; split <;> rfl

/-- non-vacuity: RESULT before WELCOME; a second WELCOME, a CHALLENGE and an ABORT inside the session -/
example : runOuts (init .sync) [.open_ [], .msg (.result 1 {} false) [], .msg (.welcome 5) [], .msg (.welcome 6) [],
      .msg .challenge [], .msg .abort [], .msg .other []] =
    [.fire .connect, .hook .onConnect 0, .send { typ := .hello }, .raise_ .protocolError,
     .hook .onWelcome 0, .fire .join, .hook .onJoin 0, .fire .ready,
     .raise_ .protocolError, .raise_ .protocolError, .raise_ .protocolError, .raise_ .protocolError] := by decide

/-! ## api_fails_fast_after_end -/

/-- `api_fails_fast_after_end`: without a transport every request API raises `TransportLost` at once — nothing is
recorded, no id is drawn, no future is created, nothing can hang. (`unsubscribe` / `unregister` on a handle that is no
longer active raise "no longer active" instead.) -/
theorem api_fails_fast_after_end (s : Sess) (ht : s.transport = false) :
    (∀ u a k o r, step s (.api (.call u a k o r)) = (s, [.raise_ .transportLost])) ∧
    (∀ u a k o r, step s (.api (.publish u a k o r)) = (s, [.raise_ .transportLost])) ∧
    (∀ h t o r, step s (.api (.subscribe h t o r)) = (s, [.raise_ .transportLost])) ∧
    (∀ h p o r, step s (.api (.register h p o r)) = (s, [.raise_ .transportLost])) ∧
    (∀ obj r, step s (.api (.unsubscribe obj r)) = (s, [.raise_ .transportLost]) ∨
              step s (.api (.unsubscribe obj r)) = (s, [.raise_ .exception])) ∧
    (∀ obj r, step s (.api (.unregister obj r)) = (s, [.raise_ .transportLost]) ∨
              step s (.api (.unregister obj r)) = (s, [.raise_ .exception])) := by
  refine ⟨?_, ?_, ?_, ?_, ?_, ?_⟩
  · intro u a k o r; simp [step, apiStep, apiCall, ht]
  · intro u a k o r; simp [step, apiStep, apiPublish, ht]
  · intro h t o r; simp [step, apiStep, apiSubscribe, ht]
  · intro h p o r; simp [step, apiStep, apiRegister, ht]
  · intro obj r
    simp only [step, apiStep, apiUnsubscribe]
    cases findSub obj s.subs <;> simp [ht]
  · intro obj r
    simp only [step, apiStep, apiUnregister]
    cases findReg obj s.regs <;> simp [ht]

/-! the transport reference is dropped by `onClose` and by nothing else: hooks, default bodies and whatever user code
calls leave it alone -/

/-- after `onClose` — whatever the hooks do, in both scheduling modes — the session holds no transport and no session
id: from here on (until the object is given a new transport) `api_fails_fast_after_end` applies -/
theorem closed_ends_everything (s : Sess) (acts : List HAct) :
    (step s (.closed acts)).1.transport = false := by
  simp only [step, onClose]
  split
  · have h1 := leaveHook_stable { s with transport := false } 1 (acts.headD {})
    have h2 := disconnectHook_stable { (leaveHook { s with transport := false } 1 (acts.headD {})).1 with sessionId := none } (acts.tail.headD {})
    rw [h2.1]; exact h1.1
  · exact (disconnectHook_stable { s with transport := false } (acts.tail.headD {})).1

/-- … and it stays so under everything but a new `onOpen`: user code (API calls of any kind) cannot bring it back -/
theorem api_keeps_transport_down (s : Sess) (a : Api) : (step s (.api a)).1.transport = s.transport :=
  (stableLiftQ.toLift.api a trivial).1

/-- `transport_written_only_by_onOpen_and_onClose`: no other event — message of any kind, API call, loop iteration,
completion of an endpoint result, … with whatever user code runs inside — changes whether the session holds a
transport. So after `onClose` the API guard of `api_fails_fast_after_end` applies until the object is opened again. -/
theorem transport_written_only_by_onOpen_and_onClose (s : Sess) (e : SEv) (ho : ∀ acts, e ≠ .open_ acts) (hc : ∀ acts, e ≠ .closed acts) :
    (step s e).1.transport = s.transport := by
  cases e with
  | api a => exact (stableLiftQ.toLift.api a trivial).1
  | msg m beh =>
    simp only [step, onMessage]
    split
    · exact (preSession_stable s beh m).1
    · exact (onEstablished_stable s beh m).1
  | pump => exact (drain_stable 8 s).1
  | tick => exact (stable_trans (s2 := { s with cbq := [] }) (o1 := []) (o3 := []) ⟨rfl, rfl⟩ (tickList_stable _ _)).1
  | open_ acts => exact absurd rfl (ho acts)
  | closed acts => exact absurd rfl (hc acts)
  | fault l => rfl
  | resolve r v => exact (settleInv_stable s r _).1
  | fail r x => exact (settleInv_stable s r _).1
  | lateProgress r v => exact (lateProgress_stable s r v).1

/-- `api_fails_fast_after_end`, over whole histories: after `onClose`, through any continuation that does not open the
object again, every `call()` raises `TransportLost` at once and changes nothing (likewise publish / subscribe /
register, see `api_fails_fast_after_end`) -/
theorem api_fails_fast_after_end_history (s : Sess) (acts : List HAct) (h2 : List SEv) (hno : ∀ e ∈ h2, ∀ a, e ≠ .open_ a)
    (u : Uri) (a : Args) (k : Kwargs) (o : Option CallOpts) (r : SendRes) :
    let s' := runState (step s (.closed acts)).1 h2
    step s' (.api (.call u a k o r)) = (s', [.raise_ .transportLost]) := by
  have key : ∀ (t : Sess) (h : List SEv), t.transport = false → (∀ e ∈ h, ∀ a, e ≠ .open_ a) → (runState t h).transport = false := by
    intro t h
    induction h generalizing t with
    | nil => intro ht _; exact ht
    | cons e es ih =>
      intro ht hn
      rw [runState_cons]
      refine ih _ ?_ (fun e' he' => hn e' (List.mem_cons_of_mem _ he'))
      by_cases hcl : ∃ acts, e = .closed acts
      · obtain ⟨acts, rfl⟩ := hcl; exact closed_ends_everything t acts
      · rw [transport_written_only_by_onOpen_and_onClose t e (hn e List.mem_cons_self) (fun acts he => hcl ⟨acts, he⟩)]; exact ht
  exact (api_fails_fast_after_end _ (key _ h2 (closed_ends_everything s acts) hno)).1 u a k o r

/-! ## goodbye_at_most_once / goodbye_answered_iff_not_initiator -/

def isGoodbye : SOut → Bool
  | .send m => m.typ == .goodbye
  | _ => false

/-- `goodbye_answered_iff_not_initiator`: in an established session (transport up) the peer's GOODBYE is answered with
a GOODBYE — the first thing the step does — exactly when this side has not sent one itself (`leave()` was not called
in this session); either way the session is over afterwards and `onLeave` is called, whatever it does. -/
theorem goodbye_answered_iff_not_initiator (s : Sess) (sid : Nat) (hs : s.sessionId = some sid) (ht : s.transport = true)
    (beh : List HAct) :
    let r := step s (.msg .goodbye beh)
    (s.goodbyeSent = false → r.2 = .send { typ := .goodbye } :: (leaveHook { s with sessionId := none, ended := true } 0 (beh.headD {})).2) ∧
    (s.goodbyeSent = true → r.2 = (leaveHook { s with sessionId := none, ended := true } 0 (beh.headD {})).2) ∧
    r.1 = (leaveHook { s with sessionId := none, ended := true } 0 (beh.headD {})).1 := by
  simp only [step, onMessage, hs, onEstablished, ht]
  refine ⟨fun h => by simp [h], fun h => by simp [h], by simp⟩

/-- what `onLeave` brings with it contains no GOODBYE unless user code calls `leave()` … which finds no session any more -/
theorem leave_sends_iff (s : Sess) :
    (apiLeave s).2 = (if s.sessionId.isSome && !s.goodbyeSent && s.transport then [.send { typ := .goodbye }] else
                      if s.sessionId.isSome && !s.goodbyeSent then [.raise_ .attributeError] else []) ∧
    ((apiLeave s).2.any isGoodbye = true → (apiLeave s).1.goodbyeSent = true) ∧
    (apiLeave s).1.sessionId = s.sessionId := by
  unfold apiLeave
  cases h1 : s.sessionId <;> cases h2 : s.goodbyeSent <;> cases h3 : s.transport <;> simp [isGoodbye, h1, h2, h3]

/-- `goodbye_at_most_once`, step by step: `leave()` sends GOODBYE only in a joined session that has not sent one, and
records it; a second `leave()` sends nothing; the reply to the peer's GOODBYE is sent only if none was sent and ends the
session; `join()` — the only thing that clears the record — is refused while a session is joined. -/
theorem goodbye_at_most_once_steps (s : Sess) :
    (s.goodbyeSent = true → (apiLeave s).2.any isGoodbye = false) ∧
    (s.sessionId = none → (apiLeave s).2 = []) ∧
    (s.sessionId.isSome = true → (apiJoin s) = (s, [.raise_ .exception])) ∧
    ((apiJoin s).1.sessionId = s.sessionId) := by
  refine ⟨?_, ?_, ?_, ?_⟩
  · intro h; unfold apiLeave; cases h1 : s.sessionId <;> simp [h, isGoodbye]
  · intro h; simp [apiLeave, h]
  · intro h; simp [apiJoin, h]
  · unfold apiJoin; split <;> (try split) <;> rfl

/-! ## nothing_pending_after_end -/

/-- `nothing_pending_after_end` (the default clean-up body, which `onLeave` runs when a session ends or the router aborts
and `onDisconnect` runs as the backstop when the transport goes): every request recorded in any of the six tables has its
future completed, the tables are empty, and no future that was completed before is touched. -/
theorem nothing_pending_after_end (s : Sess) (hi : Inv s) (o : Outcome) :
    let s' := (rejectList s.clearTables o s.outstanding).1
    (∀ k, s'.tbl k = []) ∧ (∀ k, ∀ e ∈ s.tbl k, s'.called e.2.fut = true) ∧ (∀ g, s.called g = true → s'.called g = true) := by
  obtain ⟨h1, h2⟩ := rejectList_called s.clearTables o s.outstanding
  refine ⟨fun k => errback_outstanding_empties s o k, fun k e he => ?_, fun g hg => h1 g hg⟩
  refine h2 e.2.fut ?_ (hi.2.futb k e he)
  simp only [Sess.outstanding, List.mem_map, List.mem_flatMap]
  exact ⟨e, ⟨k, by cases k <;> simp [Kind.all], he⟩, rfl⟩

/-- the transport-loss path reaches that body: with the default `onDisconnect` (whatever `onLeave` did, raised or
replaced) the state right after the body — before the override's own calls, which can no longer record anything, see
`api_fails_fast_after_end` — has empty tables -/
theorem onDisconnect_is_backstop (s : Sess) (k : Kind) : (onDisconnectDefault s).1.tbl k = [] :=
  errback_outstanding_empties s (.closed 1) k

/-! ## the property as a whole, on traces (`SessTrace.check`) -/

/-- `callbacks_ordered_once` and the other clauses of the property, as the trace Spec states them, for the model's own
trace of a history -/
def CleanEnd (mode : Sched) (h : List SEv) : Prop := check mode (traceOf (init mode) h) = []

instance (mode : Sched) (h : List SEv) : Decidable (CleanEnd mode h) := by unfold CleanEnd; infer_instance

/-- the full statement: for every history -/
def CallbacksOrderedOnce : Prop := ∀ (mode : Sched) (h : List SEv), CleanEnd mode h

/-- regression (ledger F11 and its family, repaired: the pre-session branch now keeps a record that the join attempt or the
session of this connection is over): the histories that used to refute the statement on Twisted — two ABORT before
WELCOME; WELCOME after the GOODBYE that ended the session; ABORT / WELCOME / a failing CHALLENGE after each of the three
endings — are clean: the late message is a protocol violation and nothing else happens -/
example : CleanEnd .sync [.open_ [], .msg .abort [], .msg .abort [], .closed []] := by decide
example : CleanEnd .sync [.open_ [], .msg (.welcome 7) [], .msg .goodbye [], .msg (.welcome 9) [], .closed []] := by decide
example : CleanEnd .sync [.open_ [], .msg .challenge [{ raises := true }], .msg (.welcome 9) [], .msg .abort [],
    .msg .challenge [{ raises := true }], .closed []] := by decide
example : CleanEnd .deferred [.open_ [], .pump, .msg .abort [], .pump, .msg (.welcome 9) [], .pump, .msg .abort [], .pump,
    .closed [], .pump] := by decide

/-- **`callbacks_ordered_once` on Twisted** (since the repair of the F11 family). For EVERY history in which the
transport is used the way the transports use it (`wfHist`: `onOpen` only without a transport, `onClose` and messages only
with one) and user code — hooks, handlers, endpoints, the application — never calls `join()` itself, whatever else it
does (raises, overrides without `super()`, `leave()`, `disconnect()`, requests of every kind), whatever the router sends
(legal or not, any number of ABORT / WELCOME / CHALLENGE / GOODBYE at any position) and wherever the transport is lost:
the trace Spec finds in the model's own trace no callback or observer out of the order connect, join, (ready,) leave,
disconnect or a second time on one connection (`hookOrder`, `obsOrder`), no `onLeave` without a session end / aborted
join (`leaveUnexpected`) and none missing (`leaveMissing`), and no message that is illegal in its phase handled as
anything but a protocol violation (`gate`). Proof: an invariant between the model's state and the six fields of the
Spec's reader these clauses depend on (`Lemmas/SessOrderSpec.lean`: `stepCheck_order`; `Lemmas/SessOrderStep.lean`:
`OInv`, four phases, `order_step`). The other clauses of the Spec have their own theorems above. -/
theorem callbacks_ordered_once_twisted (h : List SEv) (hw : wfHist false h = true) :
    ∀ iv ∈ check .sync (traceOf (init .sync) h), iv.2.isOrder = false := by
  intro iv hiv
  cases hvo : iv.2.isOrder with
  | false => rfl
  | true =>
    have := checkFrom_order 0 {} _ iv hiv hvo
    rw [order_hist init_OInv h hw] at this
    simp [oCheckFrom] at this

/-- non-vacuity: the histories that refuted the statement before the repair, a conversation with raising hooks,
overrides, local `leave()` / `disconnect()`, outstanding requests and a re-opened object are well-formed -/
example : wfHist false [.open_ [], .msg .abort [], .msg .abort [], .closed []] = true := by decide
example : wfHist false [.open_ [], .msg (.welcome 7) [], .msg .goodbye [], .msg (.welcome 9) [], .closed []] = true := by decide
example : wfHist false [.open_ [{ raises := true }], .msg .challenge [{ ret := .val 1 }], .msg (.welcome 7) [{}, { raises := true }],
    .api (.call 1 [] [] none .ok), .api .leave, .msg .goodbye [{ dflt := false, calls := [.api .disconnect] }], .msg .abort [],
    .closed [{}, { raises := true }], .api (.call 1 [] [] none .ok), .open_ [], .msg .abort [{ raises := true }], .closed []] = true := by
  decide

/-- the hypothesis about `join()` is needed, and is the property's own: a session that joins again on the same transport
(`join()` from inside `onLeave`; the code supports it, the record is cleared) shows join and leave a second time on one
connection -/
example : ¬ CleanEnd .sync [.open_ [], .msg (.welcome 7) [], .msg .goodbye [{ calls := [.api .join] }], .msg (.welcome 9) [],
    .closed []] := by decide
example : wfHist false [.open_ [], .msg (.welcome 7) [], .msg .goodbye [{ calls := [.api .join] }]] = false := by decide

/-- what stays open is asyncio-only. GOODBYE one loop iteration after WELCOME — `onLeave` before `onJoin` -/
theorem callbacks_ordered_once_fails_asyncio_goodbye_before_onJoin : ¬ CallbacksOrderedOnce := by
  intro h
  have := h .deferred [.open_ [], .pump, .msg (.welcome 7) [], .tick, .msg .goodbye [], .pump, .closed [], .pump]
  revert this; decide

/-- … and on asyncio: GOODBYE in the same loop iteration as WELCOME is rejected as a protocol violation -/
theorem clean_end_fails_asyncio_goodbye_with_welcome : ¬ CallbacksOrderedOnce := by
  intro h
  have := h .deferred [.open_ [], .pump, .msg (.welcome 7) [], .msg .goodbye [], .pump, .closed [], .pump]
  revert this; decide

/-- non-vacuity: conversations of the session grammar with raising hooks, outstanding requests, local leave and
transport loss satisfy every clause, on both schedulings -/
example : CleanEnd .sync [.open_ [], .msg .challenge [{ ret := .val 1 }], .msg (.welcome 7) [{}, { raises := true }],
    .api (.call 1 [] [] none .ok), .api (.subscribe 1 2 none .ok), .api .leave, .msg .goodbye [{ raises := true }],
    .closed [{}, { raises := true }], .api (.call 1 [] [] none .ok)] := by decide
example : CleanEnd .deferred [.open_ [], .pump, .msg .challenge [{ raises := true }, {}], .pump, .closed [], .pump] := by decide
example : CleanEnd .deferred [.open_ [{ raises := true }], .pump, .msg (.welcome 7) [], .pump, .api (.call 1 [] [] none .ok),
    .api (.publish 2 [] [] (some { acknowledge := some true }) .ok), .msg .goodbye [{ dflt := false }], .pump,
    .closed [{ raises := true }, {}], .pump, .api (.subscribe 1 1 none .ok)] := by decide
example : CleanEnd .sync [.open_ [], .msg .abort [{ dflt := false, raises := true }], .closed []] := by decide

end Abverif.Session
