import Abverif.Model.WsSpec
import Abverif.Proofs.Lemmas.WsFrame
/-
C17 — timer theorems on the model's virtual clock (time unit 2^-20 s; `sec` units per second).
-/
namespace Abverif.Ws

/-! ### the batched timer: `deadline = ⌊now + delay⌋` seconds -/

/-- never late: the batched deadline is at or before the nominal one -/
theorem batched_le (now delay : Nat) : batched now delay ≤ now + delay := by
  unfold batched sec; omega

/-- at most one granule (one second) early -/
theorem batched_gt (now delay : Nat) : now + delay < batched now delay + sec := by
  unfold batched sec; omega

/-- hence a reaction that arrives at least one second before the nominal deadline arrives before the real one -/
theorem responsive_before_deadline (now delay t : Nat) (h : t + sec ≤ now + delay) : t < batched now delay := by
  have := batched_gt now delay; omega

/-- on a whole second with a whole-second timeout the deadline is exact -/
theorem batched_exact (a b : Nat) : batched (a * sec) (b * sec) = (a + b) * sec := by
  unfold batched sec; omega

/-! ### what each timer callback does -/

/-- the closing-handshake timer drops the TCP connection (abort) and marks the close unclean with its own reason,
whenever the connection is not yet closed -/
theorem fire_closeHs_drops (s : S) (h : s.st ≠ .closed) :
    (fire s .closeHs).st = .closed ∧ (fire s .closeHs).notClean = some .closeTimeout ∧
    (fire s .closeHs).wasClean = false ∧
    (fire s .closeHs).log = s.log ++ [.closedResolved, .closeConn true] := by
  simp [fire, dropConnection, h, S.emit]

theorem fire_serverDrop_drops (s : S) (h : s.st ≠ .closed) :
    (fire s .serverDrop).st = .closed ∧ (fire s .serverDrop).notClean = some .serverDropTimeout ∧
    (fire s .serverDrop).wasClean = false ∧
    (fire s .serverDrop).log = s.log ++ [.closedResolved, .closeConn true] := by
  simp [fire, dropConnection, h, S.emit]

theorem fire_pingTimeout_drops (s : S) (h : s.st ≠ .closed) :
    (fire s .pingTimeout).st = .closed ∧ (fire s .pingTimeout).notClean = some .pingTimeout ∧
    (fire s .pingTimeout).wasClean = false ∧
    (fire s .pingTimeout).log = s.log ++ [.closedResolved, .closeConn true] := by
  simp [fire, dropConnection, h, S.emit]

theorem fire_openHs_drops (s : S) (h : s.st = .connecting) :
    (fire s .openHs).st = .closed ∧ (fire s .openHs).notClean = some .openTimeout ∧
    (fire s .openHs).log = s.log ++ [.closedResolved, .closeConn true] := by
  simp [fire, dropConnection, h, S.emit]

/-- the opening-handshake timer is inert once the handshake is done -/
theorem fire_openHs_inert (s : S) (h : s.st ≠ .connecting) :
    (fire s .openHs).log = s.log ∧ (fire s .openHs).st = s.st := by
  simp [fire, h]

/-! ### no timer has any effect after the connection is closed -/

/-- every timer callback leaves the log, the state and the close bookkeeping of a CLOSED connection untouched -/
theorem timers_inert_after_close (s : S) (k : TK) (h : s.st = .closed) :
    (fire s k).log = s.log ∧ (fire s k).st = .closed ∧ (fire s k).wasClean = s.wasClean ∧
    (fire s k).notClean = s.notClean ∧ (fire s k).remoteCloseCode = s.remoteCloseCode := by
  cases k
  · simp [fire, h]
  · simp [fire, h]
  · simp [fire, h]
  · simp [fire, h]
  · -- the next-ping timer: no ping goes out on a closed connection, only bookkeeping
    have hp : sendPing (beginAutoPing s) ((beginAutoPing s).pingPending.getD []) = beginAutoPing s := by
      unfold sendPing
      rw [if_pos (by simp [beginAutoPing, h])]
    simp only [fire, sendAutoPing, hp]
    split <;> simp [armPingTimeout, S.timer, beginAutoPing, h]
  · simp only [fire, sendTick]
    split
    · simp [S.timer, S.emit, h]
    · simp [h]

end Abverif.Ws

namespace Abverif.Ws

/-! ### deadlines: an armed timer whose deadline the clock has passed has fired

`Quiescent target s`: no timer of `s` is due at `target` — what `advanceTo target` guarantees when it returns
through one of its regular exits. It is a hypothesis of the deadline theorems below, discharged by `decide` in their
examples only: `advance` provides `dt/8 + 64` steps, enough when the ping interval is 0 or at least one second; a
sub-second interval can exhaust the fuel, and then the clock is not moved (visible in every compared run). -/

def Quiescent (target : Nat) (s : S) : Prop := ∀ t ∈ s.timers, target < t.2.1

theorem fire_closed (s : S) (k : TK) (h : s.st = .closed) : (fire s k).st = .closed :=
  (timers_inert_after_close s k h).2.1

theorem sendAutoPing_tCloseHs (s : S) : (sendAutoPing s).tCloseHs = s.tCloseHs := by
  unfold sendAutoPing
  dsimp only
  split
  · show (sendPing (beginAutoPing s) _).tCloseHs = s.tCloseHs
    rw [(sendPing_SendEq _ _).tCloseHs]; rfl
  · split
    · show (sendPing (beginAutoPing s) _).tCloseHs = s.tCloseHs
      rw [(sendPing_SendEq _ _).tCloseHs]; rfl
    · rw [(sendPing_SendEq _ _).tCloseHs]; rfl

theorem sendAutoPing_st (s : S) : (sendAutoPing s).st = s.st := by
  unfold sendAutoPing
  dsimp only
  split
  · show (sendPing (beginAutoPing s) _).st = s.st
    rw [(sendPing_SendEq _ _).st]; rfl
  · split
    · show (sendPing (beginAutoPing s) _).st = s.st
      rw [(sendPing_SendEq _ _).st]; rfl
    · rw [(sendPing_SendEq _ _).st]; rfl

/-- firing any other timer leaves the closing-handshake timer armed, unless the connection got closed -/
theorem fire_keeps_closeHs (s : S) (k : TK) (t : Nat × Nat) (h : s.tCloseHs = some t) (hk : k ≠ .closeHs) :
    (fire s k).st = .closed ∨ (fire s k).tCloseHs = some t := by
  cases k with
  | closeHs => exact absurd rfl hk
  | openHs =>
    simp only [fire]; split
    · left; exact dropConnection_st _ _
    · right; exact h
  | serverDrop =>
    simp only [fire]; split
    · left; exact dropConnection_st _ _
    · right; exact h
  | pingTimeout =>
    simp only [fire]; split
    · left; exact dropConnection_st _ _
    · right; exact h
  | pingNext => right; simp only [fire]; rw [sendAutoPing_tCloseHs]; exact h
  | sendTick => right; simp only [fire]; rw [(sendTick_SendEq _).tCloseHs]; exact h

theorem advanceTo_closeHs_inv (target : Nat) (t : Nat × Nat) :
    ∀ (fuel : Nat) (s : S), (s.st = .closed ∨ s.tCloseHs = some t) →
      ((advanceTo target fuel s).st = .closed ∨ (advanceTo target fuel s).tCloseHs = some t) := by
  intro fuel
  induction fuel with
  | zero => intro s h; simpa [advanceTo] using h
  | succ n ih =>
    intro s h
    unfold advanceTo
    split
    · rename_i k d q hn
      split
      · apply ih
        rcases h with h | h
        · exact Or.inl (fire_closed _ k (by simpa using h))
        · by_cases hk : k = .closeHs
          · subst hk
            by_cases hc : s.st = .closed
            · exact Or.inl (fire_closed _ _ (by simpa using hc))
            · exact Or.inl (fire_closeHs_drops _ (by simpa using hc)).1
          · exact fire_keeps_closeHs _ k t (by simpa using h) hk
      · simpa using h
    · simpa using h

/-- **close_timeout_drops**: if the closing-handshake timer is armed for deadline `D`, the clock has been advanced
to `target ≥ D` and every due timer has run, the connection is CLOSED (the peer's reply would have cleared the timer:
`onCloseFrame_cancels_closeHs`). -/
theorem close_timeout_drops (target fuel : Nat) (s : S) (D q : Nat)
    (harmed : s.tCloseHs = some (D, q)) (hD : D ≤ target)
    (hq : Quiescent target (advanceTo target fuel s)) :
    (advanceTo target fuel s).st = .closed := by
  rcases advanceTo_closeHs_inv target (D, q) fuel s (Or.inr harmed) with h | h
  · exact h
  · exfalso
    have : (TK.closeHs, (D, q)) ∈ (advanceTo target fuel s).timers := by
      simp [S.timers, h]
    have := hq _ this
    simp at this
    omega

theorem afterCloseHandshake_tCloseHs (s : S) (a : Bool) (h : s.tCloseHs = none) :
    (afterCloseHandshake s a).1.tCloseHs = none := by
  unfold afterCloseHandshake
  split
  · unfold dropConnection flushQueue; split <;> (try split) <;> simp [S.emit, h]
  · split
    · simp [armServerDrop, S.timer, h]
    · exact h

/-- the peer's (acceptable) close reply cancels the closing-handshake timer -/
theorem onCloseFrame_cancels_closeHs (s : S) (code : Option Nat) (reason : Option Bytes)
    (hst : s.st = .closing) (hc : ∀ c, code = some c → closeCodeInvalid c = false)
    (hr : ∀ r, reason = some r → utf8Valid r = true) :
    (onCloseFrame s code reason).1.tCloseHs = none := by
  have h1 : closeCodeStep { s with remoteCloseCode := none, remoteCloseReason := none } code
      = ({ s with remoteCloseCode := code, remoteCloseReason := none }, false) := by
    unfold closeCodeStep
    cases code with
    | none => rfl
    | some c => simp [hc c rfl]
  have h2 : closeReasonStep { s with remoteCloseCode := code, remoteCloseReason := none } reason
      = ({ s with remoteCloseCode := code, remoteCloseReason := reason }, false) := by
    unfold closeReasonStep
    cases reason with
    | none => rfl
    | some r => simp [hr r rfl]
  unfold onCloseFrame
  simp only [h1, h2]
  unfold closeStateStep
  simp only [hst]
  exact afterCloseHandshake_tCloseHs _ _ rfl

end Abverif.Ws

namespace Abverif.Ws

/-! ### the server-connection-drop deadline (client) and the pong deadline -/

theorem sendAutoPing_tServerDrop (s : S) : (sendAutoPing s).tServerDrop = s.tServerDrop := by
  unfold sendAutoPing
  dsimp only
  split
  · show (sendPing (beginAutoPing s) _).tServerDrop = s.tServerDrop
    rw [(sendPing_SendEq _ _).tServerDrop]; rfl
  · split
    · show (sendPing (beginAutoPing s) _).tServerDrop = s.tServerDrop
      rw [(sendPing_SendEq _ _).tServerDrop]; rfl
    · rw [(sendPing_SendEq _ _).tServerDrop]; rfl

theorem fire_keeps_serverDrop (s : S) (k : TK) (t : Nat × Nat) (h : s.tServerDrop = some t) (hk : k ≠ .serverDrop) :
    (fire s k).st = .closed ∨ (fire s k).tServerDrop = some t := by
  cases k with
  | serverDrop => exact absurd rfl hk
  | openHs =>
    simp only [fire]; split
    · left; exact dropConnection_st _ _
    · right; exact h
  | closeHs =>
    simp only [fire]; split
    · left; exact dropConnection_st _ _
    · right; exact h
  | pingTimeout =>
    simp only [fire]; split
    · left; exact dropConnection_st _ _
    · right; exact h
  | pingNext => right; simp only [fire]; rw [sendAutoPing_tServerDrop]; exact h
  | sendTick => right; simp only [fire]; rw [(sendTick_SendEq _).tServerDrop]; exact h

theorem advanceTo_serverDrop_inv (target : Nat) (t : Nat × Nat) :
    ∀ (fuel : Nat) (s : S), (s.st = .closed ∨ s.tServerDrop = some t) →
      ((advanceTo target fuel s).st = .closed ∨ (advanceTo target fuel s).tServerDrop = some t) := by
  intro fuel
  induction fuel with
  | zero => intro s h; simpa [advanceTo] using h
  | succ n ih =>
    intro s h
    unfold advanceTo
    split
    · rename_i k d q hn
      split
      · apply ih
        rcases h with h | h
        · exact Or.inl (fire_closed _ k (by simpa using h))
        · by_cases hk : k = .serverDrop
          · subst hk
            by_cases hc : s.st = .closed
            · exact Or.inl (fire_closed _ _ (by simpa using hc))
            · exact Or.inl (fire_serverDrop_drops _ (by simpa using hc)).1
          · exact fire_keeps_serverDrop _ k t (by simpa using h) hk
      · simpa using h
    · simpa using h

/-- **server_drop_timeout_drops**: a client whose server-connection-drop timer is armed for `D` is CLOSED once the
clock has passed `D` with every due timer run (the server's TCP drop would have cancelled it: `connectionLost`) -/
theorem server_drop_timeout_drops (target fuel : Nat) (s : S) (D q : Nat)
    (harmed : s.tServerDrop = some (D, q)) (hD : D ≤ target)
    (hq : Quiescent target (advanceTo target fuel s)) :
    (advanceTo target fuel s).st = .closed := by
  rcases advanceTo_serverDrop_inv target (D, q) fuel s (Or.inr harmed) with h | h
  · exact h
  · exfalso
    have : (TK.serverDrop, (D, q)) ∈ (advanceTo target fuel s).timers := by
      simp [S.timers, h]
    have := hq _ this
    simp at this
    omega

/-- the framework's connection-lost notification cancels the server-drop, ping and open-handshake timers -/
theorem connectionLost_cancels (s : S) (h : s.lost = false) :
    (connectionLost s).tServerDrop = none ∧ (connectionLost s).tPingTimeout = none ∧
    (connectionLost s).tPingNext = none ∧ (connectionLost s).tOpenHs = none := by
  unfold connectionLost
  rw [if_neg (by simp [h])]
  unfold reportClose unsentUnclean markClosed cancelOnLost
  split <;> split <;> (try split) <;> (try split) <;> simp [S.emit]

/-- a matching pong cancels the pong deadline -/
theorem pong_cancels_pingTimeout (s : S) (p : Bytes) (h : s.pingPending = some p) :
    (onPongFrame s p).tPingTimeout = none := by
  unfold onPongFrame
  simp only [h, if_true]
  split <;> simp [armPingNext, S.timer]

/-- **any data frame counts as traffic** — with `autoPingRestartOnAnyTraffic` the end of EVERY data frame, final or not
(`endDataFrame` runs in `onFrameEnd` before the `fin` test), cancels a pending pong deadline and forgets the outstanding
ping: a peer that is busy streaming the fragments of one long message is not dropped for the missing pong.  (Seeded change
c17d moved this restart under `if fin:`; the tie is the `data_instead = 3` scenario of the C17 harness.) -/
theorem data_frame_cancels_pingTimeout (s : S) (hr : s.cfg.pingRestart = true) (ht : s.tPingTimeout.isSome = true) :
    (endDataFrame s).tPingTimeout = none ∧ (endDataFrame s).pingPending = none := by
  unfold endDataFrame
  dsimp only
  split <;> rename_i hf <;>
  · simp only [ht, hr, Bool.and_self, if_true]
    unfold cancelAutoPingTimeout
    dsimp only
    split <;> simp [armPingNext, S.timer]

/-- … and the non-final frame of `onFrameEnd` goes through it: the frame end of a data frame with `fin = false` -/
theorem nonfinal_frame_cancels_pingTimeout (s : S) (h : Hdr) (ho : ¬ h.opcode > 7) (hfin : h.fin = false)
    (hr : s.cfg.pingRestart = true) (ht : s.tPingTimeout.isSome = true) :
    (onFrameEnd s h).1.tPingTimeout = none := by
  have hc : (endDataFrame s).tPingTimeout = none := (data_frame_cancels_pingTimeout s hr ht).1
  unfold onFrameEnd
  simp only [ho, if_false, hfin]
  simpa using hc

/-- **pings keep coming** (local form): on an OPEN connection with automatic pings configured, every automatic ping
arms either the pong deadline or — when no deadline is configured — the next ping itself (since the repair cde7fa2e;
before it nothing was armed in that case and pinging stopped with the first unanswered ping) -/
theorem sendAutoPing_rearms (s : S) (hst : s.st = .opened) (hi : s.cfg.pingInterval > 0) :
    (sendAutoPing s).tPingTimeout.isSome ∨ (sendAutoPing s).tPingNext.isSome := by
  unfold sendAutoPing
  dsimp only
  have hse := sendPing_SendEq (beginAutoPing s) ((beginAutoPing s).pingPending.getD [])
  have hc : (sendPing (beginAutoPing s) ((beginAutoPing s).pingPending.getD [])).cfg = s.cfg := by rw [hse.cfg]; rfl
  have hs : (sendPing (beginAutoPing s) ((beginAutoPing s).pingPending.getD [])).st = .opened := by
    rw [hse.st]; exact hst
  split
  · left; simp [armPingTimeout, S.timer]
  · right
    rw [hc, hs]
    simp [hi, armPingNext, S.timer]

/-- a matching pong leaves the next ping armed -/
theorem pong_rearms (s : S) (p : Bytes) (h : s.pingPending = some p) (hi : s.cfg.pingInterval > 0) :
    (onPongFrame s p).tPingNext.isSome := by
  unfold onPongFrame
  simp only [h, if_true]
  cases hn : s.tPingNext with
  | none => simp [hi, hn, armPingNext, S.timer]
  | some t => simp [hn]

/-- the handshake completing cancels the opening-handshake deadline -/
theorem handshakeDone_cancels_openHs (s : S) (h : s.st = .connecting) : (handshakeDone s).tOpenHs = none := by
  unfold handshakeDone
  rw [if_neg (by simp [h])]
  dsimp only
  split <;> simp [armPingNext, S.timer]

end Abverif.Ws

namespace Abverif.Ws

/-! ### the opening-handshake deadline and the pong deadline (analogues of `close_timeout_drops`) -/

theorem sendAutoPing_tOpenHs (s : S) : (sendAutoPing s).tOpenHs = s.tOpenHs := by
  unfold sendAutoPing
  dsimp only
  split
  · show (sendPing (beginAutoPing s) _).tOpenHs = s.tOpenHs
    rw [(sendPing_SendEq _ _).tOpenHs]; rfl
  · split
    · show (sendPing (beginAutoPing s) _).tOpenHs = s.tOpenHs
      rw [(sendPing_SendEq _ _).tOpenHs]; rfl
    · rw [(sendPing_SendEq _ _).tOpenHs]; rfl

theorem fire_keeps_openHs (s : S) (k : TK) (t : Nat × Nat) (h : s.tOpenHs = some t) (hc : s.st = .connecting)
    (hk : k ≠ .openHs) :
    (fire s k).st = .closed ∨ ((fire s k).tOpenHs = some t ∧ (fire s k).st = .connecting) := by
  have hnc : s.st ≠ .closed := by rw [hc]; decide
  cases k with
  | openHs => exact absurd rfl hk
  | closeHs => left; exact (fire_closeHs_drops s hnc).1
  | serverDrop => left; exact (fire_serverDrop_drops s hnc).1
  | pingTimeout => left; exact (fire_pingTimeout_drops s hnc).1
  | pingNext => right; simp only [fire]; exact ⟨by rw [sendAutoPing_tOpenHs]; exact h, by rw [sendAutoPing_st]; exact hc⟩
  | sendTick =>
    right; simp only [fire]
    exact ⟨by rw [(sendTick_SendEq _).tOpenHs]; exact h, by rw [(sendTick_SendEq _).st]; exact hc⟩

theorem advanceTo_openHs_inv (target : Nat) (t : Nat × Nat) :
    ∀ (fuel : Nat) (s : S), (s.st = .closed ∨ (s.tOpenHs = some t ∧ s.st = .connecting)) →
      ((advanceTo target fuel s).st = .closed ∨
        ((advanceTo target fuel s).tOpenHs = some t ∧ (advanceTo target fuel s).st = .connecting)) := by
  intro fuel
  induction fuel with
  | zero => intro s h; simpa [advanceTo] using h
  | succ n ih =>
    intro s h
    unfold advanceTo
    split
    · rename_i k d q hn
      split
      · apply ih
        rcases h with h | ⟨h, hc⟩
        · exact Or.inl (fire_closed _ k (by simpa using h))
        · by_cases hk : k = .openHs
          · subst hk
            exact Or.inl (fire_openHs_drops _ (by simpa using hc)).1
          · exact fire_keeps_openHs _ k t (by simpa using h) (by simpa using hc) hk
      · simpa using h
    · simpa using h

/-- **open_timeout_drops**: a connection still in its opening handshake whose handshake timer is armed for `D` is CLOSED
once the clock has passed `D` with every due timer run (completing the handshake would have cancelled it:
`handshakeDone_cancels_openHs`) -/
theorem open_timeout_drops (target fuel : Nat) (s : S) (D q : Nat)
    (harmed : s.tOpenHs = some (D, q)) (hc : s.st = .connecting) (hD : D ≤ target)
    (hq : Quiescent target (advanceTo target fuel s)) :
    (advanceTo target fuel s).st = .closed := by
  rcases advanceTo_openHs_inv target (D, q) fuel s (Or.inr ⟨harmed, hc⟩) with h | ⟨h, _⟩
  · exact h
  · exfalso
    have : (TK.openHs, (D, q)) ∈ (advanceTo target fuel s).timers := by
      simp [S.timers, h]
    have := hq _ this
    simp at this
    omega

/-- the hypotheses are met by a real start state: handshake timeout 1 s, the peer never completes the handshake, two
seconds later every due timer has run and the connection is CLOSED -/
example : (startConnecting { openHsTimeout := 1048576 }).st = .connecting ∧
    (startConnecting { openHsTimeout := 1048576 }).tOpenHs = some (1048576, 0) ∧
    (∀ t ∈ (advanceTo 2097152 64 (startConnecting { openHsTimeout := 1048576 })).timers, 2097152 < t.2.1) ∧
    (advanceTo 2097152 64 (startConnecting { openHsTimeout := 1048576 })).st = .closed := by
  decide

/-- `server_drop_timeout_drops` applies to a real history: a client sends close, the server replies, but never drops
the TCP connection; serverConnectionDropTimeout (1 s) later the client has dropped it -/
example : let s := run (start { isServer := false }) [.close (some 1000) none, .feed [0x88, 0x02, 0x03, 0xe8]]
    s.st = .closing ∧ s.tServerDrop.isSome = true ∧
    (∀ t ∈ (advanceTo (s.now + 2097152) 64 s).timers, s.now + 2097152 < t.2.1) ∧
    (advanceTo (s.now + 2097152) 64 s).st = .closed := by
  decide

end Abverif.Ws

namespace Abverif.Ws

theorem pick_mem (l : List (TK × Nat × Nat)) :
    ∀ (acc : Option (TK × Nat × Nat)) (r : TK × Nat × Nat),
      l.foldl (fun acc t => match acc with
        | none => some t
        | some a => if earlier a t then some a else some t) acc = some r →
      r ∈ l ∨ acc = some r := by
  induction l with
  | nil => intro acc r h; exact Or.inr h
  | cons x xs ih =>
    intro acc r h
    simp only [List.foldl_cons] at h
    rcases ih _ r h with h1 | h1
    · exact Or.inl (List.mem_cons_of_mem _ h1)
    · cases acc with
      | none =>
        simp only [Option.some.injEq] at h1
        subst h1; exact Or.inl (List.mem_cons_self ..)
      | some a =>
        dsimp only at h1
        split at h1
        · exact Or.inr h1
        · simp only [Option.some.injEq] at h1
          subst h1; exact Or.inl (List.mem_cons_self ..)

/-- the timer `advanceTo` picks is one of the armed timers -/
theorem nextTimer_mem (s : S) (r : TK × Nat × Nat) (h : nextTimer s = some r) : r ∈ s.timers := by
  unfold nextTimer at h
  rcases pick_mem s.timers none r h with h1 | h1
  · exact h1
  · cases h1

theorem pingNext_not_picked (s : S) (d q : Nat) (hn : s.tPingNext = none) : nextTimer s ≠ some (TK.pingNext, d, q) := by
  intro h
  have := nextTimer_mem s _ h
  simp [S.timers, hn] at this
  rcases this with h | h | h | h | h
  all_goals (split at h <;> simp at h)

theorem fire_keeps_pingTimeout (s : S) (k : TK) (t : Nat × Nat) (h : s.tPingTimeout = some t) (hn : s.tPingNext = none)
    (hk : k ≠ .pingTimeout) (hk2 : k ≠ .pingNext) :
    (fire s k).st = .closed ∨ ((fire s k).tPingTimeout = some t ∧ (fire s k).tPingNext = none) := by
  cases k with
  | pingTimeout => exact absurd rfl hk
  | pingNext => exact absurd rfl hk2
  | openHs =>
    simp only [fire]; split
    · left; exact dropConnection_st _ _
    · right; exact ⟨h, hn⟩
  | closeHs =>
    simp only [fire]; split
    · left; exact dropConnection_st _ _
    · right; exact ⟨h, hn⟩
  | serverDrop =>
    simp only [fire]; split
    · left; exact dropConnection_st _ _
    · right; exact ⟨h, hn⟩
  | sendTick =>
    right; simp only [fire]
    exact ⟨by rw [(sendTick_SendEq _).tPingTimeout]; exact h, by rw [(sendTick_SendEq _).tPingNext]; exact hn⟩

theorem advanceTo_pingTimeout_inv (target : Nat) (t : Nat × Nat) :
    ∀ (fuel : Nat) (s : S), (s.st = .closed ∨ (s.tPingTimeout = some t ∧ s.tPingNext = none)) →
      ((advanceTo target fuel s).st = .closed ∨
        ((advanceTo target fuel s).tPingTimeout = some t ∧ (advanceTo target fuel s).tPingNext = none)) := by
  intro fuel
  induction fuel with
  | zero => intro s h; simpa [advanceTo] using h
  | succ n ih =>
    intro s h
    unfold advanceTo
    split
    · rename_i k d q hnt
      split
      · apply ih
        rcases h with h | ⟨h, hn⟩
        · exact Or.inl (fire_closed _ k (by simpa using h))
        · by_cases hk : k = .pingTimeout
          · subst hk
            by_cases hc : s.st = .closed
            · exact Or.inl (fire_closed _ _ (by simpa using hc))
            · exact Or.inl (fire_pingTimeout_drops _ (by simpa using hc)).1
          · have hk2 : k ≠ .pingNext := by
              intro e; subst e
              exact pingNext_not_picked s d q hn hnt
            exact fire_keeps_pingTimeout _ k t (by simpa using h) (by simpa using hn) hk hk2
      · simpa using h
    · simpa using h

/-- **ping_timeout_drops**: a ping is outstanding with its pong deadline armed for `D` (and, as always then, no further
ping scheduled); the peer stays silent: once the clock has passed `D` with every due timer run the connection is CLOSED
(a matching pong would have cancelled the deadline: `pong_cancels_pingTimeout`) -/
theorem ping_timeout_drops (target fuel : Nat) (s : S) (D q : Nat)
    (harmed : s.tPingTimeout = some (D, q)) (hn : s.tPingNext = none) (hD : D ≤ target)
    (hq : Quiescent target (advanceTo target fuel s)) :
    (advanceTo target fuel s).st = .closed := by
  rcases advanceTo_pingTimeout_inv target (D, q) fuel s (Or.inr ⟨harmed, hn⟩) with h | ⟨h, _⟩
  · exact h
  · exfalso
    have : (TK.pingTimeout, (D, q)) ∈ (advanceTo target fuel s).timers := by
      simp [S.timers, h]
    have := hq _ this
    simp at this
    omega

/-- a real history: ping interval 1 s, pong deadline 1 s, the peer never answers: after the first ping the deadline is
armed and no further ping is scheduled; two seconds later the connection has been dropped -/
example : let s := run (start { pingInterval := 1048576, pingTimeout := 1048576 }) [.advance 1048576]
    s.st = .opened ∧ s.tPingTimeout.isSome = true ∧ s.tPingNext = none ∧
    (∀ t ∈ (advanceTo (s.now + 2097152) 64 s).timers, s.now + 2097152 < t.2.1) ∧
    (advanceTo (s.now + 2097152) 64 s).st = .closed := by
  decide

end Abverif.Ws
