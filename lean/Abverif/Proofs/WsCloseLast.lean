import Abverif.Proofs.Lemmas.WsOps
import Abverif.Proofs.WsRoundtrip
/-
# C05: no data frame follows the close frame — for every history

`no_data_frame_after_close`: in every state reachable from a fresh connection by any sequence of API calls, reads,
clock advances and transport loss, the frames handed to the transport (history variable `sentOps`, in order) contain
no data frame (opcode 0, 1, 2) behind a close frame (opcode 8); and once a close frame has been sent the connection is
CLOSING or CLOSED.  (That queued synchronous writes keep this order on the wire is C01 `queue_order`.)
-/
namespace Abverif.Ws

/-- the opcode the streaming API will use for the first frame is a data opcode -/
def OpOk (s : S) : Prop := s.sendOpcode = 1 ∨ s.sendOpcode = 2

def NoDataAfterClose (l : List Nat) : Prop :=
  ∀ pre post, l = pre ++ 8 :: post → ∀ x ∈ post, x ≠ 0 ∧ x ≠ 1 ∧ x ≠ 2

/-- the invariant -/
structure Q (s : S) : Prop where
  op : OpOk s
  closing : 8 ∈ s.sentOps → 2 ≤ s.st.rank
  order : NoDataAfterClose s.sentOps

/-- data-API calls: nothing unless OPEN; what they send are data frames (never a close frame) -/
def DataRel (a b : S) : Prop :=
  b.st = a.st ∧ (OpOk a → OpOk b) ∧ ∃ d, b.sentOps = a.sentOps ++ d ∧ (a.st ≠ .opened → d = []) ∧ (OpOk a → 8 ∉ d)

theorem suffix_of_append {l1 d pre post : List Nat} (h : l1 ++ d = pre ++ 8 :: post) (h8 : 8 ∉ l1) :
    ∀ x ∈ post, x ∈ d := by
  rcases List.append_eq_append_iff.mp h with ⟨a', e1, e2⟩ | ⟨c', e1, e2⟩
  · -- pre = l1 ++ a', d = a' ++ 8 :: post
    intro x hx; rw [e2]; simp [hx]
  · -- l1 = pre ++ c', 8 :: post = c' ++ d
    cases c' with
    | nil =>
      simp at e2
      intro x hx; rw [← e2]; simp [hx]
    | cons y ys =>
      simp at e2
      exfalso; apply h8; rw [e1, ← e2.1]; simp

theorem Q.of_OpsRel {a b : S} (hq : Q a) (h : OpsRel a b) : Q b := by
  obtain ⟨r, ho, d, e, z, k, c⟩ := h
  refine ⟨?_, ?_, ?_⟩
  · unfold OpOk; rw [ho]; exact hq.op
  · intro h8
    rw [e] at h8
    rcases List.mem_append.mp h8 with h1 | h1
    · exact Nat.le_trans (hq.closing h1) r
    · exact c h1
  · intro pre post hl x hx
    by_cases hr : 2 ≤ a.st.rank
    · rw [e, z hr, List.append_nil] at hl
      exact hq.order pre post hl x hx
    · have h8 : 8 ∉ a.sentOps := fun h => hr (hq.closing h)
      rw [e] at hl
      have hxd := suffix_of_append hl h8 x hx
      rcases k x hxd with h | h | h <;> omega

theorem Q.of_DataRel {a b : S} (hq : Q a) (h : DataRel a b) : Q b := by
  obtain ⟨hs, ho, d, e, z, n8⟩ := h
  by_cases hop : a.st = .opened
  · have h8a : 8 ∉ a.sentOps := by
      intro h; have := hq.closing h; rw [hop] at this; simp [St.rank] at this
    have h8b : 8 ∉ b.sentOps := by
      rw [e]; intro h
      rcases List.mem_append.mp h with h1 | h1
      · exact h8a h1
      · exact n8 hq.op h1
    refine ⟨ho hq.op, fun h => absurd h h8b, ?_⟩
    intro pre post hl
    exfalso; apply h8b; rw [hl]; simp
  · have hd := z hop
    rw [hd, List.append_nil] at e
    refine ⟨ho hq.op, fun h => by rw [hs]; rw [e] at h; exact hq.closing h, by rw [e]; exact hq.order⟩

/-! ### the data-sending API -/

theorem DataRel.of_guard {a b : S} (h : b.st = a.st) (ho : b.sendOpcode = a.sendOpcode) (hs : b.sentOps = a.sentOps) :
    DataRel a b :=
  ⟨h, fun x => by unfold OpOk at *; rw [ho]; exact x, [], by simp [hs], fun _ => rfl, fun _ => by simp⟩

/-- some data frames were sent, state and streaming opcode untouched -/
def DataOps (a b : S) : Prop :=
  b.st = a.st ∧ b.sendOpcode = a.sendOpcode ∧ ∃ d, b.sentOps = a.sentOps ++ d ∧ ∀ x ∈ d, x = 0 ∨ x = 1 ∨ x = 2

theorem DataOps.refl (a : S) : DataOps a a := ⟨rfl, rfl, [], by simp, by simp⟩

theorem DataOps.trans {a b c : S} (h1 : DataOps a b) (h2 : DataOps b c) : DataOps a c := by
  obtain ⟨s1, o1, d1, e1, k1⟩ := h1
  obtain ⟨s2, o2, d2, e2, k2⟩ := h2
  refine ⟨s2.trans s1, o2.trans o1, d1 ++ d2, by rw [e2, e1, List.append_assoc], ?_⟩
  intro x hx
  rcases List.mem_append.mp hx with h | h
  · exact k1 x h
  · exact k2 x h

theorem DataOps.of_same {a b : S} (h : b.st = a.st) (ho : b.sendOpcode = a.sendOpcode) (hs : b.sentOps = a.sentOps) :
    DataOps a b := ⟨h, ho, [], by simp [hs], by simp⟩

/-- an API function guarded by `state == OPEN` -/
theorem DataRel.guarded {a b : S} (hc : a.st ≠ .opened → DataOps a b ∧ b.sentOps = a.sentOps)
    (ho : a.st = .opened → DataOps a b) : DataRel a b := by
  by_cases h : a.st = .opened
  · obtain ⟨s1, o1, d, e, k⟩ := ho h
    refine ⟨s1, fun x => by unfold OpOk at *; rw [o1]; exact x, d, e, fun hn => absurd h hn, ?_⟩
    intro _ h8; rcases k 8 h8 with h | h | h <;> omega
  · obtain ⟨⟨s1, o1, _⟩, hs⟩ := hc h
    exact DataRel.of_guard s1 o1 hs

theorem sendFrame_DataOps (s : S) (op : Nat) (pl : Bytes) (fin : Bool) (rsv : Nat) (sync : Bool) (chop : Nat)
    (hop : op = 0 ∨ op = 1 ∨ op = 2) : DataOps s (sendFrame s op pl fin rsv sync chop) := by
  have e := sendFrame_SendEq s op pl fin rsv sync chop
  refine ⟨e.st, e.sendOpcode, ?_⟩
  rcases sendFrame_sentOps s op pl fin rsv sync chop with h | h
  · exact ⟨[], by simp [h], by simp⟩
  · exact ⟨[op], h, by simpa using hop⟩

theorem sendFrags_DataOps (op : Nat) (sync : Bool) (hop : op = 1 ∨ op = 2) : ∀ (frs : List (Bytes × Bool)) (s : S) (first : Bool),
    DataOps s (sendFrags s op sync frs first) := by
  intro frs
  induction frs with
  | nil => intro s first; unfold sendFrags; exact DataOps.refl s
  | cons x rest ih =>
    intro s first
    obtain ⟨p, f⟩ := x
    unfold sendFrags
    refine (sendFrame_DataOps s _ p f 0 sync 0 ?_).trans (ih _ false)
    cases first <;> simp <;> omega

theorem sendMessage_DataRel (s : S) (pl : Bytes) (b : Bool) (fs : Option Nat) (sync : Bool) :
    DataRel s (sendMessage s pl b fs sync) := by
  apply DataRel.guarded
  · intro hc
    unfold sendMessage
    simp only [hc, ne_eq, not_false_eq_true, if_true]
    exact ⟨DataOps.of_same rfl rfl rfl, rfl⟩
  · intro ho
    unfold sendMessage
    have h1 : ¬ s.st ≠ .opened := by simp [ho]
    simp only [h1, if_false]
    have hop : (if b then 2 else 1) = 1 ∨ (if b then 2 else 1) = 2 := by cases b <;> simp
    split
    · exact DataOps.of_same rfl rfl rfl
    · split
      · exact sendFrame_DataOps _ _ _ _ _ _ _ (Or.inr hop)
      · split
        · exact sendFrame_DataOps _ _ _ _ _ _ _ (Or.inr hop)
        · split
          · exact DataOps.of_same rfl rfl rfl
          · exact sendFrags_DataOps _ _ hop _ _ _

theorem sendPrepared_DataRel (s : S) (pl : Bytes) (b : Bool) : DataRel s (sendPrepared s pl b) := by
  have hk : (prepareKey s).1.st = s.st ∧ (prepareKey s).1.sendOpcode = s.sendOpcode ∧ (prepareKey s).1.sentOps = s.sentOps := by
    unfold prepareKey; split <;> exact ⟨rfl, rfl, rfl⟩
  have key : ∀ (raw : Bytes), DataOps s (sendData (recordOp (prepareKey s).1 (if b then 2 else 1)) raw) := by
    intro raw
    have e := sendData_SendEq (recordOp (prepareKey s).1 (if b then 2 else 1)) raw false 0
    refine ⟨e.st.trans hk.1, e.sendOpcode.trans hk.2.1, [if b then 2 else 1], ?_, by cases b <;> simp⟩
    rw [sendData_sentOps]
    show (prepareKey s).1.sentOps ++ _ = _
    rw [hk.2.2]
  apply DataRel.guarded
  · intro hc
    unfold sendPrepared
    dsimp only
    split
    · exact ⟨DataOps.of_same hk.1 hk.2.1 hk.2.2, hk.2.2⟩
    · have : (prepareKey s).1.st ≠ .opened := by rw [hk.1]; exact hc
      simp only [this, ne_eq, not_false_eq_true, if_true]
      exact ⟨DataOps.of_same hk.1 hk.2.1 hk.2.2, hk.2.2⟩
  · intro ho
    unfold sendPrepared
    dsimp only
    split
    · exact DataOps.of_same hk.1 hk.2.1 hk.2.2
    · split
      · exact DataOps.of_same hk.1 hk.2.1 hk.2.2
      · exact key _

theorem beginMessage_DataRel (s : S) (b : Bool) : DataRel s (beginMessage s b) := by
  unfold beginMessage
  split
  · exact DataRel.of_guard rfl rfl rfl
  · split
    · exact DataRel.of_guard rfl rfl rfl
    · refine ⟨rfl, fun _ => ?_, [], by simp, fun _ => rfl, fun _ => by simp⟩
      unfold OpOk; cases b <;> simp

/-- the streaming frame header: one data opcode recorded (needs the streaming opcode to be a data opcode) -/
theorem beginMessageFrameCore_DataOps (s s' : S) (n : Nat) (hok : OpOk s) (h : beginMessageFrameCore s n = some s') :
    DataOps s s' := by
  unfold beginMessageFrameCore at h
  split at h
  · cases h
  · split at h
    · cases h
    · dsimp only at h
      split at h
      · cases h
      · simp only [Option.some.injEq] at h
        subst h
        have hk : (drawKey s).1.st = s.st ∧ (drawKey s).1.sendOpcode = s.sendOpcode ∧ (drawKey s).1.sentOps = s.sentOps ∧
            (drawKey s).1.sendSt = s.sendSt := by
          unfold drawKey; split <;> exact ⟨rfl, rfl, rfl, rfl⟩
        refine ⟨?_, ?_, [if (drawKey s).1.sendSt = .messageBegin then (drawKey s).1.sendOpcode else 0], ?_, ?_⟩
        · show (sendData _ _ false 0).st = s.st
          rw [(sendData_SendEq _ _ _ _).st]; exact hk.1
        · show (sendData _ _ false 0).sendOpcode = s.sendOpcode
          rw [(sendData_SendEq _ _ _ _).sendOpcode]; exact hk.2.1
        · show (sendData _ _ false 0).sentOps = _
          rw [sendData_sentOps]
          show (drawKey s).1.sentOps ++ _ = _
          rw [hk.2.2.1]
        · intro x hx
          simp only [List.mem_singleton] at hx
          subst hx
          rw [hk.2.1]
          unfold OpOk at hok
          split
          · rcases hok with h | h <;> simp [h]
          · simp

/-- `DataRel` from a `DataOps` that is available only under `OpOk` -/
theorem DataRel.of_open_ok {a b : S} (ho : a.st = .opened) (hst : b.st = a.st) (hop : b.sendOpcode = a.sendOpcode)
    (hmono : ∃ d, b.sentOps = a.sentOps ++ d ∧ (OpOk a → ∀ x ∈ d, x = 0 ∨ x = 1 ∨ x = 2)) : DataRel a b := by
  obtain ⟨d, e, k⟩ := hmono
  refine ⟨hst, fun x => by unfold OpOk at *; rw [hop]; exact x, d, e, fun hn => absurd ho hn, ?_⟩
  intro hok h8
  rcases k hok 8 h8 with h | h | h <;> omega

/-- what `beginMessageFrameCore` does to the frame history, without assuming `OpOk` -/
theorem beginMessageFrameCore_shape (s s' : S) (n : Nat) (h : beginMessageFrameCore s n = some s') :
    s'.st = s.st ∧ s'.sendOpcode = s.sendOpcode ∧
    ∃ d, s'.sentOps = s.sentOps ++ d ∧ (OpOk s → ∀ x ∈ d, x = 0 ∨ x = 1 ∨ x = 2) := by
  by_cases hok : OpOk s
  · obtain ⟨h1, h2, d, e, k⟩ := beginMessageFrameCore_DataOps s s' n hok h
    exact ⟨h1, h2, d, e, fun _ => k⟩
  · -- the same computation without the opcode fact
    unfold beginMessageFrameCore at h
    split at h
    · cases h
    · split at h
      · cases h
      · dsimp only at h
        split at h
        · cases h
        · simp only [Option.some.injEq] at h
          subst h
          have hk : (drawKey s).1.st = s.st ∧ (drawKey s).1.sendOpcode = s.sendOpcode ∧ (drawKey s).1.sentOps = s.sentOps := by
            unfold drawKey; split <;> exact ⟨rfl, rfl, rfl⟩
          refine ⟨?_, ?_, [if (drawKey s).1.sendSt = .messageBegin then (drawKey s).1.sendOpcode else 0], ?_,
            fun hx => absurd hx hok⟩
          · show (sendData _ _ false 0).st = s.st
            rw [(sendData_SendEq _ _ _ _).st]; exact hk.1
          · show (sendData _ _ false 0).sendOpcode = s.sendOpcode
            rw [(sendData_SendEq _ _ _ _).sendOpcode]; exact hk.2.1
          · show (sendData _ _ false 0).sentOps = _
            rw [sendData_sentOps]
            show (drawKey s).1.sentOps ++ _ = _
            rw [hk.2.2]

theorem beginMessageFrame_DataRel (s : S) (n : Nat) : DataRel s (beginMessageFrame s n) := by
  unfold beginMessageFrame
  split
  · exact DataRel.of_guard rfl rfl rfl
  · rename_i hst
    have ho : s.st = .opened := by simpa using hst
    split
    · rename_i s' h
      obtain ⟨h1, h2, hd⟩ := beginMessageFrameCore_shape s s' n h
      exact DataRel.of_open_ok ho h1 h2 hd
    · exact DataRel.of_guard rfl rfl rfl

theorem leaveFrameIfDone_same (s : S) :
    (leaveFrameIfDone s).st = s.st ∧ (leaveFrameIfDone s).sendOpcode = s.sendOpcode ∧
    (leaveFrameIfDone s).sentOps = s.sentOps := by
  unfold leaveFrameIfDone; split <;> exact ⟨rfl, rfl, rfl⟩

theorem sendMessageFrameData_same (s : S) (pl : Bytes) (sync : Bool) :
    (sendMessageFrameData s pl sync).st = s.st ∧ (sendMessageFrameData s pl sync).sendOpcode = s.sendOpcode ∧
    (sendMessageFrameData s pl sync).sentOps = s.sentOps := by
  unfold sendMessageFrameData
  split
  · exact ⟨rfl, rfl, rfl⟩
  · split
    · exact ⟨rfl, rfl, rfl⟩
    · split
      · exact ⟨rfl, rfl, rfl⟩
      · dsimp only
        have l := leaveFrameIfDone_same (sendData (advanceFramePtr s
          (if s.framePtr + pl.length > s.frameLen then pl.take (s.frameLen - s.framePtr) else pl).length)
          (maskFrameChunk s (if s.framePtr + pl.length > s.frameLen then pl.take (s.frameLen - s.framePtr) else pl)) sync)
        refine ⟨l.1.trans ?_, l.2.1.trans ?_, l.2.2.trans ?_⟩
        · rw [(sendData_SendEq _ _ _ _).st]; rfl
        · rw [(sendData_SendEq _ _ _ _).sendOpcode]; rfl
        · rw [sendData_sentOps]; rfl

theorem sendMessageFrameData_DataRel (s : S) (pl : Bytes) (sync : Bool) : DataRel s (sendMessageFrameData s pl sync) :=
  have h := sendMessageFrameData_same s pl sync
  DataRel.of_guard h.1 h.2.1 h.2.2

theorem endMessage_DataRel (s : S) : DataRel s (endMessage s) := by
  apply DataRel.guarded
  · intro hc
    unfold endMessage
    simp only [hc, ne_eq, not_false_eq_true, if_true]
    exact ⟨DataOps.of_same rfl rfl rfl, trivial⟩
  · intro ho
    unfold endMessage
    have h1 : ¬ s.st ≠ .opened := by simp [ho]
    simp only [h1, if_false]
    split
    · exact DataOps.of_same rfl rfl rfl
    · obtain ⟨a, b, d, e, k⟩ := sendFrame_DataOps s 0 [] true 0 false 0 (Or.inl rfl)
      exact ⟨a, b, d, e, k⟩

theorem sendMessageFrame_DataRel (s : S) (pl : Bytes) (sync : Bool) : DataRel s (sendMessageFrame s pl sync) := by
  unfold sendMessageFrame
  split
  · exact DataRel.of_guard rfl rfl rfl
  · rename_i hst
    have ho : s.st = .opened := by simpa using hst
    split
    · exact DataRel.of_guard rfl rfl rfl
    · split
      · rename_i s' h
        obtain ⟨h1, h2, d, e, k⟩ := beginMessageFrameCore_shape s s' _ h
        have hs := sendMessageFrameData_same s' pl sync
        exact DataRel.of_open_ok ho (hs.1.trans h1) (hs.2.1.trans h2) ⟨d, by rw [hs.2.2, e], k⟩
      · exact DataRel.of_guard rfl rfl rfl

/-! ### every step keeps the invariant -/

theorem stepCore_Q (s : S) (op : Op) (hq : Q s) : Q (stepCore s op) := by
  cases op with
  | feed d => exact hq.of_OpsRel (dataReceived_Ops s d)
  | lost => exact hq.of_OpsRel (connectionLost_Ops s)
  | advance dt => exact hq.of_OpsRel (advance_Ops s dt)
  | sendMessage pl b f sy => exact hq.of_DataRel (sendMessage_DataRel s pl b f sy)
  | sendPrepared pl b => exact hq.of_DataRel (sendPrepared_DataRel s pl b)
  | beginMessage b => exact hq.of_DataRel (beginMessage_DataRel s b)
  | beginFrame n => exact hq.of_DataRel (beginMessageFrame_DataRel s n)
  | frameData pl sy => exact hq.of_DataRel (sendMessageFrameData_DataRel s pl sy)
  | endMessage => exact hq.of_DataRel (endMessage_DataRel s)
  | messageFrame pl sy => exact hq.of_DataRel (sendMessageFrame_DataRel s pl sy)
  | ping pl => exact hq.of_OpsRel (sendPing_Ops s pl)
  | pong pl => exact hq.of_OpsRel (sendPong_Ops s pl)
  | close c r => exact hq.of_OpsRel (sendClose_Ops s c r)
  | hsDone => exact hq.of_OpsRel (handshakeDone_Ops s)
  | hsThenFeed d => exact hq.of_OpsRel ((handshakeDone_Ops s).trans (dataReceived_Ops _ d))

theorem step_Q (s : S) (op : Op) (hq : Q s) : Q (step s op) :=
  (stepCore_Q s op hq).of_OpsRel (pump_Ops _)

theorem run_Q (ops : List Op) : ∀ (s : S), Q s → Q (run s ops) := by
  induction ops with
  | nil => intro s h; exact h
  | cons op rest ih => intro s h; exact ih _ (step_Q s op h)

theorem start_Q (cfg : Cfg) : Q (start cfg) := by
  unfold start
  simp only []
  split
  · exact ⟨Or.inl rfl, fun h => by simp [armPingNext, S.timer] at h, fun pre post h => by
      simp [armPingNext, S.timer] at h⟩
  · exact ⟨Or.inl rfl, fun h => by simp at h, fun pre post h => by simp at h⟩

theorem startConnecting_Q (cfg : Cfg) : Q (startConnecting cfg) := by
  unfold startConnecting
  simp only []
  split
  · exact ⟨Or.inl rfl, fun h => by simp [S.timer] at h, fun pre post h => by simp [S.timer] at h⟩
  · exact ⟨Or.inl rfl, fun h => by simp at h, fun pre post h => by simp at h⟩

/-- **C05: no data frame follows the close frame** — every configuration, every history -/
theorem no_data_frame_after_close (cfg : Cfg) (ops : List Op) (pre post : List Nat)
    (h : (run (start cfg) ops).sentOps = pre ++ 8 :: post) :
    (∀ x ∈ post, x ≠ 0 ∧ x ≠ 1 ∧ x ≠ 2) ∧ 2 ≤ (run (start cfg) ops).st.rank := by
  have hq := run_Q ops (start cfg) (start_Q cfg)
  exact ⟨hq.order pre post h, hq.closing (by rw [h]; simp)⟩

/-- the same from a connection that is still in its opening handshake -/
theorem no_data_frame_after_close_connecting (cfg : Cfg) (ops : List Op) (pre post : List Nat)
    (h : (run (startConnecting cfg) ops).sentOps = pre ++ 8 :: post) :
    (∀ x ∈ post, x ≠ 0 ∧ x ≠ 1 ∧ x ≠ 2) ∧ 2 ≤ (run (startConnecting cfg) ops).st.rank := by
  have hq := run_Q ops (startConnecting cfg) (startConnecting_Q cfg)
  exact ⟨hq.order pre post h, hq.closing (by rw [h]; simp)⟩

/-- the statement is about something: a history that sends a message, then closes, then tries to send again -/
example : (run (start {}) [.sendMessage [1, 2] true none false, .close (some 1000) none,
    .sendMessage [3] true none false]).sentOps = [2, 8] := by decide

end Abverif.Ws
