import Abverif.Proofs.Lemmas.C14Step
import Abverif.Proofs.Lemmas.C14Fire
import Abverif.Proofs.Lemmas.C14Pol
import Abverif.Proofs.Lemmas.C14Stop
/-!
C14 — components reconnect within their retry budget and finish exactly once.

All theorems are about `Abverif.Comp.run (init cfg trs zs) h` for an ARBITRARY event history `h` (no length bound),
arbitrary transport lists / retry parameters / jitter samples `zs`, both framework flavours (`cfg.aio`), with or
without main, classifier and listeners.  `Fresh trs` says the transports start with zeroed counters (what
`_Transport.__init__` does).  The property clauses are the Spec monitors of `Abverif/Model/Component.lean`
(budgets count from the transport's last successful join).

One clause is not met by the code (hence by the faithful model): a raising main does not fail start().  Completion
polarity is therefore proved for histories without a raising main (`_partial`) and its negation on a concrete
witness (`main_raises_not_error`), which replays on the real code (known_findings.d/C14.jsonl).
-/
namespace Abverif.Comp
open Spec

/-- transports as `_Transport.__init__` leaves them -/
def Fresh (trs : List Tr) : Prop := ∀ t ∈ trs, t.attempts = 0 ∧ t.permFail = false

theorem fresh_new (mr : Int) (a b g j : Q) : Fresh [Tr.new mr a b g j] := by
  intro t ht; simp at ht; subst ht; simp [Tr.new]

theorem rel_init (cfg : Cfg) (trs : List Tr) (zs : List Q) (hf : Fresh trs) :
    Rel (confOf trs cfg.listeners) (init cfg trs zs) {} := by
  refine ⟨⟨rfl, ?_, rfl⟩, ?_⟩
  · intro i t hg
    have hg : trs[i]? = some t := hg
    have hm := hf t (List.mem_of_getElem? hg)
    refine ⟨by simp [confOf, hg], by simp [confOf, hg], by simp [hm.1], by simp [hm.1], by simp [hm.2]⟩
  · simp [PhaseOK, init, startOf]

theorem run_cfg (s : State) (es : List Event) : (run s es).1.cfg = s.cfg := by
  induction es generalizing s with
  | nil => rfl
  | cons e es ih => simp only [run]; rw [ih, step_cfg]

/-- the induction over the history: every step is accepted, the relation is kept -/
theorem run_ok {c : Conf} {s : State} {k : Core} (h : Rel c s k) (es : List Event) :
    ChecksOK c k (run s es).2 ∧ Rel c (run s es).1 (feedAll c k (run s es).2) := by
  induction es generalizing s k with
  | nil => exact ⟨ChecksOK.nil _ _, h⟩
  | cons e es ih =>
    have h1 := step_ok h e
    have h2 := ih h1.rel
    simp only [run]
    exact ⟨ChecksOK.append h1.chk h2.1, by rw [feedAll_append]; exact h2.2⟩

/-! ## the property clauses -/

/-- **budget**: at most `max_retries + 1` connection attempts per transport since that transport's last successful
join (`max_retries = −1`: unbounded, `< −1`: none at all), for every history and every configuration. -/
theorem budget (cfg : Cfg) (trs : List Tr) (zs : List Q) (hf : Fresh trs) (h : List Event) :
    budgetSpec (confOf trs cfg.listeners) (run (init cfg trs zs) h).2 = true :=
  (run_ok (rel_init cfg trs zs hf) h).1.budget

example : Fresh [Tr.new 1 ⟨8, 1⟩ ⟨1, 1⟩ ⟨2, 1⟩ ⟨0, 1⟩] := fresh_new _ _ _ _ _

/-- with `max_retries = −1` the number of attempts is indeed unbounded: five refusals, five attempts on transport 0
(and the spec accepts them) -/
example :
    let r := run (init ⟨false, false, false, []⟩ [Tr.new (-1) ⟨8, 1⟩ ⟨1, 1⟩ ⟨2, 1⟩ ⟨0, 1⟩] [])
      [.start, .outcome .refused false, .delayElapsed, .outcome .refused false, .delayElapsed,
       .outcome .refused false, .delayElapsed, .outcome .refused false, .delayElapsed]
    (r.1.trs.map (·.attempts)) = [5] := by decide

/-- **no_attempt_after_fatal**: once an error on a transport was classified fatal, that transport is never
attempted again. -/
theorem no_attempt_after_fatal (cfg : Cfg) (trs : List Tr) (zs : List Q) (hf : Fresh trs) (h : List Event) :
    fatalSpec (confOf trs cfg.listeners) (run (init cfg trs zs) h).2 = true :=
  (run_ok (rel_init cfg trs zs hf) h).1.fatal

/-- **first_attempt_immediate**: a transport that was never attempted is attempted without delay. -/
theorem first_attempt_immediate (cfg : Cfg) (trs : List Tr) (zs : List Q) (hf : Fresh trs) (h : List Event) :
    firstSpec (confOf trs cfg.listeners) (run (init cfg trs zs) h).2 = true :=
  (run_ok (rel_init cfg trs zs hf) h).1.first

/-- **delay_le_max**: no attempt waits longer than its transport's `max_retry_delay` (for non-negative maxima),
whatever the jitter samples are. -/
theorem delay_le_max (cfg : Cfg) (trs : List Tr) (zs : List Q) (hf : Fresh trs)
    (hmax : ∀ t ∈ trs, 0 ≤ t.maxDelay.num) (h : List Event) :
    delaySpec (confOf trs cfg.listeners) (run (init cfg trs zs) h).2 = true := by
  refine (run_ok (rel_init cfg trs zs hf) h).1.delay ?_
  intro i
  simp only [confOf]
  cases hg : trs[i]? with
  | none => simp [Q.zero]
  | some t => exact hmax t (List.mem_of_getElem? hg)

example : ∀ t ∈ [Tr.new 1 ⟨8, 1⟩ ⟨1, 1⟩ ⟨2, 1⟩ ⟨1, 2⟩], 0 ≤ t.maxDelay.num := by
  intro t ht; simp at ht; subst ht; simp [Tr.new]

/-- **done_at_most_once**: the future returned by start() completes at most once. -/
theorem done_at_most_once (cfg : Cfg) (trs : List Tr) (zs : List Q) (hf : Fresh trs) (h : List Event) :
    doneOnceSpec (confOf trs cfg.listeners) (run (init cfg trs zs) h).2 = true :=
  (run_ok (rel_init cfg trs zs hf) h).1.doneOnce

/-- **progress (never idle)**: in no reachable state is the reconnect loop idle (nothing scheduled, nothing in
flight) while start()'s future is still open; `crashed` (an exception escaping `transport_check`, e.g.
`RuntimeError("max reconnects reached")`) is unreachable. -/
theorem progress_never_idle (cfg : Cfg) (trs : List Tr) (zs : List Q) (hf : Fresh trs) (h : List Event) :
    (run (init cfg trs zs) h).1.idle = true → (run (init cfg trs zs) h).1.done.isSome = true := by
  have r := (run_ok (rel_init cfg trs zs hf) h).2
  intro hi
  have hp := r.ph
  unfold PhaseOK at hp
  unfold State.idle at hi
  split at hi <;> simp_all

/-- **round_robin** (every component, with or without main): every attempted transport is the first one with
attempts left — since its last successful join — after the previously attempted one, in cyclic order. -/
theorem round_robin (cfg : Cfg) (trs : List Tr) (zs : List Q) (hf : Fresh trs) (h : List Event) :
    roundRobinSpec (confOf trs cfg.listeners) (run (init cfg trs zs) h).2 = true :=
  (run_ok (rel_init cfg trs zs hf) h).1.rr

/-- **progress (give up only when exhausted)**, every component: start() fails with "exhausted" only when no
transport has attempts left since its last successful join; and the loop is never idle with the future open. -/
theorem progress (cfg : Cfg) (trs : List Tr) (zs : List Q) (hf : Fresh trs) (h : List Event) :
    progressSpec (confOf trs cfg.listeners) (run (init cfg trs zs) h).2 (run (init cfg trs zs) h).1.idle
      = true := by
  have r := run_ok (rel_init cfg trs zs hf) h
  have hg := r.1.giveUp
  unfold progressSpec
  have := specAll_append chkGiveUp finProgress (confOf trs cfg.listeners) {}
    (run (init cfg trs zs) h).1.idle (run (init cfg trs zs) h).2 []
  rw [List.append_nil] at this
  rw [this, hg, Bool.true_and]
  simp only [specAll, finProgress]
  have hidle := progress_never_idle cfg trs zs hf h
  have hd := r.2.t.done_eq
  cases hi : (run (init cfg trs zs) h).1.idle with
  | false => simp
  | true =>
    have := hidle hi
    rw [← hd] at this
    simp [this]

end Abverif.Comp

namespace Abverif.Comp
open Spec

def t1 (mr : Int) : Tr := Tr.new mr ⟨8, 1⟩ ⟨1, 1⟩ ⟨2, 1⟩ ⟨0, 1⟩

/-! ## instances that used to fail (repaired in the code; the same inputs are replayed on the real code) -/

/-- Without `main=` a successful join resets the retry budget as well (`on_join` is registered on every session): one
transport, `max_retries = 1`; refused, then (2 s later) joined and lost ⇒ the component reconnects at once instead of
failing "exhausted". -/
example :
    let r := run (init ⟨false, false, false, []⟩ [t1 1] [])
      [.start, .outcome .refused false, .delayElapsed, .outcome .joinedLost false]
    progressSpec (confOf [t1 1] []) r.2 r.1.idle = true ∧ r.1.done = none ∧ r.1.phase = .connecting 0 := by decide

/-- transports `max_retries = [0, −1]`, no main: transport 0 joins and is lost; after transport 1 was refused,
transport 0 is attempted again. -/
example :
    let r := run (init ⟨false, false, false, []⟩ [t1 0, t1 (-1)] [])
      [.start, .outcome .joinedLost false, .outcome .refused false, .delayElapsed]
    roundRobinSpec (confOf [t1 0, t1 (-1)] []) r.2 = true ∧ r.1.phase = .connecting 0 := by decide

/-- stop() while a connect is in flight completes start(); when that connect is refused the loop ends. -/
example :
    let r := run (init ⟨false, false, false, []⟩ [t1 1] [])
      [.start, .stop, .outcome .refused false, .delayElapsed]
    stopSpec (confOf [t1 1] []) r.2 = true ∧ r.1.done = some true ∧ r.1.phase = .dead := by decide

/-- stop() on a joined session followed by transport loss before the router's GOODBYE: start() completes
successfully, nothing is attempted. -/
example :
    let r := run (init ⟨false, false, false, []⟩ [t1 1] [])
      [.start, .outcome .joined false, .stop, .sess .lost false, .delayElapsed]
    stopSpec (confOf [t1 1] []) r.2 = true ∧ r.1.done = some true ∧ r.1.phase = .dead := by decide

/-! ## where the code departs from the property: negation on a concrete witness

The witness is a configuration + history on which the (faithful) model produces a log the property's monitor
rejects; the same input replays on the real code (harness, known_findings.d/C14.jsonl). -/

/-- A raising main does not fail start(): the error is handed to the reconnect logic, the component reconnects (at
once: `on_join` has just reset the transport) and will run main again. -/
theorem main_raises_not_error :
    let r := run (init ⟨true, false, false, []⟩ [t1 1, t1 1] []) [.start, .outcome .mainRaises false]
    polaritySpec (confOf [t1 1, t1 1] []) r.2 = false ∧ r.1.done = none
      ∧ r.1.phase = .connecting 1 := by decide

end Abverif.Comp

namespace Abverif.Comp
open Spec

/-! ## completion polarity, stop(), listeners -/

/-- **done_polarity_partial**: for histories in which no main raises (every component, with or without main):
start() succeeds only after a normal leave / main returned / stop(), fails only on exhaustion, and a normal end
completes the future before anything else is attempted.
Missing for the full statement: "main raises ⇒ error" — refuted by `main_raises_not_error`. -/
theorem done_polarity_partial (cfg : Cfg) (trs : List Tr) (zs : List Q) (hf : Fresh trs) (h : List Event)
    (hno : ∀ e ∈ h, e.noRaise = true) :
    polaritySpec (confOf trs cfg.listeners) (run (init cfg trs zs) h).2 = true := by
  have r := run_pol (rel_init cfg trs zs hf)
    (⟨rfl, fun hc => by simp at hc, fun hs => by simp [init] at hs⟩ :
      PolInv (init cfg trs zs).done (init cfg trs zs).stopping {}) h hno
  unfold polaritySpec
  have := specAll_append chkPolarity finPolarity (confOf trs cfg.listeners) {} false
    (run (init cfg trs zs) h).2 []
  rw [List.append_nil] at this
  rw [this, r.1, Bool.true_and]
  simp only [specAll, finPolarity]
  have hp := r.2.1
  rw [hp.raise, Bool.or_false]
  cases hc : (feedAll (confOf trs cfg.listeners) {} (run (init cfg trs zs) h).2).pendingClean with
  | false => simp
  | true =>
    have := hp.clean hc
    rw [← r.2.2] at this
    simp [this]

example : ∀ e ∈ [Event.start, .outcome .refused false, .delayElapsed, .outcome .joinedLeave false],
    e.noRaise = true := by decide

/-- **no_attempt_after_stop**: whatever the component is doing when stop() is called — waiting for a retry delay,
connecting, joined, already done — no connection is attempted afterwards, for every history. -/
theorem no_attempt_after_stop (cfg : Cfg) (trs : List Tr) (zs : List Q) (h : List Event) :
    stopSpec (confOf trs cfg.listeners) (run (init cfg trs zs) h).2 = true :=
  stop_run _ _ {} (fun hs => by simp at hs) h

/-- **stop_ends_loop**: after a stop() called anywhere after start, every failure or loss of the connection in
flight / the joined session ends the loop: the component is halted for good (`_stopping` set, no delay pending), and
the rest of the history attempts nothing. -/
theorem stop_ends_loop (s : State) (hp : s.phase ≠ .idle) (es : List Event) :
    Halted (run s (.stop :: es)).1 ∧ ∀ o ∈ (run (step s .stop).1 es).2, o.isAtt = false := by
  have h1 := stop_halts s hp
  have h2 := halted_run _ h1.1 es
  simp only [run]
  exact ⟨h2.1, h2.2⟩

example : (init ⟨false, false, false, []⟩ [t1 1] []).phase = .idle := rfl
example : (run (init ⟨false, false, false, []⟩ [t1 1] []) [.start]).1.phase ≠ .idle := by decide

/-- **stop_while_waiting**: stop() during a retry delay completes start() successfully (if still open) and ends the
loop for good: whatever happens afterwards, nothing is attempted and start()'s future is not touched. -/
theorem stop_while_waiting (s : State) (i : Nat) (d : Q) (hp : s.phase = .waiting i d) (hd : s.done = none)
    (es : List Event) :
    (run s (.stop :: es)).1.phase = .dead ∧ (run s (.stop :: es)).1.done = some true
      ∧ ∀ o ∈ (run (step s .stop).1 es).2, o.isAtt = false := by
  have e1 : (step s .stop).1.phase = .dead := by simp [step, onStop, hp]
  have e2 : (step s .stop).1.done = some true := by simp [step, onStop, hp, Comp.setDone, hd]
  have h2 := dead_run _ e1 es
  simp only [run, h2.1, h2.2.1, e2, true_and]
  exact h2.2.2

/-- **stop_completes**: stop() while a connect is in flight completes start() successfully at once … -/
theorem stop_completes_connecting (s : State) (i : Nat) (hp : s.phase = .connecting i) (hd : s.done = none) :
    (step s .stop).1.done = some true := by simp [step, onStop, hp, hd]

/-- … stop() on a joined session does so when the router's GOODBYE arrives … -/
theorem stop_completes_joined (s : State) (i : Nat) (hp : s.phase = .up i) (hd : s.done = none) (f : Bool) :
    (run s [.stop, .sess .goodbye f]).1.done = some true ∧ (run s [.stop, .sess .goodbye f]).1.phase = .dead := by
  simp [run, step, onStop, hp, onSess, sessionDone, hd]

/-- … and also when the transport is lost before the router's GOODBYE arrives (whatever the error classifier says
about the loss). -/
theorem stop_completes_joined_lost (s : State) (i : Nat) (hp : s.phase = .up i) (hd : s.done = none) (f : Bool) :
    (run s [.stop, .sess .lost f]).1.done = some true ∧ (run s [.stop, .sess .lost f]).1.phase = .dead := by
  by_cases hc : (s.cfg.classifier && f) = true
  · simp [run, step, onStop, hp, onSess, failRetry, hc, transportCheck, stopCheck, hd]
  · simp [run, step, onStop, hp, onSess, failRetry, hc, transportCheck, stopCheck, hd]

example : (run (init ⟨false, false, false, []⟩ [t1 1] []) [.start, .outcome .joined false]).1.phase = .up 0 := by
  decide

/-- **listeners_bubble**: along every run, each session firing of connect / join / ready / leave / disconnect is
followed — before that session fires again — by exactly one call of the component's listener for that event (if one
is registered, at most one per event), and the component's listeners are called for nothing else. -/
theorem listeners_bubble (cfg : Cfg) (hnd : cfg.listeners.Nodup) (trs : List Tr) (zs : List Q) (h : List Event) :
    bubbleSpec (confOf trs cfg.listeners) (run (init cfg trs zs) h).2 = true := by
  unfold bubbleSpec
  rw [bubbleAll_eq]
  have hb := blocks_run (init cfg trs zs) h
  have := blocks_ok cfg hnd _ hb {} rfl
  simp only [confOf]
  rw [this.1, this.2]; rfl

example : ([Ev.connect, .join, .ready, .leave, .disconnect] : List Ev).Nodup := by decide

/-- bubbling at the source (see Lemmas/C14Fire): the component's listener is among the handlers `fire` runs on a
session made by `_connect_once`; and the caveat — an object without own listeners does not bubble. -/
theorem listeners_bubble_source (ls : List Ev) (ev : Ev) (h : ev ∈ ls) :
    Handler.user ev ∈ fireChain [sessionOwn, compNode ls] ev := fire_reaches_component ls ev h

example : Ev.ready ∈ [Ev.join, Ev.ready] := by decide
example : fireChain [none, compNode [Ev.join]] Ev.join = [] := rfl

end Abverif.Comp

namespace Abverif.Comp
open Spec

/-! ## further concrete instances (non-vacuity of the clauses above) -/

/-- a fatal classification happens, the transport is failed, the other one is tried, and when that one is fatal as
well start() fails -/
example :
    let r := run (init ⟨false, true, false, []⟩ [t1 (-1), t1 (-1)] [])
      [.start, .outcome .refused true, .outcome .abort true]
    r.1.done = some false ∧ Obs.fatal 0 ∈ r.2 ∧ Obs.fatal 1 ∈ r.2 ∧ r.1.phase = .dead := by decide

/-- the budget is reached exactly: `max_retries = 1` gives two attempts, then "exhausted" -/
example :
    let r := run (init ⟨false, false, false, []⟩ [t1 1] [])
      [.start, .outcome .refused false, .delayElapsed, .outcome .hsFail false]
    (r.1.trs.map (·.attempts)) = [2] ∧ r.1.done = some false := by decide

/-- the delay is clamped: initial 1, growth 2, maximum 8 — the fifth attempt would wait 16 and waits 8 -/
example :
    let r := run (init ⟨false, false, false, []⟩ [t1 (-1)] [])
      [.start, .outcome .refused false, .delayElapsed, .outcome .refused false, .delayElapsed,
       .outcome .refused false, .delayElapsed, .outcome .refused false]
    r.1.phase = .waiting 0 ⟨8, 1⟩ := by decide

/-- a join resets the budget, with or without main: `max_retries = 0`, joined-and-lost three times, still going -/
example :
    let r := run (init ⟨true, false, false, []⟩ [t1 0] [])
      [.start, .outcome .joinedLost false, .outcome .joinedLost false, .outcome .joinedLost false]
    r.1.phase = .connecting 0 ∧ r.1.done = none := by decide

example :
    let r := run (init ⟨false, false, false, []⟩ [t1 0] [])
      [.start, .outcome .joinedLost false, .outcome .joinedLost false, .outcome .joinedLost false]
    r.1.phase = .connecting 0 ∧ r.1.done = none := by decide

end Abverif.Comp
