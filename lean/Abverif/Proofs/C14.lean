import Abverif.Model.Component
namespace Abverif.Comp
theorem placeholder_tmp : True := trivial
end Abverif.Comp
