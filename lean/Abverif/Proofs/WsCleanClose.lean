import Abverif.Proofs.Lemmas.WsClean
import Abverif.Proofs.WsRoundtrip
import Abverif.Proofs.C05
/-
# C05: a close is reported clean only if our close frame was sent and the peer's close frame was received

`clean_close_needs_both`: in every state reachable from a fresh connection by any history, every close notification
`onClose(wasClean = true, …)` in the log was delivered with our close frame sent (history variable `closeSent`;
`one_close_frame`/`close_frame_on_wire` say what that frame is).  That the flag is set only by `onCloseFrame`, i.e. on
receipt of a close frame of the peer that passed the code and reason checks, is `closeStateStep_JP` / the definition
of `closeStateStep` (every other function keeps or clears the flag: `JP.of_le` with `b.wasClean → a.wasClean`);
`recv_refines_judge` (C02) says which octets make the engine get there.
-/
namespace Abverif.Ws

/-- functions that do not touch the three fields `J` reads -/
def Keep (a b : S) : Prop := b.st = a.st ∧ b.closeSent = a.closeSent ∧ b.wasClean = a.wasClean

theorem Keep.refl (a : S) : Keep a a := ⟨rfl, rfl, rfl⟩
theorem Keep.trans {a b c : S} (h1 : Keep a b) (h2 : Keep b c) : Keep a c :=
  ⟨h2.1.trans h1.1, h2.2.1.trans h1.2.1, h2.2.2.trans h1.2.2⟩
theorem Keep.of_SendEq {a b : S} (h : SendEq a b) : Keep a b := ⟨h.st, h.closeSent, h.wasClean⟩
theorem Keep.JP {a b : S} (h : Keep a b) : JP a b := JP.of_same h.1 h.2.1 h.2.2

theorem sendPrepared_Keep (s : S) (pl : Bytes) (b : Bool) : Keep s (sendPrepared s pl b) := by
  unfold sendPrepared
  have hk : Keep s (prepareKey s).1 := by unfold prepareKey; split <;> exact ⟨rfl, rfl, rfl⟩
  dsimp only
  split
  · exact hk.trans ⟨rfl, rfl, rfl⟩
  · split
    · exact hk.trans ⟨rfl, rfl, rfl⟩
    · exact (hk.trans (⟨rfl, rfl, rfl⟩ : Keep (prepareKey s).1 (recordOp (prepareKey s).1 _))).trans
        (Keep.of_SendEq (sendData_SendEq _ _ _ _))

theorem beginMessage_Keep (s : S) (b : Bool) : Keep s (beginMessage s b) := by
  unfold beginMessage
  split
  · exact Keep.refl s
  · split <;> exact ⟨rfl, rfl, rfl⟩

theorem beginMessageFrameCore_Keep (s s' : S) (n : Nat) (h : beginMessageFrameCore s n = some s') : Keep s s' := by
  unfold beginMessageFrameCore at h
  split at h
  · cases h
  · split at h
    · cases h
    · dsimp only at h
      split at h
      · cases h
      · simp only [Option.some.injEq] at h
        subst h
        have hk : Keep s (drawKey s).1 := by unfold drawKey; split <;> exact ⟨rfl, rfl, rfl⟩
        refine ⟨?_, ?_, ?_⟩
        · show (sendData _ _ false 0).st = s.st
          rw [(sendData_SendEq _ _ _ _).st]; exact hk.1
        · show (sendData _ _ false 0).closeSent = s.closeSent
          rw [(sendData_SendEq _ _ _ _).closeSent]; exact hk.2.1
        · show (sendData _ _ false 0).wasClean = s.wasClean
          rw [(sendData_SendEq _ _ _ _).wasClean]; exact hk.2.2

theorem beginMessageFrame_Keep (s : S) (n : Nat) : Keep s (beginMessageFrame s n) := by
  unfold beginMessageFrame
  split
  · exact Keep.refl s
  · split
    · rename_i s' h; exact beginMessageFrameCore_Keep s s' n h
    · exact ⟨rfl, rfl, rfl⟩

theorem leaveFrameIfDone_Keep (s : S) : Keep s (leaveFrameIfDone s) := by
  unfold leaveFrameIfDone; split <;> exact ⟨rfl, rfl, rfl⟩

theorem sendMessageFrameData_Keep (s : S) (pl : Bytes) (sync : Bool) : Keep s (sendMessageFrameData s pl sync) := by
  unfold sendMessageFrameData
  split
  · exact Keep.refl s
  · split
    · exact ⟨rfl, rfl, rfl⟩
    · split
      · exact ⟨rfl, rfl, rfl⟩
      · dsimp only
        refine Keep.trans ?_ (leaveFrameIfDone_Keep _)
        exact Keep.trans (b := advanceFramePtr s _) ⟨rfl, rfl, rfl⟩ (Keep.of_SendEq (sendData_SendEq _ _ _ _))

theorem endMessage_Keep (s : S) : Keep s (endMessage s) := by
  unfold endMessage
  split
  · exact Keep.refl s
  · split
    · exact ⟨rfl, rfl, rfl⟩
    · have h := Keep.of_SendEq (sendFrame_SendEq s 0 [] true 0 false 0)
      exact ⟨h.1, h.2.1, h.2.2⟩

theorem sendMessageFrame_Keep (s : S) (pl : Bytes) (sync : Bool) : Keep s (sendMessageFrame s pl sync) := by
  unfold sendMessageFrame
  split
  · exact Keep.refl s
  · split
    · exact ⟨rfl, rfl, rfl⟩
    · split
      · rename_i s' h
        exact (beginMessageFrameCore_Keep s s' _ h).trans (sendMessageFrameData_Keep s' pl sync)
      · exact ⟨rfl, rfl, rfl⟩

theorem stepCore_JP (s : S) (op : Op) : JP s (stepCore s op) := by
  cases op with
  | feed d => exact dataReceived_JP s d
  | lost => exact connectionLost_JP s
  | advance dt => exact advance_JP s dt
  | sendMessage pl b f sy => exact (Keep.of_SendEq (sendMessage_SendEq s pl b f sy)).JP
  | sendPrepared pl b => exact (sendPrepared_Keep s pl b).JP
  | beginMessage b => exact (beginMessage_Keep s b).JP
  | beginFrame n => exact (beginMessageFrame_Keep s n).JP
  | frameData pl sy => exact (sendMessageFrameData_Keep s pl sy).JP
  | endMessage => exact (endMessage_Keep s).JP
  | messageFrame pl sy => exact (sendMessageFrame_Keep s pl sy).JP
  | ping pl => exact sendPing_JP s pl
  | pong pl => exact sendPong_JP s pl
  | close c r => exact sendClose_JP s c r
  | hsDone => exact handshakeDone_JP s
  | hsThenFeed d => exact (handshakeDone_JP s).trans (dataReceived_JP _ d)

theorem step_JP (s : S) (op : Op) : JP s (step s op) := (stepCore_JP s op).trans (pump_JP _)

/-- a clean report in the log of `connectionLost s` is an old one, or `s` was marked clean -/
theorem connectionLost_clean (s : S) (c : Option Nat) (r : Option Bytes) (w : Option NCR)
    (h : Out.onClose true c r w ∈ (connectionLost s).log) :
    Out.onClose true c r w ∈ s.log ∨ s.wasClean = true := by
  unfold connectionLost at h
  split at h
  · exact Or.inl h
  · unfold reportClose markClosed cancelOnLost at h
    by_cases hw : s.wasClean = true
    · exact Or.inr hw
    · left
      have hw' : s.wasClean = false := by simpa using hw
      split at h <;> split at h <;> (try split at h) <;> simp_all [S.emit]

/-- the invariant: `J`, and every clean report so far came with our close frame sent -/
def K (s : S) : Prop := J s ∧ ∀ c r w, Out.onClose true c r w ∈ s.log → s.closeSent ≠ []

theorem closeSent_grows {a b : S} (h : Ext a b) (ha : a.closeSent ≠ []) : b.closeSent ≠ [] := by
  rcases h.cs with e | ⟨_, _, x, ex, _⟩
  · rw [e]; exact ha
  · rw [ex]; simp

theorem K.of_Ext {a b : S} (hk : K a) (h : Ext a b) (hj : JP a b) : K b := by
  refine ⟨hj hk.1, ?_⟩
  intro c r w hm
  obtain ⟨d, e, n⟩ := h.log
  rw [e] at hm
  rcases List.mem_append.mp hm with h1 | h1
  · exact closeSent_grows h (hk.2 c r w h1)
  · have := n _ h1
    simp [Out.isOnClose] at this

theorem step_K (s : S) (op : Op) (hk : K s) : K (step s op) := by
  unfold step
  have hp : K (stepCore s op) := by
    by_cases hop : op = .lost
    · subst hop
      simp only [stepCore]
      refine ⟨connectionLost_JP s hk.1, ?_⟩
      intro c r w hm
      rw [connectionLost_closeSent]
      rcases connectionLost_clean s c r w hm with h | h
      · exact hk.2 c r w h
      · exact hk.1.2 h
    · exact hk.of_Ext (stepCore_Ext s op hop) (stepCore_JP s op)
  exact hp.of_Ext (pump_Ext _) (pump_JP _)

theorem run_K (ops : List Op) : ∀ s : S, K s → K (run s ops) := by
  induction ops with
  | nil => intro s h; exact h
  | cons op rest ih => intro s h; exact ih _ (step_K s op h)

theorem start_K (cfg : Cfg) : K (start cfg) := by
  unfold start
  dsimp only
  split
  · exact ⟨⟨fun h => by simp [armPingNext, S.timer] at h, fun h => by simp [armPingNext, S.timer] at h⟩,
      fun c r w h => by simp [armPingNext, S.timer] at h⟩
  · exact ⟨⟨fun h => by simp at h, fun h => by simp at h⟩, fun c r w h => by simp at h⟩

theorem startConnecting_K (cfg : Cfg) : K (startConnecting cfg) := by
  unfold startConnecting
  dsimp only
  split
  · exact ⟨⟨fun h => by simp [S.timer] at h, fun h => by simp [S.timer] at h⟩, fun c r w h => by simp [S.timer] at h⟩
  · exact ⟨⟨fun h => by simp at h, fun h => by simp at h⟩, fun c r w h => by simp at h⟩

/-- **C05: reported clean only if our close frame was sent** — every configuration, every history.  Together with
`one_close_frame` (that frame is the only one, legal, and the connection is then CLOSING or CLOSED) -/
theorem clean_close_needs_both (cfg : Cfg) (ops : List Op) (c : Option Nat) (r : Option Bytes) (w : Option NCR)
    (h : Out.onClose true c r w ∈ (run (start cfg) ops).log) :
    (run (start cfg) ops).closeSent ≠ [] :=
  (run_K ops _ (start_K cfg)).2 c r w h

theorem clean_close_needs_both_connecting (cfg : Cfg) (ops : List Op) (c : Option Nat) (r : Option Bytes)
    (w : Option NCR) (h : Out.onClose true c r w ∈ (run (startConnecting cfg) ops).log) :
    (run (startConnecting cfg) ops).closeSent ≠ [] :=
  (run_K ops _ (startConnecting_K cfg)).2 c r w h

/-- the hypothesis is met by real histories: the peer closes with 1000, we reply, the transport goes — reported clean
with the peer's code, and our close frame is recorded -/
example : Out.onClose true (some 1000) none none ∈
    (run (start {}) [.feed [0x88, 0x82, 0, 0, 0, 0, 0x03, 0xe8], .lost]).log
    ∧ (run (start {}) [.feed [0x88, 0x82, 0, 0, 0, 0, 0x03, 0xe8], .lost]).closeSent = [(some 1000, none)] := by
  decide

/-- while the connection is CLOSING, or marked clean, our close frame is out — every reachable state -/
theorem closing_has_sent_close (cfg : Cfg) (ops : List Op) : J (run (start cfg) ops) :=
  (run_K ops _ (start_K cfg)).1

end Abverif.Ws
