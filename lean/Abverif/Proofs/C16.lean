import Abverif.Model.WsSpec
import Abverif.Proofs.Lemmas.WsExt
/-
C16 — configured payload limits are enforced early and never by truncation (model level; the compression
cap is outside the model and tied by the implementation-level oracle only).
-/
namespace Abverif.Ws

/-- **send_refused_writes_nothing**: an over-limit `sendMessage` raises `PayloadExceededError` and changes nothing
else — no octet is written, nothing is queued, no key is drawn -/
theorem send_refused_writes_nothing (s : S) (pl : Bytes) (b : Bool) (f : Option Nat) (sy : Bool)
    (hopen : s.st = .opened) (hlim : 0 < s.cfg.maxMsg) (hover : s.cfg.maxMsg < pl.length) :
    sendMessage s pl b f sy = s.emit (.raised .payloadExceeded) := by
  unfold sendMessage
  simp [hopen, hlim, hover]

/-- a message at or below the limit is not refused (the limit is inclusive) -/
theorem send_within_limit_not_refused (s : S) (pl : Bytes) (b : Bool) (sy : Bool)
    (hopen : s.st = .opened) (hle : pl.length ≤ s.cfg.maxMsg) (haf : s.cfg.autoFragment = 0) :
    sendMessage s pl b none sy = sendFrame s (if b then 2 else 1) pl true 0 sy := by
  unfold sendMessage
  have : ¬ (0 < s.cfg.maxMsg ∧ s.cfg.maxMsg < pl.length) := by omega
  simp [hopen, this, haf]

/-- **limit_at_header**: the limits are judged in `onMessageFrameBegin`, i.e. when the frame header has been read and
before a single payload octet of that frame is looked at: if the declared length pushes the message over
`maxMessagePayloadSize` the connection is failed with 1009 right there, and the frame buffer is empty -/
theorem limit_at_header_msg (s : S) (n : Nat) (hf : s.failedByMe = false)
    (hlim : 0 < s.cfg.maxMsg) (hover : s.cfg.maxMsg < s.totalLen + n) :
    onMessageFrameBegin s n = failConnection { s with frameData := [], totalLen := s.totalLen + n } 1009 := by
  unfold onMessageFrameBegin
  simp [hf, hlim, hover]

theorem limit_at_header_frame (s : S) (n : Nat) (hf : s.failedByMe = false)
    (hmsg : ¬ (0 < s.cfg.maxMsg ∧ s.cfg.maxMsg < s.totalLen + n))
    (hlim : 0 < s.cfg.maxFrame) (hover : s.cfg.maxFrame < n) :
    onMessageFrameBegin s n = failConnection { s with frameData := [], totalLen := s.totalLen + n } 1009 := by
  unfold onMessageFrameBegin
  simp only [hf, Bool.not_false, if_true]
  have h2 : ¬ (decide (0 < s.cfg.maxMsg) && decide (s.cfg.maxMsg < s.totalLen + n)) = true := by simpa using hmsg
  simp [h2, hlim, hover]

/-- failing with 1009 follows the fail policy: TCP drop (abort) when failByDrop, else a close frame carrying 1009 -/
theorem fail_1009_drop (s : S) (hst : s.st = .opened) (hfbd : s.cfg.failByDrop = true) :
    (failConnection s 1009).st = .closed ∧ (failConnection s 1009).failedByMe = true := by
  unfold failConnection
  simp [hst, hfbd, dropConnection, S.emit]

theorem fail_1009_close (s : S) (hst : s.st = .opened) (hfbd : s.cfg.failByDrop = false) :
    failConnection s 1009 = sendCloseFrame { s with failedByMe := true } (some 1009) none false := by
  unfold failConnection
  simp [hst, hfbd]

/-- **limit_transparent**: within the limits `onMessageFrameBegin` only does its bookkeeping -/
theorem limit_transparent (s : S) (n : Nat)
    (hmsg : ¬ (0 < s.cfg.maxMsg ∧ s.cfg.maxMsg < s.totalLen + n))
    (hfr : ¬ (0 < s.cfg.maxFrame ∧ s.cfg.maxFrame < n)) :
    onMessageFrameBegin s n = { s with frameData := [], totalLen := s.totalLen + n } := by
  unfold onMessageFrameBegin
  have h1 : ¬ (decide (0 < s.cfg.maxMsg) && decide (s.cfg.maxMsg < s.totalLen + n)) = true := by simpa using hmsg
  have h2 : ¬ (decide (0 < s.cfg.maxFrame) && decide (s.cfg.maxFrame < n)) = true := by simpa using hfr
  simp [h1, h2]

/-- once the connection has been failed nothing more is handed to the application (`onMessageEnd` guard) -/
theorem failed_never_delivers (s : S) (h : s.failedByMe = true) : deliverMessage s = s := by
  unfold deliverMessage; simp [h]

/-- and nothing more is buffered (`onMessageFrameData` guard) -/
theorem failed_never_buffers (s : S) (p : Bytes) (h : s.failedByMe = true) : onMessageFrameData s p = s := by
  unfold onMessageFrameData; simp [h]

/-- the Spec judges the same way: 1009 exactly when a declared length crosses a limit -/
example : (WsSpec.judge { isServer := false, maxMsg := 3 } [0x82, 0x04]).2.1 = .fail 1009 := by decide
example : (WsSpec.judge { isServer := false, maxMsg := 3 } [0x82, 0x03, 1, 2, 3]).2.1 = .ok := by decide

end Abverif.Ws
