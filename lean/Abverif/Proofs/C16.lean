import Abverif.Model.WsSpec
namespace Abverif.Ws
end Abverif.Ws
