import Abverif.Proofs.WsRoundtrip
/-
# What the RFC 6455 judge guarantees about everything it lets through — and, by `recv_refines_judge`, what the
engine guarantees about everything it delivers (C02, C16)

`judge_events_ok`: for EVERY octet stream, every event the judge emits is legal: a message respects the message size
limit, a text message (not compressed) is valid UTF-8 when validation is on, ping/pong payloads are at most 125
octets, a close event carries a legal code and a valid UTF-8 reason of at most 123 octets.
-/
namespace Abverif.Ws
open Abverif.WsSpec

/-- what may be delivered -/
def EvOk (c : Ctx) : Ev → Prop
  | .message p b cmp =>
      (0 < c.maxMsg → p.length ≤ c.maxMsg) ∧
      (b = false → cmp = false → c.utf8validate = true → utf8Valid p = true)
  | .ping p => p.length ≤ 125
  | .pong p => p.length ≤ 125
  | .close code reason =>
      (∀ cd, code = some cd → closeCodeOk cd = true) ∧
      (∀ r, reason = some r → utf8Valid r = true ∧ r.length ≤ 123)

/-- invariant of the judge's bookkeeping -/
structure JInv (c : Ctx) (j : J) : Prop where
  accTotal : j.inside = true → j.acc.length ≤ j.total ∧ (0 < c.maxMsg → j.total ≤ c.maxMsg)
  utf8 : j.inside = true → (j.validate && !j.compressed) = true → j.utf8 = u8run .s0 j.acc
  text : j.inside = true → j.binary = false → j.validate = c.utf8validate
  evs : ∀ e ∈ j.evs, EvOk c e

theorem unmaskAvail_length (c : Ctx) (k : Option Abverif.Xor.Key) (d : Bytes) : (unmaskAvail c k d).length = d.length := by
  unfold unmaskAvail
  cases k with
  | none => rfl
  | some k => cases c.applyMask <;> simp [spec_length]

theorem JInv.init (c : Ctx) : JInv c {} :=
  ⟨fun h => (by cases h), fun h => (by cases h), fun h => (by cases h), fun e he => (by cases he)⟩

theorem JInv.addEv {c : Ctx} {j : J} (h : JInv c j) (e : Ev) (he : EvOk c e) : JInv c { j with evs := j.evs ++ [e] } :=
  ⟨h.accTotal, h.utf8, h.text, fun x hx => by
    rcases List.mem_append.mp hx with h1 | h1
    · exact h.evs x h1
    · simp at h1; subst h1; exact he⟩

/-- a step of the judge keeps the invariant, or ends with legal events only -/
def StepOk (c : Ctx) : JStep → Prop
  | .next j' _ => JInv c j'
  | .done evs _ _ => ∀ e ∈ evs, EvOk c e

/-- control frames -/
theorem judgeControl_inv (c : Ctx) (j : J) (len opcode : Nat) (un after : Bytes) (h : JInv c j)
    (hlen : un.length ≤ 125) : StepOk c (judgeControl j len opcode un after) := by
  unfold judgeControl
  split
  · exact h.addEv (.ping un) hlen
  · split
    · exact h.addEv (.pong un) hlen
    · dsimp only
      split
      · rename_i cd hcd
        split
        · exact h.evs
        · rename_i hok
          have hok' : closeCodeOk cd = true := by simpa using hok
          split
          · rename_i r hr
            split
            · exact h.evs
            · rename_i hv
              have hv' : utf8Valid r = true := by simpa using hv
              intro e he
              rcases List.mem_append.mp he with h1 | h1
              · exact h.evs e h1
              · simp at h1; subst h1
                refine ⟨fun cd' e' => ?_, fun r' e' => ?_⟩
                · rw [hcd] at e'; cases e'; exact hok'
                · rw [hr] at e'; cases e'
                  refine ⟨hv', ?_⟩
                  split at hr
                  · cases hr; simp only [List.length_drop]; omega
                  · cases hr
          · rename_i hr
            intro e he
            rcases List.mem_append.mp he with h1 | h1
            · exact h.evs e h1
            · simp at h1; subst h1
              refine ⟨fun cd' e' => ?_, fun r' e' => (by cases e')⟩
              rw [hcd] at e'; cases e'; exact hok'
      · intro e he
        rcases List.mem_append.mp he with h1 | h1
        · exact h.evs e h1
        · simp at h1; subst h1
          exact ⟨fun cd' e' => (by cases e'), fun r' e' => (by cases e')⟩

/-- the bookkeeping after a data frame header -/
structure EnterFacts (c : Ctx) (j j1 : J) (plen : Nat) : Prop where
  inside : j1.inside = true
  evs : j1.evs = j.evs
  accTotal : j1.acc.length + plen ≤ j1.total
  utf8 : (j1.validate && !j1.compressed) = true → j1.utf8 = u8run .s0 j1.acc
  text : j1.binary = false → j1.validate = c.utf8validate

theorem JInv.enter {c : Ctx} {j : J} (hi : JInv c j) (h : Hd) (plen : Nat)
    (hop : j.inside = false → h.opcode = 1 ∨ h.opcode = 2) : EnterFacts c j (j.enter c h plen) plen := by
  cases hin : j.inside with
  | false =>
    rcases hop hin with ho | ho
    · refine ⟨?_, ?_, ?_, ?_, ?_⟩ <;> simp [J.enter, hin, ho, u8run]
    · refine ⟨?_, ?_, ?_, ?_, ?_⟩ <;> simp [J.enter, hin, ho, u8run]
  | true =>
    have a := (hi.accTotal hin).1
    refine ⟨?_, ?_, ?_, ?_, ?_⟩ <;> simp [J.enter, hin]
    · omega
    · intro x y; exact hi.utf8 hin (by simp [x, y])
    · exact hi.text hin

/-- data frames -/
theorem judgeData_inv (c : Ctx) (j : J) (len : Nat) (h : Hd) (plen : Nat) (un : Bytes) (complete : Bool)
    (after : Bytes) (hi : JInv c j) (hun : complete = true → un.length = plen)
    (hop : j.inside = false → h.opcode = 1 ∨ h.opcode = 2) :
    StepOk c (judgeData c j len h plen un complete after) := by
  have ef := hi.enter h plen hop
  unfold judgeData
  generalize j.enter c h plen = j1 at ef
  have hdone : ∀ v, StepOk c (.done j1.evs v len) := by
    intro v; show ∀ e ∈ j1.evs, EvOk c e; rw [ef.evs]; exact hi.evs
  simp only []
  generalize hu : (if (j1.validate && !j1.compressed) = true then u8run j1.utf8 un else j1.utf8) = u
  have huv : (j1.validate && !j1.compressed) = true → u = u8run j1.utf8 un := by
    intro hv; rw [← hu]; simp [hv]
  by_cases hlim : (decide (0 < c.maxMsg) && decide (c.maxMsg < j1.total)) = true
  · simp only [hlim, if_true]; exact hdone _
  · simp only [hlim, if_false]
    by_cases hfl : (decide (0 < c.maxFrame) && decide (c.maxFrame < plen)) = true
    · simp only [hfl, if_true]; exact hdone _
    · simp only [hfl, if_false]
      by_cases hrej : u = .rej
      · simp only [hrej, if_true]; exact hdone _
      · simp only [hrej, if_false]
        cases hc : complete with
        | false => simp only [Bool.not_false, if_true]; exact hdone _
        | true =>
          simp only [Bool.not_true, Bool.false_eq_true, if_false]
          have hl := hun hc
          have hlim' : 0 < c.maxMsg → j1.total ≤ c.maxMsg := by
            intro hpos
            simp only [Bool.and_eq_true, decide_eq_true_eq, not_and, Nat.not_lt] at hlim
            exact hlim hpos
          have hafter : JInv c { j1 with utf8 := u, acc := j1.acc ++ un } := by
            refine ⟨fun _ => ⟨?_, hlim'⟩, fun _ hv => ?_, fun _ hb => ef.text hb, ?_⟩
            · simp only [List.length_append]; have := ef.accTotal; omega
            · simp only at hv ⊢
              rw [huv hv, ef.utf8 hv, ← u8run_append]
            · show ∀ e ∈ j1.evs, EvOk c e
              rw [ef.evs]; exact hi.evs
          cases hfin : h.fin with
          | false => simp only [Bool.false_eq_true, if_false]; exact hafter
          | true =>
            simp only [if_true]
            by_cases hend : (j1.validate && !j1.compressed && decide (u ≠ .s0)) = true
            · simp only [hend, if_true]; exact hdone _
            · simp only [hend, if_false]
              refine ⟨fun hx => (by cases hx), fun hx => (by cases hx), fun hx => (by cases hx), ?_⟩
              intro e he
              simp only at he
              rcases List.mem_append.mp he with h1 | h1
              · rw [ef.evs] at h1; exact hi.evs e h1
              · simp at h1; subst h1
                refine ⟨fun hpos => ?_, fun hb hcmp hval => ?_⟩
                · simp only [List.length_append]
                  have := ef.accTotal; have := hlim' hpos; omega
                · have hv : j1.validate = true := by rw [ef.text hb]; exact hval
                  have hvc : (j1.validate && !j1.compressed) = true := by simp [hv, hcmp]
                  have hus : u = .s0 := by
                    simp only [hv, hcmp, Bool.not_false, Bool.and_self, Bool.true_and, decide_eq_true_eq,
                      Decidable.not_not] at hend
                    exact hend
                  unfold utf8Valid
                  rw [u8run_append, ← ef.utf8 hvc, ← huv hvc, hus]
                  rfl

theorem headerOk_dataop (c : Ctx) (inside : Bool) (h : Hd)
    (hok : headerOk c inside h.fin h.rsv h.opcode h.masked h.len7 = true) (hop : ¬ h.opcode ≥ 8)
    (hin : inside = false) : h.opcode = 1 ∨ h.opcode = 2 := by
  unfold headerOk okFlags at hok
  simp only [Bool.and_eq_true, Bool.or_eq_true, decide_eq_true_eq, Bool.not_eq_true'] at hok
  obtain ⟨⟨⟨⟨_, _⟩, h3⟩, _⟩, h5⟩ := hok
  subst hin
  rcases h5 with h5 | h5
  · omega
  · have : ¬ h.opcode = 0 := by simpa using h5
    rcases h3 with ((((h3 | h3) | h3) | h3) | h3) | h3 <;> omega

/-- **every step of the judge keeps the invariant** -/
theorem judgeStep_inv (c : Ctx) (j : J) (buf : Bytes) (hi : JInv c j) : StepOk c (judgeStep c j buf) := by
  unfold judgeStep
  match buf with
  | [] => exact hi.evs
  | [_] => exact hi.evs
  | o0 :: o1 :: rest2 =>
    simp only []
    generalize Hd.ofOctets o0 o1 = h
    by_cases hok : headerOk c j.inside h.fin h.rsv h.opcode h.masked h.len7 = true
    · simp only [hok, Bool.not_true, Bool.false_eq_true, if_false]
      split
      · exact hi.evs
      · split
        · exact hi.evs
        · split
          · rename_i hop
            split
            · exact hi.evs
            · apply judgeControl_inv c j _ _ _ _ hi
              rw [unmaskAvail_length, List.length_take]
              have hc := headerOk_control c j.inside h hok hop
              have : h.plen rest2 = h.len7 := by
                unfold Hd.plen
                have : h.len7 < 126 := by omega
                simp [this]
              rw [this]
              have := hc.2
              omega
          · rename_i hop
            apply judgeData_inv c j _ h _ _ _ _ hi
            · intro hcomp
              rw [unmaskAvail_length, List.length_take]
              simp only [ge_iff_le, decide_eq_true_eq] at hcomp
              omega
            · exact headerOk_dataop c j.inside h hok hop
    · have : headerOk c j.inside h.fin h.rsv h.opcode h.masked h.len7 = false := by simpa using hok
      simp only [this, Bool.not_false, if_true]
      exact hi.evs

/-- **`judge_events_ok`: whatever the octet stream, every event the judge emits is legal** -/
theorem judgeFrom_events_ok (c : Ctx) : ∀ (n : Nat) (j : J) (buf : Bytes), JInv c j →
    ∀ e ∈ (judgeFrom c n j buf).1, EvOk c e := by
  intro n
  induction n with
  | zero => intro j buf hi; exact hi.evs
  | succ n ih =>
    intro j buf hi
    have hs := judgeStep_inv c j buf hi
    rw [WsSpec.judgeFrom]
    cases hjs : judgeStep c j buf with
    | next j' rest => rw [hjs] at hs; exact ih j' rest hs
    | done evs v r => rw [hjs] at hs; exact hs

theorem judge_events_ok (c : Ctx) (stream : Bytes) : ∀ e ∈ (judge c stream).1, EvOk c e :=
  judgeFrom_events_ok c _ {} stream (JInv.init c)

/-! ### transfer to the engine -/

/-- the side condition under which the engine is claimed to follow the judge (see `Agree`): the stream does not
make a *client* read on behind a peer's close frame -/
def Covered (cfg : Cfg) (stream : Bytes) : Prop :=
  (judge (Ctx.ofCfg cfg) stream).2.1 ≠ .closedByPeer ∨ cfg.isServer = true ∨ (judge (Ctx.ofCfg cfg) stream).2.2 = 0

/-- **everything the engine delivers is legal** — any stream, any segmentation -/
theorem delivered_events_ok (cfg : Cfg) (hf : cfg.failByDrop = true) (chunks : List Bytes)
    (hne : ∀ ch ∈ chunks, ch ≠ []) (hnil : chunks ≠ []) (hcov : Covered cfg chunks.flatten) :
    ∀ e ∈ evsOf (feed (start cfg) chunks).log, EvOk (Ctx.ofCfg cfg) e := by
  obtain ⟨s', hsim, hag⟩ := recv_refines_judge_fresh cfg hf chunks hne hnil
  have hjo := judge_events_ok (Ctx.ofCfg cfg) chunks.flatten
  rw [hsim.log]
  intro e he
  unfold Covered at hcov
  cases hv : (judge (Ctx.ofCfg cfg) chunks.flatten).2.1 with
  | ok =>
    rw [hv] at hag
    exact hjo e (by rw [← hag.1]; exact he)
  | fail code =>
    rw [hv] at hag
    exact hjo e (by rw [← hag.1]; exact he)
  | closedByPeer =>
    rw [hv] at hag
    have hside : (Ctx.ofCfg cfg).isServer = true ∨ (judge (Ctx.ofCfg cfg) chunks.flatten).2.2 = 0 := by
      rcases hcov with h | h | h
      · exact absurd hv h
      · exact Or.inl h
      · exact Or.inr h
    have h1 := (hag hside).1
    exact hjo e (by rw [← h1]; exact List.mem_append_left _ he)

theorem mem_evsOf {log : List Out} {o : Out} {e : Ev} (ho : o ∈ log) (he : evOfOut o = some e) : e ∈ evsOf log :=
  List.mem_filterMap.mpr ⟨o, ho, he⟩

/-- **C16**: no message longer than `maxMessagePayloadSize` is ever delivered -/
theorem delivered_message_within_limit (cfg : Cfg) (hf : cfg.failByDrop = true) (chunks : List Bytes)
    (hne : ∀ ch ∈ chunks, ch ≠ []) (hnil : chunks ≠ []) (hcov : Covered cfg chunks.flatten)
    (p : Bytes) (b cmp : Bool) (hm : Out.onMessage p b cmp ∈ (feed (start cfg) chunks).log)
    (hpos : 0 < cfg.maxMsg) : p.length ≤ cfg.maxMsg :=
  (delivered_events_ok cfg hf chunks hne hnil hcov _ (mem_evsOf hm rfl)).1 hpos

/-- **C02**: every uncompressed text message delivered is valid UTF-8 (when validation is on) -/
theorem delivered_text_valid (cfg : Cfg) (hf : cfg.failByDrop = true) (chunks : List Bytes)
    (hne : ∀ ch ∈ chunks, ch ≠ []) (hnil : chunks ≠ []) (hcov : Covered cfg chunks.flatten)
    (p : Bytes) (hm : Out.onMessage p false false ∈ (feed (start cfg) chunks).log)
    (hv : cfg.utf8validate = true) : utf8Valid p = true :=
  (delivered_events_ok cfg hf chunks hne hnil hcov _ (mem_evsOf hm rfl)).2 rfl rfl hv

/-- **C02**: ping payloads delivered (and echoed) are at most 125 octets -/
theorem delivered_ping_short (cfg : Cfg) (hf : cfg.failByDrop = true) (chunks : List Bytes)
    (hne : ∀ ch ∈ chunks, ch ≠ []) (hnil : chunks ≠ []) (hcov : Covered cfg chunks.flatten)
    (p : Bytes) (hm : Out.onPing p ∈ (feed (start cfg) chunks).log) : p.length ≤ 125 :=
  delivered_events_ok cfg hf chunks hne hnil hcov _ (mem_evsOf hm rfl)

end Abverif.Ws
