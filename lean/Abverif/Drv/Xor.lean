import Abverif.Model.Xor
namespace Abverif.Drv.Xor
open Abverif Abverif.Xor

def parseKey (s : String) : Option Key :=
  match Hex.decode s with
  | some [a, b, c, d] => some ⟨a, b, c, d⟩
  | _ => none

def out (r : Bytes × Nat) : String := s!"{Hex.render r.1} {r.2}"

/-- line protocol:
  `xor.spec <key> <ptr> <data>`; `xor.simple …`; `xor.shifted1 …`; `xor.sse2 <key> <ptr> <align> <data>`;
  `xor.create <len|none> <key> <ptr> <data>` -/
def handle : List String → Option String
  | ["xor.spec", k, p, d] => do
      let k ← parseKey k; let p ← p.toNat?; let d ← Hex.decode d
      pure (out (spec k p d))
  | ["xor.simple", k, p, d] => do
      let k ← parseKey k; let p ← p.toNat?; let d ← Hex.decode d
      pure (out (simple k p d))
  | ["xor.shifted1", k, p, d] => do
      let k ← parseKey k; let p ← p.toNat?; let d ← Hex.decode d
      pure (out (shifted1 k p d))
  | ["xor.sse2", k, p, a, d] => do
      let k ← parseKey k; let p ← p.toNat?; let a ← a.toNat?; let d ← Hex.decode d
      pure (out (sse2 k p a d))
  | ["xor.create", l, k, p, d] => do
      let k ← parseKey k; let p ← p.toNat?; let d ← Hex.decode d
      let l ← (if l = "none" then some none else l.toNat?.map some)
      pure (out (process (create l) k p d))
  | _ => none

end Abverif.Drv.Xor
