import Abverif.Model.WsSub
namespace Abverif.Drv.WsSub
open Abverif Abverif.WsSub

/-- a string travels as the hex of its ASCII octets; `e` = the empty string -/
def decStr (s : String) : Option Str :=
  if s = "e" then some [] else (Hex.decode s).map (·.map (fun b => Char.ofNat b.toNat))

def encStr (s : Str) : String :=
  if s.isEmpty then "e" else Hex.encode (s.map (fun c => UInt8.ofNat c.toNat))

/-- comma separated strings, `-` = the empty list -/
def decList (s : String) : Option (List Str) :=
  if s = "-" then some [] else (s.splitOn ",").mapM decStr

def parseBool : String → Option Bool
  | "1" => some true | "0" => some false | _ => none

/-- line protocol:
  `ws.parse <str>`                               → `none` | `<version> <ser>`
  `ws.select <strict> <supported> <protocols>`   → `chosen <proto> <ser>` | `deny` | `fallback <ser|none>`
  `ws.client <strict> <mySers> <resp|none>`      → `attached <ser>` | `refused` | `keyerror`
  `ws.protocols <sers>`                          → comma list
  `ws.binary <ser>`  `ws.code <ProtocolError|Exception|onOpen>` -/
def handle : List String → Option String
  | ["ws.parse", s] => do
      let s ← decStr s
      pure (match parseSub s with
        | none => "none"
        | some (v, sid) => s!"{v} {encStr sid}")
  | ["ws.select", st, sup, ps] => do
      let st ← parseBool st; let sup ← decList sup; let ps ← decList ps
      pure (match serverOnConnect st sup ps with
        | .chosen p s => s!"chosen {encStr p} {encStr s}"
        | .deny => "deny"
        | .fallback (some s) => s!"fallback {encStr s}"
        | .fallback none => "fallback none")
  | ["ws.client", st, my, r] => do
      let st ← parseBool st; let my ← decList my
      let r ← (if r = "none" then some none else (decStr r).map some)
      pure (match clientOnConnect st my r with
        | .attached s => s!"attached {encStr s}"
        | .refused => "refused"
        | .keyError => "keyerror")
  | ["ws.protocols", s] => do
      let s ← decList s
      pure (let l := protocolsOf s; if l.isEmpty then "-" else ",".intercalate (l.map encStr))
  | ["ws.binary", s] => do
      let s ← decStr s
      pure (match binaryOf s with | some b => boolStr b | none => "none")
  | ["ws.code", k] =>
      match k with
      | "ProtocolError" => some (toString (closeCodeOnMessage .protocolError))
      | "Exception" => some (toString (closeCodeOnMessage .other))
      | "onOpen" => some (toString closeCodeOnOpen)
      | _ => none
  | _ => none

end Abverif.Drv.WsSub
