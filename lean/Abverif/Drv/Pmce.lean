import Abverif.Model.Pmce
namespace Abverif.Drv.Pmce
open Abverif Abverif.Pmce

/-! line protocol for C12 (negotiation lattice, extension headers, RSV1 rules, fragmentation shape).
Booleans are `0`/`1`, Python `None` is `~`, header strings travel as hex of their Latin-1 octets
(`-` = empty string). -/

def pBool : String → Option Bool
  | "0" => some false
  | "1" => some true
  | _ => none

def pOpt {α} (f : String → Option α) (s : String) : Option (Option α) :=
  if s = "~" then some none else (f s).map some

def pChars (s : String) : Option (List Char) :=
  (Hex.decode s).map fun bs => bs.map fun b => Char.ofNat b.toNat

def hexOf (cs : List Char) : String := Hex.render (cs.map fun c => UInt8.ofNat c.toNat)

def b (x : Bool) : String := boolStr x
def oB : Option Bool → String
  | none => "~"
  | some x => b x
def oN : Option Nat → String
  | none => "~"
  | some n => toString n

def offerStr (o : Offer) : String := s!"{b o.acceptNct},{b o.acceptMwb},{b o.reqNct},{o.reqMwb}"
def respStr (r : Response) : String := s!"{r.cMwb},{b r.cNct},{r.sMwb},{b r.sNct}"
def pmceStr (p : Pmce) : String :=
  s!"d:{b p.isServer},{b p.sNct},{b p.cNct},{p.sMwb},{p.cMwb},{p.memLevel}"
def anyStr : AnyPmce → String
  | .deflate p => pmceStr p
  | .bzip2 p => s!"z:{b p.isServer},{p.sMcl},{p.cMcl}"
  | .brotli p => s!"r:{b p.isServer},{b p.sNct},{b p.cNct}"

def valStr : Val → String
  | none => "T"
  | some v => "=" ++ hexOf v

def paramsStr (ps : Params) : String :=
  ";".intercalate (ps.map fun kv => hexOf kv.1 ++ ":" ++ ",".intercalate (kv.2.map valStr))

def extsStr (es : List (List Char × Params)) : String :=
  if es.isEmpty then "none" else "|".intercalate (es.map fun e => hexOf e.1 ++ "{" ++ paramsStr e.2 ++ "}")

def pOffer (a bb c w : String) : Option Offer := do
  pure ⟨← pBool a, ← pBool bb, ← pBool c, ← w.toNat?⟩

def pAccept (rn rw n w m : String) : Option AcceptArgs := do
  pure ⟨← pBool rn, ← rw.toNat?, ← pOpt pBool n, ← pOpt String.toNat? w, ← pOpt String.toNat? m⟩

def pRAccept (n w m : String) : Option RAcceptArgs := do
  pure ⟨← pOpt pBool n, ← pOpt String.toNat? w, ← pOpt String.toNat? m⟩

def commaParts (s : String) : List String := s.splitOn ","

def pServerPolicy (d z r : String) : Option ServerPolicy := do
  let dd ← if d = "-" then some none else
    match commaParts d with
    | [rn, rw, n, w, m] => (pAccept rn rw n w m).map some
    | _ => none
  let zz ← if z = "-" then some none else
    match commaParts z with
    | [rl, l] => do pure (some ((← rl.toNat?), (← pOpt String.toNat? l)))
    | _ => none
  let rr ← if r = "-" then some none else
    match commaParts r with
    | [rn, n] => do pure (some ((← pBool rn), (← pOpt pBool n)))
    | _ => none
  pure ⟨dd, zz, rr⟩

def pClientPolicy (d z r : String) : Option ClientPolicy := do
  let dd ← if d = "-" then some none else
    match commaParts d with
    | [n, w, m] => (pRAccept n w m).map some
    | _ => none
  let zz ← if z = "-" then some none else (pOpt String.toNat? z).map some
  let rr ← if r = "-" then some none else (pOpt pBool r).map some
  pure ⟨dd, zz, rr⟩

def hsStr : HsResult → String
  | .fail => "fail"
  | .ok e p => "ok " ++ (match e with | none => "~" | some s => hexOf s) ++ " " ++
      (match p with | none => "~" | some q => anyStr q)

def compatStr (enc dec : Pmce) : String := b (decide (dirCompatible enc dec))

def pPmce (s : String) : Option Pmce :=
  match commaParts s with
  | [i, sn, cn, sw, cw, m] => do
      let i ← if i = "d:1" then some true else if i = "d:0" then some false else none
      pure ⟨i, ← pBool sn, ← pBool cn, ← sw.toNat?, ← cw.toNat?, ← m.toNat?⟩
  | _ => none

def frameShape (f : Frame) : String := s!"{b f.fin}.{f.rsv}.{f.opcode}.{f.payload.length}"

def handle : List String → Option String
  -- constructor guard, rendered string, what the server's parser makes of it
  | ["pmce.offer", a, bb, c, w] => do
      let o ← pOffer a bb c w
      if !o.guard then pure "raise" else
      let s := o.render
      let parsed := (findDeflate (parseExtensionsHeader s)).bind Offer.parse
      pure s!"ok {hexOf s} {match parsed with | none => "!" | some q => offerStr q}"
  -- OfferAccept on a (parsed) offer: guard, rendered response, server-side PMCE, client's parse of the response
  | ["pmce.accept", a, bb, c, w, rn, rw, n, w2, m] => do
      let o ← pOffer a bb c w
      let x ← pAccept rn rw n w2 m
      let acc := x.on o
      if !acc.guard then pure "raise" else
      let s := acc.render
      let parsed := (findDeflate (parseExtensionsHeader s)).bind Response.parse
      pure s!"ok {hexOf s} {pmceStr (Pmce.fromOfferAccept true acc)} {match parsed with | none => "!" | some q => respStr q}"
  -- ResponseAccept on a response: guard and client-side PMCE
  | ["pmce.raccept", cm, cn, sm, sn, n, w, m] => do
      let r : Response := ⟨← cm.toNat?, ← pBool cn, ← sm.toNat?, ← pBool sn⟩
      let y ← pRAccept n w m
      let ra := y.on r
      if !ra.guard then pure "raise" else
      pure s!"ok {pmceStr (Pmce.fromResponseAccept false ra)}"
  -- the whole negotiation as the two ends run it
  | ["pmce.neg", a, bb, c, w, rn, rw, n, w2, m, n3, w3, m3] => do
      let o ← pOffer a bb c w
      let x ← pAccept rn rw n w2 m
      let y ← pRAccept n3 w3 m3
      match negotiate o x y with
      | none => pure "none"
      | some r => pure s!"ok {pmceStr r.server} {pmceStr r.client} {compatStr r.server r.client} {compatStr r.client r.server}"
  -- the Spec evaluated on the fields the REAL objects hold: s→c compatible, c→s compatible, same parameters
  | ["pmce.spec", s, c] => do
      let ps ← pPmce s
      let pc ← pPmce c
      pure s!"{compatStr ps pc} {compatStr pc ps} {b (decide (ps.params = pc.params))}"
  -- the Spec `permittedBy` evaluated on a real offer and the response the real server rendered for it
  | ["pmce.permitted", a, bb, c, w, cm, cn, sm, sn] => do
      let o ← pOffer a bb c w
      let r : Response := ⟨← cm.toNat?, ← pBool cn, ← sm.toNat?, ← pBool sn⟩
      pure (b (decide (permittedBy o r)))
  | ["pmce.parse", h] => do
      let hs ← pChars h
      pure (extsStr (parseExtensionsHeader hs))
  | ["pmce.int", h] => do
      let hs ← pChars h
      pure (match pyInt hs with | none => "ValueError" | some i => toString i)
  | ["pmce.srv", h, d, z, r] => do
      let hs ← pChars h
      let pol ← pServerPolicy d z r
      pure (hsStr (serverHandshake pol hs))
  | ["pmce.cli", h, d, z, r] => do
      let hs ← pChars h
      let pol ← pClientPolicy d z r
      pure (hsStr (clientHandshake pol hs))
  | ["pmce.judge", pm, ins, fin, rsv, op] => do
      pure (if headerOk (← pBool pm) (← pBool ins) (← pBool fin) (← rsv.toNat?) (← op.toNat?) then "ok" else "fail")
  -- frame shapes of one sendMessage whose (possibly compressed) wire payload has `len` octets
  | ["pmce.frag", frag, op, rsv, len] => do
      let f ← pOpt String.toNat? frag
      let n ← len.toNat?
      match fragment f (← op.toNat?) (← rsv.toNat?) (List.replicate n 0) with
      | none => pure "error"
      | some fs => pure (" ".intercalate (fs.map frameShape))
  | ["pmce.consts"] =>
      pure s!"{hexOf DeflateConsts.extensionName} {DeflateConsts.windowSizePermissible} {DeflateConsts.memLevelPermissible} {DeflateConsts.defaultWindowBits} {DeflateConsts.defaultMemLevel} {DeflateConsts.stripLen} {Hex.render DeflateConsts.tailBytes}"
  | _ => none

end Abverif.Drv.Pmce
