import Abverif.Model.Session
import Abverif.Model.SessSpec
import Abverif.Model.SessTrace
import Abverif.Model.SendTable
/-
Line protocol for the session model.

  request : `sess <s|d> <ev> <ev> …`        one whole event script (s = Twisted/sync, d = asyncio/deferred)
  answer  : `<obs> | <obs> | …`             one canonical observation per event (`-` when nothing is observable)
  request : `sessspec <s|d> <ev> …`         same script; per event the Spec verdicts the harness evaluates on the
                                            implementation trace (`Abverif.SessSpec.Spec.run`: the expected
                                            property observables, same rendering)
  request : `sesstrace <s|d> <n> <ev>×n <obs>×n`   the trace Spec of C06/C10 (`Abverif.SessTrace.check`) applied to a
                                            trace observed elsewhere: n event tokens, then the n observation lines
                                            they produced (each one token, as printed by `sess` / the workers)
  answer  : `ok` | `<event index>:<violation> …`
  request : `sendtable`                     the send() classification table generated from the source, 4 rows x 2 columns

Event tokens (no blanks inside; fields separated by `,`):
  open[;acts] closed[;acts] pump tick join leave disconnect
      open: acts = onConnect ; closed: acts = onLeave!onDisconnect
  m.welcome,<sid>[;acts]       WELCOME delivered and the loop run until idle (what C04/C11 scripts mean by it)
  m.welcome,<sid>,-[;acts]     WELCOME delivered, nothing else          acts = onWelcome!onJoin
  m.goodbye[;acts] m.abort[;acts]   acts = onLeave        m.challenge[;acts]   acts = onChallenge!onLeave
  m.invocation,<req>,<reg>,<args>,<kwargs>,<0|1|f>[;acts]   (last field: the receive_progress detail absent | true |
                                                            explicitly false; acts = the endpoint)
  fault,<o>.<o>…   o := ok | ser | big | lost | other        outcomes of the next send() calls on reply paths
  resolve,<req>,<ret>   fail,<req>,<exc>   lateprog,<req>,<v>
  ret := n | p | v<val> | c<args>/<kwargs>          exc := r | a<uri>/<args>/<kwargs> | m<uri>/<args> | t<args> | u
  call,<uri>,<args>,<kwargs>,<copts>,<snd>        pub,<uri>,<args>,<kwargs>,<popts>,<snd>
  sub,<h>,<uri>,<sopts>,<snd>                      reg,<h>,<uri>,<ropts>,<snd>
  unsub,<obj>,<snd>   unreg,<obj>,<snd>   cancel,<f>
  m.welcome,<sid>  m.goodbye  m.abort  m.challenge  m.other
  m.result,<req>,<args>,<kwargs>,<0|1>[;acts]      m.error,<rtype>,<req>,<uri>,<args>,<kwargs>
  m.published,<req>,<pub>  m.subscribed,<req>,<sub>  m.unsubscribed,<req>
  m.registered,<req>,<reg>  m.unregistered,<req>,<reg|n>
  m.event,<sub>,<pub>,<args>,<kwargs>[;acts]       m.invocation,<req>,<reg>  m.interrupt,<req>
  args   := n | a[<v>.<v>…]          kwargs := n | k[<key>=<v>.<key>=<v>…]          snd := ok | fail
  opts   := n | o[<name>=<val>/…]    val := t | f | <nat> | l[<nat>.<nat>…]
  acts   := <act>!<act>…             act := [n](r[<ret>]|x[<exc>])[~(p|P)<v>.<v>…][+<call>…]      call := self | <api event token>
            n: a lifecycle hook override that does not call the default body; ~p / ~P: progress calls of an endpoint
            (made `if details.progress:` / `if details.progress is not None:` — the same thing to the model)
-/
namespace Abverif.Drv.Session
open Abverif.Session

def tl (s : String) : String := String.ofList s.toList.tail

def parseList {α : Type} (f : String → Option α) (sep : String) (s : String) : Option (List α) :=
  if s = "" then some [] else (s.splitOn sep).mapM f

def parseArgs (s : String) : Option (Option Args) :=
  match s.toList with
  | ['n'] => some none
  | 'a' :: _ => (parseList String.toNat? "." (tl s)).map some
  | _ => none

def parseKv (s : String) : Option (Nat × Nat) :=
  match s.splitOn "=" with
  | [a, b] => do let x ← a.toNat?; let y ← b.toNat?; pure (x, y)
  | _ => none

def parseKwargs (s : String) : Option (Option Kwargs) :=
  match s.toList with
  | ['n'] => some none
  | 'k' :: _ => (parseList parseKv "." (tl s)).map some
  | _ => none

def parseSnd : String → Option SendRes
  | "ok" => some .ok
  | "fail" => some .raises
  | _ => none

def parseBool : String → Option Bool
  | "t" => some true
  | "f" => some false
  | _ => none

def parseOom (s : String) : Option OneOrMany :=
  match s.toList with
  | 'l' :: _ => (parseList String.toNat? "." (tl s)).map .many
  | _ => s.toNat?.map .one

def parseField (s : String) : Option (String × String) :=
  match s.splitOn "=" with
  | [a, b] => some (a, b)
  | _ => none

/-- `n` → none, `o<name>=<val>/…` → fields folded into the default record -/
def parseOpts {α : Type} (dflt : α) (set : α → String → String → Option α) (s : String) : Option (Option α) :=
  match s.toList with
  | ['n'] => some none
  | 'o' :: _ => do
      let fs ← parseList parseField "/" (tl s)
      let r ← fs.foldlM (fun acc (nv : String × String) => set acc nv.1 nv.2) dflt
      pure (some r)
  | _ => none

def setCall (o : CallOpts) (n v : String) : Option CallOpts :=
  match n with
  | "p" => v.toNat?.map (fun x => { o with onProgress := some x })
  | "t" => v.toNat?.map (fun x => { o with timeout := some x })
  | "x" => v.toNat?.map (fun x => { o with transactionHash := some x })
  | "c" => v.toNat?.map (fun x => { o with caller := some x })
  | "ci" => v.toNat?.map (fun x => { o with callerAuthid := some x })
  | "cr" => v.toNat?.map (fun x => { o with callerAuthrole := some x })
  | "f" => v.toNat?.map (fun x => { o with forwardFor := some x })
  | "d" => (parseBool v).map (fun x => { o with details := x })
  | _ => none

def setPub (o : PubOpts) (n v : String) : Option PubOpts :=
  match n with
  | "ack" => (parseBool v).map (fun x => { o with acknowledge := some x })
  | "xme" => (parseBool v).map (fun x => { o with excludeMe := some x })
  | "ex" => (parseOom v).map (fun x => { o with exclude := some x })
  | "exi" => (parseOom v).map (fun x => { o with excludeAuthid := some x })
  | "exr" => (parseOom v).map (fun x => { o with excludeAuthrole := some x })
  | "el" => (parseOom v).map (fun x => { o with eligible := some x })
  | "eli" => (parseOom v).map (fun x => { o with eligibleAuthid := some x })
  | "elr" => (parseOom v).map (fun x => { o with eligibleAuthrole := some x })
  | "ret" => (parseBool v).map (fun x => { o with retain := some x })
  | "x" => v.toNat?.map (fun x => { o with transactionHash := some x })
  | "f" => v.toNat?.map (fun x => { o with forwardFor := some x })
  | _ => none

def setSub (o : SubOpts) (n v : String) : Option SubOpts :=
  match n with
  | "m" => v.toNat?.map (fun x => { o with match_ := some x })
  | "gr" => (parseBool v).map (fun x => { o with getRetained := some x })
  | "f" => v.toNat?.map (fun x => { o with forwardFor := some x })
  | "da" => v.toNat?.map (fun x => { o with detailsArg := some x })
  | _ => none

def setReg (o : RegOpts) (n v : String) : Option RegOpts :=
  match n with
  | "m" => v.toNat?.map (fun x => { o with match_ := some x })
  | "inv" => v.toNat?.map (fun x => { o with invoke := some x })
  | "con" => v.toNat?.map (fun x => { o with concurrency := some x })
  | "fr" => (parseBool v).map (fun x => { o with forceReregister := some x })
  | "f" => v.toNat?.map (fun x => { o with forwardFor := some x })
  | "da" => v.toNat?.map (fun x => { o with detailsArg := some x })
  | _ => none

def parseApi (s : String) : Option Api :=
  match s.splitOn "," with
  | ["join"] => some .join
  | ["leave"] => some .leave
  | ["disconnect"] => some .disconnect
  | ["call", u, a, k, o, r] => do
      let u ← u.toNat?; let a ← parseArgs a; let k ← parseKwargs k
      let o ← parseOpts {} setCall o; let r ← parseSnd r
      pure (.call u (← a) (← k) o r)
  | ["pub", u, a, k, o, r] => do
      let u ← u.toNat?; let a ← parseArgs a; let k ← parseKwargs k
      let o ← parseOpts {} setPub o; let r ← parseSnd r
      pure (.publish u (← a) (← k) o r)
  | ["sub", h, u, o, r] => do
      let h ← h.toNat?; let u ← u.toNat?; let o ← parseOpts {} setSub o; let r ← parseSnd r
      pure (.subscribe h u o r)
  | ["reg", h, u, o, r] => do
      let h ← h.toNat?; let u ← u.toNat?; let o ← parseOpts {} setReg o; let r ← parseSnd r
      pure (.register h u o r)
  | ["unsub", f, r] => do pure (.unsubscribe (← f.toNat?) (← parseSnd r))
  | ["unreg", f, r] => do pure (.unregister (← f.toNat?) (← parseSnd r))
  | ["cancel", f] => do pure (.cancel (← f.toNat?))
  | _ => none

def parseCall (s : String) : Option HCall :=
  if s = "self" then some .unsubSelf else (parseApi s).map .api

def parseRet (s : String) : Option Ret :=
  match s.toList with
  | [] | ['n'] => some .unit
  | ['p'] => some .pending
  | 'v' :: _ => (tl s).toNat?.map .val
  | 'c' :: _ =>
    match (tl s).splitOn "/" with
    | [a, k] => do pure (.callResult ((← parseArgs a).getD []) ((← parseKwargs k).getD []))
    | _ => none
  | _ => none

def parseExcK (s : String) : Option ExcK :=
  match s.toList with
  | [] | ['r'] => some (.runtime [])
  | ['u'] => some .unbuildable
  | 'a' :: _ =>
    match (tl s).splitOn "/" with
    | [u, a, k] => do pure (.appError (← u.toNat?) ((← parseArgs a).getD []) ((← parseKwargs k).getD []))
    | _ => none
  | 'm' :: _ =>
    match (tl s).splitOn "/" with
    | [u, a] => do pure (.mapped (← u.toNat?) ((← parseArgs a).getD []))
    | _ => none
  | 't' :: _ => do pure (.runtime ((← parseArgs (tl s)).getD []))
  | _ => none

/-- head of an act: `[n](r[<ret>]|x[<exc>])[~p<v>.<v>…]` -/
def parseHead (s : String) : Option HAct := do
  let (main, prog) ← (match s.splitOn "~" with
    | [m] => some (m, ([] : List Nat))
    | [m, p] => (match p.toList with
        | 'p' :: _ | 'P' :: _ => (parseList String.toNat? "." (tl p)).map (fun l => (m, l))
        | _ => none)
    | _ => none)
  let (dflt, rest) := (match main.toList with
    | 'n' :: _ => (false, tl main)
    | _ => (true, main))
  match rest.toList with
  | 'r' :: _ => do pure { raises := false, dflt := dflt, ret := (← parseRet (tl rest)), progress := prog }
  | 'x' :: _ => do pure { raises := true, dflt := dflt, exc := (← parseExcK (tl rest)), progress := prog }
  | _ => none

def parseAct (s : String) : Option HAct :=
  match s.splitOn "+" with
  | [] => none
  | hd :: cs => do
      let a ← parseHead hd
      let calls ← cs.mapM parseCall
      pure { a with calls := calls }

def parseActs (s : String) : Option (List HAct) := parseList parseAct "!" s

def parsePayload (a k : String) : Option Payload := do
  let a ← parseArgs a; let k ← parseKwargs k
  pure { args := a, kwargs := k }

def parseMsg (s : String) : Option InMsg :=
  match s.splitOn "," with
  | ["m.welcome", sid] => sid.toNat?.map .welcome
  | ["m.welcome", sid, "-"] => sid.toNat?.map .welcome
  | ["m.goodbye"] => some .goodbye
  | ["m.abort"] => some .abort
  | ["m.challenge"] => some .challenge
  | ["m.other"] => some .other
  | ["m.result", r, a, k, p] => do
      let r ← r.toNat?; let pl ← parsePayload a k
      let p ← (match p with | "0" => some false | "1" => some true | _ => none)
      pure (.result r pl p)
  | ["m.error", t, r, u, a, k] => do
      pure (.error (← t.toNat?) (← r.toNat?) (← u.toNat?) (← parsePayload a k))
  | ["m.published", r, p] => do pure (.published (← r.toNat?) (← p.toNat?))
  | ["m.subscribed", r, p] => do pure (.subscribed (← r.toNat?) (← p.toNat?))
  | ["m.unsubscribed", r] => do pure (.unsubscribed (← r.toNat?))
  | ["m.registered", r, p] => do pure (.registered (← r.toNat?) (← p.toNat?))
  | ["m.unregistered", r, g] => do
      let g ← (if g = "n" then some none else g.toNat?.map some)
      pure (.unregistered (← r.toNat?) g)
  | ["m.event", sb, pb, a, k] => do pure (.event (← sb.toNat?) (← pb.toNat?) (← parsePayload a k))
  | ["m.invocation", r, g] => do pure (.invocation (← r.toNat?) (← g.toNat?) {} none)
  | ["m.invocation", r, g, a, k, rp] => do
      let rp ← (match rp with | "0" => some none | "1" => some (some true) | "f" => some (some false) | _ => none)
      pure (.invocation (← r.toNat?) (← g.toNat?) (← parsePayload a k) rp)
  | ["m.interrupt", r] => do pure (.interrupt (← r.toNat?))
  | _ => none

def parseSendOut : String → Option SendOut
  | "ok" => some .ok
  | "ser" => some .serialization
  | "big" => some .payloadExceeded
  | "lost" => some .transportLost
  | "other" => some .other
  | _ => none

def parseOther (s : String) : Option SEv :=
  match s.splitOn "," with
  | ["fault", l] => (parseList parseSendOut "." l).map .fault
  | ["resolve", r, v] => do pure (.resolve (← r.toNat?) (← parseRet v))
  | ["fail", r, e] => do pure (.fail (← r.toNat?) (← parseExcK e))
  | ["lateprog", r, v] => do pure (.lateProgress (← r.toNat?) (← v.toNat?))
  | _ => (parseApi s).map .api

/-- one token is one or two events: the plain `m.welcome,<sid>` stands for the delivery followed by the loop
running until it is idle -/
def parseEv (s : String) : Option (List SEv) :=
  let (hd, acts?) := (match s.splitOn ";" with
    | [h] => (h, some [])
    | [h, a] => (h, parseActs a)
    | _ => (s, none))
  match acts? with
  | none => none
  | some acts =>
    match hd with
    | "open" => some [.open_ acts]
    | "closed" => some [.closed acts]
    | "pump" => some [.pump]
    | "tick" => some [.tick]
    | _ =>
      if hd.startsWith "m." then
        (parseMsg hd).map (fun m =>
          match hd.splitOn "," with
          | ["m.welcome", _] => [.msg m acts, .pump]
          | _ => [.msg m acts])
      else if acts.isEmpty then (parseOther hd).map (fun e => [e]) else none

def parseMode : String → Option Sched
  | "s" => some .sync
  | "d" => some .deferred
  | _ => none

/-! ### rendering -/

def join (sep : String) (l : List String) : String := String.intercalate sep l

def insertBy {α : Type} (key : α → Nat) (x : α) : List α → List α
  | [] => [x]
  | y :: ys => if key x < key y then x :: y :: ys else y :: insertBy key x ys

/-- stable insertion sort on a numeric key -/
def sortBy {α : Type} (key : α → Nat) (l : List α) : List α := l.foldl (fun acc x => insertBy key x acc) []

def rArgs (a : Args) : String := "a" ++ join "." (a.map toString)
def rKwargs (k : Kwargs) : String := "k" ++ join "." ((sortBy (·.1) k).map (fun e => s!"{e.1}={e.2}"))

def rOVal : OVal → String
  | .b true => "T"
  | .b false => "F"
  | .n v => toString v
  | .l vs => "[" ++ join "." (vs.map toString) ++ "]"

/-- wire names, in alphabetical order (the canonical order of the rendered options) -/
def attrNames : List (Attr × String) :=
  [(.acknowledge, "acknowledge"), (.caller, "caller"), (.callerAuthid, "caller_authid"),
   (.callerAuthrole, "caller_authrole"), (.concurrency, "concurrency"), (.eligible, "eligible"),
   (.eligibleAuthid, "eligible_authid"), (.eligibleAuthrole, "eligible_authrole"), (.exclude, "exclude"),
   (.excludeAuthid, "exclude_authid"), (.excludeAuthrole, "exclude_authrole"), (.excludeMe, "exclude_me"),
   (.forceReregister, "force_reregister"), (.forwardFor, "forward_for"), (.getRetained, "get_retained"),
   (.invoke, "invoke"), (.match_, "match"), (.progress, "progress"), (.receiveProgress, "receive_progress"), (.retain, "retain"),
   (.timeout, "timeout"), (.transactionHash, "transaction_hash")]

def rAttrs (as : Attrs) : String :=
  "{" ++ join "/" (attrNames.flatMap (fun nv =>
    (as.filter (fun e => e.1 == nv.1)).map (fun e => nv.2 ++ "=" ++ rOVal e.2))) ++ "}"

def rMsg (m : OutMsg) : String :=
  match m.typ with
  | .hello => "HELLO"
  | .goodbye => "GOODBYE"
  | .cancel => s!"CANCEL,{m.req}"
  | .unsubscribe => s!"UNSUBSCRIBE,{m.req},{m.uri}"
  | .unregister => s!"UNREGISTER,{m.req},{m.uri}"
  | .subscribe => s!"SUBSCRIBE,{m.req},{rAttrs m.opts},{m.uri}"
  | .register => s!"REGISTER,{m.req},{rAttrs m.opts},{m.uri}"
  | .call => s!"CALL,{m.req},{rAttrs m.opts},{m.uri},{rArgs m.args},{rKwargs m.kwargs}"
  | .publish => s!"PUBLISH,{m.req},{rAttrs m.opts},{m.uri},{rArgs m.args},{rKwargs m.kwargs}"
  | .abort => "ABORT"
  | .authenticate => "AUTHENTICATE"
  | .yield_ => s!"YIELD,{m.req},{rAttrs m.opts},{rArgs m.args},{rKwargs m.kwargs}"
  | .error => s!"ERROR,{m.req},{m.uri},{rArgs m.args},{rKwargs m.kwargs}"

def rRVal : RVal → String
  | .none_ => "none"
  | .single v => s!"v{v}"
  | .callResult a k => s!"CR({rArgs a},{rKwargs k})"
  | .publication i => s!"pub{i}"
  | .subscription i => s!"sub{i}"
  | .registration i => s!"reg{i}"
  | .int n => s!"int{n}"

def rOutcome : Outcome → String
  | .value v => rRVal v
  | .error u a k => s!"err({u},{rArgs a},{rKwargs k})"
  | .cancelled => "cancelled"
  | .closed r => s!"closed{r}"

def rExc : Exc → String
  | .protocolError => "ProtocolError"
  | .transportLost => "TransportLost"
  | .typeError => "TypeError"
  | .attributeError => "AttributeError"
  | .exception => "Exception"
  | .alreadyCalled => "AlreadyCalled"
  | .sendFailed => "SendFailed"
  | .internal => "Internal"
  | .keyError => "KeyError"
  | .assertionError => "AssertionError"
  | .serializationError => "SerializationError"
  | .payloadExceeded => "PayloadExceededError"
  | .other => "Other"

def rKwVal : KwVal → String
  | .v x => toString x
  | .details o => s!"d{o}"
  | .callDetails o p => s!"D{o}.{if p then 1 else 0}"

def rOut : SOut → String
  | .send m => "send:" ++ rMsg m
  | .ret f => s!"ret:{f}"
  | .retNone => "ret:none"
  | .complete f o => s!"done:{f}={rOutcome o}"
  | .callback f o => s!"cb:{f}={rOutcome o}"
  | .invoke obj h a k =>
    s!"inv:{obj},{h},{rArgs a},k" ++ join "." ((sortBy (·.1) k).map (fun e => s!"{e.1}={rKwVal e.2}"))
  | .progress h (.plain a k) => s!"prog:{h},plain({rArgs a},{rKwargs k})"
  | .progress h (.result a k) => s!"prog:{h},CR({rArgs a},{rKwargs k})"
  | .userError => "uerr"
  | .caught e => "caught:" ++ rExc e
  | .raise_ e => "raise:" ++ rExc e
  | .transportClose => "close"
  | .unmodelled => "unmodelled"
  | .hook h arg => (match h with
      | .onConnect => "hook:onConnect" | .onJoin => "hook:onJoin" | .onLeave => s!"hook:onLeave,{arg}"
      | .onDisconnect => "hook:onDisconnect" | .onChallenge => "hook:onChallenge" | .onWelcome => "hook:onWelcome")
  | .fire e => (match e with
      | .connect => "fire:connect" | .join => "fire:join" | .ready => "fire:ready" | .leave => "fire:leave"
      | .disconnect => "fire:disconnect")
  | .endpoint req obj h a k =>
    s!"ep:{req},{obj},{h},{rArgs a},k" ++ join "." ((sortBy (·.1) k).map (fun e => s!"{e.1}={rKwVal e.2}"))
  | .sendFail m f => "sendfail:" ++ (match f with
      | .ok => "ok" | .serialization => "ser" | .payloadExceeded => "big" | .transportLost => "lost" | .other => "other")
      ++ ":" ++ rMsg m
  | .lost _ => "lost"
  | .later _ => "later"

def isComplete : SOut → Bool
  | .complete _ _ => true
  | _ => false

/-- outputs the harness cannot observe: an exception that ended in an unhandled Deferred failure / the loop's
exception handler -/
def hidden : SOut → Bool
  | .lost _ | .later _ => true
  | _ => false

def completeKey : SOut → Nat
  | .complete f _ => f
  | _ => 0

/-- canonical observation of one event: outputs in order, except that cell completions (which the harness
observes by polling after the event) come last, sorted by future -/
def rObs (os : List SOut) : String :=
  let os := os.filter (fun o => !hidden o)
  let a := os.filter (fun o => !isComplete o)
  let b := sortBy completeKey (os.filter isComplete)
  match a ++ b with
  | [] => "-"
  | l => join ";" (l.map rOut)

/-- run a script of tokens (each one or two events); one output list per token -/
def runToks (s : Sess) : List (List SEv) → List (List SOut)
  | [] => []
  | evs :: rest =>
    let r := run s evs
    r.2.flatten :: runToks r.1 rest

def specToks (sp : Abverif.SessSpec.Spec) : List (List SEv) → List (List SOut)
  | [] => []
  | evs :: rest =>
    let r := Abverif.SessSpec.Spec.run sp evs
    r.2.flatten :: specToks r.1 rest

/-! ### reading observation lines back (for `sesstrace`) -/

def parseExcName : String → Exc
  | "ProtocolError" => .protocolError
  | "TransportLost" => .transportLost
  | "TypeError" => .typeError
  | "AttributeError" => .attributeError
  | "Exception" => .exception
  | "AlreadyCalled" => .alreadyCalled
  | "SendFailed" => .sendFailed
  | "KeyError" => .keyError
  | "AssertionError" => .assertionError
  | "SerializationError" => .serializationError
  | "PayloadExceededError" => .payloadExceeded
  | _ => .other

/-- `k0=D0.1.1=2`: entries are separated by `.`, but a details value contains one itself -/
def parseObsKw (s : String) : List (Key × KwVal) :=
  let parts := if s = "" then [] else s.splitOn "."
  -- glue the pieces that carry no `=` to their predecessor
  let glued := parts.foldl (fun (acc : List String) x =>
    if x.contains '=' then acc ++ [x] else
      match acc.reverse with
      | [] => [x]
      | l :: r => r.reverse ++ [l ++ "." ++ x]) []
  glued.filterMap (fun e =>
    match e.splitOn "=" with
    | [k, v] => do
      let k ← k.toNat?
      match v.toList with
      | 'D' :: _ =>
        (match (tl v).splitOn "." with
         | [o, p] => do pure (k, .callDetails (← o.toNat?) (p == "1"))
         | _ => none)
      | 'd' :: _ => (tl v).toNat?.map (fun o => (k, .details o))
      | _ => v.toNat?.map (fun x => (k, .v x))
    | _ => none)

def parseHookName : String → Option Hook
  | "onConnect" => some .onConnect | "onJoin" => some .onJoin | "onLeave" => some .onLeave
  | "onDisconnect" => some .onDisconnect | "onChallenge" => some .onChallenge | "onWelcome" => some .onWelcome
  | _ => none

def parseObsEvName : String → Option ObsEv
  | "connect" => some .connect | "join" => some .join | "ready" => some .ready | "leave" => some .leave
  | "disconnect" => some .disconnect
  | _ => none

def parseSentMsg (s : String) : OutMsg :=
  match s.splitOn "," with
  | ["HELLO"] => { typ := .hello }
  | ["GOODBYE"] => { typ := .goodbye }
  | ["ABORT"] => { typ := .abort }
  | ["AUTHENTICATE"] => { typ := .authenticate }
  | ["YIELD", r, o, a, k] =>
    { typ := .yield_, req := r.toNat?.getD 0, opts := if o = "{progress=T}" then [(.progress, .b true)] else [],
      args := ((parseArgs a).join).getD [], kwargs := ((parseKwargs k).join).getD [] }
  | ["ERROR", r, u, a, k] =>
    { typ := .error, req := r.toNat?.getD 0, uri := u.toNat?.getD 0, args := ((parseArgs a).join).getD [],
      kwargs := ((parseKwargs k).join).getD [] }
  | "CANCEL" :: _ => { typ := .cancel }
  | "CALL" :: r :: _ => { typ := .call, req := r.toNat?.getD 0 }
  | "PUBLISH" :: r :: _ => { typ := .publish, req := r.toNat?.getD 0 }
  | "SUBSCRIBE" :: r :: _ => { typ := .subscribe, req := r.toNat?.getD 0 }
  | "UNSUBSCRIBE" :: r :: _ => { typ := .unsubscribe, req := r.toNat?.getD 0 }
  | "REGISTER" :: r :: _ => { typ := .register, req := r.toNat?.getD 0 }
  | "UNREGISTER" :: r :: _ => { typ := .unregister, req := r.toNat?.getD 0 }
  | _ => { typ := .cancel }

/-- one observation token; what the trace Spec does not read becomes `unmodelled` -/
def parseObsTok (t : String) : SOut :=
  match t.splitOn ":" with
  | ["hook", r] =>
    (match r.splitOn "," with
     | [h] => (parseHookName h).elim .unmodelled (fun h => .hook h 0)
     | [h, a] => (parseHookName h).elim .unmodelled (fun h => .hook h (a.toNat?.getD 0))
     | _ => .unmodelled)
  | ["fire", e] => (parseObsEvName e).elim .unmodelled .fire
  | ["raise", e] => .raise_ (parseExcName e)
  | ["caught", e] => .caught (parseExcName e)
  | ["ret", "none"] => .retNone
  | ["ret", f] => f.toNat?.elim .unmodelled .ret
  | ["uerr"] => .userError
  | ["close"] => .transportClose
  | "send" :: rest => .send (parseSentMsg (join ":" rest))
  | "sendfail" :: _ :: rest => .sendFail (parseSentMsg (join ":" rest)) .other
  | ["done", r] =>
    (match r.splitOn "=" with
     | f :: v :: _ =>
       (match f.toNat? with
        | none => .unmodelled
        | some f =>
          if v.startsWith "reg" then .complete f (.value (.registration ((v.drop 3).toNat?.getD 0)))
          else if v.startsWith "closed" then .complete f (.closed ((v.drop 6).toNat?.getD 0))
          else .complete f (.value .none_))
     | _ => .unmodelled)
  | ["ep", r] =>
    (match r.splitOn "," with
     | [req, obj, h, a, k] =>
       (match req.toNat?, obj.toNat?, h.toNat? with
        | some req, some obj, some h => .endpoint req obj h (((parseArgs a).join).getD []) (parseObsKw (tl k))
        | _, _, _ => .unmodelled)
     | _ => .unmodelled)
  | _ => .unmodelled

def parseObsLine (l : String) : List SOut :=
  if l = "-" then [] else (l.splitOn ";").map parseObsTok

def rHook : Hook → String
  | .onConnect => "onConnect" | .onJoin => "onJoin" | .onLeave => "onLeave" | .onDisconnect => "onDisconnect"
  | .onChallenge => "onChallenge" | .onWelcome => "onWelcome"

def rObsEv : ObsEv → String
  | .connect => "connect" | .join => "join" | .ready => "ready" | .leave => "leave" | .disconnect => "disconnect"

def rViol : Abverif.SessTrace.Viol → String
  | .hookOrder h => "hook-order," ++ rHook h
  | .obsOrder e => "observer-order," ++ rObsEv e
  | .leaveUnexpected => "leave-unexpected"
  | .leaveMissing => "leave-missing"
  | .gate => "gate"
  | .goodbyeTwice => "goodbye-twice"
  | .goodbyeUnanswered => "goodbye-unanswered"
  | .goodbyeEchoed => "goodbye-echoed"
  | .pending f => s!"pending,{f}"
  | .apiAfterEnd => "api-after-end"
  | .replyUnsolicited r => s!"reply-unsolicited,{r}"
  | .noReply r => s!"no-reply,{r}"
  | .lateProgress r => s!"late-progress,{r}"
  | .progressUnasked r => s!"progress-unasked,{r}"
  | .endpointArgs r => s!"endpoint-args,{r}"
  | .invocationNotRejected r => s!"invocation-not-rejected,{r}"
  | .cancelledYields r => s!"cancelled-yields,{r}"

def handleTrace (mode : Sched) (evs : List (List SEv)) (obs : List (List SOut)) : String :=
  -- index violations by token, not by event
  let rec go (i : Nat) (σ : Abverif.SessTrace.Scan) : List (List SEv) → List (List SOut) → List String
    | [], _ => []
    | es :: rest, obs =>
      let o := obs.headD []
      let tr : List (SEv × List SOut) := match es with
        | [] => []
        | [e] => [(e, o)]
        | e :: e2 :: _ => [(e, []), (e2, o)]
      let r := tr.foldl (fun (acc : Abverif.SessTrace.Scan × List Abverif.SessTrace.Viol) x =>
        let r := Abverif.SessTrace.stepCheck mode acc.1 x.1 x.2
        (r.1, acc.2 ++ r.2)) (σ, [])
      r.2.map (fun v => s!"{i}:{rViol v}") ++ go (i + 1) r.1 rest obs.tail
  match go 0 {} evs obs with
  | [] => "ok"
  | l => join " " l

def handle : List String → Option String
  | "sess" :: mode :: evs => do
      let mode ← parseMode mode
      let evs ← evs.mapM parseEv
      pure (join " | " ((runToks (init mode) evs).map rObs))
  | "sessspec" :: mode :: evs => do
      let _ ← parseMode mode
      let evs ← evs.mapM parseEv
      pure (join " | " ((specToks {} evs).map rObs))
  | ["sendtable"] =>
      -- the generated table, row by row (ws/twisted, ws/asyncio, rs/twisted, rs/asyncio) x (unserializable, oversize)
      some (join " " (Transport.all.flatMap (fun t => [Cause.unserializable, Cause.oversize].map (fun c =>
        match sendTable t c with
        | .ok => "ok" | .serialization => "ser" | .payloadExceeded => "big" | .transportLost => "lost" | .other => "other"))))
  | "sesstrace" :: mode :: n :: rest => do
      let mode ← parseMode mode
      let n ← n.toNat?
      if rest.length != 2 * n then none else
      let evs ← (rest.take n).mapM parseEv
      pure (handleTrace mode evs ((rest.drop n).map parseObsLine))
  | _ => none

end Abverif.Drv.Session
