import Abverif.Model.Utf8
namespace Abverif.Drv.Utf8
open Abverif Abverif.Utf8

def resStr (r : Res) : String := s!"{boolStr r.valid} {boolStr r.ends} {r.cur} {r.total}"

def seqStr (x : List Res × St) : String :=
  String.intercalate ";" (x.1.map resStr) ++ s!" | {x.2.state} {x.2.index}"

def decodeAll : List String → Option (List Bytes)
  | [] => some []
  | h :: t => do
      let b ← Hex.decode h
      let r ← decodeAll t
      pure (b :: r)

def stepOf : String → Option (Nat → Nat → Nat)
  | "rfc" => some rfcStep
  | "py" => some pyStep
  | "ctable" => some cTableStep
  | "cunrolled" => some cUnrolledStep
  | _ => none

def parseBool : String → Option Bool
  | "1" => some true
  | "0" => some false
  | _ => none

def parseRes (s : String) : Option Res :=
  match s.splitOn "," with
  | [v, e, c, t] => do
      let v ← parseBool v; let e ← parseBool e; let c ← c.toNat?; let t ← t.toNat?
      pure ⟨v, e, c, t⟩
  | _ => none

def parseResList (s : String) : Option (List Res) :=
  if s = "-" then some [] else (s.splitOn ";").mapM parseRes

/-- one character per verdict of a single call on a fresh validator:
`A` valid and on a code point boundary, `P` valid but inside a code point, digit `i` = invalid with offender index `i`
(`x` if the two indices differ or exceed 9) -/
def verdictChar (r : Res) : Char :=
  if r.valid then (if r.ends then 'A' else 'P')
  else if r.cur = r.total ∧ r.cur < 10 ∧ !r.ends then Char.ofNat (48 + r.cur) else 'x'

/-- all byte strings `pre ++ x`, `x` of length `n`, in lexicographic order -/
def enumChars (f : Bytes → Res) : Nat → Bytes → List Char → List Char
  | 0, pre, acc => verdictChar (f pre) :: acc
  | n + 1, pre, acc =>
    (List.range 256).foldr (fun b acc => enumChars f n (pre ++ [UInt8.ofNat b]) acc) acc

def oneCall (v : St → Bytes → Res × St) (b : Bytes) : Res := (v .init b).1

def validatorOf : String → Option (St → Bytes → Res × St)
  | "spec" => none
  | "py" => some validatePy
  | "rfc" => some validateRfc
  | "nvx1" => some (validateNvx 1)
  | "nvx2" => some (validateNvx 2)
  | "nvx3" => some (validateNvx 3)
  | _ => none

/-- line protocol (bytes as hex, `-` = empty):
  `utf8.wf <h>` · `utf8.alive <h>` · `utf8.spec <h>` (`v e cur total` of one call on a fresh validator, from the grammar)
  `utf8.offender <h> <i>` (is `i` the first offending position of `h`, by the grammar?)
  `utf8.step <rfc|py|ctable|cunrolled> <state> <octet>` · `utf8.row <tbl> <state>` (256 successors)
  `utf8.cells <py|c>` (the raw table) · `utf8.consts`
  `utf8.validate.<py|rfc> <h>…` · `utf8.validate.nvx <impl> <h>…` · `utf8.validate.nvxlegacy <impl> <h>…` (pre-c2c187d5 behaviour)
      → `v e cur total;…;… | state index` (one tuple per call, then the carried state)
  `utf8.judge <v,e,cur,total;…|-> <h>…` → `ok` or `<call>:<reason>` (conformance of reported results with the Spec)
  `utf8.enum <spec|py|rfc|nvx1|nvx2> <n> <prefix>` → one verdict character per string `prefix ++ x`, `|x| = n ≤ 2` -/
def handle : List String → Option String
  | ["utf8.wf", h] => do let b ← Hex.decode h; pure (boolStr (wf b))
  | ["utf8.alive", h] => do let b ← Hex.decode h; pure (boolStr (aliveB b))
  | ["utf8.spec", h] => do let b ← Hex.decode h; pure (resStr (specOne b))
  | ["utf8.offender", h, i] => do let b ← Hex.decode h; let i ← i.toNat?; pure (boolStr (offenderAt b i))
  | ["utf8.step", t, s, o] => do
      let f ← stepOf t; let s ← s.toNat?; let o ← o.toNat?
      pure (toString (f s o))
  | ["utf8.row", t, s] => do
      let f ← stepOf t; let s ← s.toNat?
      pure (String.intercalate "," ((List.range 256).map (fun o => toString (f s o))))
  | ["utf8.cells", "py"] => some (String.intercalate "," ((List.range Gen.tablePyLen).map (fun i => toString (Gen.tablePy i))))
  | ["utf8.cells", "c"] => some (String.intercalate "," ((List.range Gen.tableCLen).map (fun i => toString (Gen.tableC i))))
  | ["utf8.consts"] => some s!"{Gen.pyAccept} {Gen.pyReject} {Gen.cAccept} {Gen.cReject} {Gen.tablePyLen} {Gen.tableCLen} {boolStr Gen.tableLoopGuardsReject} {boolStr Gen.unrolledLoopGuardsReject}"
  | "utf8.validate.py" :: hs => do let cs ← decodeAll hs; pure (seqStr (feed validatePy .init cs))
  | "utf8.validate.rfc" :: hs => do let cs ← decodeAll hs; pure (seqStr (feed validateRfc .init cs))
  | "utf8.validate.nvx" :: impl :: hs => do
      let impl ← impl.toNat?; let cs ← decodeAll hs; pure (seqStr (feed (validateNvx impl) .init cs))
  | "utf8.validate.nvxlegacy" :: impl :: hs => do
      let impl ← impl.toNat?; let cs ← decodeAll hs; pure (seqStr (feed (validateNvxLegacy impl) .init cs))
  | "utf8.judge" :: rs :: hs => do
      let rs ← parseResList rs; let cs ← decodeAll hs
      match judge [] 0 cs rs with
      | none => pure "ok"
      | some (k, why) => pure s!"{k}:{why.key}"
  | ["utf8.enum", which, n, pre] => do
      let n ← n.toNat?; let pre ← Hex.decode pre
      if n > 2 then none
      else
        let f ← (if which = "spec" then some specOne else (validatorOf which).map oneCall)
        pure (String.ofList (enumChars f n pre []))
  | _ => none

end Abverif.Drv.Utf8
