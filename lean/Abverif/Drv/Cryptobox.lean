import Abverif.Model.Cryptobox
namespace Abverif.Drv.Cryptobox
open Abverif Abverif.Cryptobox

/-! line protocol of the C20 model, instantiated with the toy box (keys = tokens; a ciphertext is a record of what was
sealed, or garbage) — the abstract laws hold for it (Proofs/C20 `toy_laws`).

ring     `~`  (no payload codec)  |  `<default>/<entries>`
           default = `~` | `<o>+<r>`            (originator box key token / responder box key token, `-` = no box)
           entries = `-` | `;`-separated `<prefix>=<o>+<r>` (set_key) or `<prefix>=~` (set_key(prefix, None))
tamper   `none` | `garble` (payload replaced by something never sealed) | `algo` (enc_algo := another valid identifier) |
         `ser` (enc_serializer := another valid identifier) | `swap:<uri>` (payload delivered under this
           envelope URI instead)

`cb.box <ring> <o|r> <uri> <exact 0|1>`                          → key token or `-`
`cb.flow pub   <ringA> <ringB> <uri> <bad> <tamper>`             → `S=<sent> R=<event outcome>`
`cb.flow call  <ringA> <ringB> <uri> <bad> <tamper>`             → `S=<sent> I=<invocation outcome> E=<error sent> O=<call outcome>`
`cb.flow yield <ringA> <ringB> <uri> <bad> <tamper>`             → `S= I= Y=<yield sent> O=<call outcome>`   (`bad` = the RESULT value)
`cb.flow error <ringA> <ringB> <uri> <bad> <tamper> <errorUri> [<mapped>]`  → `S= I= E=<error sent> O=<call outcome>`  (`bad` = the ERROR args)
   mapped: the CALLER's error URI → class registry, `-` | `;`-separated `<uri>=<cls>:<any|noargs>`
   sent: `raised` | `clear` | `sealed` | `-` (leg not reached)
   event / invocation outcome: `invoked:<args>:<kwargs>:<enc 0|1>` | `ignored:<err>` | `encerror:<err>`
   call outcome: `result:<args>:<kwargs>` | `apperror:<uri>:<args>:<kwargs>` | `usererror:<cls>:<args>:<kwargs>` | `encfailed:<err>` | `-`
   payload values are the fixed tokens args=`a` (or `BAD`: not serialisable by the inner codec), kwargs=`k`
-/

abbrev TB := Toy.box String Nat (Inner String String)
abbrev M := AppPayload String String (Toy.Ct String Nat (Inner String String))

def tbox : Box String Nat (Inner String String) (Toy.Ct String Nat (Inner String String)) := Toy.box String Nat (Inner String String)
def tcodec : InnerCodec String String (Inner String String) := Toy.codec String String (fun a _ => a == some "BAD")

/-- the fixed texts: the harness folds every non-marker string to the token `text` -/
def notes : Notes String := { resultNotEncrypted := "text", errorArgsNotSent := "text", errorNotEncodable := "text" }

def parseKeyTok (s : String) : Option String := if s = "-" then none else some s

def parseKey (s : String) : Option (Key String) :=
  match s.splitOn "+" with
  | [o, r] => some { originatorBox := parseKeyTok o, responderBox := parseKeyTok r }
  | _ => none

def parseRing (s : String) : Option (Codec String) :=
  if s = "~" then some none
  else match s.splitOn "/" with
    | [d, es] => do
        let dk ← (if d = "~" then some none else (parseKey d).map some)
        let entries ← (if es = "-" then some [] else (es.splitOn ";").mapM (fun e => match e.splitOn "=" with
          | [p, k] => if k = "~" then some (p.toList, (none : Option (Key String)))
                      else do let k ← parseKey k; pure (p.toList, some k)
          | _ => none))
        -- entries are installed with `set_key`, in order (`<prefix>=~` deletes)
        let ring : KeyRing String := entries.foldl (fun r e => r.setKey e.1 e.2) { keys := [], default := dk }
        pure (some ring)
    | _ => none

inductive Tamper
  | none | garble | swap (u : Uri) | algo | ser

def parseTamper (s : String) : Option Tamper :=
  if s = "none" then some .none
  else if s = "garble" then some .garble
  else if s = "algo" then some .algo
  else if s = "ser" then some .ser
  else match s.splitOn ":" with
    | ["swap", u] => some (.swap u.toList)
    | _ => Option.none

def boolStr (b : Bool) : String := if b then "1" else "0"

def errName : EncErr → String
  | .noPayloadCodec => "no_payload_codec"
  | .decryptError => "decrypt_error"
  | .trustedUriMismatch => "trusted_uri_mismatch"

def o2s (o : Option String) : String := o.getD "~"

def sentStr : Sent M → String
  | .raised => "raised"
  | .msg m => if m.payload.isSome then "sealed" else "clear"

def msgStr (m : M) : String := if m.payload.isSome then "sealed" else "clear"

def applyTamper (t : Tamper) (env : Uri) (m : M) : Uri × M :=
  match t with
  | .none => (env, m)
  | .garble => (env, if m.payload.isSome then { m with payload := some (.garbage 0) } else m)
  | .swap u => (u, m)
  | .algo => (env, if m.payload.isSome then { m with encAlgo := some .other } else m)
  | .ser => (env, if m.payload.isSome then { m with encSerializer := some .other } else m)

def evStr : EventOut String String → String
  | .invoked a k e => s!"invoked:{o2s a}:{o2s k}:{boolStr e}"
  | .ignored e => s!"ignored:{errName e}"

def invStr : InvOut String String → String
  | .invoked a k e => s!"invoked:{o2s a}:{o2s k}:{boolStr e}"
  | .encError e => s!"encerror:{errName e}"

def callStr : CallOut String String → String
  | .result a k => s!"result:{o2s a}:{o2s k}"
  | .appError u a k => s!"apperror:{String.ofList u}:{o2s a}:{o2s k}"
  | .userError c a k => s!"usererror:{c}:{o2s a}:{o2s k}"
  | .encFailed e => s!"encfailed:{errName e}"

def argTok (bad : String) : Option String := if bad = "1" then some "BAD" else some "a"

/-- caller-side registry token: `-` | `;`-separated `<uri>=<cls>:<any|noargs>` -/
def parseMapped (s : String) : Option (List (Uri × String × String)) :=
  if s = "-" then some [] else (s.splitOn ";").mapM (fun e => match e.splitOn "=" with
    | [u, ck] => match ck.splitOn ":" with
      | [c, k] => some (u.toList, c, k)
      | _ => none
    | _ => none)

def mappedOf (tbl : List (Uri × String × String)) (u : Uri) : Option String :=
  match (tbl.find? (fun e => e.1 = u)).map (fun e => e.2.1) with
  | some c => some c
  | none => defaultMapped u

def ctorOkOf (tbl : List (Uri × String × String)) (c : String) (a : Option String) (k : Option String) : Bool :=
  match tbl.find? (fun e => e.2.1 = c) with
  | some e => if e.2.2 = "noargs" then a.isNone && k.isNone else true
  | none => true

def flow (dir : String) (rA rB : Codec String) (u : Uri) (bad : String) (t : Tamper) (eu : Uri)
    (mp : List (Uri × String × String) := []) : Option String :=
  let kw : Option String := some "k"
  if dir = "pub" then
    let s := originate tbox tcodec rA u (argTok bad) kw 0
    match s with
    | .raised => some s!"S=raised R=-"
    | .msg m =>
      let (env, m') := applyTamper t u m
      some s!"S={msgStr m} R={evStr (onEvent tbox tcodec rB env m')}"
  else if dir = "call" then
    let s := originate tbox tcodec rA u (argTok bad) kw 0
    match s with
    | .raised => some s!"S=raised I=- E=- O=-"
    | .msg m =>
      let (env, m') := applyTamper t u m
      let i := onInvocation tbox tcodec rB env m'
      match i with
      | .invoked _ _ _ => some s!"S={msgStr m} I={invStr i} E=- O=-"
      | .encError e =>
        -- ApplicationError(ENC_…, <text>) through `_message_from_exception`: args = [text], no kwargs
        let er := errorMsg tbox tcodec notes rB false e.uri (some "text") none 1
        match er with
        | .raised => some s!"S={msgStr m} I={invStr i} E=raised O=-"
        | .msg em => some s!"S={msgStr m} I={invStr i} E={msgStr em} O={callStr (onError tbox tcodec rA e.uri em)}"
  else if dir = "yield" then
    -- `swap:<u2>`: the observed call goes to u2; its RESULT gets the payload of a RESULT of an earlier call to `u`
    -- (when both are sealed)
    let target : Uri := match t with | .swap u2 => u2 | _ => u
    let s := originate tbox tcodec rA target (some "a") kw 0
    match s with
    | .raised => some s!"S=raised I=- Y=- O=-"
    | .msg m =>
      let i := onInvocation tbox tcodec rB target m
      match i with
      | .encError _ => some s!"S={msgStr m} I={invStr i} Y=- O=-"
      | .invoked _ _ enc =>
        match yieldReply tbox tcodec notes rB enc target (argTok bad) none 1 with
        | .error eu em =>
          -- the result could not be sealed: an ERROR instead (the RESULT faults do not apply to it)
          some s!"S={msgStr m} I={invStr i} Y=error:{String.ofList eu} O={callStr (onErrorMapped tbox tcodec rA (mappedOf []) (ctorOkOf []) eu em)}"
        | .yield y =>
          let y' : M := match t with
            | .none => y
            | .garble => if y.payload.isSome then { y with payload := some (.garbage 0) } else y
            | .algo => if y.payload.isSome then { y with encAlgo := some .other } else y
            | .ser => if y.payload.isSome then { y with encSerializer := some .other } else y
            | .swap _ =>
              match originate tbox tcodec rA u (some "a") kw 0 with
              | .raised => y
              | .msg m1 =>
                match onInvocation tbox tcodec rB u m1 with
                | .encError _ => y
                | .invoked _ _ enc1 =>
                  match yieldReply tbox tcodec notes rB enc1 u (some "a") none 1 with
                  | .yield y1 => if y1.payload.isSome ∧ y.payload.isSome then { y with payload := y1.payload } else y
                  | .error _ _ => y
          some s!"S={msgStr m} I={invStr i} Y={msgStr y} O={callStr (onResult tbox tcodec rA target y')}"
  else if dir = "error" then
    let s := originate tbox tcodec rA u (some "a") kw 0
    match s with
    | .raised => some s!"S=raised I=- E=- O=-"
    | .msg m =>
      let i := onInvocation tbox tcodec rB u m
      match i with
      | .encError _ => some s!"S={msgStr m} I={invStr i} E=- O=-"
      | .invoked _ _ enc =>
        match invocationErrorReply tbox tcodec notes rB enc eu (argTok bad) kw 1 with
        | .yield _ => none
        | .error ru em =>
          let (env, em') := applyTamper t ru em
          some s!"S={msgStr m} I={invStr i} E={msgStr em} O={callStr (onErrorMapped tbox tcodec rA (mappedOf mp) (ctorOkOf mp) env em')}"
  else none

def handle : List String → Option String
  | ["cb.box", ring, role, u, exact] => do
      let r ← parseRing ring
      let isO ← (if role = "o" then some true else if role = "r" then some false else none)
      match r with
      | none => pure "-"
      | some ring => pure ((getBox ring isO u.toList (exact = "1")).getD "-")
  | ["cb.flow", dir, rA, rB, u, bad, t] => do
      let a ← parseRing rA; let b ← parseRing rB; let t ← parseTamper t
      flow dir a b u.toList bad t []
  | ["cb.flow", dir, rA, rB, u, bad, t, eu] => do
      let a ← parseRing rA; let b ← parseRing rB; let t ← parseTamper t
      flow dir a b u.toList bad t eu.toList
  | ["cb.flow", dir, rA, rB, u, bad, t, eu, mp] => do
      let a ← parseRing rA; let b ← parseRing rB; let t ← parseTamper t; let mp ← parseMapped mp
      flow dir a b u.toList bad t eu.toList mp
  | _ => none

end Abverif.Drv.Cryptobox
