import Abverif.Model.RawSocket
namespace Abverif.Drv.RawSocket
open Abverif Abverif.RawSocket

def parseVariant : String → Option Variant
  | "t" => some .twisted | "a" => some .asyncio | _ => none

def parseRole : String → Option Role
  | "s" => some .server | "c" => some .client | _ => none

/-- comma separated naturals, `-` = empty -/
def parseNats (s : String) : Option (List Nat) :=
  if s = "-" then some [] else (s.splitOn ",").mapM (·.toNat?)

def parseExc : String → Option Exc
  | "TransportLost" => some .transportLost
  | "NotImplementedError" => some .notImplemented
  | "PayloadExceededError" => some .payloadExceeded
  | "ValueError" => some .valueError
  | "SerializationError" => some .serializationError
  | "ProtocolError" => some .protocolError
  | "InvalidUriError" => some .invalidUri
  | "CancelledError" => some .cancelled
  | "Exception" => some .other
  | _ => none

def optNat : Option Nat → String
  | some n => toString n | none => "none"

def showHs (o : HsOut) : String :=
  s!"acc={boolStr o.accepted} ser={o.ser} maxsend={optNat o.maxSend} wr={Hex.render o.written} " ++
  s!"tr={o.tclose.name} exc={match o.exc with | some e => e.name | none => "-"}"

def showEv : Ev → String
  | .written b => s!"W:{Hex.render b}"
  | .attach s m => s!"A:{s}:{m}"
  | .string p => s!"S:{Hex.render p}"
  | .tclose k => s!"C:{k.name}"
  | .raised e => s!"X:{e.name}"

/-- consecutive writes are shown as one (the harness cannot tell where one `transport.write` ends and the next begins) -/
def joinWrites : List Ev → List Ev
  | .written a :: .written b :: rest => joinWrites (.written (a ++ b) :: rest)
  | e :: rest => e :: joinWrites rest
  | [] => []
termination_by l => l.length

def showEvs (l : List Ev) : String :=
  if l.isEmpty then "-" else ";".intercalate ((joinWrites l).map showEv)

def showPSt : Option PSt → String
  | some p => s!"buf={Hex.render p.buf} hdr={match p.hdr with | some (k, l) => s!"{k}/{l}" | none => "-"}"
  | none => "dead"

def showPhase : Phase → String
  | .handshake acc => s!"hs:{Hex.render acc}"
  | .established p => s!"est:{p.buf.length}"
  | .dead => "dead"

def get4 : Bytes → Option (UInt8 × UInt8 × UInt8 × UInt8)
  | [a, b, c, d] => some (a, b, c, d)
  | _ => none

def framingFor (v : Variant) (maxRecv : Nat) : Framing :=
  match v with | .twisted => twFraming maxRecv | .asyncio => aioFraming maxRecv

/-- line protocol (all byte strings hex, `-` = empty):
  `rs.hs <t|a> <s|c> <supported> <exp> <hex4>`                        model of one complete handshake
  `rs.spec <t|a> <supported> <hex4>`                                  Spec: acceptable?
  `rs.conn <t|a> <s|c> <supported> <exp> <maxRecv> <chunk>*`          connection fed read by read
  `rs.frames <t|a> <maxRecv> <chunk>*`                                framing only
  `rs.parse <t|a> <maxRecv> <stream>`                                 Spec: whole-stream parse
  `rs.sendguard <t|a> <maxLenSend> <len>` / `rs.sendstring <maxLenSend> <len>` / `rs.sendspec <peerMax> <len>`
  `rs.exp <size>`  `rs.maxlen <n>`  `rs.request <t|a> <exp> <ser>`  `rs.ladder <t|a> <Exc>`  `rs.life <a|l>*` -/
def handle : List String → Option String
  | ["rs.hs", v, r, sup, exp, h] => do
      let v ← parseVariant v; let r ← parseRole r; let sup ← parseNats sup; let exp ← exp.toNat?
      let (a, b, c, d) ← (Hex.decode h).bind get4
      pure (showHs (hsEval ⟨v, r, sup, exp, 0⟩ a b c d))
  | ["rs.spec", v, sup, h] => do
      let v ← parseVariant v; let sup ← parseNats sup
      let (a, b, c, d) ← (Hex.decode h).bind get4
      pure (boolStr (decide (acceptSpec v sup a b c d)))
  | "rs.conn" :: v :: r :: sup :: exp :: mr :: chunks => do
      let v ← parseVariant v; let r ← parseRole r; let sup ← parseNats sup; let exp ← exp.toNat?
      let mr ← mr.toNat?
      let cs ← chunks.mapM Hex.decode
      let (ph, evs) := connFeedAll ⟨v, r, sup, exp, mr⟩ Phase.init cs
      pure s!"{showEvs evs} {showPhase ph}"
  | "rs.frames" :: v :: mr :: chunks => do
      let v ← parseVariant v; let mr ← mr.toNat?
      let cs ← chunks.mapM Hex.decode
      let (p, evs) := feedAll (framingFor v mr) (some PSt.init) cs
      pure s!"{showEvs evs} {showPSt p}"
  | ["rs.parse", v, mr, s] => do
      let v ← parseVariant v; let mr ← mr.toNat?; let s ← Hex.decode s
      let (evs, rest) := parseStream (framingFor v mr) s
      pure s!"{showEvs evs} {match rest with | some r => s!"rest={r.length}" | none => "refused"}"
  | ["rs.sendguard", v, m, n] => do
      let v ← parseVariant v; let m ← m.toNat?; let n ← n.toNat?
      pure (match sendGuard v m n with
        | some e => s!"error {e.name}"
        | none => s!"sent {Hex.render (be32enc n)}")
  | ["rs.sendstring", m, n] => do
      let m ← m.toNat?; let n ← n.toNat?
      pure (match aioSendStringGuard m n with
        | some e => s!"error {e.name}"
        | none => s!"sent {Hex.render (be32enc n)}")
  | ["rs.sendspec", m, n] => do
      let m ← m.toNat?; let n ← n.toNat?
      pure (match sendGuardSpec m n with
        | some e => s!"error {e.name}"
        | none => s!"sent {Hex.render (frameHeader 0 n)}")
  | ["rs.exp", n] => do
      let n ← n.toNat?
      pure s!"{twAnnounceExp n} {twMaxRecv n}"
  | ["rs.maxlen", n] => do
      let n ← n.toNat?
      pure (toString (maxLenOfExp n))
  | ["rs.request", v, e, s] => do
      let v ← parseVariant v; let e ← e.toNat?; let s ← s.toNat?
      pure (match clientRequest v e s with | some b => Hex.render b | none => "ValueError")
  | ["rs.ladder", v, e] => do
      let v ← parseVariant v; let e ← parseExc e
      pure (match ladder v e with | .carryOn => "carryOn" | .abort => "abort")
  | "rs.life" :: evs => do
      let evs ← evs.mapM (fun | "a" => some LEv.attach | "l" => some LEv.lost | _ => none)
      let s := lrun ⟨false, 0⟩ evs
      pure s!"{s.told} {boolStr s.session}"
  | _ => none

end Abverif.Drv.RawSocket
