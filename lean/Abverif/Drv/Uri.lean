import Abverif.Model.Basic
import Abverif.Model.Uri
namespace Abverif.Drv.Uri
open Abverif Abverif.Rx

def mkChar (n : Nat) : Option Char :=
  if h : n.isValidChar then some (Char.ofNatAux n h) else none

def cont (b : UInt8) : Option Nat :=
  if b &&& 0xC0 == 0x80 then some (b.toNat % 64) else none

/-- strict UTF-8 decoder (fuel = number of bytes) -/
def utf8Go : Nat → Bytes → Option (List Char)
  | _, [] => some []
  | 0, _ => none
  | fuel + 1, b0 :: rest =>
    if b0 < 0x80 then do
      let c ← mkChar b0.toNat
      let r ← utf8Go fuel rest
      pure (c :: r)
    else if b0 &&& 0xE0 == 0xC0 then
      match rest with
      | b1 :: rest => do
        let x1 ← cont b1
        let n := (b0.toNat % 32) * 64 + x1
        if n < 0x80 then none else
        let c ← mkChar n
        let r ← utf8Go fuel rest
        pure (c :: r)
      | _ => none
    else if b0 &&& 0xF0 == 0xE0 then
      match rest with
      | b1 :: b2 :: rest => do
        let x1 ← cont b1
        let x2 ← cont b2
        let n := ((b0.toNat % 16) * 64 + x1) * 64 + x2
        if n < 0x800 then none else
        let c ← mkChar n
        let r ← utf8Go fuel rest
        pure (c :: r)
      | _ => none
    else if b0 &&& 0xF8 == 0xF0 then
      match rest with
      | b1 :: b2 :: b3 :: rest => do
        let x1 ← cont b1
        let x2 ← cont b2
        let x3 ← cont b3
        let n := (((b0.toNat % 8) * 64 + x1) * 64 + x2) * 64 + x3
        if n < 0x10000 then none else
        let c ← mkChar n
        let r ← utf8Go fuel rest
        pure (c :: r)
      | _ => none
    else none

def text (hex : String) : Option (List Char) := do
  let bs ← Hex.decode hex
  utf8Go bs.length bs

def flag (s : String) : Option Bool :=
  if s = "1" then some true else if s = "0" then some false else none

/-- line protocol (the text argument is the hex of its UTF-8 bytes, `-` for the empty string):
  `uri.check <strict> <allowEmpty> <allowLastEmpty> <hexutf8>`  the generated pattern selected as in check_or_raise_uri
  `uri.spec <strict> <allowEmpty> <allowLastEmpty> <hexutf8>`   the intended grammar
  `uri.pat <PATTERN_NAME> <hexutf8>`                             any of the generated patterns
  `uri.patspec <PATTERN_NAME> <hexutf8>`                         intended grammar of that pattern
  `uri.src <PATTERN_NAME>`                                       hex of the UTF-8 of the generated `_src` string
  `uri.isdigit <cp>` / `uri.isspace <cp>`                        `\d` / `\s` of `re` on that code point -/
def handle : List String → Option String
  | ["uri.check", s, ae, ale, t] => do
      let s ← flag s; let ae ← flag ae; let ale ← flag ale; let t ← text t
      pure (boolStr (Abverif.Uri.check s ae ale t))
  | ["uri.spec", s, ae, ale, t] => do
      let s ← flag s; let ae ← flag ae; let ale ← flag ale; let t ← text t
      pure (boolStr (Abverif.Uri.Spec.ok s ae ale t))
  | ["uri.pat", name, t] => do
      let p ← allPatterns.lookup name; let t ← text t
      pure (boolStr (p.matches t))
  | ["uri.patspec", name, t] => do
      let t ← text t
      let f ← (([("_URI_PAT_REALM_NAME", Abverif.Uri.Realm.Spec.name),
                 ("_URI_PAT_REALM_NAME_ETH", Abverif.Uri.Realm.Spec.eth),
                 ("_URI_PAT_REALM_NAME_ENS", Abverif.Uri.Realm.Spec.ens),
                 ("_URI_PAT_REALM_NAME_ENS_REVERSE", Abverif.Uri.Realm.Spec.ensReverse),
                 ("_URI_PAT_STRICT_EMPTY", Abverif.Uri.Spec.ok true true false),
                 ("_URI_PAT_LOOSE_EMPTY", Abverif.Uri.Spec.ok false true false),
                 ("_URI_PAT_STRICT_NON_EMPTY", Abverif.Uri.Spec.ok true false false),
                 ("_URI_PAT_LOOSE_NON_EMPTY", Abverif.Uri.Spec.ok false false false),
                 ("_URI_PAT_STRICT_LAST_EMPTY", Abverif.Uri.Spec.ok true false true),
                 ("_URI_PAT_LOOSE_LAST_EMPTY", Abverif.Uri.Spec.ok false false true),
                 ("_CUSTOM_ATTRIBUTE", Abverif.Uri.CustomAttr.Spec.ok)] :
                List (String × (List Char → Bool))).lookup name)
      pure (boolStr (f t))
  | ["uri.src", name] => do
      let s ← allSources.lookup name
      pure (Hex.render s.toUTF8.toList)
  | ["uri.isdigit", cp] => do
      let n ← cp.toNat?; let c ← mkChar n
      pure (boolStr (isDigit c))
  | ["uri.isspace", cp] => do
      let n ← cp.toNat?; let c ← mkChar n
      pure (boolStr (isSpace c))
  | _ => none

end Abverif.Drv.Uri
