import Abverif.Model.Auth
namespace Abverif.Drv.Auth
open Abverif Abverif.Crypto Abverif.Auth

/-- ASCII octets as a token (`-` when empty) -/
def text (bs : Bytes) : String :=
  if bs.isEmpty then "-" else String.ofList (bs.map (fun b => Char.ofNat b.toNat))

def exc {α} (f : α → String) : Except Err α → String
  | .ok a => "ok " ++ f a
  | .error e => "err " ++ e.name

def optBytes (s : String) : Option (Option Bytes) :=
  if s = "none" then some none else (Hex.decode s).map some

def binding (s : String) : Option Cryptosign.Binding :=
  if s = "none" then some .none else if s = "tls-unique" then some .tlsUnique else if s = "other" then some .other else none

def int? (s : String) : Option Int :=
  if s.startsWith "-" then (s.drop 1).toNat?.map (fun n => - (n : Int)) else s.toNat?.map (fun n => (n : Int))

/-- a `str` argument of the line protocol: its code points in decimal, separated by `.` (`-` = empty) -/
def cps (s : String) : Option Auth.Text :=
  if s = "-" then some [] else (s.splitOn ".").mapM String.toNat?

/-- line protocol (every byte-string argument is hex, `-` = empty; text arguments are the hex of their octets,
`str` arguments that may hold any character — marked `:cps` — are code point lists as read by `cps`):
  `auth.sha1 m` `auth.sha256 m` `auth.hmac1 k m` `auth.hmac256 k m`
  `auth.pbkdf2 pw salt iters dklen` `auth.pbkdf2sha1 pw salt iters dklen`
  `auth.b64 x` `auth.b64d text` `auth.b32 x` `auth.b32d text` `auth.hex x` `auth.hexd text`
  `auth.wcs key challenge` `auth.derive secret salt iters keylen` `auth.cra secret challenge [salt iters keylen]`
  `auth.totp key counter` `auth.totpat secret now offset` `auth.totpcheck secret now ticket`
  `auth.utf8 text:cps`
  `auth.scram.am authid:cps cnonce:cps snonce:cps salt:cps iters cbind:cps`
  `auth.scram.proof sp authid:cps cnonce:cps snonce:cps salt:cps iters cbind:cps`   (sp = KDF output, given)
  `auth.scram.kdf pbkdf2 password salt:cps iters`   (SaltedPassword of the PBKDF2 flavour)
  `auth.scram.welcome sp am alleged` `auth.scram.verify storedkey am proof`
  `auth.xor a b`
  `auth.cryptosign.data challengeText cid|none none|tls-unique|other`
  `auth.cryptosign.answer sig challengeText cid|none binding` -/
def handle : List String → Option String
  | ["auth.sha1", m] => do let m ← Hex.decode m; pure (Hex.render (Sha1.hash m))
  | ["auth.sha256", m] => do let m ← Hex.decode m; pure (Hex.render (Sha256.hash m))
  | ["auth.hmac1", k, m] => do let k ← Hex.decode k; let m ← Hex.decode m; pure (Hex.render (Hmac.sha1 k m))
  | ["auth.hmac256", k, m] => do let k ← Hex.decode k; let m ← Hex.decode m; pure (Hex.render (Hmac.sha256 k m))
  | ["auth.pbkdf2", p, s, c, l] => do
      let p ← Hex.decode p; let s ← Hex.decode s; let c ← c.toNat?; let l ← l.toNat?
      pure (exc Hex.render (Cra.pbkdf2 p s c l))
  | ["auth.pbkdf2sha1", p, s, c, l] => do
      let p ← Hex.decode p; let s ← Hex.decode s; let c ← c.toNat?; let l ← l.toNat?
      if c = 0 then none else pure ("ok " ++ Hex.render (Pbkdf2.hmacSha1 p s c l))
  | ["auth.b64", x] => do let x ← Hex.decode x; pure (text (Base64.encode x))
  | ["auth.b64d", t] => do
      let t ← Hex.decode t
      pure (match Base64.decodeStr t with
        | .ok b => "ok " ++ Hex.render b
        | .binasciiError => "err Error"
        | .valueError => "err ValueError")
  | ["auth.b32", x] => do let x ← Hex.decode x; pure (text (Base32.encode x))
  | ["auth.b32d", t] => do
      let t ← Hex.decode t
      pure (match Base32.pyDecode t with | some b => "ok " ++ Hex.render b | none => "err Error")
  | ["auth.hex", x] => do let x ← Hex.decode x; pure (text (HexText.encode x))
  | ["auth.hexd", t] => do
      let t ← Hex.decode t
      pure (match HexText.decode t with | some b => "ok " ++ Hex.render b | none => "err Error")
  | ["auth.wcs", k, c] => do let k ← Hex.decode k; let c ← Hex.decode c; pure (text (Cra.sign k c))
  | ["auth.derive", p, s, c, l] => do
      let p ← Hex.decode p; let s ← Hex.decode s; let c ← c.toNat?; let l ← l.toNat?
      pure (exc text (Cra.deriveKey p s c l))
  | ["auth.cra", sec, ch] => do
      let sec ← Hex.decode sec; let ch ← Hex.decode ch
      pure (exc text (Cra.onChallenge sec none ch))
  | ["auth.cra", sec, ch, s, c, l] => do
      let sec ← Hex.decode sec; let ch ← Hex.decode ch
      let s ← Hex.decode s; let c ← c.toNat?; let l ← l.toNat?
      pure (exc text (Cra.onChallenge sec (some ⟨s, c, l⟩) ch))
  | ["auth.totp", k, c] => do let k ← Hex.decode k; let c ← c.toNat?; pure (text (Totp.compute k c))
  | ["auth.totpat", s, now, off] => do
      let s ← Hex.decode s; let now ← now.toNat?; let off ← int? off
      pure (exc text (Totp.computeAt s now off))
  | ["auth.totpcheck", s, now, t] => do
      let s ← Hex.decode s; let now ← now.toNat?; let t ← Hex.decode t
      pure (exc boolStr (Totp.check s now t))
  | ["auth.utf8", t] => do let t ← cps t; pure (exc Hex.render (Auth.encodeUtf8 t))
  | ["auth.scram.am", a, cn, sn, s, i, cb] => do
      let a ← cps a; let cn ← cps cn; let sn ← cps sn; let s ← cps s
      let i ← i.toNat?; let cb ← cps cb
      pure (exc Hex.render (Scram.authMessage a cn ⟨sn, s, i, cb⟩))
  | ["auth.scram.kdf", "pbkdf2", pw, s, i] => do
      let pw ← Hex.decode pw; let s ← cps s; let i ← i.toNat?
      pure (exc Hex.render (Scram.saltedPassword (fun _ _ _ _ => .error .runtimeError) .pbkdf2 pw s.clip i))
  | ["auth.scram.proof", sp, a, cn, sn, s, i, cb] => do
      let sp ← Hex.decode sp
      let a ← cps a; let cn ← cps cn; let sn ← cps sn; let s ← cps s
      let i ← i.toNat?; let cb ← cps cb
      pure (exc (fun (r : Bytes × Scram.Session) =>
          s!"{text r.1} {Hex.render (Scram.serverSignature Scram.sha256Prims r.2.saltedPassword r.2.authMessage)}")
        (Scram.onChallenge Scram.sha256Prims a cn ⟨sn, s, i, cb⟩ sp))
  | ["auth.scram.welcome", sp, am, al] => do
      let sp ← Hex.decode sp; let am ← Hex.decode am; let al ← Hex.decode al
      pure (match Scram.onWelcome Scram.sha256Prims ⟨sp, am⟩ al with
        | .accept => "accept"
        | .reject => "reject"
        | .raised e => "raised " ++ e.name)
  | ["auth.scram.verify", sk, am, pr] => do
      let sk ← Hex.decode sk; let am ← Hex.decode am; let pr ← Hex.decode pr
      pure (boolStr (Scram.serverVerify Scram.sha256Prims sk am pr))
  | ["auth.xor", a, b] => do
      let a ← Hex.decode a; let b ← Hex.decode b
      pure (exc Hex.render (Auth.xor a b))
  | ["auth.cryptosign.data", ch, cid, b] => do
      let ch ← Hex.decode ch; let cid ← optBytes cid; let b ← binding b
      pure (exc Hex.render (Cryptosign.format ch cid b))
  | ["auth.cryptosign.answer", sig, ch, cid, b] => do
      let sig ← Hex.decode sig; let ch ← Hex.decode ch; let cid ← optBytes cid; let b ← binding b
      pure (exc text (Cryptosign.signChallenge (fun _ => sig) ch cid b))
  | _ => none

end Abverif.Drv.Auth
