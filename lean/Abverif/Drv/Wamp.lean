import Abverif.Model.WampInst
import Abverif.Model.SchemaSpec
import Abverif.Model.WValCodec
import Abverif.Model.Batch
/-
Line protocol for the WAMP message model (C03, C08).  Values travel as ONE token (Model/WValCodec.lean).

  wamp.parse <wval>            → ok <Class> <marshal(m) as wval> <fields of m as dict wval>  |  err <ExceptionClass> <site>
  wamp.marshal <Class> <dict>  → <wval>            (Schema.marshal of the message with these fields)
  wamp.rt <Class> <dict>       → like wamp.parse applied to the marshalled message
  wamp.spec <wval>             → clean <Class> | viol <Class> field:reason,… | reject <ExceptionClass>   (C08 Spec verdict)
  wamp.valid <Class> <dict>    → two bits: Schema.strict, Schema.residual of the message with these fields
  wamp.lengths <Class>         → admissible len(wmsg), comma separated
  wamp.fields <Class>          → field names, comma separated
  wamp.code <Class>            → type code
  wamp.rolefeatures            → the regenerated role feature table  role:f1,f2;role:…
  wamp.rolesaccept hello|welcome <wval> → 1/0: does the Spec (rolesAccept) accept this `roles` value
  wamp.typemap                 → the regenerated MESSAGE_TYPE_MAP as code:Class,…
  wamp.binary                  → the regenerated BINARY flags as name:0|1,…
  wamp.speccode <Class>        → the WAMP protocol's type code of the class (spec table, not regenerated)
  batch.json <hex,hex,…>       → hex            unbatch.json <hex> → ok <hex,hex,…> | err <kind>
  batch.bin  <hex,hex,…>       → hex            unbatch.bin  <hex> → ok <hex,hex,…> | err <kind>
  (`-` = empty octet string, `.` = empty list)
-/
namespace Abverif.Drv.Wamp
open Abverif Abverif.Wamp

def str (s : Str) : String := String.ofList s

def findSchema (n : String) : Option Schema := all25.find? (fun σ => σ.name == n.toList)

def outParse (σ : Schema) : Except Err Msg → String
  | .ok m => s!"ok {str σ.name} {Codec.encode (.list (σ.marshal m))} {Codec.encode (.dict m)}"
  | .error e => s!"err {e.cls.name} {str e.site}"

def hexList (s : String) : Option (List Bytes) :=
  if s == "." then some [] else (s.splitOn ",").mapM Hex.decode

def renderHexList (ms : List Bytes) : String :=
  if ms.isEmpty then "." else ",".intercalate (ms.map Hex.render)

def batchErr : Batch.BatchErr → String
  | .empty => "empty" | .prefixShort => "prefixShort" | .dataShort => "dataShort" | .trailing => "trailing"

def handle : List String → Option String
  | ["wamp.parse", t] => do
      let v ← Codec.decode t
      match unserializeOne oracles v with
      | .ok (σ, m) => pure (outParse σ (.ok m))
      | .error e => pure s!"err {e.cls.name} {str e.site}"
  | ["wamp.spec", t] => do
      -- the Spec's verdict on an accepted input: `reject` if the model does not accept it, else the list of
      -- fields that C08 says must not have been accepted (`clean` if none)
      let v ← Codec.decode t
      match unserializeOne oracles v with
      | .ok (σ, m) =>
          let vs := σ.specViolations Uri.Spec.ok m
          if vs.isEmpty then pure s!"clean {str σ.name}"
          else pure s!"viol {str σ.name} {",".intercalate (vs.map (fun fr => str fr.1 ++ ":" ++ str fr.2))}"
      | .error e => pure s!"reject {e.cls.name}"
  | ["wamp.valid", c, t] => do
      let σ ← findSchema c
      let v ← Codec.decode t
      match v with
      | .dict m => pure s!"{boolStr (σ.strict oracles m)}{boolStr (σ.residual oracles m)}"
      | _ => none
  | ["wamp.marshal", c, t] => do
      let σ ← findSchema c
      let v ← Codec.decode t
      match v with
      | .dict m => pure (Codec.encode (.list (σ.marshal m)))
      | _ => none
  | ["wamp.rt", c, t] => do
      let σ ← findSchema c
      let v ← Codec.decode t
      match v with
      | .dict m => pure (outParse σ (σ.parse oracles (σ.marshal m)))
      | _ => none
  | ["wamp.lengths", c] => do
      let σ ← findSchema c
      pure (",".intercalate (σ.lengths.map toString))
  | ["wamp.fields", c] => do
      let σ ← findSchema c
      pure (",".intercalate (σ.fieldNames.map str))
  | ["wamp.speccode", c] => do
      let e ← specCodes.find? (fun e => e.1 == c.toList)
      pure (toString e.2)
  | ["wamp.binary"] =>
      pure (",".intercalate (Generated.WampCodes.serializerBinary.map (fun e => s!"{str e.1}:{boolStr e.2}")))
  | ["wamp.rolefeatures"] =>
      pure (";".intercalate (Generated.WampCodes.roleFeatures.map (fun rf => str rf.1 ++ ":" ++ ",".intercalate (rf.2.map str))))
  | ["wamp.rolesaccept", which, t] => do
      -- the Spec's verdict on a raw `roles` value: which = hello | welcome
      let v ← Codec.decode t
      let allowed ← (if which == "hello" then some Generated.WampCodes.helloRoles
                     else if which == "welcome" then some Generated.WampCodes.welcomeRoles else none)
      pure (boolStr (rolesAccept allowed Generated.WampCodes.roleFeatures v))
  | ["wamp.typemap"] =>
      pure (",".intercalate (Generated.WampCodes.typeMap.map (fun e => s!"{e.1}:{str e.2}")))
  | ["wamp.code", c] => do
      let σ ← findSchema c
      pure (toString σ.code)
  | ["batch.json", l] => do let ms ← hexList l; pure (Hex.render (Batch.batchJson ms))
  | ["batch.bin", l] => do let ms ← hexList l; pure (Hex.render (Batch.batchBin ms))
  | ["unbatch.json", h] => do
      let p ← Hex.decode h
      match Batch.unbatchJson p with
      | .ok ms => pure s!"ok {renderHexList ms}"
      | .error e => pure s!"err {batchErr e}"
  | ["unbatch.bin", h] => do
      let p ← Hex.decode h
      match Batch.unbatchBin p with
      | .ok ms => pure s!"ok {renderHexList ms}"
      | .error e => pure s!"err {batchErr e}"
  | _ => none

end Abverif.Drv.Wamp
