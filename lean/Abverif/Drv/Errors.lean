import Abverif.Model.Errors
namespace Abverif.Drv.Errors
open Abverif Abverif.Errors

/-! line protocol of the C18 model (values, URIs, class names are tokens without blanks and without `; , = | : + ~`)

`err.rt <calleeDefs> <callerDefs> <ctors> <exc> <tb>`
   defs    `;`-separated `cls:<w>:<e>`   w = `~` (no `_wampuris`) or `,`-joined pattern URIs (`.` = empty list);
                                          e = `~` (define(cls)) or the explicit error URI.  `-` = no definitions.
           every definition is applied with `define` to `Registry.init`; a failing one leaves the registry unchanged
   ctors   `;`-separated `cls=<kind>`  kind ∈ any argsonly noargs arity<N> kwonly+<k1>+<k2>… raising falsy   (`-` = none)
   exc     `cls;<appUri|~>;<args>;<kwargs>`   args = `~` (no attribute) | `.` (empty) | `,`-joined tokens
                                               kwargs = `~` | `.` | `,`-joined `k=v`
   tb      `~` (not forwarded) or a token
 answer:  `<uri>|<args>|<kwargs> M=<rexc> SM=<uri>|<args>|<kwargs> S=<rexc>`   (ERROR as sent by the invocation error path, caller-side exception by the model; and by the Spec)
           rexc = `app|<uri>|<args>|<kwargs>` or `user|<cls>|<args>|<kwargs>`

`err.reg <mro> <bad> <ops>`
   mro     `;`-separated `cls=c1+c2+…` (the class's MRO, itself first; classes not listed have MRO [cls]); `-` = none
   bad     `,`-joined URI texts that `Pattern(...)` rejects (`-` = none); the token `EMPTY` stands for the empty string
   ops     `;`-separated: `dec:cls:uri`  (apply `@error(uri)`), `def:cls` (define(cls)), `defx:cls:uri` (define(cls, uri))
 answer:  `<outcome per op, ','-joined> C=<clsToPats> U=<uriToCls> W=<cls=wampuris for every class of mro/ops>`
-/

def splitOn (c : Char) (s : String) : List String :=
  if s = "-" then [] else s.splitOn (String.singleton c)

def parseList (s : String) : Option (List String) :=
  if s = "~" then none else if s = "." then some [] else some (s.splitOn ",")

def parseKw (s : String) : Option (Option (Kwargs String)) :=
  if s = "~" then some none
  else if s = "." then some (some [])
  else do
    let l ← (s.splitOn ",").mapM (fun kv => match kv.splitOn "=" with
      | [k, v] => some (k, v)
      | _ => none)
    pure (some l)

def parseExc (s : String) : Option (Exc String) :=
  match s.splitOn ";" with
  | [c, ap, a, k] => do
      let kw ← parseKw k
      pure { cls := c, appError := if ap = "~" then none else some ap, args := parseList a, kwargs := kw }
  | _ => none

structure Def where
  cls : Cls
  w : Option (List Uri)
  e : Option Uri

def parseDef (s : String) : Option Def :=
  match s.splitOn ":" with
  | [c, w, e] => some { cls := c, w := parseList w, e := if e = "~" then none else some e }
  | _ => none

def applyDefs (defs : List Def) : Registry :=
  defs.foldl (fun reg d => match define (fun _ => true) reg d.cls d.w d.e with
    | .ok r => r
    | _ => reg) Registry.init

inductive Kind
  | any | argsonly | noargs | arity (n : Nat) | kwonly (keys : List String) | raising | falsy

def parseKind (s : String) : Option Kind :=
  if s = "any" then some .any
  else if s = "argsonly" then some .argsonly
  else if s = "noargs" then some .noargs
  else if s = "raising" then some .raising
  else if s = "falsy" then some .falsy
  else if s.startsWith "arity" then (s.drop 5).toNat?.map .arity
  else if s.startsWith "kwonly" then some (.kwonly ((s.splitOn "+").drop 1))
  else none

def ctorOf (tbl : List (Cls × Kind)) (c : Cls) (a : List String) (k : Kwargs String) : Ctor :=
  match AList.find c tbl with
  | none => .ok
  | some .any => .ok
  | some .argsonly => if k.isEmpty then .ok else .raises
  | some .noargs => if k.isEmpty ∧ a.isEmpty then .ok else .raises
  | some (.arity n) => if k.isEmpty ∧ a.length = n then .ok else .raises
  | some (.kwonly keys) => if a.isEmpty ∧ k.all (fun kv => keys.contains kv.1) then .ok else .raises
  | some .raising => .raises
  | some .falsy => .falsy

def parseCtors (s : String) : Option (List (Cls × Kind)) :=
  (splitOn ';' s).mapM (fun e => match e.splitOn "=" with
    | [c, k] => do let k ← parseKind k; pure (c, k)
    | _ => none)

def renderList (l : List String) : String := if l.isEmpty then "." else ",".intercalate l
def renderKw (k : Kwargs String) : String := if k.isEmpty then "." else ",".intercalate (k.map (fun kv => kv.1 ++ "=" ++ kv.2))

def renderRExc : RExc String → String
  | .app u a k => s!"app|{u}|{renderList a}|{renderKw k}"
  | .user c a k => s!"user|{c}|{renderList a}|{renderKw k}"

def renderMsg (m : ErrorMsg String) : String :=
  let m := wire m
  s!"{m.uri}|{renderList (m.args.getD [])}|{renderKw (m.kwargs.getD [])}"

/-! registration ops -/

inductive Op
  | dec (c : Cls) (u : Uri)
  | def_ (c : Cls)
  | defx (c : Cls) (u : Uri)

def parseOp (s : String) : Option Op :=
  match s.splitOn ":" with
  | ["dec", c, u] => some (.dec c (if u = "EMPTY" then "" else u))
  | ["def", c] => some (.def_ c)
  | ["defx", c, u] => some (.defx c (if u = "EMPTY" then "" else u))
  | _ => none

def opCls : Op → Cls
  | .dec c _ => c | .def_ c => c | .defx c _ => c

def runOps (patOk : Uri → Bool) (env : ClassEnv) (reg : Registry) : List Op → List String → ClassEnv × Registry × List String
  | [], acc => (env, reg, acc.reverse)
  | op :: rest, acc =>
    match op with
    | .dec c u =>
      let (env', o) := decorate patOk env c u
      let s := match o with | .ok => "ok" | .typeError => "TypeError" | .assertionError => "AssertionError"
      runOps patOk env' reg rest (s :: acc)
    | .def_ c =>
      match define patOk reg c (env.wampuris c) none with
      | .ok r => runOps patOk env r rest ("ok" :: acc)
      | .runtimeError => runOps patOk env reg rest ("RuntimeError" :: acc)
      | .typeError => runOps patOk env reg rest ("TypeError" :: acc)
      | .assertionError => runOps patOk env reg rest ("AssertionError" :: acc)
      | .indexError r => runOps patOk env r rest ("IndexError" :: acc)
    | .defx c u =>
      match define patOk reg c (env.wampuris c) (some u) with
      | .ok r => runOps patOk env r rest ("ok" :: acc)
      | .runtimeError => runOps patOk env reg rest ("RuntimeError" :: acc)
      | .typeError => runOps patOk env reg rest ("TypeError" :: acc)
      | .assertionError => runOps patOk env reg rest ("AssertionError" :: acc)
      | .indexError r => runOps patOk env r rest ("IndexError" :: acc)

def parseMro (s : String) : Option (List (Cls × List Cls)) :=
  (splitOn ';' s).mapM (fun e => match e.splitOn "=" with
    | [c, l] => some (c, l.splitOn "+")
    | _ => none)

def dedup (l : List String) : List String := l.foldl (fun acc x => if acc.contains x then acc else acc ++ [x]) []

def handle : List String → Option String
  | ["err.rt", d1, d2, ct, ex, tb] => do
      let defs1 ← (splitOn ';' d1).mapM parseDef
      let defs2 ← (splitOn ';' d2).mapM parseDef
      let ctors ← parseCtors ct
      let e ← parseExc ex
      let tbv : Option String := if tb = "~" then none else some tb
      let r1 := applyDefs defs1
      let r2 := applyDefs defs2
      let m := invocationError r1 e tbv
      let model := roundtripInv r1 r2 (ctorOf ctors) e tbv
      let spec := Spec.caller r1 r2 (ctorOf ctors) e tbv
      let specMsg := s!"{Spec.uri r1 e}|{renderList (Spec.args e)}|{renderKw (Spec.kwargs e tbv)}"
      pure s!"{renderMsg m} M={renderRExc model} SM={specMsg} S={renderRExc spec}"
  | ["err.reg", mro, bad, ops] => do
      let mroT ← parseMro mro
      let badL := (splitOn ',' bad).map (fun u => if u = "EMPTY" then "" else u)
      let ops ← (splitOn ';' ops).mapM parseOp
      let env : ClassEnv := { mro := fun c => (AList.find c mroT).getD [c], own := [] }
      let (env', reg, outs) := runOps (fun u => !badL.contains u) env Registry.init ops []
      let classes := dedup (mroT.map (·.1) ++ (mroT.map (·.2)).flatten ++ ops.map opCls)
      let cs := ";".intercalate (reg.clsToPats.map (fun cp => cp.1 ++ "=" ++ renderList cp.2))
      let us := ";".intercalate (reg.uriToCls.map (fun uc => uc.1 ++ "=" ++ uc.2))
      let ws := ";".intercalate (classes.map (fun c => c ++ "=" ++ (match env'.wampuris c with
        | none => "~" | some l => renderList l)))
      pure s!"{",".intercalate outs} C={if cs.isEmpty then "-" else cs} U={us} W={if ws.isEmpty then "-" else ws}"
  | _ => none

end Abverif.Drv.Errors
