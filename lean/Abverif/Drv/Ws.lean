import Abverif.Model.Ws
import Abverif.Model.WsSpec
namespace Abverif.Drv.Ws
open Abverif Abverif.Ws

def setKV (c : Cfg) (k v : String) : Option Cfg := do
  let n ← v.toNat?
  let b := n ≠ 0
  match k with
  | "srv" => pure { c with isServer := b }
  | "rm" => pure { c with requireMasked := b }
  | "am" => pure { c with acceptMasked := b }
  | "mc" => pure { c with maskClient := b }
  | "ms" => pure { c with maskServer := b }
  | "ap" => pure { c with applyMask := b }
  | "fbd" => pure { c with failByDrop := b }
  | "u8" => pure { c with utf8validate := b }
  | "echo" => pure { c with echoClose := b }
  | "mf" => pure { c with maxFrame := n }
  | "mm" => pure { c with maxMsg := n }
  | "af" => pure { c with autoFragment := n }
  | "pmce" => pure { c with pmce := b }
  | "cht" => pure { c with closeHsTimeout := n }
  | "sdt" => pure { c with serverDropTimeout := n }
  | "oht" => pure { c with openHsTimeout := n }
  | "pi" => pure { c with pingInterval := n }
  | "pt" => pure { c with pingTimeout := n }
  | "ps" => pure { c with pingSize := n }
  | "pr" => pure { c with pingRestart := b }
  | "aio" => pure { c with asyncio := b }
  | _ => none

def parseCfg (s : String) : Option Cfg :=
  (s.splitOn ",").foldlM (fun c kv =>
    match kv.splitOn "=" with
    | [k, v] => setKV c k v
    | _ => none) ({} : Cfg)

def optNat (s : String) : Option (Option Nat) := if s = "n" then some none else s.toNat?.map some
def optHex (s : String) : Option (Option Bytes) := if s = "n" then some none else (Hex.decode s).map some
def bool? (s : String) : Option Bool := if s = "1" then some true else if s = "0" then some false else none

def parseOp (s : String) : Option Op :=
  match s.splitOn "," with
  | ["feed", h] => do pure (.feed (← Hex.decode h))
  | ["lost"] => pure .lost
  | ["adv", n] => do pure (.advance (← n.toNat?))
  | ["msg", h, b, f, sy] => do pure (.sendMessage (← Hex.decode h) (← bool? b) (← optNat f) (← bool? sy))
  | ["prep", h, b] => do pure (.sendPrepared (← Hex.decode h) (← bool? b))
  | ["bm", b] => do pure (.beginMessage (← bool? b))
  | ["bf", n] => do pure (.beginFrame (← n.toNat?))
  | ["fd", h, sy] => do pure (.frameData (← Hex.decode h) (← bool? sy))
  | ["em"] => pure .endMessage
  | ["mf", h, sy] => do pure (.messageFrame (← Hex.decode h) (← bool? sy))
  | ["ping", h] => do pure (.ping (← Hex.decode h))
  | ["pong", h] => do pure (.pong (← Hex.decode h))
  | ["close", c, r] => do pure (.close (← optNat c) (← optHex r))
  | ["hs"] => pure .hsDone
  -- server, `onConnect` returns a pending Deferred: the request is read, nothing else happens (the opening-handshake
  -- timer stays armed: it is cancelled in `succeedHandshake`); `res` = the Deferred fires = `succeedHandshake`, which
  -- (since the repair recorded under C05 `onOpen-after-onClose:deferred-onConnect`) does nothing unless still CONNECTING
  | ["hsd"] => pure (.advance 0)
  -- client: the state is OPEN (timers armed) before `onConnect` is asked; only `onOpen` waits for the result
  | ["hsdc"] => pure .hsDone
  | ["res"] => pure .hsDone
  | ["hsx", h, _] => do pure (.hsThenFeed (← Hex.decode h))
  | _ => none

def ncr : NCR → String
  | .peerDropped => "peer" | .openTimeout => "open" | .closeTimeout => "close"
  | .serverDropTimeout => "srvdrop" | .pingTimeout => "ping" | .iDropped => "idrop"

def showOut : Out → String
  | .write b => s!"w:{Hex.render b}"
  | .closeConn a => s!"cc:{boolStr a}"
  | .onMessage p b c => s!"m:{Hex.render p}:{boolStr b}:{boolStr c}"
  | .onPing p => s!"pi:{Hex.render p}"
  | .onPong p => s!"po:{Hex.render p}"
  | .onClose c code r w =>
    let cs := match code with | some n => toString n | none => "n"
    let rs := match r with | some x => Hex.render x | none => "n"
    let ws := match w with | some x => ncr x | none => "n"
    s!"oc:{boolStr c}:{cs}:{rs}:{ws}"
  | .closedResolved => "cr"
  | .raised .disconnected => "x:disconnected"
  | .raised .payloadExceeded => "x:payloadexceeded"
  | .raised .exception => "x:exception"

def stStr : St → String
  | .connecting => "C" | .opened => "O" | .closing => "G" | .closed => "X"

/-- run the ops one by one, reporting the log suffix and state after each -/
def runOps (s : S) : List Op → List String
  | [] => []
  | op :: ops =>
    let s' := step s op
    let outs := (s'.log.drop s.log.length).map showOut
    (String.intercalate "," outs ++ "@" ++ stStr s'.st) :: runOps s' ops

def showEv : WsSpec.Ev → String
  | .message p b c => s!"m:{Hex.render p}:{boolStr b}:{boolStr c}"
  | .ping p => s!"pi:{Hex.render p}"
  | .pong p => s!"po:{Hex.render p}"
  | .close code r =>
    let cs := match code with | some n => toString n | none => "n"
    let rs := match r with | some x => Hex.render x | none => "n"
    s!"cl:{cs}:{rs}"

def showVerdict : WsSpec.Verdict → String
  | .ok => "ok" | .closedByPeer => "peer" | .fail c => s!"fail:{c}"

def handle : List String → Option String
  | "ws.run" :: cfg :: start :: ops => do
      let c ← parseCfg cfg
      let s0 ← (if start = "open" then some (Ws.start c) else if start = "connecting" then some (startConnecting c) else none)
      let ops ← ops.mapM parseOp
      pure (String.intercalate "|" (runOps s0 ops))
  | "ws.ops" :: cfg :: start :: ops => do
      -- the history variables `sentOps` (opcode of every frame the engine produced) and `closeSent` (its length)
      -- after the whole script
      let c ← parseCfg cfg
      let s0 ← (if start = "open" then some (Ws.start c) else if start = "connecting" then some (startConnecting c) else none)
      let ops ← ops.mapM parseOp
      pure (String.intercalate "," ((run s0 ops).sentOps.map toString) ++ "@" ++ stStr (run s0 ops).st
        ++ "@" ++ toString (run s0 ops).closeSent.length)
  | ["ws.judge", cfg, h] => do
      let c ← parseCfg cfg
      let (evs, v, rest) := WsSpec.judge (WsSpec.Ctx.ofCfg c) (← Hex.decode h)
      pure (String.intercalate "," (evs.map showEv) ++ ";" ++ showVerdict v ++ ";" ++ toString rest)
  | ["ws.utf8", h] => do pure (boolStr (utf8Valid (← Hex.decode h)))
  | ["ws.trunc", h, n] => do pure (Hex.render (encodeTruncate (← Hex.decode h) (← n.toNat?)))
  | _ => none

end Abverif.Drv.Ws
