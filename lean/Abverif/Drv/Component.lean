import Abverif.Model.Component
namespace Abverif.Drv.Component
open Abverif Abverif.Comp

/-! line protocol of the C14 model

`comp.run <flags> <listeners> <transports> <zs> <events>`
   flags       `m<0|1>c<0|1>a<0|1>`  (main given, classifier given, asyncio)
   listeners   subset of `cjrld` (connect join ready leave disconnect) or `-`
   transports  `;`-separated `mr,maxDelay,initial,growth,jitter` with rationals `n/d`
   zs          `,`-separated rationals or `-`
   events      `,`-separated: `S` start, `D` delay elapsed, `X` stop, `O<k><f>` outcome k∈0..7 with fatal flag f,
               `E<k><f>` session event k∈0..2 (lost leave goodbye)
 answer: `A=<i>@<t>~<w>,… D=<ok|err|none> L=<late writes> C=<ev><n>,… T=<att>/<succ>/<fail>/<retryDelay>/<pf>;… P=<phase> I=<idle>
          V=<verdict bits, property spec> O=<obs log>`

`comp.judge <listeners> <mr,maxDelay;…> <idle 0|1> <obs log>` → `V=<verdict bits> F=<spec>:<pos>,…`
   (the Spec monitors applied to a log observed on the implementation; F lists every rejected observation)

verdict bits, in order: budget fatal roundRobin first delay progress doneOnce polarity stop bubble
-/

def splitOn (c : Char) (s : String) : List String :=
  if s = "-" then [] else s.splitOn (String.singleton c)

def parseQ (s : String) : Option Q :=
  match s.splitOn "/" with
  | [a, b] => do
      let n ← a.toInt?
      let d ← b.toNat?
      if d = 0 then none else pure ⟨n, d⟩
  | [a] => do
      let n ← a.toInt?
      pure ⟨n, 1⟩
  | _ => none

def renderQ (q : Q) : String :=
  let g := Nat.gcd q.num.natAbs q.den
  if g = 0 then s!"{q.num}/{q.den}" else s!"{q.num / (g : Int)}/{q.den / g}"

def parseTr (s : String) : Option Tr :=
  match s.splitOn "," with
  | [mr, mx, ini, g, j] => do
      let mr ← mr.toInt?
      let mx ← parseQ mx; let ini ← parseQ ini; let g ← parseQ g; let j ← parseQ j
      pure (Tr.new mr mx ini g j)
  | _ => none

def parseFlags (s : String) : Option (Bool × Bool × Bool) :=
  match s.toList with
  | ['m', a, 'c', b, 'a', c] =>
    let bit := fun (x : Char) => if x = '1' then some true else if x = '0' then some false else none
    do let a ← bit a; let b ← bit b; let c ← bit c; pure (a, b, c)
  | _ => none

def evOfChar : Char → Option Ev
  | 'c' => some .connect | 'j' => some .join | 'r' => some .ready | 'l' => some .leave | 'd' => some .disconnect
  | _ => none

def charOfEv : Ev → Char
  | .connect => 'c' | .join => 'j' | .ready => 'r' | .leave => 'l' | .disconnect => 'd'

def parseListeners (s : String) : Option (List Ev) :=
  if s = "-" then some [] else s.toList.mapM evOfChar

def outcomeOf : Nat → Option Outcome
  | 0 => some .refused | 1 => some .hsFail | 2 => some .abort | 3 => some .joinedLost | 4 => some .joinedLeave
  | 5 => some .mainReturns | 6 => some .mainRaises | 7 => some .joined | _ => none

def sessEvOf : Nat → Option SessEv
  | 0 => some .lost | 1 => some .leave | 2 => some .goodbye | _ => none

def digit (c : Char) : Option Nat := if '0' ≤ c ∧ c ≤ '9' then some (c.toNat - 48) else none

def parseEvent (s : String) : Option Event :=
  match s.toList with
  | ['S'] => some .start
  | ['D'] => some .delayElapsed
  | ['X'] => some .stop
  | ['O', k, f] => do
      let k ← digit k; let o ← outcomeOf k; let f ← digit f
      pure (.outcome o (f = 1))
  | ['E', k, f] => do
      let k ← digit k; let e ← sessEvOf k; let f ← digit f
      pure (.sess e (f = 1))
  | _ => none

def renderObs : Obs → String
  | .att i w _ => s!"a{i}@{renderQ w}"
  | .sess n i => s!"s{n}.{i}"
  | .sfire ev n => s!"f{charOfEv ev}{n}"
  | .call ev n => s!"c{charOfEv ev}{n}"
  | .join i => s!"j{i}"
  | .fail i => s!"x{i}"
  | .fatal i => s!"F{i}"
  | .mainRaised i => s!"r{i}"
  | .cleanEnd i => s!"e{i}"
  | .stop => "X"
  | .done ok => if ok then "d1" else "d0"
  | .lateDone ok => if ok then "l1" else "l0"

def parseObs (s : String) : Option Obs :=
  match s.toList with
  | ['X'] => some .stop
  | ['d', '1'] => some (.done true)
  | ['d', '0'] => some (.done false)
  | ['l', '1'] => some (.lateDone true)
  | ['l', '0'] => some (.lateDone false)
  | 'a' :: r =>
    match (String.ofList r).splitOn "@" with
    | [i, w] => do let i ← i.toNat?; let w ← parseQ w; pure (.att i w Q.zero)
    | _ => none
  | 's' :: r =>
    match (String.ofList r).splitOn "." with
    | [n, i] => do let n ← n.toNat?; let i ← i.toNat?; pure (.sess n i)
    | _ => none
  | 'f' :: e :: r => do let e ← evOfChar e; let n ← (String.ofList r).toNat?; pure (.sfire e n)
  | 'c' :: e :: r => do let e ← evOfChar e; let n ← (String.ofList r).toNat?; pure (.call e n)
  | 'j' :: r => (String.ofList r).toNat?.map .join
  | 'x' :: r => (String.ofList r).toNat?.map .fail
  | 'F' :: r => (String.ofList r).toNat?.map .fatal
  | 'r' :: r => (String.ofList r).toNat?.map .mainRaised
  | 'e' :: r => (String.ofList r).toNat?.map .cleanEnd
  | _ => none

def renderPhase : Phase → String
  | .idle => "idle" | .waiting i _ => s!"waiting{i}" | .connecting i => s!"connecting{i}" | .up i => s!"up{i}"
  | .closing i => s!"closing{i}" | .dead => "dead" | .crashed => "crashed"

def joinWith (sep : String) (xs : List String) : String :=
  if xs.isEmpty then "-" else sep.intercalate xs

def verdictBits (c : Spec.Conf) (log : List Obs) (idle : Bool) : String :=
  String.ofList ([Spec.budgetSpec c log, Spec.fatalSpec c log, Spec.roundRobinSpec c log, Spec.firstSpec c log,
    Spec.delaySpec c log, Spec.progressSpec c log idle, Spec.doneOnceSpec c log, Spec.polaritySpec c log,
    Spec.stopSpec c log, Spec.bubbleSpec c log].map (fun b => if b then '1' else '0'))

/-- positions of the observations a spec rejects (`end` = the final check); `specAll` is the conjunction -/
def failPos (chk : Spec.Chk) (fin : Spec.Fin) (c : Spec.Conf) (idle : Bool) (log : List Obs) : List String :=
  let rec go (k : Spec.Core) (j : Nat) : List Obs → List String
    | [] => if fin c k idle then [] else ["end"]
    | o :: r => (if chk c k o then [] else [toString j]) ++ go (k.feed c o) (j + 1) r
  go {} 0 log

def failPosBubble (ls : List Ev) (log : List Obs) : List String :=
  let rec go (f : Spec.Fire) (j : Nat) : List Obs → List String
    | [] => if Spec.bubbleClosed ls f then [] else ["end"]
    | o :: r => (if Spec.chkBubble ls f o then [] else [toString j]) ++ go (f.feed o) (j + 1) r
  go {} 0 log

def failReport (c : Spec.Conf) (log : List Obs) (idle : Bool) : String :=
  let specs : List (String × Spec.Chk × Spec.Fin) :=
    [("budget", Spec.chkBudget, Spec.finTrue), ("fatal", Spec.chkFatal, Spec.finTrue),
     ("roundRobin", Spec.chkRoundRobin, Spec.finTrue), ("first", Spec.chkFirst, Spec.finTrue),
     ("delay", Spec.chkDelay, Spec.finTrue), ("progress", Spec.chkGiveUp, Spec.finProgress),
     ("doneOnce", Spec.chkDoneOnce, Spec.finTrue), ("polarity", Spec.chkPolarity, Spec.finPolarity),
     ("stop", Spec.chkStop, Spec.finTrue)]
  joinWith "," (specs.flatMap (fun (n, chk, fin) => (failPos chk fin c idle log).map (fun p => s!"{n}:{p}"))
                ++ (failPosBubble c.listeners log).map (fun p => s!"bubble:{p}"))

def handle : List String → Option String
  | ["comp.run", flags, ls, trs, zs, evs] => do
      let (m, cl, a) ← parseFlags flags
      let ls ← parseListeners ls
      let trs ← (splitOn ';' trs).mapM parseTr
      let zs ← (splitOn ',' zs).mapM parseQ
      let evs ← (splitOn ',' evs).mapM parseEvent
      let cfg : Cfg := { hasMain := m, classifier := cl, aio := a, listeners := ls }
      let r := run (init cfg trs zs) evs
      let s := r.1
      let log := r.2
      let atts := log.filterMap (fun o => match o with
        | .att i w t => some s!"{i}@{renderQ t}~{renderQ w}" | _ => none)
      let calls := log.filterMap (fun o => match o with
        | .call ev n => some s!"{charOfEv ev}{n}" | _ => none)
      let late := (log.filter (fun o => match o with | .lateDone _ => true | _ => false)).length
      let d := match s.done with | none => "none" | some true => "ok" | some false => "err"
      let ts := s.trs.map (fun t =>
        s!"{t.attempts}/{t.successes}/{t.failures}/{renderQ t.retryDelay}/{boolStr t.permFail}")
      pure (s!"A={joinWith "," atts} D={d} L={late} C={joinWith "," calls} T={joinWith ";" ts} " ++
            s!"P={renderPhase s.phase} I={boolStr s.idle} " ++
            s!"V={verdictBits (confOf trs ls) log s.idle} " ++
            s!"O={joinWith "," (log.map renderObs)}")
  | ["comp.judge", ls, trs, idle, log] => do
      let ls ← parseListeners ls
      let idle ← (if idle = "1" then some true else if idle = "0" then some false else none)
      let trs ← (splitOn ';' trs).mapM (fun s =>
        match s.splitOn "," with
        | [mr, mx] => do let mr ← mr.toInt?; let mx ← parseQ mx; pure (Tr.new mr mx Q.zero Q.zero Q.zero)
        | _ => none)
      let log ← (splitOn ',' log).mapM parseObs
      pure s!"V={verdictBits (confOf trs ls) log idle} F={failReport (confOf trs ls) log idle}"
  | _ => none

end Abverif.Drv.Component
