import Abverif.Model.Handshake
/-!
Line protocol for C07 (all byte strings as hex, `-` = empty; lists `,`-separated; records `;`-separated `k=v`).

  hs.srv <cfg> <env> <chunk|chunk|…>     → `<model verdict>|<spec 0/1>`   (spec judges the concatenation)
  hs.cli <cfg> <key> <chunk|chunk|…>     → `<model verdict>|<spec 0/1>`
  hs.req <cfg> <key>                     → request octets of `clientRequest`
  hs.digest <key>                        → acceptDigest
  hs.sha1 <data> / hs.b64 <data>
  hs.glob <pattern> <subject>            → `<fullMatch> <reMatch>`
  hs.str <fn> <args…>                    → string primitives (see `strOp`)
  hs.origin <value> <br-list>            → urlToOrigin rendering
-/
namespace Abverif.Drv.Handshake
open Abverif Abverif.Http Abverif.Url Abverif.Handshake

def hx (s : String) : Option Bytes := Hex.decode s
def rh (b : Bytes) : String := Hex.render b

def hexList (s : String) : Option (List Bytes) :=
  if s = "" || s = "_" then some [] else (s.splitOn ",").mapM hx

def pairList (s : String) : Option (List (Bytes × Bytes)) :=
  if s = "" || s = "_" then some [] else
  (s.splitOn ",").mapM (fun kv => match kv.splitOn ":" with
    | [k, v] => do pure ((← hx k), (← hx v))
    | _ => none)

def natList (s : String) : Option (List Nat) :=
  if s = "" || s = "_" then some [] else (s.splitOn ",").mapM (·.toNat?)

def fields (s : String) : List (String × String) :=
  (s.splitOn ";").filterMap (fun kv => match kv.splitOn "=" with
    | [k, v] => some (k, v)
    | _ => none)

def fget (fs : List (String × String)) (k : String) : Option String := (fs.find? (·.1 = k)).map (·.2)

def excOf : String → Exc
  | "UnicodeDecodeError" => .unicodeDecodeError
  | "ValueError" => .valueError
  | "URLParseError" => .urlParseError
  | "IndexError" => .indexError
  | _ => .other

def parseInt (s : String) : Option Int :=
  if s.startsWith "-" then (s.drop 1).toNat?.map (fun n => -(n : Int)) else s.toNat?.map (fun n => (n : Int))

def srvCfg (s : String) : Option SrvCfg := do
  let fs := fields s
  let versions ← natList ((fget fs "v").getD "8,13")
  let ao ← hexList ((fget fs "ao").getD "2a")
  let hd ← pairList ((fget fs "hd").getD "_")
  let sh ← hx ((fget fs "sh").getD "-")
  pure { versions := versions
         webStatus := (fget fs "ws").getD "1" = "1"
         externalPort := ((fget fs "ep").bind (·.toNat?)).getD 0
         allowedOrigins := ao
         allowNullOrigin := (fget fs "an").getD "1" = "1"
         maxConnections := ((fget fs "mc").bind (·.toNat?)).getD 0
         serverHeader := sh
         headers := hd
         flashPolicy := (fget fs "fp").getD "0" = "1"
         accept := if (fget fs "ac").getD "0" = "1" then .firstDeflate else .denyAll
         aio := (fget fs "aio").getD "0" = "1" }

def onConnectOf (s : String) : Option OnConnect :=
  match s.splitOn "/" with
  | ["a", p, h] => do
      let proto ← (if p = "none" then some none else (hx p).map some)
      let hd ← pairList h
      pure (.accept proto hd)
  | ["d", c] => c.toNat?.map .deny
  | ["r"] => some .raises
  | _ => none

def redirectOf (s : String) : Option Redirect :=
  match s.splitOn "/" with
  | ["-"] => some .absent
  | ["b", c] => some (.bad (excOf c))
  | ["u", u, "-"] => (hx u).map (fun u => .url u .absent)
  | ["u", u, "b"] => (hx u).map (fun u => .url u .bad)
  | ["u", u, "v", n] => do pure (.url (← hx u) (.val (← parseInt n)))
  | _ => none

def srvEnv (s : String) : Option SrvEnv := do
  let fs := fields s
  let br ← hexList ((fget fs "br").getD "_")
  let oc ← onConnectOf ((fget fs "oc").getD "a/none/_")
  let rd ← redirectOf ((fget fs "rd").getD "-")
  pure { brOk := fun b => br.contains b
         connCount := ((fget fs "cc").bind (·.toNat?)).getD 1
         onConnect := oc
         redirect := rd }

def chunksOf (s : String) : Option (List Bytes) := (s.splitOn "|").mapM hx

def pairsStr (l : List (Bytes × Bytes)) : String :=
  if l.isEmpty then "_" else ",".intercalate (l.map (fun kv => rh kv.1 ++ ":" ++ rh kv.2))

def listStr (l : List Bytes) : String := if l.isEmpty then "_" else ",".intercalate (l.map rh)

def optStr : Option Bytes → String
  | none => "none"
  | some b => rh b

def srvOutStr : SrvOut → String
  | .incomplete => "incomplete"
  | .fail c e => s!"fail {c} {pairsStr e}"
  | .statusPage none => "page"
  | .statusPage (some (n, u)) => s!"page-refresh {n} {rh u}"
  | .redirect303 u => s!"303 {rh u}"
  | .flash => "flash"
  | .opened r p e rest => s!"open {rh r} {optStr p} {listStr e} {rh rest}"
  | .stuck => "stuck"
  | .escapes c => s!"escapes {c.name}"

def cliCfg (s : String) : Option CliCfg := do
  let fs := fields s
  let host ← hx ((fget fs "h").getD "6c6f63616c686f7374")
  let res ← hx ((fget fs "r").getD "2f")
  let ua ← hx ((fget fs "ua").getD "-")
  let hd ← pairList ((fget fs "hd").getD "_")
  let org ← hx ((fget fs "o").getD "-")
  let ps ← hexList ((fget fs "p").getD "_")
  let offers ← hexList ((fget fs "of").getD "_")
  pure { host := host
         port := ((fget fs "pt").bind (·.toNat?)).getD 80
         resource := res
         useragent := ua
         headers := hd
         origin := org
         protocols := ps
         version := ((fget fs "v").bind (·.toNat?)).getD 18
         offers := offers
         accept := if (fget fs "ac").getD "0" = "1" then .acceptAll else .denyAll }

def cliOutStr : CliOut → String
  | .incomplete => "incomplete"
  | .fail => "fail"
  | .opened p e rest => s!"open {optStr p} {listStr e} {rh rest}"
  | .escapes c => s!"escapes {c.name}"

def originStr : Option Origin → String
  | none => "error"
  | some .null => "null"
  | some (.triple s h p) => s!"{rh s} {rh h} {match p with | some n => toString n | none => "None"}"

def hdrsStr (hs : List Hdr) : String :=
  if hs.isEmpty then "_" else ",".intercalate (hs.map (fun h => s!"{rh h.key}:{rh h.val}:{h.cnt}"))

def optNat : Option Nat → String
  | none => "-1"
  | some n => toString n

def strOp : List String → Option String
  | ["splitlines", s] => do pure (listStr (splitlines (← hx s)))
  | ["strip", s] => do pure (rh (strip (← hx s)))
  | ["lower", s] => do pure (rh (lower (← hx s)))
  | ["splitws", s] => do pure (listStr (splitWs (← hx s)))
  | ["spliton", c, s] => do
      match (← hx c) with
      | [c] => pure (listStr (splitOn c (← hx s)))
      | _ => none
  | ["find", p, s] => do pure (optNat (find (← hx p) (← hx s)))
  | ["rcut", c, s] => do
      match (← hx c) with
      | [c] => pure (match rcut c (← hx s) with | some (a, b) => s!"{rh a} {rh b}" | none => "none")
      | _ => none
  | ["int", s] => do pure (match pyInt (← hx s) with | some n => toString n | none => "ValueError")
  | ["isspace", s] => do pure (boolStr ((← hx s).all isSpace))
  | ["utf8", s] => do pure (boolStr (utf8Valid (← hx s)))
  | ["encode", s] => do pure (rh (utf8Encode (← hx s)))
  | ["parsehdr", s] => do
      pure (match parseHttpHeader (← hx s) with
        | none => "IndexError"
        | some (l, hs) => s!"{rh l} {hdrsStr hs}")
  | ["exts", s] => do
      let es := parseExtensions (← hx s)
      pure (if es.isEmpty then "_" else ";".intercalate (es.map (fun e =>
        rh e.name ++ "/" ++ (if e.params.isEmpty then "_" else ",".intercalate (e.params.map (fun kv =>
          rh kv.1 ++ ":" ++ (match kv.2 with | none => "T" | some v => "v" ++ rh v)))))))
  | ["urlsplit", s, br] => do
      let br ← hexList br
      pure (match urlsplit (fun b => br.contains b) (← hx s) with
        | none => "ValueError"
        | some u => s!"{rh u.scheme} {rh u.netloc} {rh u.path} {rh u.query} {rh u.fragment}")
  | _ => none

/-- names of the `ValidRequest` conjuncts that fail (for violation keys) -/
def srvWhy (cfg : SrvCfg) (env : SrvEnv) (data : Bytes) : String :=
  match find crlfcrlf data with
  | none => "incomplete"
  | some eoh =>
    match parseHttpHeader (data.take (eoh + 4)) with
    | none => "parse"
    | some (line, hs) =>
      let vv := value hs b!"sec-websocket-version"
      let verOk : Bool := decide (count hs b!"sec-websocket-version" = 1 ∧ ∃ v ∈ cfg.versions, rfcVersion vv = some v)
      let verLenient : Bool := decide (count hs b!"sec-websocket-version" = 1) && (rfcVersion vv).isNone &&
        (match pyInt vv with | some n => decide (0 ≤ n ∧ n.toNat ∈ cfg.versions) | none => false)
      let l : List (String × Bool) := [
        ("line", requestLineOk env line),
        ("host", decide (count hs b!"host" = 1 ∧ hostOk cfg (value hs b!"host") = true)),
        ("upgrade", decide (count hs b!"upgrade" ≥ 1 ∧ hasToken b!"websocket" (value hs b!"upgrade") = true)),
        ("connection", decide (count hs b!"connection" ≥ 1 ∧ hasToken b!"upgrade" (value hs b!"connection") = true)),
        (if verLenient then "version-syntax" else "version", verOk),
        ("protocols", decide ((splitOn 44 (value hs b!"sec-websocket-protocol")).map strip).Nodup),
        ("origin", originOk cfg env hs),
        ("key", decide (count hs b!"sec-websocket-key" = 1 ∧ keyShapeOk (strip (value hs b!"sec-websocket-key")) = true)),
        ("extensions", decide (count hs b!"sec-websocket-extensions" ≤ 1 ∧ offersOk (value hs b!"sec-websocket-extensions") = true)),
        ("capacity", decide (cfg.maxConnections = 0 ∨ env.connCount ≤ cfg.maxConnections))]
      let bad := (l.filter (fun x => !x.2)).map (·.1)
      if bad.isEmpty then "-" else ",".intercalate bad

def cliWhy (cfg : CliCfg) (key : Bytes) (data : Bytes) : String :=
  match find crlfcrlf data with
  | none => "incomplete"
  | some eoh =>
    match parseHttpHeader (data.take (eoh + 4)) with
    | none => "parse"
    | some (line, hs) =>
      let stLenient := !statusOk line && (match splitWs line with
        | a :: b :: _ => a == b!"HTTP/1.1" && pyInt b == some 101
        | _ => false)
      let pv := strip (value hs b!"sec-websocket-protocol")
      let l : List (String × Bool) := [
        (if stLenient then "status-syntax" else "status", statusOk line),
        ("upgrade", decide (count hs b!"upgrade" ≥ 1 ∧ lower (strip (value hs b!"upgrade")) = b!"websocket")),
        ("connection", decide (count hs b!"connection" ≥ 1 ∧ hasToken b!"upgrade" (value hs b!"connection") = true)),
        ("accept", decide (count hs b!"sec-websocket-accept" = 1 ∧
            strip (value hs b!"sec-websocket-accept") = acceptDigest key)),
        ("extensions", decide (count hs b!"sec-websocket-extensions" ≤ 1 ∧
            responseExtensionsOk cfg (value hs b!"sec-websocket-extensions") = true)),
        ("protocol", decide (count hs b!"sec-websocket-protocol" ≤ 1 ∧ (pv = [] ∨ pv ∈ cfg.protocols)))]
      let bad := (l.filter (fun x => !x.2)).map (·.1)
      if bad.isEmpty then "-" else ",".intercalate bad

def handle : List String → Option String
  | ["hs.srv", cfg, env, chunks] => do
      let cfg ← srvCfg cfg
      let env ← srvEnv env
      let cs ← chunksOf chunks
      pure (srvOutStr (serverFeed cfg env cs) ++ "|" ++ boolStr (specRequest cfg env cs.flatten) ++ "|" ++
        srvWhy cfg env cs.flatten)
  | ["hs.cli", cfg, key, chunks] => do
      let cfg ← cliCfg cfg
      let key ← hx key
      let cs ← chunksOf chunks
      pure (cliOutStr (clientFeed cfg key cs) ++ "|" ++ boolStr (specResponse cfg key cs.flatten) ++ "|" ++
        cliWhy cfg key cs.flatten)
  | ["hs.req", cfg, key] => do pure (rh (clientRequest (← cliCfg cfg) (← hx key)))
  | ["hs.digest", key] => do pure (rh (acceptDigest (← hx key)))
  | ["hs.sha1", d] => do pure (rh (Crypto7.Sha1.hash (← hx d)))
  | ["hs.b64", d] => do pure (rh (Crypto7.Base64.encode (← hx d)))
  | ["hs.glob", p, s] => do
      let p ← hx p
      let s ← hx s
      pure (boolStr (Glob.fullMatch p s) ++ " " ++ boolStr (Glob.reMatch p s))
  | ["hs.origin", v, br] => do
      let br ← hexList br
      pure (originStr (urlToOrigin (fun b => br.contains b) (← hx v)))
  | ["hs.parseurl", u] => do
      pure (match parseUrl (fun _ => true) (← hx u) with
        | none => "ValueError"
        | some w => s!"{boolStr w.secure} {rh w.host} {w.port} {rh w.resource}")
  | "hs.str" :: rest => strOp rest
  | _ => none

end Abverif.Drv.Handshake
