#!/usr/bin/env python3
"""regenerates MANIFEST.json from harness/registry.py (single source of truth)"""
import json
import sys
from pathlib import Path
sys.path.insert(0, str(Path(__file__).parent))
from harness import registry
registry.load()

m = {
    "version": 1,
    "setup_cmd": "python3 tools_setup.py",
    "hooks": {
        "guard": "AUTOBAHN_VERIF",
        "enable": "no source hooks are needed: harnesses subclass the real classes and inject transports, clocks, RNGs and freshly compiled NVX modules from outside; AUTOBAHN_VERIF=1 is exported to harness workers for future use",
        "baseline_off_cmd": "cd /repo && /venv/bin/python -m pytest -ra -q -p no:cacheprovider --timeout=900 --continue-on-collection-errors",
        "source_commits": registry.HOOK_COMMITS,
        "add_only": True,
    },
    "engines": [
        {"name": "abverif-lean", "path": "lean/", "serves_properties": [c["id"] for c in registry.CHECKS],
         "kind_free_text": "Lean 4 models (Abverif/Model), generated tables (Abverif/Generated, rewritten from /repo on every run), property theorems (Abverif/Proofs), compiled line-protocol driver (Driver.lean)"},
        {"name": "correspondence-harness", "path": "harness/", "serves_properties": [c["id"] for c in registry.CHECKS],
         "kind_free_text": "per-property differential execution of the real code (/repo/src, both frameworks, pure Python and rebuilt NVX) against the Lean spec/model through the driver; failing-input search and shrinking"},
    ],
    "checks": [],
    "not_applicable": registry.NOT_APPLICABLE,
    "notes": registry.NOTES,
}
for c in registry.CHECKS:
    m["checks"].append({
        "property_id": c["id"],
        "quick_cmd": f"./check {c['id']} --tier quick",
        "thorough_cmd": f"./check {c['id']} --tier thorough",
        "evidence_file": f"evidence/{c['id']}.json",
        "replay_cmd_template": f"./check {c['id']} --replay {{path}}",
        "engine": "abverif-lean",
        "level_claimed": {"category": "proof", "text": c["text"], "design_ref": c.get("design_ref", "DESIGN.md §4 " + c["id"])},
        "level_note": c["note"],
        "technique": c["technique"],
    })
Path(__file__).with_name("MANIFEST.json").write_text(json.dumps(m, indent=1) + "\n")
print("checks:", [c["id"] for c in registry.CHECKS], "n/a:", [n["property_id"] for n in registry.NOT_APPLICABLE])
