"""C12 — per-message compression is lossless and negotiated soundly.

Parts of the check (all against the REAL classes of /repo, both frameworks where protocol objects are involved):
  A  translator self-check: generated DeflateConsts vs the live Python objects
  B  negotiation lattice on PerMessageDeflateOffer / OfferAccept / Response / ResponseAccept / PerMessageDeflate:
     every offer x every accept x every response-accept (thorough: exhaustive; quick: all offers x accepts with the
     default response-accept + a seeded 5 % sample of the rest) -> header strings, parsed objects, raised-or-not,
     the six effective fields on both ends, compared with the Lean model through the driver; the Lean Spec
     (`dirCompatible`, same-parameters, `permittedBy`) is evaluated on the fields the REAL objects hold;
     guard probes outside the lattice (window 1/8/16/100, mem level 0/10) must raise
  C  extension-header grammar: `_parseExtensionsHeader`, `int()`, and malformed / well-formed
     Sec-WebSocket-Extensions values through real server and client opening handshakes (vlib.ws.make_ws);
     headers carrying a defect the property names (unknown extension, repeated PMCE, unknown / duplicated /
     out-of-range parameter, declined by the accept policy) must fail the client handshake
  D  data path: real endpoint pairs through in-memory transports with re-segmentation, every window size 9-15 x
     context-takeover combination x mem level {1,8,9}, overrides (U3), bzip2, brotli, no extension; message
     sequences (compressible, random, empty, repeated, far back-references, 1 MiB in thorough), fragment sizes,
     whole / streaming / prepared API, doNotCompress; an independent RFC 7692 peer built on the zlib module
     (configured from the response header only) replaces one end in two thirds of the deflate runs.
     Observables: onMessage at the receiver, both Sec-WebSocket-Extensions headers (re-parsed by the model),
     RSV1/opcode/FIN of every frame on the wire (vlib.ws.parse_frames; frame shapes compared with the model's
     fragmentation), injected compressed control frames / RSV1 on continuation frames must fail the connection.

Model domain: header text is printable ASCII plus space/tab (str.lower is modelled on ASCII only).

Self-test (scratch copy of /repo/src, VERIF_REPO; each run `./check C12 --tier quick`):
  see SELFTEST at the end of this file.
"""
import itertools
import json
import os
import subprocess
from concurrent.futures import ThreadPoolExecutor
from pathlib import Path

from translate import deflate_consts
from vlib import core

PROP = "C12"
PROOF_MODULES = ["Abverif.Proofs.C12", "Abverif.Proofs.C12Handshake", "Abverif.Proofs.Lemmas.PmceData", "Abverif.Proofs.Lemmas.PmceRtSmall",
                 "Abverif.Proofs.Lemmas.PmceRtSingle"] + \
    [f"Abverif.Proofs.Lemmas.PmceRt{k}{i}" for k in ("Offer", "Resp") for i in range(4)]
W = Path(__file__).parent / "workers"
_CONSTS = {}


def translate(ctx):
    _CONSTS.clear()
    _CONSTS.update(deflate_consts.translate(ctx))


TRANSLATORS = [translate]
TRUSTED = [
    "Lean 4.33 kernel; axioms of every theorem audited to be within {propext, Classical.choice, Quot.sound}",
    "translate/deflate_consts.py (ast): window / mem-level / compress-level tables, defaults, the [:-4] strip length and "
    "the re-appended tail are regenerated from compress_deflate.py, compress_bzip2.py, compress_brotli.py on every run and "
    "cross-checked against the live Python objects",
    "hand-written Lean model Abverif/Model/Pmce.lean of the five classes of each extension, _parseExtensionsHeader, "
    "int(), the permessage-compress parts of both handshakes, the RSV rules of processData, sendMessage / streaming "
    "send and onFrameBegin/Data/End; tied to the code by the differential runs B, C, D",
    "zlib, bz2, brotli themselves: NOT verified; they enter the losslessness theorem as the hypothesis structure "
    "Codec.Lawful (H1/H2), shown satisfiable by a concrete toy codec; the real codecs are only exercised (part D, "
    "including an independent zlib peer)",
    "byte-level framing, masking, UTF-8 validation: other properties (C01/C02/C15/C09); here frames are the unit",
]
ASSUMPTIONS = [
    "H1/H2 (Codec.Lawful): from a synced deflater/inflater pair, the sync-flushed output minus its 00 00 ff ff tail, cut into "
    "any chunks, inflates to the message; the tail returns the inflater to a synced state; fresh objects are synced when "
    "the inflater window >= the deflater window; a deflater may drop its context at a message boundary",
    "header text is Latin-1; the model's str.lower is ASCII (the generators emit ASCII only)",
]
MANIFEST_ENTRY = {
    "technique": "Lean 4 theorems over the complete permessage-deflate negotiation lattice (kernel decide on every lattice "
                 "point for the render/parse round trips, general proofs under the constructor guards for compatibility) "
                 "and over an abstract stream codec for the data path; exhaustive differential tie of the lattice to the "
                 "real classes; real endpoint pairs (Twisted + asyncio) with an independent zlib peer for the data path",
    "text": "Proved in Lean: offer and response render->header-parser->parse round trips on every lattice point; the "
            "server's response is permitted by the offer; for every offer/accept/response-accept passing the guards both "
            "directions are compatible (inflater window >= deflater window, inflater resets only if the deflater does) "
            "and without overrides both ends hold identical parameters; the same at the level of the two WHOLE handshakes "
            "(handshake_compatible: for every request header - any number of offers of any kind, unknown extensions in "
            "between - every server policy and every client policy, a permessage-deflate response the server renders was "
            "built for an offer the header really carried, is permitted by that offer, parses to exactly one extension entry "
            "and leaves a client that completes on it compatible with the server in both directions: applyPolicy_deflate, "
            "collectOffers_deflate_mem, response_header_single); the client fails the handshake on an unknown "
            "extension, a repeated compression extension, an unknown/duplicated/out-of-range/valueless parameter or a "
            "declining accept policy; compressed control frames and RSV1 on continuation frames are rejected; relative to "
            "the codec contract H1/H2 any message sequence (whole, fragmented, streamed, doNotCompress, context kept or "
            "reset) cut into any reads is delivered exactly as sent in both directions of every negotiated connection; "
            "RSV1 sits on the first frame only; doNotCompress travels verbatim. Kept _partial with a negation witness: the "
            "literal 'same parameters on both ends' (false with window_bits/no_context_takeover overrides, U3) and the "
            "literal parse(render(offer)) = offer (accept_no_context_takeover=False has no wire form). With a send limit "
            "(maxMessagePayloadSize) exactly the messages not refused arrive intact, context takeover or not "
            "(lossless_with_send_limit; full since the repair 93aa9965 of F17: a send refused after compression "
            "now drops the compression context).",
    "note": "zlib/bz2/brotli are trusted through H1/H2 (hypotheses, exercised against the real libraries and an independent "
            "zlib peer, not proved). The bzip2/brotli lattices are modelled and tied by correspondence; their theorems are "
            "limited to what the deflate ones share (client rejection, RSV rules, losslessness is stated for the deflate "
            "reset-or-keep logic). Findings reproduced on the real code are listed in known_findings.d/C12.jsonl.",
}

BOOLS = ["0", "1"]
# the Spec's ranges (property text: "every window size 9-15"; RFC 7692 / zlib: mem level 1..9). The lattice and the
# data-path scenarios are built from THESE, not from the tables read from the source: a source that widens its tables
# must be caught by the probes, not followed.
SPEC_WINDOW = list(range(9, 16))
SPEC_MEM = list(range(1, 10))


# ------------------------------------------------------------------------------------------------ helpers

def hx(s):
    b = s.encode("latin-1")
    return b.hex() if b else "-"


def unhx(h):
    return bytes.fromhex("" if h == "-" else h).decode("latin-1")


def run_worker(script, args, payload, timeout=3000):
    e = dict(os.environ)
    e["PYTHONPATH"] = os.pathsep.join([str(core.REPO / "src"), str(core.VERIF)])
    e.setdefault("PYTHONHASHSEED", "0")
    e["AUTOBAHN_VERIF"] = "1"
    p = subprocess.run([core.PY, str(W / script), *map(str, args)], input=payload, env=e, capture_output=True,
                       text=True, cwd="/", timeout=timeout)
    if p.returncode != 0:
        raise RuntimeError(f"{script} failed: " + p.stderr[-2500:])
    return p.stdout


def real_lines(lines, nproc=16):
    """answers of the real classes to negotiation request lines (split over processes, order kept)"""
    if not lines:
        return []
    n = max(1, min(nproc, (len(lines) + 1999) // 2000))
    parts = [lines[i::n] for i in range(n)]
    with ThreadPoolExecutor(n) as ex:
        outs = list(ex.map(lambda part: run_worker("c12_neg.py", [], "\n".join(part) + "\n").split("\n"), parts))
    res = [None] * len(lines)
    for k, o in enumerate(outs):
        if o and o[-1] == "":
            o.pop()
        if len(o) != len(parts[k]):
            raise RuntimeError(f"c12_neg answered {len(o)} lines for {len(parts[k])}")
        res[k::n] = o
    return res


def drv_lines(ctx, lines, nproc=8):
    if len(lines) < 40000:
        return ctx.driver.run(lines)
    parts = [lines[i::nproc] for i in range(nproc)]
    with ThreadPoolExecutor(nproc) as ex:
        outs = list(ex.map(ctx.driver.run, parts))
    res = [None] * len(lines)
    for k, o in enumerate(outs):
        res[k::nproc] = o
    return res


def corpus(kind):
    """corpus/C12/*.json (minimised past failures and regression inputs) of one kind; they ride in the first batch"""
    out = []
    for f in sorted((core.VERIF / "corpus" / PROP).glob("*.json")):
        rp = json.loads(f.read_text())["replay"]
        if rp.get("kind") == kind:
            out.append(rp)
    return out


class Acc:
    """collects violations (one per key, first concrete input wins) and correspondence breaks"""

    def __init__(self, res):
        self.res = res
        self.keys = set()

    def violation(self, key, what, replay):
        if key in self.keys:
            return
        self.keys.add(key)
        self.res.violations.append(core.Violation(key, what, replay))

    def brk(self, stream, **kw):
        if len(self.res.correspondence_breaks) < 40:
            self.res.correspondence_breaks.append(dict(stream=stream, **kw))


# ------------------------------------------------------------------------------------------------ A consts

def part_consts(ctx, res, acc):
    d = ctx.driver.run(["pmce.consts"])[0].split(" ")
    r = real_lines(["pmce.consts"])[0]
    # driver prints Lean lists `[9, 10, …]`; python prints the same way
    if " ".join(d[:-2]) != r:
        acc.brk("generated DeflateConsts vs live Python objects", generated=" ".join(d), live=r)
    if d[-2:] != ["4", "0000ffff"]:
        # the Spec (RFC 7692 7.2.1/7.2.2) is: strip 4, re-append 00 00 ff ff; a concrete failing input comes from part D
        acc.brk("strip length / tail octets read from the source are not the RFC 7692 ones", got=d[-2:])
    res.evaluations += 1


# ------------------------------------------------------------------------------------------------ B lattice

def lattice(consts=None):
    win = [str(w) for w in SPEC_WINDOW]
    WIN = ["0"] + win
    OW = ["~"] + win
    offers = [list(t) for t in itertools.product(BOOLS, BOOLS, BOOLS, WIN)]
    accepts = [list(t) + ["~"] for t in itertools.product(BOOLS, WIN, ["~", "0", "1"], OW)]
    raccepts = [list(t) + ["~"] for t in itertools.product(["~", "0", "1"], OW)]
    return win, WIN, OW, offers, accepts, raccepts


def part_lattice(ctx, res, acc):
    consts = _CONSTS or deflate_consts.translate(ctx)
    win, WIN, OW, offers, accepts, raccepts = lattice(consts)
    mems = ["~"] + [str(m) for m in SPEC_MEM]
    if list(consts["window"]) != SPEC_WINDOW or list(consts["mem"]) != SPEC_MEM or consts["default_window_bits"] != 15:
        acc.brk("tables read from the source are not the Spec's (window 9..15, mem level 1..9, default window 15)",
                window=consts["window"], mem=consts["mem"], default=consts["default_window_bits"])
    lines = [rp["line"] for rp in corpus("line")]
    tags = [None] * len(lines)          # expectation from the Spec by construction: "raise" for out-of-range probes
    # offers + probes
    for o in offers:
        lines.append("pmce.offer " + " ".join(o)); tags.append(None)
    for w in ("1", "7", "8", "16", "100"):
        lines.append(f"pmce.offer 1 1 0 {w}"); tags.append("raise")
    # offer x accept (the server sees the parsed offer: accept_no_context_takeover is always True after parsing, but
    # the class can be driven with any offer object, so all 64 are used)
    for o in offers:
        for a in accepts:
            lines.append("pmce.accept " + " ".join(o + a)); tags.append(None)
        for m in mems:
            lines.append("pmce.accept " + " ".join(o + ["0", "0", "~", "~", m])); tags.append(None)
    for o in (["1", "1", "0", "0"], ["1", "1", "1", "12"]):
        for rw in ("1", "8", "16"):
            lines.append("pmce.accept " + " ".join(o + ["0", rw, "~", "~", "~"])); tags.append("raise")
        for w in ("1", "8", "16"):
            lines.append("pmce.accept " + " ".join(o + ["0", "0", "~", w, "~"])); tags.append("raise")
        for m in ("0", "10", "15"):
            lines.append("pmce.accept " + " ".join(o + ["0", "0", "~", "~", m])); tags.append("raise")
    # response x response-accept
    for cm, cn, sm, sn in itertools.product(WIN, BOOLS, WIN, BOOLS):
        for y in raccepts:
            lines.append("pmce.raccept " + " ".join([cm, cn, sm, sn] + y)); tags.append(None)
    for w in ("1", "8", "16"):
        lines.append(f"pmce.raccept 0 0 0 0 ~ {w} ~"); tags.append("raise")
    for m in mems + ["0", "10"]:
        lines.append(f"pmce.raccept 12 1 0 0 ~ ~ {m}"); tags.append("raise" if m in ("0", "10") else None)
    n_single = len(lines)
    # triples
    sample = ctx.rng.random
    for o in offers:
        for a in accepts:
            for y in raccepts:
                if ctx.tier == "thorough" or y == ["~", "~", "~"] or sample() < 0.05:
                    lines.append("pmce.neg " + " ".join(o + a + y)); tags.append(None)
    res.exhaustive = ctx.tier == "thorough"
    ctx.log(f"lattice: {len(lines)} request lines ({len(lines) - n_single} negotiation triples)")
    exp = drv_lines(ctx, lines)
    got = real_lines(lines)
    res.evaluations += len(lines)
    res.traces_validated += len(lines)
    res.count("lattice_lines", len(lines))
    res.count("negotiation_triples", len(lines) - n_single)
    spec_req = {}
    for ln, e, g, tag in zip(lines, exp, got, tags):
        op = ln.split(" ", 1)[0]
        if tag == "raise" and g != "raise":
            acc.violation("guard-accepts-out-of-range-value",
                          f"a constructor accepted a window size / mem level outside 9..15 / 1..9: `{ln}` -> {g[:80]}",
                          {"kind": "line", "line": ln, "real": g, "spec": "raise"})
        if e != g:
            acc.brk("negotiation lattice: model vs real classes", line=ln, model=e, real=g)
        if g.startswith("ok"):
            res.distinct.add(ln)
            res.count(op + ":ok")
        else:
            res.count(op + ":" + g.split(" ")[0])
        if op == "pmce.neg" and g.startswith("ok "):
            t = g.split(" ")
            spec_req.setdefault((t[1], t[2]), ln)
        if op == "pmce.accept" and g.startswith("ok "):
            t = g.split(" ")
            if t[3] != "!":
                o = ln.split(" ")[1:5]
                spec_req.setdefault(("permitted", " ".join(o), t[3]), ln)
    # the Lean Spec on what the REAL objects hold
    slines, sorig = [], []
    for k, ln in spec_req.items():
        if k[0] == "permitted":
            slines.append("pmce.permitted " + k[1] + " " + k[2].replace(",", " "))
        else:
            slines.append(f"pmce.spec {k[0]} {k[1]}")
        sorig.append(ln)
    sout = ctx.driver.run(slines)
    res.count("spec_evaluations_on_real_objects", len(slines))
    for sl, so, ln in zip(slines, sout, sorig):
        if sl.startswith("pmce.permitted"):
            if so != "1":
                acc.violation("response-not-permitted-by-offer",
                              f"the server's response is not what the offer permits/requires (Spec permittedBy: server_* only as "
                              f"requested and echoed, client_max_window_bits only if offered): `{ln}`",
                              {"kind": "line", "line": ln, "spec_line": sl, "spec": so})
            continue
        t = so.split(" ")
        x = ln.split(" ")
        if t[0] != "1" or t[1] != "1":
            d = "server->client" if t[0] != "1" else "client->server"
            acc.violation("negotiation-incompatible:" + d,
                          f"{d}: the inflating end's window is smaller than the deflating end's, or it resets its context "
                          f"while the deflater keeps it: `{ln}` gives {sl.split(' ', 1)[1]}",
                          {"kind": "line", "line": ln, "real_fields": sl, "spec": so})
        if t[2] != "1":
            xo = x[7] != "~" or x[8] != "~"       # OfferAccept no_context_takeover / window_bits override
            yo = x[10] != "~" or x[11] != "~"
            if xo:
                acc.violation("U3:offer-accept-override-not-announced",
                              "literal 'same parameters on both ends' fails with an OfferAccept override", {"kind": "line", "line": ln, "real_fields": sl})
            elif yo:
                acc.violation("U3:response-accept-override-not-announced",
                              "literal 'same parameters on both ends' fails with a ResponseAccept override", {"kind": "line", "line": ln, "real_fields": sl})
            else:
                acc.violation("parameters-differ-without-override",
                              f"no override given, yet the two ends hold different parameters: `{ln}` -> {sl}",
                              {"kind": "line", "line": ln, "real_fields": sl})
    for ln, g in list(zip(lines, got))[:2] + [(l, g) for l, g in zip(lines, got) if l.startswith("pmce.neg")][1000:1002]:
        res.sample({"request": ln, "real": g[:160]})


# ------------------------------------------------------------------------------------------------ C headers

D_NAME, Z_NAME, R_NAME = "permessage-deflate", "permessage-bzip2", "permessage-brotli"


def header_cases(ctx):
    """-> list of (side, header, policy tokens, defect or None). `defect` = a defect class the property names;
    the Spec then says: the client handshake fails."""
    rng = ctx.rng
    cases = [("srv" if rp["side"] == "srv" else "cli", rp["header"], rp["policy"], rp.get("defect")) for rp in corpus("handshake")]
    ok_resp = ["", "; server_no_context_takeover", "; client_no_context_takeover", "; server_max_window_bits=9",
               "; client_max_window_bits=15", "; server_max_window_bits=12; client_max_window_bits=10",
               "; server_no_context_takeover; server_max_window_bits=15; client_no_context_takeover; client_max_window_bits=9"]
    CP = ["~,~,~", "-", "-"]          # client accepts deflate with defaults
    CPall = ["~,~,~", "~", "~"]
    SP = ["0,0,~,~,~", "0,~", "0,~"]
    # --- tagged defects (client side)
    for base in ok_resp:
        h = D_NAME + base
        cases.append(("cli", h, CP, None))
        cases.append(("cli", h, ["-", "-", "-"], "declined-by-accept-policy"))
        for u in ("x-webkit-deflate-frame", "permessage-foo", "deflate", "permessage-deflate2"):
            cases.append(("cli", u + ", " + h, CP, "unknown-extension"))
            cases.append(("cli", h + ", " + u + "; a=1", CP, "unknown-extension"))
        for second in (D_NAME, D_NAME + "; server_no_context_takeover", Z_NAME, R_NAME):
            cases.append(("cli", h + ", " + second, CPall, "repeated-compression-extension"))
        for u in ("foo", "foo=1", "server_max_window_bit=10", "client_max_window", "max_window_bits=10", "x"):
            cases.append(("cli", h + "; " + u, CP, "unknown-parameter"))
        for k in ("server_max_window_bits", "client_max_window_bits"):
            for v in ("8", "16", "0", "1", "100", "-9", "x", "", "1e1", "10.0", "0x0a", "9 9", "９"):
                if v == "９":
                    continue
                cases.append(("cli", D_NAME + "; %s=%s" % (k, v), CP, "out-of-range-parameter"))
            cases.append(("cli", D_NAME + "; " + k, CP, "valueless-window-bits"))
        for k in ("server_no_context_takeover", "client_no_context_takeover"):
            for v in ("1", "true", '""', "0"):
                cases.append(("cli", D_NAME + "; %s=%s" % (k, v), CP, "valued-flag"))
    for p in ("server_no_context_takeover", "client_no_context_takeover", "server_max_window_bits=10",
              "client_max_window_bits=10"):
        k = p.split("=")[0]
        cases.append(("cli", D_NAME + "; %s; %s" % (p, p), CP, "duplicated-parameter"))
        cases.append(("cli", D_NAME + "; %s; server_max_window_bits=11; %s" % (p, k.upper() if "=" not in p else k + "=12"), CP,
                      "duplicated-parameter" if k != "server_max_window_bits" else "duplicated-parameter"))
        cases.append(("cli", D_NAME + "; %s ;%s" % (p, p.replace("_", "_", 1).title().replace("=", "=")), CP,
                      "duplicated-parameter"))
    # --- untagged: the model decides (quoting, int() forms, whitespace, case, empty elements, bzip2/brotli)
    forms = ["10", '"10"', '"10', '10"', "+10", "010", "1_0", " 10", "10 ", '" 10 "', "1__0", "_10", "10_", "+ 10", "１0"]
    for f in forms:
        if not f.isascii():
            continue
        for side, pol in (("cli", CP), ("srv", SP)):
            cases.append((side, D_NAME + "; server_max_window_bits=" + f, pol, None))
    for h in ("PERMESSAGE-DEFLATE", "Permessage-Deflate; Server_No_Context_Takeover", D_NAME + ";server_no_context_takeover",
              D_NAME + " ; server_max_window_bits = 10", D_NAME + ";", D_NAME + ";;", D_NAME + ",", "," + D_NAME, ",,", ";",
              "; a", D_NAME + "; =1", D_NAME + "; a=b=c", D_NAME + "; server_max_window_bits=10=10",
              "\t" + D_NAME + "\t;\tclient_no_context_takeover\t", Z_NAME, Z_NAME + "; server_max_compress_level=5",
              Z_NAME + "; server_max_compress_level", Z_NAME + "; client_max_compress_level=3",
              Z_NAME + "; client_max_compress_level", Z_NAME + "; server_max_compress_level=0",
              Z_NAME + "; server_max_compress_level=10", Z_NAME + "; foo", R_NAME, R_NAME + "; server_no_context_takeover",
              R_NAME + "; client_no_context_takeover; server_no_context_takeover", R_NAME + "; server_no_context_takeover=1",
              R_NAME + "; foo", R_NAME + "; client_no_context_takeover; client_no_context_takeover",
              "x-foo", "x-foo; permessage-deflate", "x-foo, " + Z_NAME, R_NAME + ", " + Z_NAME, Z_NAME + ", " + D_NAME):
        cases.append(("cli", h, CPall, None))
        cases.append(("srv", h, SP, None))
    # --- offers at the server: lattice strings, defects, policies with overrides
    offer_params = ["client_no_context_takeover", "client_max_window_bits", "client_max_window_bits=12",
                    "server_no_context_takeover", "server_max_window_bits=9", "server_max_window_bits=15",
                    "client_max_window_bits=8", "server_max_window_bits=16", "server_max_window_bits", "foo",
                    "client_no_context_takeover=1", "server_max_window_bits=x"]
    spols = [SP, ["1,10,~,~,~", "-", "-"], ["0,0,1,10,~", "-", "-"], ["0,0,0,~,1", "-", "-"], ["-", "3,~", "1,~"],
             ["1,9,1,9,9", "9,1", "1,1"], ["0,16,~,~,~", "-", "-"], ["-", "-", "-"]]
    n = 150 if ctx.tier == "quick" else 1500
    for _ in range(n):
        k = rng.choice([0, 1, 1, 2, 2, 3, 4])
        ps = [rng.choice(offer_params) for _ in range(k)]
        h = D_NAME + "".join("; " + p for p in ps)
        if rng.random() < 0.3:
            h = rng.choice([Z_NAME, R_NAME, "x-foo", D_NAME + "; server_max_window_bits=11"]) + ", " + h
        if rng.random() < 0.2:
            h = h + ", " + rng.choice([Z_NAME + "; client_max_compress_level", R_NAME + "; client_no_context_takeover", D_NAME])
        cases.append(("srv", h, rng.choice(spols), None))
    # responses at the client with override policies
    cpols = [CP, ["1,~,~", "-", "-"], ["0,~,~", "-", "-"], ["~,9,~", "-", "-"], ["~,15,1", "-", "-"], ["~,8,~", "-", "-"],
             ["~,~,10", "-", "-"], CPall]
    resp_params = ["server_no_context_takeover", "client_no_context_takeover", "server_max_window_bits=9",
                   "server_max_window_bits=15", "client_max_window_bits=10", "client_max_window_bits=15"]
    for _ in range(n):
        k = rng.choice([0, 1, 2, 3])
        ps = rng.sample(resp_params, k)
        keys = [p.split("=")[0] for p in ps]
        if len(set(keys)) != len(keys):
            continue
        cases.append(("cli", D_NAME + "".join("; " + p for p in ps), rng.choice(cpols), None))
    return cases


def int_strings(ctx):
    alpha = ["0", "1", "9", "_", "+", "-", " ", "x"]
    out = [""]
    for n in (1, 2, 3):
        out += ["".join(t) for t in itertools.product(alpha, repeat=n)]
    if ctx.tier == "thorough":
        out += ["".join(t) for t in itertools.product(alpha, repeat=4)]
    out += ["\t10", "10\n", "1_0_0", "0_0", "00", "-0", "+0", "15", "09", "1 0", "\x0b9", "9\x0c", "\x1c9", "9\x1f", "\xa09", "9\x85"]
    return out


def part_headers(ctx, res, acc):
    cases = header_cases(ctx)
    lines = [("pmce.srv " if s == "srv" else "pmce.cli ") + hx(h) + " " + " ".join(pol) for s, h, pol, _ in cases]
    exp = ctx.driver.run(lines)
    with ThreadPoolExecutor(2) as ex:
        futs = {fw: ex.submit(run_worker, "c12_hs.py", [fw], json.dumps(lines)) for fw in ("twisted", "asyncio")}
        real = {fw: json.loads(f.result()) for fw, f in futs.items()}
    res.count("handshakes", 2 * len(lines))
    for fw in ("twisted", "asyncio"):
        for (side, h, pol, defect), ln, e, g in zip(cases, lines, exp, real[fw]):
            res.evaluations += 1
            res.traces_validated += 1
            res.count(f"hs:{side}:{g.split(' ')[0]}")
            rp = {"kind": "handshake", "fw": fw, "side": side, "header": h, "policy": pol, "line": ln, "real": g, "model": e}
            if g.startswith("exception") or g.startswith("neither") or g.startswith("open-without"):
                acc.violation(f"handshake-misbehaves:{side}:{g.split(' ')[0]}:{g.split(' ')[1] if ' ' in g else ''}",
                              f"{fw} {side}: Sec-WebSocket-Extensions `{h}` -> {g}", rp)
                continue
            if defect is not None:
                res.count("defect:" + defect)
                if g != "fail":
                    acc.violation("client-accepts-bad-response:" + defect,
                                  f"{fw} client did not fail the handshake on a response with {defect}: `{h}` -> {g}", rp)
                if e != "fail":
                    acc.brk("header grammar: model accepts a header carrying a defect the property names", header=h, defect=defect, model=e)
            elif e != g:
                acc.brk("extension header through a real handshake: model vs real", fw=fw, side=side, header=h, policy=pol, model=e, real=g)
            if g.startswith("ok"):
                res.distinct.add(("hs", side, h, tuple(pol)))
    for c in cases[:2] + cases[400:402]:
        res.sample({"side": c[0], "header": c[1], "policy": c[2], "defect": c[3]})
    # function level: _parseExtensionsHeader and int()
    hs = sorted({h for _, h, _, _ in cases})
    plines = ["pmce.parse " + hx(h) for h in hs] + ["pmce.int " + hx(s) for s in int_strings(ctx)]
    e2 = ctx.driver.run(plines)
    g2 = real_lines(plines)
    res.evaluations += len(plines)
    res.count("parse_lines", len(plines))
    for ln, e, g in zip(plines, e2, g2):
        if e != g:
            acc.brk("_parseExtensionsHeader / int(): model vs real", line=ln, text=unhx(ln.split(" ")[1]), model=e, real=g)


# ------------------------------------------------------------------------------------------------ D data path

def msg_seq(rng, tier, w, big):
    """messages for one scenario, both directions interleaved; the 2nd+ compressed messages of a direction are what
    exercise context takeover; `far` needs the inflater's window to reach back"""
    far = [600, 3000, (1 << w) - 50, (1 << w) + 600, 70000]
    plan = [("comp", 300), ("rep", 0), ("rand", 700), ("empty", 0), ("empty", 0), ("far", rng.choice(far)),
            ("comp", 20000 if tier == "quick" else 70000), ("zeros", 1000), ("rep", 0), ("far", rng.choice(far)),
            ("comp", 50), ("rand", 126), ("empty", 0)]
    if big:
        plan.insert(6, ("mix", 1 << 20))
    msgs = []
    for i, (k, s) in enumerate(plan):
        for d in ("c2s", "s2c"):
            if k == "mix":
                kk, ss = ("rand", s) if d == "c2s" else ("comp", s)
            else:
                kk, ss = k, s
            api = rng.choice(["whole", "whole", "stream", "prepared"])
            if ss > 5000:
                frag = rng.choice([None, 4096, 1000, 65536, 125])
            else:
                frag = rng.choice([None, 1, 2, 7, 125, 126, 127, 1000])
            dnc = rng.random() < 0.15
            msgs.append({"dir": d, "bin": kk != "comp" or rng.random() < 0.3, "gen": [kk, ss, rng.randrange(1 << 30)],
                         "api": api, "frag": frag if api == "whole" else None, "pieces": rng.choice([1, 2, 3, 7]), "dnc": dnc})
    return msgs


INJECT = ["compressed-ping", "compressed-pong", "compressed-close", "rsv1-continuation",
          "rsv1-continuation-of-compressed", "rsv2-data", "plain-ping"]


def scenarios(ctx):
    rng = ctx.rng
    consts = _CONSTS or deflate_consts.translate(ctx)
    wins = SPEC_WINDOW
    out = [rp["scenario"] for rp in corpus("scenario")]
    peers = ["real", "zlib-client", "zlib-server"]
    i = 0
    mems_all = [1, 8, 9]
    for w in wins:
        for snct in (0, 1):
            for cnct in (0, 1):
                mems = mems_all if ctx.tier == "thorough" else [mems_all[(w + snct + 2 * cnct) % 3]]
                for mem in mems:
                    plist = peers if ctx.tier == "thorough" else [peers[i % 3]]
                    for peer in plist:
                        i += 1
                        out.append({"id": f"d-w{w}-s{snct}c{cnct}-m{mem}-{peer}",
                                    "offers": [["d", 1, 1, snct, w]], "spol": [f"{cnct},{w},~,~,{mem}", "-", "-"],
                                    "cpol": [f"~,~,{mem}", "-", "-"], "peer": peer,
                                    "msgs": msg_seq(rng, ctx.tier, w, ctx.tier == "thorough" and i % 9 == 0),
                                    "seg": rng.randrange(1 << 30),
                                    "inject": INJECT if (w == 15 and mem == mems[0] and peer == "real") else []})
    # overrides (U3) and asymmetric windows: sampled guard-passing points of the lattice
    _, WIN, OW, offers, accepts, raccepts = lattice(consts)
    n = 24 if ctx.tier == "quick" else 200
    tries = 0
    while n and tries < 100000:
        tries += 1
        o, a, y = rng.choice(offers), rng.choice(accepts), rng.choice(raccepts)
        if a[2] == "~" and a[3] == "~" and y[0] == "~" and y[1] == "~":
            continue
        # guards (restated; a scenario that does not open is reported by the worker anyway)
        if a[0] == "1" and False:
            continue
        if a[1] != "0" and o[1] != "1":
            continue
        if o[2] == "1" and a[2] == "0":
            continue
        if a[3] != "~" and o[3] != "0" and int(a[3]) > int(o[3]):
            continue
        if a[0] == "1" and y[0] == "0":
            continue
        if y[1] != "~" and a[1] != "0" and int(y[1]) > int(a[1]):
            continue
        n -= 1
        mem = rng.choice(["~", "1", "9"])
        w = int(a[3]) if a[3] != "~" else 15
        out.append({"id": "d-override-%s|%s|%s" % ("".join(o), ",".join(a[:4]), ",".join(y[:2])),
                    "offers": [["d", int(o[0]), int(o[1]), int(o[2]), int(o[3])]],
                    "spol": [",".join(a[:4] + [mem]), "-", "-"], "cpol": [",".join(y[:2] + [mem]), "-", "-"],
                    "peer": rng.choice(peers), "msgs": msg_seq(rng, ctx.tier, w, False), "seg": rng.randrange(1 << 30)})
    # a decompression limit (max_message_size) above every single message on one or both ends: nothing may change, also
    # not over a long sequence with context takeover (the limit counts per message, not per connection)
    for k, (snct, cnct, who) in enumerate(((0, 0, "sc"), (0, 0, "s"), (1, 0, "c"), (0, 1, "sc"))):
        capmsgs = []
        for i in range(10):
            capmsgs.append({"dir": "c2s" if i % 2 == 0 else "s2c", "bin": i % 3 != 0, "gen": [["comp", "rand", "far"][i % 3], 9000 + i, rng.randrange(1 << 30)],
                            "api": ["whole", "stream", "whole"][i % 3], "frag": [None, 1000, 4096][i % 3], "pieces": 1 + i % 3, "dnc": False})
        out.append({"id": f"cap-{k}", "offers": [["d", 1, 1, 0, 0]], "spol": [f"{cnct},0,{snct if snct else '~'},~,~", "-", "-"],
                    "cpol": ["~,~,~", "-", "-"], "peer": "real", "msgs": capmsgs,
                    "seg": rng.randrange(1 << 30), "mms": {x: 10000 for x in who}})
    # several offers in one request, the server picks by policy
    out.append({"id": "multi-offer", "offers": [["r", 1, 1], ["d", 1, 1, 0, 0], ["z", 1, 0]], "spol": ["0,0,~,~,~", "-", "-"],
                "cpol": ["~,~,~", "~", "~"], "peer": "real", "msgs": msg_seq(rng, ctx.tier, 15, False), "seg": 5})
    # no extension
    out.append({"id": "none", "offers": [], "spol": ["-", "-", "-"], "cpol": ["-", "-", "-"], "peer": "real",
                "msgs": msg_seq(rng, ctx.tier, 15, False), "seg": 7, "inject": ["compressed-ping", "rsv2-data", "plain-ping"]})
    out.append({"id": "offered-not-accepted", "offers": [["d", 1, 1, 0, 0]], "spol": ["-", "-", "-"], "cpol": ["~,~,~", "-", "-"],
                "peer": "real", "msgs": msg_seq(rng, ctx.tier, 15, False)[:8], "seg": 8, "inject": ["compressed-ping"]})
    # bzip2
    for req, rl, lvl in ((0, 0, "~"), (5, 3, "~"), (9, 0, "1"), (1, 9, "~")):
        out.append({"id": f"z-{req}-{rl}-{lvl}", "offers": [["z", 1, req]], "spol": ["-", f"{rl},{lvl}", "-"],
                    "cpol": ["-", "~", "-"], "peer": "real", "msgs": msg_seq(rng, ctx.tier, 15, False),
                    "seg": rng.randrange(1 << 30), "inject": INJECT if req == 0 else []})
    # bzip2 unfragmented (kept from the time when tiny fragments hit the empty-final-frame defect, repaired: e3e5971d)
    ms = [m for m in msg_seq(rng, ctx.tier, 15, False)]
    for m in ms:
        m["frag"] = None
    out.append({"id": "z-unfragmented", "offers": [["z", 1, 0]], "spol": ["-", "0,~", "-"], "cpol": ["-", "~", "-"],
                "peer": "real", "msgs": ms, "seg": 11})
    # brotli: every takeover combination, both directions (the takeover defect was repaired: 40db9fcb)
    for s, c in ((1, 1), (1, 0), (0, 1), (0, 0)):
        msgs = msg_seq(rng, ctx.tier, 15, False)
        out.append({"id": f"r-s{s}c{c}", "offers": [["r", 1, s]], "spol": ["-", "-", f"{c},~"], "cpol": ["-", "-", "~"],
                    "peer": "real", "msgs": msgs, "seg": rng.randrange(1 << 30), "inject": INJECT if s == c else []})
    # send limit (C16 interplay): refused sends must not disturb later messages, with or without context takeover (F17, repaired)
    for snct, tag in ((1, "nct"), (0, "takeover")):
        lim = [{"dir": "s2c", "bin": False, "gen": ["comp", 40, 1], "api": "whole", "frag": None, "dnc": False},
               {"dir": "s2c", "bin": True, "gen": ["rand", 400, 2], "api": "whole", "frag": None, "dnc": False},
               {"dir": "s2c", "bin": False, "gen": ["comp", 30, 3], "api": "whole", "frag": None, "dnc": False},
               {"dir": "s2c", "bin": True, "gen": ["rand", 900, 4], "api": "whole", "frag": 7, "dnc": False},
               {"dir": "s2c", "bin": False, "gen": ["comp", 35, 5], "api": "whole", "frag": None, "dnc": False}]
        out.append({"id": "send-limit-" + tag, "offers": [["d", 1, 1, snct, 0]], "spol": ["0,0,~,~,~", "-", "-"],
                    "cpol": ["~,~,~", "-", "-"], "peer": "real", "sopts": {"maxMessagePayloadSize": 50}, "msgs": lim, "seg": 3})
    return out


def run_scenarios(scs, nproc=6):
    jobs = []
    for fw in ("twisted", "asyncio"):
        for k in range(nproc):
            part = scs[k::nproc]
            if part:
                jobs.append((fw, part))
    with ThreadPoolExecutor(len(jobs)) as ex:
        outs = list(ex.map(lambda j: (j[0], j[1], json.loads(run_worker("c12_data.py", [j[0]], json.dumps({"scenarios": j[1]})))["results"]), jobs))
    return outs


def judge_data(ctx, res, acc, outs):
    offer_cache = {}
    check_lines, check_meta = [], []
    for fw, part, results in outs:
        for sc, r in zip(part, results):
            if "crash" in r:
                raise RuntimeError("c12_data crashed on %s: %s" % (sc["id"], r["crash"]))
            res.evaluations += r["msgs"]
            res.traces_validated += r["msgs"]
            res.count("messages", r["msgs"])
            res.count("frames_on_wire", r["frames"])
            res.count("scenario:" + sc["id"].split("-")[0] + ":" + sc.get("peer", "real"))
            res.distinct.add((sc["id"]))
            for v in r["violations"]:
                acc.violation(v["key"], v["what"], {"kind": "scenario", "fw": fw, "scenario": sc, "msg_index": v.get("msg_index")})
            for name, o in r.get("inject", {}).items():
                res.count("inject:" + name.split("@")[0] + ":" + o)
                nm = name.split("@")[0]
                expect = "accepted" if nm == "plain-ping" else "failed"
                if o != expect:
                    key = {"compressed-ping": "compressed-control-frame-accepted", "compressed-pong": "compressed-control-frame-accepted",
                           "compressed-close": "compressed-control-frame-accepted",
                           "rsv1-continuation": "rsv1-on-continuation-accepted",
                           "rsv1-continuation-of-compressed": "rsv1-on-continuation-accepted"}.get(nm, "rsv-rule:" + nm)
                    acc.violation(key, f"{fw} {name} on `{sc['id']}`: {o} (expected {expect})",
                                  {"kind": "scenario", "fw": fw, "scenario": dict(sc, msgs=[], inject=[nm])})
            if "server" not in r:
                continue
            # headers re-parsed by the model's grammar, with the policies the scenario used
            if r["req_ext"]:
                check_lines.append("pmce.srv " + hx(r["req_ext"]) + " " + " ".join(sc["spol"]))
                check_meta.append(("srv", fw, sc, "ok %s %s" % ("~" if r["resp_ext"] is None else hx(r["resp_ext"]), r["server"])))
            if r["resp_ext"]:
                check_lines.append("pmce.cli " + hx(r["resp_ext"]) + " " + " ".join(sc["cpol"]))
                check_meta.append(("cli", fw, sc, "ok ~ " + r["client"]))
            for sh in r["shapes"]:
                check_lines.append("pmce.frag %s %d %d %d" % (sh[0], sh[1], sh[2], sh[3]))
                check_meta.append(("frag", fw, sc, sh[4]))
            # the judge of the RSV rules for the injected frames, as the model sees them
    exp = ctx.driver.run(check_lines)
    res.count("model_checks_on_wire_observables", len(check_lines))
    for ln, e, (kind, fw, sc, g) in zip(check_lines, exp, check_meta):
        if e != g:
            acc.brk({"srv": "request header the client really sent, re-parsed by the model's server",
                     "cli": "response header the server really sent, re-parsed by the model's client",
                     "frag": "frame shapes on the wire vs the model's fragmentation"}[kind],
                    fw=fw, scenario=sc["id"], line=ln, model=e, real=g)
    # model's RSV judge for the injected frames (same rows as the theorems)
    jl = ["pmce.judge 1 0 1 4 9", "pmce.judge 1 0 1 4 10", "pmce.judge 1 0 1 4 8", "pmce.judge 1 1 1 4 0", "pmce.judge 0 0 1 4 1",
          "pmce.judge 1 0 1 2 1", "pmce.judge 1 0 1 0 9", "pmce.judge 1 0 0 4 1", "pmce.judge 1 0 1 4 2"]
    je = ctx.driver.run(jl)
    if je != ["fail"] * 6 + ["ok"] * 3:
        acc.brk("model RSV judge", lines=jl, got=je)


def part_data(ctx, res, acc):
    scs = scenarios(ctx)
    ctx.log(f"data path: {len(scs)} scenarios x 2 frameworks")
    outs = run_scenarios(scs)
    judge_data(ctx, res, acc, outs)
    s0 = scs[0]
    res.sample({"scenario": s0["id"], "offers": s0["offers"], "spol": s0["spol"], "cpol": s0["cpol"], "peer": s0["peer"],
                "first_messages": s0["msgs"][:3]})


# ------------------------------------------------------------------------------------------------ replay / run

def replay(ctx, res, acc):
    rp = json.loads(Path(ctx.replay_path).read_text())["replay"]
    kind = rp.get("kind")
    if kind == "line":
        ln = rp["line"]
        e = ctx.driver.run([ln])[0]
        g = real_lines([ln])[0]
        ctx.log(f"replay line `{ln}`: model {e} | real {g}")
        res.evaluations += 1
        if e != g:
            acc.brk("replayed line: model vs real", line=ln, model=e, real=g)
        if g.startswith("ok ") and ln.startswith("pmce.neg"):
            t = g.split(" ")
            so = ctx.driver.run([f"pmce.spec {t[1]} {t[2]}"])[0].split(" ")
            if so[0] != "1" or so[1] != "1":
                acc.violation("negotiation-incompatible:" + ("server->client" if so[0] != "1" else "client->server"), "replayed", rp)
            if so[2] != "1":
                x = ln.split(" ")
                acc.violation("U3:offer-accept-override-not-announced" if (x[7] != "~" or x[8] != "~") else
                              ("U3:response-accept-override-not-announced" if (x[10] != "~" or x[11] != "~") else
                               "parameters-differ-without-override"), "replayed", rp)
        if g.startswith("ok ") and ln.startswith("pmce.accept") and g.split(" ")[3] != "!":
            sl = "pmce.permitted " + " ".join(ln.split(" ")[1:5]) + " " + g.split(" ")[3].replace(",", " ")
            if ctx.driver.run([sl])[0] != "1":
                acc.violation("response-not-permitted-by-offer", "replayed", rp)
        if rp.get("spec") == "raise" and g != "raise":
            acc.violation("guard-accepts-out-of-range-value", "replayed", rp)
    elif kind == "handshake":
        ln = rp["line"]
        e = ctx.driver.run([ln])[0]
        g = json.loads(run_worker("c12_hs.py", [rp["fw"]], json.dumps([ln])))[0]
        ctx.log(f"replay handshake {rp['fw']} {rp['side']} `{rp['header']}`: model {e} | real {g}")
        res.evaluations += 1
        if g != "fail" and rp["side"] == "cli" and (e == "fail"):
            acc.violation("client-accepts-bad-response:replayed", f"client accepted `{rp['header']}`", rp)
        elif e != g:
            acc.brk("replayed handshake: model vs real", line=ln, model=e, real=g)
    elif kind == "scenario":
        outs = [(rp["fw"], [rp["scenario"]],
                 json.loads(run_worker("c12_data.py", [rp["fw"]], json.dumps({"scenarios": [rp["scenario"]]})))["results"])]
        judge_data(ctx, res, acc, outs)
        ctx.log("replay scenario %s: %d violation(s)" % (rp["scenario"]["id"], len(res.violations)))
    else:
        raise RuntimeError("unknown replay kind %r" % kind)
    return res


def run(ctx):
    res = core.Result()
    acc = Acc(res)
    res.rule = ("B: request lines over the deflate lattice (64 offers x 384 accepts x 24 response-accepts; quick: default "
                "response-accept + 5 % seeded sample) plus guard probes, answered by the real classes and by the Lean model; "
                "Lean Spec evaluated on the real objects' fields. C: Sec-WebSocket-Extensions values from a grammar (valid "
                "base + one named defect; quoting / int() forms / whitespace / case / empty elements; random parameter "
                "lists) through real Twisted and asyncio handshakes. D: scenarios = negotiation x peer (real / independent "
                "zlib) x message sequence x fragmentation x API x segmentation, both frameworks. non-trivial = request "
                "lines the real code answered with `ok`, handshakes that opened, scenarios run")
    if ctx.replay_path:
        return replay(ctx, res, acc)
    part_consts(ctx, res, acc)
    part_lattice(ctx, res, acc)
    ctx.log("lattice done")
    part_headers(ctx, res, acc)
    ctx.log("headers done")
    part_data(ctx, res, acc)
    return res


SELFTEST = """
Mutation self-test, 2026-09-23, scratch copy of /repo/src with VERIF_REPO, `./check C12 --tier quick` each
(exit code; key of the first VIOLATION; its concrete replay):
  M1  create_from_response_accept: server/client no_context_takeover swapped   1  negotiation-incompatible:server->client   pmce.neg 0 0 0 0 0 0 ~ 9 ~ 1 10 ~ (+ parameters-differ-without-override, not-lossless:d)
  M2  WINDOW_SIZE_PERMISSIBLE_VALUES gains 8                                    1  guard-accepts-out-of-range-value          pmce.offer 1 1 0 8 (+ client-accepts-bad-response:out-of-range-parameter `server_max_window_bits=8`; window_range no longer proves)
  M3  Response.parse keeps duplicated parameters                                1  client-accepts-bad-response:duplicated-parameter   `permessage-deflate; server_no_context_takeover; server_no_context_takeover`
  M4  end_compress_message returns data (no [:-4])                              1  not-lossless:d   scenario d-w9-s0c0-m1-real, message #4 (tail_strip_consistent no longer proves)
  M5  end_decompress_message does not re-append 00 00 ff ff                     1  not-lossless:d   scenario d-w9-s0c0-m1-real, message #4 (2nd compressed message of the direction)
  M6  sendMessage sets RSV1 on continuation frames                              1  rsv1-on-continuation   scenario d-w9-s0c0-m1-real, message #2
  M7  sendMessage ignores doNotCompress                                         1  donotcompress-sent-compressed   scenario d-w10-s1c0-m9-real, message #5
  M8  processData accepts compressed control frames                             1  compressed-control-frame-accepted   compressed-ping@server
  M9  client ignores an unknown extension in the response                       1  client-accepts-bad-response:unknown-extension   `x-webkit-deflate-frame, permessage-deflate`
  M10 OfferAccept: window_bits > offer.request_max_window_bits guard dropped    1  negotiation-incompatible:server->client   pmce.neg 0 0 0 9 0 0 ~ 10 ~ ~ ~ ~
  M11 processData accepts RSV1 on continuation frames                           1  rsv1-on-continuation-accepted   rsv1-continuation@server
  M12 server never resets its compressor on server_no_context_takeover          1  not-lossless:d   scenario d-w10-s1c0-m9-real, message #4
  M13 beginMessage ignores doNotCompress                                        1  donotcompress-sent-compressed   streaming message
  M14 create_from_offer_accept: server/client window bits swapped               1  negotiation-incompatible:client->server   pmce.neg 1 1 0 0 0 0 1 10 ~ ~ ~ ~
  M15 brotli start_decompress_message uses the wrong role's flag                1  not-lossless:r   scenario r-s0c1, message #2
  M16 sendPreparedMessage ignores doNotCompress                                 1  send-raises:PerMessageDeflate:AttributeError   first prepared doNotCompress message
  M17 OfferAccept.get_extension_string omits server_max_window_bits             1  response-not-permitted-by-offer   pmce.accept 0 0 0 9 0 0 ~ ~ ~
  M18 server inflates with server_max_window_bits                               1  not-lossless:d   20000-octet message, zlib client peer
  H1  harmless: get_extension_string via "; ".join, payload1 + payload2, extra local in end_compress_message   0  (silent)
  H2  harmless: ResponseAccept guards reordered / rewritten                     0  (silent)
The first run of M2 exposed a harness fault (scenarios were built from the mutated table and crashed the independent
zlib peer -> exit 2); lattice and scenarios are now built from the Spec's ranges (SPEC_WINDOW / SPEC_MEM).
"""
