"""C09 — UTF-8 validation equals RFC 3629, incrementally and in both implementations.

Proof side  : lean/Abverif/Proofs/C09.lean over lean/Abverif/Model/Utf8.lean and the tables REGENERATED from /repo by
              translate/utf8.py on every run (Python tuple via ast, C initialiser and DFA_TRANSITION macro via a tokenizer).
Tie to code : the real validators are run in subprocesses — pure Python (AUTOBAHN_USE_NVX=0) and the NVX C rebuilt from
              /repo (public wrapper with every selectable implementation + the internal `_table` / `_unrolled` entry points
              called directly) — on
                (a) the complete transition relation: every live state (reached by a witness prefix) x every byte x a
                    characterising set of 9 continuations, as 3-call sequences;
                (b) every byte string of length <= 2 (quick) / <= 3 (thorough), plus all 4-byte strings under selected
                    2-byte prefixes, one call each on a fresh validator;
                (c) generated long valid/invalid mixtures (boundary scalars of every length class, one injected fault:
                    overlong, surrogate, > U+10FFFF, stray continuation, truncated tail, or none) under random chunkings
                    including empty chunks, both "stop at the first reject" and "keep calling after a reject".
              Oracle = the Lean Spec through the driver (`utf8.enum spec`, `utf8.judge` = conformance of the reported
              4-tuples with the RFC 3629 grammar), second reference = CPython's strict decoder. The executable Lean models
              (`utf8.validate.py`, `utf8.validate.nvx`) are compared call by call with the implementations they mirror.

Self-test (scratch copy, VERIF_REPO; 2026-09-23): 13 mutations detected with concrete replays, 2 harmless rewrites silent — table in SELFTEST at the end of this file.
"""
import json
import os
import shutil
import subprocess
import tempfile
from concurrent.futures import ThreadPoolExecutor
from pathlib import Path

from translate import utf8 as tr_utf8
from vlib import core

PROP = "C09"
PROOF_MODULES = ["Abverif.Proofs.C09Tables", "Abverif.Proofs.C09"]
TRANSLATORS = [tr_utf8.translate]
TRUSTED = [
    "Lean 4.33 kernel; axioms of every theorem audited to be within {propext, Classical.choice, Quot.sound}",
    "translate/utf8.py (ast.literal_eval of UTF8VALIDATOR_DFA / UTF8_ACCEPT / UTF8_REJECT; tokenizer + recursive-descent "
    "parser for the C table initialiser and the DFA_TRANSITION if-chain; the while-conditions of the two C loops); self-checked each run: generated Python table == "
    "live tuple cell by cell, generated C table/macro == compiled C on all 8 x 256 live transitions",
    "hand-written Lean models of Utf8Validator.validate (pure Python) and of _nvx_utf8vld_validate_table/_unrolled + the cffi "
    "wrapper's result mapping (Abverif/Model/Utf8.lean); tied to the code only by the differential run",
    "the RFC 3629 section 4 ABNF as transcribed into `inductive WF` / `wf` (read it: 25 lines)",
    "gcc, cffi, CPython bytes indexing (exercised, not verified)",
]
ASSUMPTIONS = [
    "the validator is driven as protocol.py drives it: reset(), then validate(bytes) calls; only `bytes` arguments",
    "after a rejecting call the property leaves open what an EMPTY later chunk answers and what the chunk-relative index "
    "of later calls is; it requires later non-empty chunks to answer invalid with an unchanged total index",
]
MANIFEST_ENTRY = {
    "technique": "Lean 4: decide +kernel over the regenerated 9x256 tables (Python tuple, C table, C macro) + inductive proofs "
                 "(grammar <-> DFA, chunk independence, first offender) + exhaustive differential tie to 8 implementation paths",
    "text": "Proved in Lean: the Python DFA table, the C table and the C DFA_TRANSITION macro, each regenerated from /repo on "
            "every run, equal a hand-written RFC 3629 automaton on all 9x256 cells; that automaton accepts exactly the RFC 3629 "
            "section 4 grammar and is alive exactly while some extension is well-formed (induction, all byte strings); the "
            "validate() model gives, for every chunking including empty chunks, the same carried state, verdict, "
            "endsOnCodePoint and total index as one call, reports the first offending byte, and keeps rejecting after a "
            "reject. NVX = pure Python is proved at full strength (nvx_eq_py: every call sequence, every implementation id, all "
            "four tuple elements), resting on the C table, the C macro and the C loop conditions as re-read from /repo on this run. "
            "The models are tied to the code by running pure Python and the rebuilt NVX C (wrapper with every implementation "
            "selection, internal table and unrolled entry points) on the complete transition relation, all byte strings up to "
            "length 2 (quick) / 3 (thorough) plus 4-byte families, and generated mixtures under random chunkings, judged by "
            "the Lean grammar and cross-checked with CPython's strict decoder.",
    "note": "Trusted: Lean kernel, the translators (self-checked against the live objects each run), the hand-written validate "
            "models (differential tie only), gcc/cffi. The SSE2/SSE4.1 functions in _utf8validator.c are not reachable from "
            "nvx_utf8vld_validate (every implementation id except 2 dispatches to the table loop) and are not covered. "
            "Finding F1 (NVX forgot a rejection on the next call) was repaired in /repo c2c187d5; a regression is reported as a "
            "violation with key nvx-forgets-reject-on-next-call and also breaks loops_run_in_reject / nvx_eq_py.",
}
W = Path(__file__).parent / "workers"

# witness prefix for every live automaton state, and the characterising continuations that tell the states apart
STATE_PREFIX = {0: "", 2: "c2", 3: "e1", 4: "e0", 5: "ed", 6: "f0", 7: "f1", 8: "f4"}
CHARACTERISING = ["", "80", "bf", "8080", "bfbf", "a080", "808080", "908080", "bf8080"]
INTERNAL_CDEF = {"utf8validator": """
    int _nvx_utf8vld_validate_table (void* utf8vld, const uint8_t* data, size_t length);
    int _nvx_utf8vld_validate_unrolled (void* utf8vld, const uint8_t* data, size_t length);
"""}
BOUNDARY = [0x0, 0x41, 0x7F, 0x80, 0x7FF, 0x800, 0xFFF, 0x1000, 0xCFFF, 0xD000, 0xD7FF, 0xE000, 0xFFFD, 0xFFFF,
            0x10000, 0x3FFFF, 0x40000, 0xFFFFF, 0x100000, 0x10FFFF]
FAULTS = {
    "overlong": ["c080", "c1bf", "e08080", "e09fbf", "f0808080", "f08fbfbf"],
    "surrogate": ["eda080", "edbfbf", "edadbf", "edb080"],
    "above-10ffff": ["f4908080", "f4bfbfbf", "f5808080", "f7bfbfbf", "f8", "fb", "fc", "fe", "ff"],
    "stray-continuation": ["80", "bf", "9f", "a0"],
}


def H(b):
    return b.hex() or "-"


def fam(impl):
    return "py" if impl == "py" else "nvx"


# ----------------------------------------------------------------------------- second reference: CPython strict decode

def cpython_ref(b):
    """(valid, ends, first offender index or None) according to CPython's strict UTF-8 decoder"""
    try:
        b.decode("utf-8", "strict")
        return True, True, None
    except UnicodeDecodeError as e:
        if e.reason == "unexpected end of data":
            return True, False, None
        if e.reason == "invalid start byte":
            return False, False, e.start
        if e.reason == "invalid continuation byte":
            return False, False, e.end
        raise RuntimeError("unknown UnicodeDecodeError reason " + e.reason)


# ----------------------------------------------------------------------------- generators

def rand_scalar(rng):
    x = rng.random()
    if x < 0.3:
        return rng.choice(BOUNDARY)
    k = rng.randrange(4)
    if k == 0:
        return rng.randrange(0x80)
    if k == 1:
        return rng.randrange(0x80, 0x800)
    if k == 2:
        while True:
            c = rng.randrange(0x800, 0x10000)
            if not 0xD800 <= c <= 0xDFFF:
                return c
    return rng.randrange(0x10000, 0x110000)


def enc(cps):
    return "".join(map(chr, cps)).encode("utf-8")


def gen_body(rng, tier):
    """-> (bytes, fault kind)"""
    x = rng.random()
    if x < 0.4:
        n = rng.randrange(0, 8)
    elif x < 0.8:
        n = rng.randrange(8, 100)
    elif x < 0.994 or tier == "quick":
        n = rng.randrange(100, 700)
    else:
        n = rng.randrange(5000, 30000)
    before = enc([rand_scalar(rng) for _ in range(rng.randrange(n + 1))])
    after = enc([rand_scalar(rng) for _ in range(n - min(n, len(before)))]) if rng.random() < 0.8 else b""
    kind = rng.choice(["none", "none", "overlong", "surrogate", "above-10ffff", "stray-continuation", "truncated",
                       "truncated"])
    if kind == "none":
        return before + after, kind
    if kind == "truncated":
        c = enc([rng.choice([0x80, 0x7FF, 0x800, 0xD7FF, 0xE000, 0xFFFF, 0x10000, 0x10FFFF, rand_scalar(rng) | 0x80])])
        if len(c) < 2:
            c = enc([0x20AC])
        cut = rng.randrange(1, len(c))
        return before + c[:cut] + after, kind + ("-at-end" if not after else "")
    return before + bytes.fromhex(rng.choice(FAULTS[kind])) + after, kind


def chunkings(rng, b, offender):
    """a few chunk lists of b (empty chunks included)"""
    n = len(b)
    outs = [[b]]
    if n <= 48:
        outs.append([b[i:i + 1] for i in range(n)])
    for _ in range(2):
        k = rng.choice([1, 2, 3, 5, 9, 17]) if n < 4000 else rng.choice([1, 2, 5])
        cuts = []
        for _ in range(k):
            y = rng.random()
            if offender is not None and y < 0.35:
                cuts.append(min(n, max(0, offender + rng.randrange(-3, 4))))
            elif y < 0.5 and cuts:
                cuts.append(cuts[-1])            # duplicate cut -> empty chunk
            else:
                cuts.append(rng.randrange(n + 1))
        cuts = [0] + sorted(cuts) + [n]
        cs = [b[cuts[i]:cuts[i + 1]] for i in range(len(cuts) - 1)]
        if rng.random() < 0.2:
            cs.insert(rng.randrange(len(cs) + 1), b"")
        outs.append(cs)
    return outs


def stop_at_reject(cs, offender):
    """the chunk list as protocol.py would feed it: nothing after the chunk that contains the first offender"""
    if offender is None:
        return cs
    out, pos = [], 0
    for c in cs:
        out.append(c)
        pos += len(c)
        if pos > offender:
            break
    return out


def gen_sequences(ctx):
    rng = ctx.rng
    seqs = []   # (label, [bytes])
    # (a) complete transition relation
    for s, pre in STATE_PREFIX.items():
        for b in range(256):
            for w in CHARACTERISING:
                seqs.append((f"transition s={s} b={b:02x}", [bytes.fromhex(pre), bytes([b]), bytes.fromhex(w)]))
    # calls after a reject (F1 family) and other hand-picked boundaries
    for cs in (["ff", "41"], ["ff", ""], ["ff", "", "41"], ["c0", "80"], ["e28241", "ac"], ["eda0", "80"],
               ["f4", "90", "8080"], ["e2", "", "82", "", "ac"], ["", "", ""], [""], ["41", "ff", "ff"],
               ["f0908080", "f48fbfbf", "f4908080"], ["ed9fbf", "eda080"], ["efbfbf", "ee8080", "c0"]):
        seqs.append(("handpicked", [bytes.fromhex(x) for x in cs]))
    n = 900 if ctx.tier == "quick" else 16000
    for _ in range(n):
        b, kind = gen_body(rng, ctx.tier)
        _, _, off = cpython_ref(b)
        for cs in chunkings(rng, b, off):
            if rng.random() < 0.5:
                seqs.append((kind + "/stop", stop_at_reject(cs, off)))
            else:
                seqs.append((kind + "/continue", cs))
    return seqs


def gen_enum(ctx):
    items = [("", 0), ("", 1), ("", 2)]
    if ctx.tier == "quick":
        firsts = ["41", "80", "bf", "c1", "c2", "df", "e0", "e1", "ed", "ef", "f0", "f1", "f4", "f5"]
        four = ["f08f", "f090", "f1bf", "f480", "f48f", "f490"]
    else:
        firsts = ["%02x" % i for i in range(256)]
        four = ["%02x%02x" % (a, b) for a in (0xf0, 0xf1, 0xf2, 0xf3, 0xf4)
                for b in (0x7f, 0x80, 0x8f, 0x90, 0x9f, 0xa0, 0xbf, 0xc0)] + ["e0a0", "e09f", "ed9f", "eda0", "efbf"]
    items += [(f, 2) for f in firsts] + [(f, 2) for f in four]
    return items


# ----------------------------------------------------------------------------- running the implementations

def run_worker(mode, job, scratch):
    e = dict(os.environ)
    e["PYTHONPATH"] = str(core.REPO / "src")
    e["PYTHONHASHSEED"] = "0"
    e["AUTOBAHN_USE_NVX"] = "0" if mode == "pure" else "1"
    job = dict(job, mode=mode, nvxdir=str(scratch))
    if mode == "nvx":
        e["PYTHONPATH"] = str(scratch) + os.pathsep + e["PYTHONPATH"]
    p = subprocess.run([core.PY, str(W / "c09_worker.py")], input=json.dumps(job), env=e, capture_output=True,
                       text=True, cwd="/", timeout=3000)
    if p.returncode != 0:
        return {"failed": True, "returncode": p.returncode, "stderr": p.stderr[-1500:], "job": job}
    return json.loads(p.stdout)


def drv_parallel(ctx, lines, parts=8):
    if len(lines) < 64:
        return ctx.driver.run(lines)
    step = (len(lines) + parts - 1) // parts
    batches = [lines[i:i + step] for i in range(0, len(lines), step)]
    with ThreadPoolExecutor(parts) as ex:
        outs = list(ex.map(ctx.driver.run, batches))
    return [x for o in outs for x in o]


def res_str(calls):
    return ";".join(",".join(map(str, c)) for c in calls) or "-"


def well_shaped(calls):
    return all(len(c) == 4 for c in calls)


def judge_batch(ctx, pairs):
    """pairs: [(chunks(list of bytes), calls)] -> list of 'ok' / 'k:reason' (shape errors judged here)"""
    lines, idx, out = [], [], [None] * len(pairs)
    for i, (cs, calls) in enumerate(pairs):
        bad = next((k for k, c in enumerate(calls) if len(c) != 4), None)
        if bad is not None:
            out[i] = f"{bad}:" + ("validator-raises" if str(calls[bad][0]).startswith("raised") else "result-shape-wrong")
            continue
        lines.append("utf8.judge " + res_str(calls) + " " + " ".join(H(c) for c in cs))
        idx.append(i)
    for i, a in zip(idx, drv_parallel(ctx, lines)):
        out[i] = a
    return out


def shrink(ctx, scratch, mode, impl, internal, chunks, reason):
    """greedy reduction of a failing chunk list, keeping the same reason (stops when the tier's time budget runs low)"""
    import time
    cur = list(chunks)
    budget = 60 if ctx.tier == "quick" else 600
    for _ in range(14):
        if time.time() - getattr(ctx, "c09_run_t0", ctx.t0) > budget:   # measured from the start of run(): a Lean rebuild does not eat it
            break
        cands = []
        for i in range(len(cur)):
            cands.append(cur[:i] + cur[i + 1:])                       # drop a chunk
            c = cur[i]
            if len(c) > 1:
                h = len(c) // 2
                cands.append(cur[:i] + [c[:h]] + cur[i + 1:])         # keep first half
                cands.append(cur[:i] + [c[h:]] + cur[i + 1:])         # keep second half
            if 1 <= len(c) <= 12:
                for j in range(len(c)):
                    cands.append(cur[:i] + [c[:j] + c[j + 1:]] + cur[i + 1:])
            if i + 1 < len(cur):
                cands.append(cur[:i] + [cur[i] + cur[i + 1]] + cur[i + 2:])   # merge
        cands = [c for c in cands if c] [:400]
        if not cands:
            break
        o = run_worker(mode, {"impls": [impl], "internal": internal, "seqs": [[c.hex() for c in cs] for cs in cands]}, scratch)
        if o.get("failed") or impl not in o["seqs"]:
            break
        verdicts = judge_batch(ctx, list(zip(cands, o["seqs"][impl])))
        good = [(sum(len(c) for c in cs), len(cs), k) for k, (cs, v) in enumerate(zip(cands, verdicts))
                if v != "ok" and v.split(":", 1)[1] == reason]
        if not good:
            break
        best = cands[min(good)[2]]
        if (sum(len(c) for c in best), len(best)) >= (sum(len(c) for c in cur), len(cur)):
            break
        cur = best
    return cur


def enum_reason(exp, got):
    if got == "x":
        return "single-call-indices-disagree-or-shape-wrong"
    if exp in "AP" and got in "AP":
        return "ends-on-code-point-wrong"
    if exp in "AP":
        return "rejects-well-formed-prefix"
    if got in "AP":
        return "accepts-ill-formed"
    return "offender-total-index-wrong"


# ----------------------------------------------------------------------------- the check

def run(ctx):
    res = core.Result()
    res.rule = ("(a) every live state (witness prefix) x every byte x 9 characterising continuations as 3-call sequences; "
                "(b) every byte string of length <=2 (quick: + 3-byte strings under 14 first bytes; thorough: all 3-byte "
                "strings) and all 4-byte strings under selected 2-byte prefixes, one call on a fresh validator; "
                "(c) generated strings of 0..700 (thorough: a few up to 30000) boundary-biased scalars with at most one injected fault "
                "(overlong/surrogate/>10FFFF/stray continuation/truncated tail), each under whole/bytewise/random chunkings "
                "with empty chunks, stopping at or continuing after the first reject. Every implementation path (py; nvx "
                "wrapper default + impl 1..4; internal table/unrolled) is judged by the Lean grammar (utf8.judge / utf8.enum spec); "
                "non-trivial = distinct (chunk list) with at least one multi-byte lead, fault or chunk boundary")
    import time
    ctx.c09_run_t0 = time.time()
    scratch = Path(tempfile.mkdtemp(prefix="abverif-c09-"))
    try:
        internal = True
        try:
            core.build_nvx(scratch, which=("utf8validator",), extra_cdef=INTERNAL_CDEF)
        except RuntimeError as e:
            internal = False
            res.notes.append("internal C entry points _nvx_utf8vld_validate_table/_unrolled not reachable: " + str(e)[-200:])
            core.build_nvx(scratch, which=("utf8validator",))
        return _run(ctx, res, scratch, internal)
    finally:
        shutil.rmtree(scratch, ignore_errors=True)


def _run(ctx, res, scratch, internal):
    replay = None
    if ctx.replay_path:
        replay = json.loads(Path(ctx.replay_path).read_text())["replay"]
        labelled = [("replay", [bytes.fromhex(h) if h != "-" else b"" for h in replay["chunks"]])]
        enum_items = []
    else:
        labelled = gen_sequences(ctx)
        enum_items = gen_enum(ctx)
    seqs = [cs for _, cs in labelled]
    ctx.log(f"{len(seqs)} call sequences, {len(enum_items)} enumeration blocks; NVX rebuilt (internal entry points: {internal})")

    # ---- run the implementations
    nproc = 1 if replay else 10
    heavy_enum = [it for it in enum_items if it[1] == 2]
    light_enum = [it for it in enum_items if it[1] < 2]
        # impl 1/3/4 reach the same table loop through the same dispatcher as the default: they are swept on the transition
    # relation and the call sequences, not on the big enumerations
    enum_impls = ["nvx.wrap", "nvx.impl2", "nvx.table", "nvx.unrolled"]
    jobs = []
    hexseqs = [[c.hex() for c in cs] for cs in seqs]
    for w in range(nproc):
        part = list(range(w, len(seqs), nproc))
        items = heavy_enum[w::nproc] + (light_enum if w == 0 else [])
        jobs.append(("pure", {"seqs": [hexseqs[i] for i in part], "enum": items}, part, items))
        jobs.append(("nvx", {"seqs": [hexseqs[i] for i in part], "internal": internal, "enum": items,
                             "enum_impls": enum_impls}, part, items))
    with ThreadPoolExecutor(16) as ex:
        outs = list(ex.map(lambda j: run_worker(j[0], j[1], scratch), jobs))
    for o in outs:
        if o.get("failed"):
            if o["returncode"] < 0:
                res.violations.append(core.Violation(
                    f"{'py' if o['job']['mode'] == 'pure' else 'nvx'}-validator-crashes",
                    f"validator process died with signal {-o['returncode']}", {"stderr": o["stderr"]}, confirmed=False))
                continue
            raise RuntimeError("c09 worker failed: " + o["stderr"])
    outs_ok = [(j, o) for j, o in zip(jobs, outs) if not o.get("failed")]
    ctx.log("workers done")

    # ---- implementation selection (websocket/__init__.py) and translator self-check against the live objects
    live_table = None
    for (mode, _, _, _), o in outs_ok:
        if not o["autobahn_file"].startswith(str(core.REPO / "src")):
            raise RuntimeError(f"worker imported autobahn from {o['autobahn_file']}, not from {core.REPO}/src")
        want = "autobahn.websocket.utf8validator" if mode == "pure" else "autobahn.nvx._utf8validator"
        if o["selected"] != want:
            res.violations.append(core.Violation(
                "selection-ignores-AUTOBAHN_USE_NVX", f"AUTOBAHN_USE_NVX={'0' if mode == 'pure' else '1'} selected {o['selected']}",
                {"env": {"AUTOBAHN_USE_NVX": "0" if mode == "pure" else "1"}, "selected": o["selected"]}))
            break
        if mode == "pure" and live_table is None:
            live_table = (o["table"], o["consts"])
    rows = ctx.driver.run(["utf8.cells py", "utf8.consts"] + [f"utf8.row {t} {s}" for t in ("rfc", "py", "ctable", "cunrolled")
                                                              for s in range(9)])
    gen_cells = [int(x) for x in rows[0].split(",")]
    consts = [int(x) for x in rows[1].split()]
    if live_table is not None and live_table[0] is None:
        res.notes.append("utf8validator.py no longer has a module-level UTF8VALIDATOR_DFA: translator self-check skipped")
    elif live_table is not None and (gen_cells != live_table[0] or consts[:2] != live_table[1]):
        res.correspondence_breaks.append({"stream": "translator self-check: generated tablePy vs live UTF8VALIDATOR_DFA",
                                          "first_difference": next((i for i, (a, b) in enumerate(zip(gen_cells, live_table[0])) if a != b), None),
                                          "generated_len": len(gen_cells), "live_len": len(live_table[0])})
    rowmap = {}
    k = 2
    for t in ("rfc", "py", "ctable", "cunrolled"):
        for s in range(9):
            rowmap[(t, s)] = rows[k].split(",")
            k += 1
    for t, src in (("py", "utf8validator.py UTF8VALIDATOR_DFA"), ("ctable", "_utf8validator.c UTF8VALIDATOR_DFA[]"),
                   ("cunrolled", "_utf8validator.c DFA_TRANSITION")):
        diff = [(s, b, rowmap[(t, s)][b], rowmap[("rfc", s)][b]) for s in range(9) for b in range(256)
                if rowmap[(t, s)][b] != rowmap[("rfc", s)][b]]
        if diff:
            res.notes.append(f"{src}: {len(diff)} cell(s) differ from the RFC automaton, e.g. " +
                             "; ".join(f"state {s} octet 0x{b:02x}: source says {g}, RFC says {e}" for s, b, g, e in diff[:4]))
    res.count("table_cells_compared", 3 * 9 * 256)
    ctx.log("tables compared")

    # ---- (b) exhaustive enumeration against the Spec
    found = {}      # key -> (size, what, replay)

    def offer(key, what, replay, size):
        if key not in found or size < found[key][0]:
            found[key] = (size, what, replay)

    if enum_items:
        exp = dict(zip(enum_items, drv_parallel(ctx, [f"utf8.enum spec {n} {p or '-'}" for p, n in enum_items], 12)))
        mdl = {}
        for which in ("py", "nvx1", "nvx2"):
            mdl[which] = dict(zip(enum_items, drv_parallel(ctx, [f"utf8.enum {which} {n} {p or '-'}" for p, n in enum_items], 12)))
            for it in enum_items:
                if mdl[which][it] != exp[it]:
                    res.correspondence_breaks.append({"stream": f"driver model {which} vs driver spec (single call)", "block": list(it)})
                    break
        nstr = 0
        for (mode, job, _, items), o in outs_ok:
            for impl, got_rows in o["enum"].items():
                for it, got in zip(items, got_rows):
                    e = exp[it]
                    nstr += len(got)
                    res.count("enum:" + impl, len(got))
                    if got == e:
                        continue
                    if len(got) != len(e):
                        raise RuntimeError("enum length mismatch")
                    bad = [i for i in range(len(e)) if e[i] != got[i]]
                    res.count("enum_mismatches:" + impl, len(bad))
                    for i in bad[:50]:
                        pre, n = it
                        s = bytes.fromhex(pre) + (bytes([i]) if n == 1 else bytes([i // 256, i % 256]) if n == 2 else b"")
                        reason = enum_reason(e[i], got[i])
                        offer(f"{fam(impl)}-{reason}", f"{impl}: validate({s.hex() or 'empty'}) on a fresh validator answers "
                              f"'{got[i]}' where RFC 3629 gives '{e[i]}' (A=valid on boundary, P=valid inside a code point, digit=offender index)",
                              {"impl": impl, "chunks": [H(s)], "got": got[i], "spec": e[i], "why": reason}, len(s))
        res.evaluations += nstr
        res.exhaustive = True
        res.count("enum_blocks", len(enum_items))

    # ---- (a)+(c) call sequences: judge by the Spec, compare with the models, cross-check with CPython
    per_impl = {}
    for (mode, job, part, _), o in outs_ok:
        for impl, lst in o["seqs"].items():
            d = per_impl.setdefault(impl, {})
            for i, calls in zip(part, lst):
                d[i] = calls
    impl_names = sorted(per_impl)
    ctx.log("implementations:", impl_names)
    # distinct (sequence, result) pairs
    pair_ids = {}
    for impl in impl_names:
        for i, calls in per_impl[impl].items():
            pair_ids.setdefault((i, res_str(calls)), []).append(impl)
    pairs = sorted(pair_ids)
    by_seq = {}
    for (i, rs) in pairs:
        by_seq.setdefault(i, []).append(rs)
    verdicts = judge_batch(ctx, [(seqs[i], per_impl[pair_ids[(i, rs)][0]][i]) for i, rs in pairs])
    res.count("judge_lines", len(pairs))
    fails = {}
    for (i, rs), v in zip(pairs, verdicts):
        for impl in pair_ids[(i, rs)]:
            res.evaluations += len(seqs[i])
            res.count("calls:" + impl, len(seqs[i]))
        if v == "ok":
            continue
        if v == "bad-op":
            raise RuntimeError("driver rejected a judge line")
        k, reason = v.split(":", 1)
        for impl in pair_ids[(i, rs)]:
            res.count(f"nonconforming:{fam(impl)}-{reason}")
            fails.setdefault((fam(impl), reason), []).append((sum(map(len, seqs[i])), i, impl, int(k)))
    for (family, reason), lst in sorted(fails.items()):
        lst.sort()
        size, i, impl, k = lst[0]
        chunks = seqs[i][:k + 1]
        mode = "pure" if impl == "py" else "nvx"
        small = shrink(ctx, scratch, mode, impl, internal, chunks, reason)
        o = run_worker(mode, {"impls": [impl], "internal": internal, "seqs": [[c.hex() for c in small]]}, scratch)
        got = o["seqs"][impl][0] if not o.get("failed") else None
        key = f"{family}-{reason}"
        offer(key, f"{impl}: call #{len(small) - 1} of validate() over chunks {[H(c) for c in small]} answers "
                   f"{got[-1] if got else '?'}: {reason} (first seen in a '{labelled[i][0]}' case; {len(lst)} non-conforming runs of this kind)",
              {"impl": impl, "chunks": [H(c) for c in small], "got": got, "why": reason,
               "unshrunk_chunks": [H(c) for c in chunks] if size <= 400 else f"{size} bytes"}, sum(map(len, small)))

    # models vs implementations, call by call (exact, including the answers after a reject)
    mlines = []
    for i in range(len(seqs)):
        hs = " ".join(H(c) for c in seqs[i])
        mlines += [f"utf8.validate.py {hs}", f"utf8.validate.nvx 1 {hs}", f"utf8.validate.nvx 2 {hs}"]
    mout = drv_parallel(ctx, mlines, 12)
    nbreak = 0
    for i in range(len(seqs)):
        mp, m1, m2 = (x.split(" | ")[0].replace(" ", ",") for x in mout[3 * i:3 * i + 3])
        for impl in impl_names:
            if i not in per_impl[impl]:
                continue
            got = res_str(per_impl[impl][i]) if seqs[i] else ""
            want = mp if impl == "py" else (m2 if impl in ("nvx.impl2", "nvx.unrolled") else m1)
            res.traces_validated += 1
            if got != want:
                nbreak += 1
                if nbreak <= 5:
                    res.correspondence_breaks.append({"stream": f"Lean model vs {impl}", "chunks": [H(c) for c in seqs[i]],
                                                      "model": want, "implementation": got})
    if nbreak:
        res.count("model_mismatches", nbreak)
    res.count("model_lines", len(mlines))

    # CPython's strict decoder as a second reference for the Spec itself (sequence-level observables)
    clines, cidx = [], []
    seen = set()
    for i, cs in enumerate(seqs):
        b = b"".join(cs)
        if b in seen:
            continue
        seen.add(b)
        v, e, off = cpython_ref(b)
        hb = H(b)
        clines += [f"utf8.alive {hb}", f"utf8.wf {hb}", f"utf8.offender {hb} {off if off is not None else 0}"]
        cidx.append((i, v, e, off))
    cout = drv_parallel(ctx, clines, 12)
    for n, (i, v, e, off) in enumerate(cidx):
        a, w, o = cout[3 * n:3 * n + 3]
        if (a == "1") != v or (w == "1") != (v and e) or (off is not None and o != "1"):
            res.correspondence_breaks.append({"stream": "Lean Spec vs CPython strict decoder", "bytes": H(b"".join(seqs[i])),
                                              "cpython": [v, e, off], "spec_alive_wf_offender": [a, w, o]})
            break
    res.count("cpython_crosschecks", len(cidx))

    for i, (label, cs) in enumerate(labelled):
        res.count("case:" + label.split(" ")[0])
        b = b"".join(cs)
        if len(cs) > 1 or any(x >= 0x80 for x in b):
            res.distinct.add(core.sha("|".join(H(c) for c in cs))[:20])
        res.count("len:" + ("0" if not b else "1-8" if len(b) <= 8 else "9-64" if len(b) <= 64 else "65-1k" if len(b) <= 1024
                            else "1k-8k" if len(b) <= 8192 else ">8k"))
    for i in (0, 2305, len(labelled) - 1, len(labelled) - 2, len(labelled) // 2):
        if 0 <= i < len(labelled) and "py" in per_impl and i in per_impl["py"]:
            res.sample({"case": labelled[i][0], "chunks": [H(c)[:48] for c in labelled[i][1]][:8], "py": per_impl["py"][i][:8]})
    for key, (size, what, rp) in sorted(found.items()):
        res.violations.append(core.Violation(key, what, rp))
    return res


# Self-test outcomes: `python3 tools_selftest_c09.py` (scratch copy of /repo/src, VERIF_REPO; quick tier; 2026-09-23, re-run after
# /repo c2c187d5 repaired F1: 13 mutations detected with concrete replays, 2 harmless rewrites silent).
SELFTEST = """
mutation (single edit in the scratch copy)                      exit  proof_problems                 concrete replay (key: impl chunks)
py table cell [256+5*16+7] 1->2 (surrogates)                      1   tablePy_eq_rfc fails           py-accepts-ill-formed: py [eda0]; py-offender-total-index-wrong: py [eda000]
C table cell [256+4*16+1] 1->2 (overlong E0 80)                   1   tableC_eq_rfc fails            nvx-accepts-ill-formed: nvx.wrap [e080]; nvx-offender-total-index-wrong [e08000]
C macro, state 8 bound 0x8f->0x9f (> U+10FFFF)                    1   unrolledC_eq_rfc fails         nvx-accepts-ill-formed: nvx.impl2 [f490]; [f49000]
py validate(): reject branch drops `self._index += i`             1   -                              py-offender-total-index-wrong: py [edad]; single-call indices: py [0080]
py validate(): success tuple elements 0/1 swapped                 1   -                              py-rejects-well-formed-prefix: py [c2]; py-ends-...-after-reject: py [80, -]
py validate(): reject tuple cur/total swapped                     1   -                              py-offender-total-index-wrong: py [00, 80]; py-total-index-moves-after-reject [eda0, 80]
nvx wrapper: ends := res >= 0                                     1   -                              nvx-ends-on-code-point-wrong: nvx.wrap [c2]
C table loop: total_index += i + 1 on reject                      1   -                              nvx-offender-total-index-wrong: nvx.impl1 [80]
C loops: `vld->state = state` dropped at the end of a call        1   -                              nvx-accepts-ill-formed: nvx.impl1 [c2, 00]; nvx-rejects-well-formed-prefix [c2, 80]
py UTF8_REJECT = 2                                                1   consts_eq_rfc fails            py-accepts-ill-formed: py [80]; py-rejects-well-formed-prefix: py [c2]
websocket/__init__: AUTOBAHN_USE_NVX=0 no longer disables NVX     1   -                              selection-ignores-AUTOBAHN_USE_NVX; py-forgets-reject-on-next-call: py [80, 80]
C table loop: `&& state != 1` re-added (F1 regression)            1   loops_run_in_reject fails      nvx-forgets-reject-on-next-call: nvx.impl1 [80, 80]
                                                                      (so nvx_eq_py cannot build)
C unrolled loop: `&& state != 1` re-added (F1 regression)         1   loops_run_in_reject fails      nvx-forgets-reject-on-next-call: nvx.impl2 [80, 80]
harmless: py table literals re-based, `state << 4` -> `* 16`      0   -                              (silent)
harmless: C macro branches swapped, `==||==||==` -> range         0   -                              (silent)
(on the selection mutation the "pure" worker ends up on the INSTALLED /venv `_nvx_utf8validator` .so, which on 2026-09-23 was
 still the pre-c2c187d5 build and shows F1; the check itself always rebuilds the C from the source tree)
(every table/constant mutation also shows the differing cells in the evidence notes, e.g.
 "utf8validator.py UTF8VALIDATOR_DFA: 32 cell(s) differ from the RFC automaton, e.g. state 5 octet 0xa0: source says 2, RFC says 1")
"""
