"""C13 — WAMP transports attach a session only after valid negotiation and fail closed.

Parts (all against the real classes of /repo/src, both frameworks, expected values from the Lean driver):
  A  RawSocket opening handshake: octets 1-2 exhaustively (thorough: all 2^16; quick: 7 magic values x all 256
     second octets) x reserved octets {00 00, 00 01, 01 00, ff ff} x {server, client} x {twisted, asyncio},
     each under the 8 compositions of 4 into reads plus 4 patterns with empty reads.
  B  handshake + length-prefixed stream (data / ping / pong anywhere in the stream / bad type / reserved bits / oversize /
     truncated), random segmentation, `stringReceived` and every write recorded in one sequence; model `rs.conn`; independent
     expectation in Python (data frames delivered, each PING answered with one PONG of the same payload, PONGs consumed, in order).
  C  send-side limits: peer announces 2^n (n = 9..24), serialized lengths 2^n-1 / 2^n / 2^n+1, every serializer,
     both roles; the emitted frames are relayed to real receivers of BOTH frameworks (all four pairings);
     the top of the range in every tier: with exponent 15, 2^24 - 1 octets go out as 00 ff ff ff + payload, exactly 2^24 are
     refused (the length field has 24 bits), for send() of both frameworks and asyncio sendString (thorough: relayed to both receivers);
     an over-long frame is rejected on its 4 header octets alone.
  D  WebSocket subprotocol negotiation: pairs of serializer lists (all ordered subsets in thorough) through
     real WampWebSocket{Client,Server}Factory endpoints wired back to back, all four framework pairings;
     crafted Sec-WebSocket-Protocol lists; parseSubprotocolIdentifier on an exhaustive small-string set.
  E  corruption injection at every position of a message sequence (flipped frame type, garbage, truncated,
     non-list, unknown type, out-of-phase message to a real ApplicationSession, exception in onMessage),
     WebSocket (failByDrop on/off: close status 1002 / 1011) and RawSocket (abort), then transport loss:
     the session is told exactly once.
  F  small tables: 2^ceil(log2 n) for the announced maximum, client request octets, exception ladders.

Self-test (mutations applied to a scratch copy of /repo/src, VERIF_REPO, 2026-09): see SELFTEST at the bottom.
"""
import itertools
import json
import os
import subprocess
import sys
import time
from concurrent.futures import ThreadPoolExecutor
from pathlib import Path

from vlib import core
from vlib import ws as wsl      # pure-python frame helpers (parse_frames / build_frame)
from translate import wamp_transport

PROP = "C13"
PROOF_MODULES = ["Abverif.Proofs.C13", "Abverif.Proofs.Lemmas.C13Framing", "Abverif.Proofs.Lemmas.C13Conn"]
TRANSLATORS = [wamp_transport.translate]
W = Path(__file__).parent / "workers"
TRUSTED = [
    "Lean 4.33 kernel; axioms of every theorem audited to be within {propext, Classical.choice, Quot.sound}",
    "hand-written Lean models Abverif/Model/RawSocket.lean (handshake of both roles and frameworks, 4-octet accumulator, "
    "PrefixProtocol.data_received loop with the saved header, ping()/pong(), Int32StringReceiver contract with the lengthLimitExceeded "
    "override, send guards with the 24-bit cap, exception ladders, "
    "transport-gone notification) and Abverif/Model/WsSub.lean (parseSubprotocolIdentifier incl. Python int() on ASCII, "
    "server/client onConnect); numeric constants regenerated from the source by translate/wamp_transport.py",
    "tie model<->code: differential runs of the real protocol objects (RecTransport, one framework per process, "
    "cross-framework pairs relayed by the harness) against the driver",
    "environment assumption: no reads are delivered after the protocol closed/aborted its transport or after an exception "
    "left dataReceived/data_received (both frameworks behave so; the harness delivers reads the same way)",
    "Twisted Int32StringReceiver, txaio, json/msgpack/cbor2/bjdata (exercised, not verified)",
]
ASSUMPTIONS = [
    "non-ASCII subprotocol strings (Python int() accepts Unicode digits/white space) are outside the WsSub model; the harness generates ASCII",
    "rawsocket/util.py (URL parsing) is not part of the negotiation and is not modelled",
    "flatbuffers serializer is not installed and stays outside every run (its ids are in the generated table only)",
]
MANIFEST_ENTRY = {
    "technique": "Lean 4 theorems (all handshakes, all serializer lists, all segmentations) + exhaustive differential tie to the real Twisted/asyncio transports",
    "text": "Proved in Lean for all inputs: a RawSocket handshake is accepted iff magic 0x7F and supported serializer (asyncio: and zero reserved "
            "octets) [rs_accept_iff, symbolic in all 4 octets and the serializer list; plus the kernel-evaluated 2^16 table]; both ends end with "
            "the same serializer and each other's 2^(9+n) limit [rs_same_serializer]; a sender never emits more than the peer announced, it "
            "errors instead [rs_limits]; the outcome of handshake+framing is independent of the segmentation into reads, unboundedly many, empty "
            "reads included [rs_hs_segmentation_independent]; for every chunking the delivered frames equal the whole-stream length-prefix parse "
            "and an over-long declared length is refused on the header alone [prefix_refines_spec, aio/tw_oversize_rejected]; the WebSocket server "
            "selects the first commonly supported wamp.2.* subprotocol in the client's order, none iff there is none [ws_select_first_common, "
            "ws_select_none_iff]; both ends then hold the same serializer id, hence the same text/binary framing "
            "[ws_both_same_serializer_and_framing]; 1002/1011 mapping, fail-closed ladders, session told at most/exactly once. "
            "every refused handshake closes the transport without an exception [rs_refuse_clean, full since the F12 repair]; the send side equals "
            "the Spec incl. the PayloadExceededError class and the 24-bit length field: what goes out is one data frame, a payload of 2^24 octets "
            "or more is refused [rs_limits, rs_limits_error_class, full since the F14 and N2 repairs] and is delivered intact by a receiver of either "
            "framework under any segmentation [rs_send_delivered]; no octet stream, however cut, makes an exception leave dataReceived/data_received, "
            "handshake included [prefix_never_raises, rs_never_raises, full since the F13 and N1 repairs; before the repairs only a partial form could be proved]; on the "
            "asyncio transport every PING is answered with exactly one PONG carrying the same payload, every PONG is consumed, data frames are "
            "delivered, in stream order [aio_serves, aio_writes_only_pongs]; an over-long header aborts the Twisted transport [tw_oversize_rejected]. "
            "Tied to the code by the runs listed in the rule.",
    "note": "Trusted: Lean kernel; the hand-written models mirror the code (checked only by the differential runs); Int32StringReceiver and the "
            "serializer libraries are exercised, not verified. The order of messages across the WebSocket engine is not a C13 theorem: it relies on C01/C03 and is observed "
            "here only on generated sequences.",
}

FWS = ("twisted", "asyncio")
SER_IDS = {"json": 1, "msgpack": 2, "cbor": 3, "ubjson": 4}
BASE_SERS = ["json", "msgpack", "cbor", "ubjson"]
ALL_SERS = BASE_SERS + [s + ".batched" for s in BASE_SERS]
NPROC = 12


# ----------------------------------------------------------------------------- plumbing

def hx(b):
    return b.hex() or "-"


def sx(s):
    """string -> driver token (hex of ASCII, `e` = empty)"""
    return s.encode("ascii").hex() or "e"


def lx(strings):
    return ",".join(sx(s) for s in strings) or "-"


def unsx(tok):
    return "" if tok == "e" else bytes.fromhex(tok).decode("ascii")


def v1(fw):
    return "t" if fw == "twisted" else "a"


def run_bulk_many(jobs, per_fw=6, timeout=3000):
    """run bulk jobs in a few worker processes per framework (a process costs seconds to start); keeps order"""
    def cost(j):
        return len(j["cases"]) * (12 if j["mode"] == "hs" and j.get("splits") == "all8" else 5)
    groups = []
    for fw in FWS:
        mine = sorted([i for i, j in enumerate(jobs) if j["fw"] == fw], key=lambda i: -cost(jobs[i]))
        bins = [[] for _ in range(min(per_fw, max(1, len(mine))))]
        load = [0] * len(bins)
        for i in mine:
            k = load.index(min(load))
            bins[k].append(i)
            load[k] += cost(jobs[i])
        groups += [(fw, b) for b in bins if b]

    def go(g):
        fw, idx = g
        p = subprocess.run([core.PY, str(W / "c13_bulk.py")], input=json.dumps({"fw": fw, "jobs": [jobs[i] for i in idx]}),
                           env=_env(), capture_output=True, text=True, cwd="/", timeout=timeout)
        if p.returncode != 0:
            raise RuntimeError("c13_bulk failed: " + p.stderr[-2000:])
        return json.loads(p.stdout)
    with ThreadPoolExecutor(len(groups) or 1) as ex:
        outs = list(ex.map(go, groups))
    res = [None] * len(jobs)
    for (fw, idx), o in zip(groups, outs):
        for i, r in zip(idx, o):
            res[i] = r
    return res


def _env():
    e = dict(os.environ)
    e["PYTHONPATH"] = os.pathsep.join([str(core.REPO / "src"), str(core.VERIF)])
    e.setdefault("PYTHONHASHSEED", "0")
    e["AUTOBAHN_VERIF"] = "1"
    return e


class Peer:
    """a persistent worker process holding real endpoints of one framework"""

    def __init__(self, fw):
        self.fw = fw
        import tempfile
        self.err = tempfile.TemporaryFile(mode="w+")      # a pipe would fill up with log lines and block the worker
        self.p = subprocess.Popen([core.PY, str(W / "c13_peer.py"), fw], stdin=subprocess.PIPE, stdout=subprocess.PIPE,
                                  stderr=self.err, env=_env(), cwd="/", text=True)
        self.nid = 0

    def new_id(self):
        self.nid += 1
        return self.nid

    def call(self, ops):
        if not ops:
            return []
        self.p.stdin.write(json.dumps(ops) + "\n")
        self.p.stdin.flush()
        line = self.p.stdout.readline()
        if not line:
            self.err.seek(0)
            raise RuntimeError("c13_peer(%s) died: %s" % (self.fw, self.err.read()[-2000:]))
        out = json.loads(line)
        for o in out:
            if "worker_error" in o:
                raise RuntimeError("c13_peer(%s): %s\n%s" % (self.fw, o["worker_error"], o.get("tb")))
        return out

    def close(self):
        try:
            self.p.stdin.close()
            self.p.wait(timeout=10)
        except Exception:
            self.p.kill()


class Viol:
    """collects violations de-duplicated by key (first example kept as replay)"""

    def __init__(self, res):
        self.res = res
        self.seen = {}

    def add(self, key, what, replay):
        if key in self.seen:
            self.seen[key] += 1
            return
        self.seen[key] = 1
        self.res.violations.append(core.Violation(key, what, replay))


# ----------------------------------------------------------------------------- part A: handshake

def partA(ctx, res, V, only=None):
    rng = ctx.rng
    thorough = ctx.tier == "thorough"
    magics = [0x7F, 0x7E, 0x00, 0xFF, 0x80]
    reserved = [(0, 0), (0, 1), (1, 0), (255, 255)]
    strat = [(o1, o2, r3, r4) for o1 in magics for o2 in range(256)
             for (r3, r4) in (reserved if o1 == 0x7F else [(0, 0), (255, 255)])]
    full = []
    if thorough:
        for o1 in range(256):
            for o2 in range(256):
                full.append((o1, o2, 0, 0))
                k = (o1 * 256 + o2) % 3
                full.append((o1, o2) + [(0, 1), (1, 0), (255, 255)][k])
    cfgs = []
    for fw in FWS:
        cfgs.append((fw, "server", ["json"], None, full or strat))
        cfgs.append((fw, "server", BASE_SERS, 1000 if fw == "twisted" else None, strat))
        cfgs.append((fw, "client", ["json"], None, full or strat))
        cfgs.append((fw, "client", ["cbor"], 512 if fw == "twisted" else None, strat))
    if only:
        cfgs = [(only["fw"], only["role"], only["sers"], only.get("max_size"),
                 [tuple(bytes.fromhex(only["handshake"]))])]
    # expected values from the driver
    lines = []
    index = []
    for ci, (fw, role, sers, max_size, cases) in enumerate(cfgs):
        sup = ",".join(str(SER_IDS[s]) for s in sers)
        exp = 15
        if fw == "twisted":
            exp = int(ctx.driver.run(["rs.exp %d" % (max_size or 2 ** 24)])[0].split()[0])
        for c in cases:
            h = bytes(c).hex()
            lines.append(f"rs.hs {v1(fw)} {role[0]} {sup} {exp} {h}")
            lines.append(f"rs.spec {v1(fw)} {sup} {h}")
    outs = ctx.driver.run(lines)
    res.count("A:driver_lines", len(lines))
    jobs = []
    pos = 0
    for ci, (fw, role, sers, max_size, cases) in enumerate(cfgs):
        n = len(cases)
        model = []
        spec = []
        for k in range(n):
            m = outs[pos + 2 * k]
            f = m.split(" ")
            if f[0] == "acc=0":
                f[1] = "ser=-"
            model.append(" ".join(f))
            spec.append(1 if outs[pos + 2 * k + 1] == "1" else 0)
        pos += 2 * n
        # a client accepts only a non-error reply: serializer id 0 is the server's error answer (asyncio checks it
        # explicitly; for Twisted it can never equal the requested id)
        table = sorted(set(model))
        tix = {s: i for i, s in enumerate(table)}
        step = (n + 5) // 6 if n > 20000 else n
        for a in range(0, n, step):
            jobs.append({"mode": "hs", "fw": fw, "role": role, "sers": sers, "max_size": max_size,
                         "cases": cases[a:a + step], "exp_table": table,
                         "exp_idx": [tix[s] for s in model[a:a + step]], "spec": spec[a:a + step],
                         "splits": "rot4" if n > 10000 else "all8"})
        for c, m, s in list(zip(cases, model, spec))[:2]:
            res.sample({"part": "A", "fw": fw, "role": role, "sers": sers, "handshake": bytes(c).hex(), "model": m, "spec_accept": s})
    return jobs, lambda results: partA_finish(ctx, res, V, jobs, results)


def partA_finish(ctx, res, V, jobs, results):
    reqs = {}
    for j, o in zip(jobs, results):
        res.evaluations += o["evaluations"]
        res.count("A:protocol_runs", o["evaluations"])
        for k, n in o["dist"].items():
            res.count("A:" + k, n)
        for key, v in o["viol"].items():
            V.add(key, v["what"] + " (e.g. handshake %s)" % v["examples"][0].get("handshake"),
                  dict(v["examples"][0], part="hs", count=v["count"]))
        for m in o["mismatch"]:
            res.correspondence_breaks.append(dict(m, stream="A: real handshake vs model rs.hs"))
        for c in j["cases"]:
            res.distinct.add(("A", j["fw"], j["role"], tuple(j["sers"]), tuple(c)))
        reqs[(j["fw"], j["role"], tuple(j["sers"]), j["max_size"])] = o["request"]
    # what the client writes by itself = model clientRequest
    for (fw, role, sers, max_size), req in reqs.items():
        if role != "client":
            if req:
                V.add(f"rs-hs/{fw}/server/writes-before-request", "server wrote before the client's request", {"wrote": req})
            continue
        exp = 15
        if fw == "twisted":
            exp = int(ctx.driver.run(["rs.exp %d" % (max_size or 2 ** 24)])[0].split()[0])
        m = ctx.driver.run([f"rs.request {v1(fw)} {exp} {SER_IDS[sers[0]]}"])[0]
        if m != req:
            res.correspondence_breaks.append({"stream": "A: client request octets", "fw": fw, "sers": sers, "model": m, "observed": req})
        want = bytes([0x7F, (exp << 4) | SER_IDS[sers[0]], 0, 0]).hex()
        if req != want:
            V.add(f"rs-hs/{fw}/client/request-octets", "client request is not 7F|exp<<4+ser|00|00", {"observed": req, "expected": want})


# ----------------------------------------------------------------------------- part B: streams

def enc_frame(kind_octet, payload, declared=None):
    n = len(payload) if declared is None else declared
    return bytes([kind_octet, (n >> 16) & 255, (n >> 8) & 255, n & 255]) + payload


def gen_stream(rng, fw, role, ser_id, max_recv):
    """-> (bytes after the handshake, expected delivered payloads, trigger, end, first, expected sequence)
    trigger: kind of the item that ends the stream (None if it ends after a complete frame)
    end: 'open' (nothing may be closed or raised) | 'refuse' (must close/abort, no exception)
    first: kind of the first item that is not a plain data frame (names the input class when an exception escapes)
    expected sequence (the Spec, computed here independently of the model): ("S", payload) for every data frame handed to
    stringReceived, ("W", octets) for every PONG written in answer to a PING, in stream order; a PONG frame yields nothing"""
    out = b""
    delivered = []
    seq = []
    trigger = None
    first = None
    end = "open"
    n = rng.choice([0, 1, 1, 2, 3, 5])
    for _ in range(n):
        r = rng.random()
        # lengths at the ANNOUNCED limit too (2^k, which is above a configured maximum that is not a power of two)
        ln = rng.choice([0, 1, 2, 3, 4, 5, 17, 255, 256, 300] + ([max_recv - 7, max_recv - 1, max_recv] if max_recv <= 65536 else []))
        ln = min(ln, max_recv)
        payload = rng.randbytes(ln)
        if r < 0.62:
            out += enc_frame(0, payload)
            delivered.append(payload)
            seq.append(("S", payload))
            continue
        if r < 0.70 and fw == "asyncio":
            # reserved upper 5 bits set: asyncio masks them away (still a data frame); on Twisted they are length bits
            out += enc_frame(rng.choice([0x08, 0x10, 0xF8, 0x80]), payload)
            delivered.append(payload)
            seq.append(("S", payload))
            continue
        if r < 0.80:
            kind = rng.choice(["ping", "pong"])
            octet = 1 if kind == "ping" else 2
            if fw == "twisted":
                # to Int32StringReceiver this is a length of >= 2^24: refused when above MAX_LENGTH
                if (octet << 24) + ln > max_recv:
                    out += enc_frame(octet, payload)
                    trigger, end = "oversize", "refuse"
                    first = first or trigger
                    break
                continue    # 2^24 exactly with MAX_LENGTH 2^24 would wait for 16M octets: not generated
            # asyncio (WAMP RawSocket Spec): a PING is answered with one PONG carrying the same payload, a PONG is consumed;
            # the stream goes on (reserved bits in the type octet are masked away here as well)
            out += enc_frame(octet | rng.choice([0, 0, 0, 0x08, 0xF8]), payload)
            if kind == "ping":
                seq.append(("W", enc_frame(2, payload)))
            first = first or kind
            continue
        if r < 0.87:
            octet = rng.choice([3, 4, 5, 6, 7])
            out += enc_frame(octet, payload)
            trigger, end = ("badtype" if fw == "asyncio" else "oversize"), "refuse"
            first = first or trigger
            break
        if r < 0.95:
            if max_recv >= 2 ** 24 - 1 and fw == "asyncio":
                continue    # a 24-bit length cannot exceed 2^24
            big = rng.choice([max_recv + 1, max_recv + 2, min(2 ** 24 - 1, max_recv * 2 + 1)]) if max_recv < 2 ** 24 - 1 else None
            if big is None:
                out += bytes([1, 0, 0, 1])    # twisted, 2^24 + 1
            else:
                out += enc_frame(rng.choice([0, 0, 1, 2]) if fw == "asyncio" else 0, b"", declared=big)
            out += rng.randbytes(rng.choice([0, 0, 3, 40]))     # with or without any payload octet
            trigger, end = "oversize", "refuse"
            first = first or trigger
            break
        # truncated frame at the end of the stream: stays buffered, nothing happens
        full = enc_frame(rng.choice([0, 0, 1, 2]) if fw == "asyncio" else 0, payload[:max(0, max_recv - 1)] + b"x")
        out += full[:rng.randrange(1, len(full))]
        trigger, end = "truncated", "open"
        first = first or trigger
        break
    return out, delivered, trigger, end, first, seq


def chunkings(rng, data):
    n = len(data)
    k = rng.choice([1, 2, 2, 3, 4, 6, 9])
    cuts = sorted(rng.randrange(0, n + 1) for _ in range(k - 1)) if n else []
    parts = [data[a:b] for a, b in zip([0] + cuts, cuts + [n])]
    if rng.random() < 0.25:
        parts.insert(rng.randrange(0, len(parts) + 1), b"")
    if rng.random() < 0.15:
        parts = [bytes([b]) for b in data[:12]] + [data[12:]]
    return parts


def partB(ctx, res, V, only=None):
    rng = ctx.rng
    per = 600 if ctx.tier == "quick" else 6000
    cfgs = []
    for fw in FWS:
        for role in ("server", "client"):
            for (sers, max_size, aio_max) in ([(["json"], None, None), (["msgpack", "json"], 512, 512), (["cbor"], 1000, 4096)]):
                cfgs.append((fw, role, sers, max_size if fw == "twisted" else None, aio_max if fw == "asyncio" else None))
    jobs = []
    lines = []
    meta = []
    for (fw, role, sers, max_size, aio_max) in cfgs:
        if only and (only["fw"], only["role"]) != (fw, role):
            continue
        sup = ",".join(str(SER_IDS[s]) for s in sers)
        if fw == "twisted":
            e, mr = ctx.driver.run(["rs.exp %d" % (max_size or 2 ** 24)])[0].split()
            exp, max_recv = int(e), int(mr)
        else:
            exp = 15 if not aio_max else (aio_max - 1).bit_length() - 9
            max_recv = 2 ** (exp + 9)
        cases = []
        for i in range(per):
            if only:
                chunks = [bytes.fromhex(c) for c in only["chunks"]]
                cases.append({"chunks": [c.hex() for c in chunks]})
                meta.append((fw, role, sers, max_size, aio_max, None, None, None, chunks, None))
                lines.append(f"rs.conn {v1(fw)} {role[0]} {sup} {exp} {max_recv} " + " ".join(hx(c) for c in chunks))
                break
            ser_id = SER_IDS[rng.choice(sers)] if role == "server" else SER_IDS[sers[0]]
            peer_exp = rng.randrange(16)
            r = rng.random()
            if r < 0.85:
                hs = bytes([0x7F, (peer_exp << 4) | ser_id, 0, 0])
                hs_ok = True
            elif r < 0.90:
                hs = bytes([rng.choice([0x7E, 0, 0xFF]), (peer_exp << 4) | ser_id, 0, 0])
                hs_ok = False
            elif r < 0.95:
                hs = bytes([0x7F, (peer_exp << 4) | ser_id, rng.choice([0, 1]), rng.choice([1, 200])])
                hs_ok = fw == "twisted"
            else:
                bad = rng.choice([x for x in (0, 5, 6, 9, 15) if x not in [SER_IDS[s] for s in sers]])
                hs = bytes([0x7F, (peer_exp << 4) | bad, 0, 0])
                hs_ok = False
            body, delivered, trigger, end, first, seq = gen_stream(rng, fw, role, ser_id, max_recv)
            chunks = chunkings(rng, hs + body)
            cases.append({"chunks": [c.hex() for c in chunks]})
            meta.append((fw, role, sers, max_size, aio_max, hs_ok, delivered, (trigger, end, first, seq), chunks, hs))
            lines.append(f"rs.conn {v1(fw)} {role[0]} {sup} {exp} {max_recv} " + " ".join(hx(c) for c in chunks))
        jobs.append({"mode": "stream", "fw": fw, "role": role, "sers": sers, "max_size": max_size, "aio_max": aio_max, "cases": cases})
    model = ctx.driver.run(lines)
    res.count("B:driver_lines", len(lines))
    return jobs, lambda results: partB_finish(ctx, res, V, jobs, results, meta, model, lines)


def partB_finish(ctx, res, V, jobs, results, meta, model, lines):
    k = 0
    for j, o in zip(jobs, results):
        res.evaluations += o["evaluations"]
        res.count("B:streams", o["evaluations"])
        for obs in o["observed"]:
            fw, role, sers, max_size, aio_max, hs_ok, delivered, te, chunks, hs = meta[k]
            m = model[k]
            k += 1
            rep = {"part": "stream", "fw": fw, "role": role, "sers": sers, "max_size": max_size, "aio_max": aio_max,
                   "chunks": [c.hex() for c in chunks], "observed": obs, "model": m}
            evs = obs.split(" ")[0].split(";")
            raised = [e[2:] for e in evs if e.startswith("X:")]
            if hs_ok is None:       # replay
                if obs != m:
                    res.correspondence_breaks.append(dict(rep, stream="B"))
                if raised:
                    V.add(f"rs-frame/{fw}/replay/raises-{raised[0]}", "exception escapes", rep)
                continue
            trigger, end, first, seq = te
            res.count("B:trigger:%s" % trigger)
            if first in ("ping", "pong"):
                res.count("B:with-ping-or-pong")
            res.distinct.add(("B", fw, role, core.sha(b"".join(chunks))[:12], len(chunks)))
            if obs != m:
                res.correspondence_breaks.append(dict(rep, stream="B: real connection vs model rs.conn"))
            if not hs_ok:
                continue            # refusal of bad handshakes is judged in part A
            got = [bytes.fromhex(e[2:]) if e[2:] != "-" else b"" for e in evs if e.startswith("S:")]
            if raised:
                trig = first or "none"
                V.add(f"rs-frame/{fw}/{trig}/raises-{raised[0]}",
                      f"{fw} RawSocket: {raised[0]} escapes from {'dataReceived' if fw == 'twisted' else 'data_received'} on a {trig} frame",
                      rep)
            # Spec, in stream order: strings handed on and PONGs written after the session was attached (adjacent writes joined)
            after = evs[[i for i, e in enumerate(evs) if e.startswith("A:")][0] + 1:] if any(e.startswith("A:") for e in evs) else []
            got_seq = [e for e in after if e[:2] in ("S:", "W:")]
            want_seq = []
            for k_, b_ in seq:
                if k_ == "W" and want_seq and want_seq[-1].startswith("W:"):
                    want_seq[-1] += b_.hex()
                else:
                    want_seq.append(k_ + ":" + (b_.hex() or "-"))
            if got_seq != want_seq and not raised:
                kind_ = "ping" if [e for e in got_seq if e[0] == "W"] != [e for e in want_seq if e[0] == "W"] else (first or "none")
                V.add(f"rs-frame/{fw}/{kind_}/not-answered-as-spec" if kind_ == "ping" else f"rs-frame/{fw}/{kind_}/sequence-differs",
                      "strings delivered and PONGs written differ from the Spec (PING -> one PONG with the same payload, PONG consumed, data frames delivered, in order)",
                      dict(rep, expected=want_seq))
            if got != delivered:
                V.add(f"rs-frame/{fw}/{trigger}/delivery-differs", "strings delivered differ from the data frames of the stream", dict(rep, expected=[d.hex() for d in delivered]))
            closed = any(e.startswith("C:") for e in evs)
            if end == "refuse" and not closed and not raised:
                V.add(f"rs-frame/{fw}/{trigger}/not-refused", "over-long / ill-typed frame neither closes the transport nor fails", rep)
            if end == "open" and (closed or raised):
                V.add(f"rs-frame/{fw}/{trigger}/closed-on-valid-stream", "valid stream closed the transport", rep)
    for s in [x for x in zip(lines, model)][:3]:
        res.sample({"part": "B", "driver_line": s[0][:200], "model": s[1][:200]})


# ----------------------------------------------------------------------------- parts C, D, E use peers

def craft_json_publish(n):
    """a JSON PUBLISH of exactly n octets"""
    base = b'[16,1,{},"com.example.topic",[""]]'
    if n < len(base):
        raise ValueError(n)
    return b'[16,1,{},"com.example.topic",["' + b"x" * (n - len(base)) + b'"]]'


def rs_handshake(peer, pid, role, sers, peer_exp, ser, **kw):
    """create a real RawSocket endpoint and complete its handshake against hand-made peer octets"""
    r = peer.call([dict({"op": "mk", "id": pid, "kind": "rs", "role": role, "sers": sers}, **kw)])[0]
    octets = bytes([0x7F, (peer_exp << 4) | SER_IDS[ser], 0, 0])
    r2 = peer.call([{"op": "rx", "id": pid, "chunks": [octets.hex()]}])[0]
    return r, r2


def partC(ctx, res, V, peers):
    thorough = ctx.tier == "thorough"
    exps = list(range(0, 16)) if thorough else list(range(0, 8))
    plan = []
    for fw in FWS:
        for role in ("server", "client"):
            for ser in BASE_SERS:
                for e in exps:
                    if e >= 12 and (ser not in ("json", "msgpack") or role == "client"):
                        continue
                    plan.append((fw, role, ser, e, 2 ** (9 + e)))
    lines = []
    for (fw, role, ser, e, L) in plan:
        for n in (L - 1, L, L + 1):
            lines += [f"rs.sendguard {v1(fw)} {L} {n}", f"rs.sendspec {L} {n}"]
    outs = ctx.driver.run(lines)
    # 1. senders (batched per framework): handshake with hand-made peer octets announcing 2^(9+e), then three sends
    sends = {}
    for fw in FWS:
        P = peers[fw]
        idx = [i for i, p in enumerate(plan) if p[0] == fw]
        ids = {i: P.new_id() for i in idx}
        P.call([{"op": "mk", "id": ids[i], "kind": "rs", "role": plan[i][1], "sers": [plan[i][2]]} for i in idx])
        hs = P.call([{"op": "rx", "id": ids[i], "chunks": [bytes([0x7F, (plan[i][3] << 4) | SER_IDS[plan[i][2]], 0, 0]).hex()]} for i in idx])
        small = [i for i in idx if plan[i][4] + 1 <= 70000]
        large = [i for i in idx if plan[i][4] + 1 > 70000]
        txs = {}
        for group, drop in ((small, False), (large, True)):
            out = P.call([{"op": "tx", "id": ids[i], "drop_wire": drop,
                           "msgs": [["len", 7, plan[i][4] - 1], ["len", 7, plan[i][4]], ["len", 7, plan[i][4] + 1]]} for i in group])
            for i, o in zip(group, out):
                txs[i] = o
        for k, i in enumerate(idx):
            sends[i] = (hs[k], txs[i])
        P.call([{"op": "drop", "id": ids[i]} for i in idx])
    relay = {rfw: [] for rfw in FWS}
    for i, (fw, role, ser, e, L) in enumerate(plan):
        st, t = sends[i]
        if "open" not in [x[0] for x in st["events"]]:
            V.add(f"rs-send/{fw}/{role}/handshake-failed", "valid handshake not accepted", {"fw": fw, "role": role, "ser": ser, "exp": e, "state": st})
            continue
        if st["maxsend"] != L:
            V.add(f"rs-send/{fw}/{role}/maxsend", "max send length is not 2^(9+n) announced by the peer", {"exp": e, "observed": st["maxsend"]})
        wire_all = bytes.fromhex(t["wrote"]) if t.get("wrote") else b""
        off = 0
        for j, n in enumerate((L - 1, L, L + 1)):
            tx = t["tx"][j]
            m, sp = outs[6 * i + 2 * j], outs[6 * i + 2 * j + 1]
            res.evaluations += 1
            res.count("C:sends")
            res.distinct.add(("C", fw, role, ser, n))
            obs = ("sent " + tx["head"]) if tx["ok"] else ("error " + tx["exc"])
            rep = {"part": "send", "fw": fw, "role": role, "ser": ser, "peer_exp": e, "peer_max": L, "payload_len": n, "observed": obs, "model": m, "spec": sp}
            if tx["ok"] and tx["n"] != n + 4:
                V.add(f"rs-send/{fw}/wire-length", "octets written are not 4 + payload", rep)
            if tx["ok"] and n > L:
                V.add(f"rs-send/{fw}/over-limit-emitted", "a message longer than the peer's announced maximum was sent", rep)
            if obs != m:
                res.correspondence_breaks.append(dict(rep, stream="C: send vs model rs.sendguard"))
            if obs != sp:
                if not tx["ok"] and n > L:
                    V.add(f"rs-send/{fw}/over-limit/{tx['exc']}-instead-of-PayloadExceededError",
                          f"{fw} RawSocket: sending {n} octets to a peer that announced {L}: send() raises {tx['exc']}, not PayloadExceededError "
                          "(the session layer only catches PayloadExceededError/SerializationError to send its fallback ERROR)", rep)
                else:
                    V.add(f"rs-send/{fw}/differs-from-spec", "send side differs from the Spec", rep)
            if not tx["ok"] and tx["n"]:
                V.add(f"rs-send/{fw}/partial-write-on-error", "octets were written although send() raised", rep)
            if tx["ok"] and wire_all:
                wire = wire_all[off:off + tx["n"]]
                off += tx["n"]
                if n <= L:
                    for rfw in FWS:
                        relay[rfw].append((i, n, wire, tx["sent"], rep))
    # 2. relay to real receivers of both frameworks (all four pairings); receiver's own limit = 2^(9+e)
    for rfw in FWS:
        R = peers[rfw]
        items = relay[rfw]
        ids = [R.new_id() for _ in items]
        ops = []
        for rid, (i, n, wire, sent, rep) in zip(ids, items):
            fw, role, ser, e, L = plan[i]
            kw = {"max_size": L} if rfw == "twisted" else {"aio_max": L}
            ops.append(dict({"op": "mk", "id": rid, "kind": "rs", "role": "client" if role == "server" else "server", "sers": [ser]}, **kw))
        R.call(ops)
        R.call([{"op": "rx", "id": rid, "chunks": [bytes([0x7F, (plan[i][3] << 4) | SER_IDS[plan[i][2]], 0, 0]).hex()]}
                for rid, (i, n, wire, sent, rep) in zip(ids, items)])
        ops = []
        for rid, (i, n, wire, sent, rep) in zip(ids, items):
            cut = ctx.rng.randrange(0, len(wire) + 1)
            chunks = [wire[:2], wire[2:cut], wire[cut:]] if cut > 2 else [wire[:cut], wire[cut:]]
            ops.append({"op": "rx", "id": rid, "chunks": [c.hex() for c in chunks]})
        out = R.call(ops)
        for rr, (i, n, wire, sent, rep) in zip(out, items):
            res.evaluations += 1
            res.count(f"C:relay:{plan[i][0]}->{rfw}")
            msgs = [x for x in rr["events"] if x[0] == "msg"]
            if rr["exc"] or rr["tlog"] or len(msgs) != 1 or msgs[0][1:] != sent:
                V.add(f"rs-deliver/{plan[i][0]}->{rfw}/at-limit-not-delivered",
                      "a message within the announced maximum was not delivered intact to the peer session",
                      dict(rep, receiver=rfw, receiver_state={k: rr[k] for k in ("events", "exc", "tlog")}))
        R.call([{"op": "drop", "id": rid} for rid in ids])
    # 2a. asyncio PrefixProtocol.sendString called directly: the guard below send() holds by itself
    P = peers["asyncio"]
    es = [0, 1, 3, 7] if not thorough else list(range(0, 12))
    ids = {}
    for role in ("server", "client"):
        for e in es:
            ids[(role, e)] = P.new_id()
    P.call([{"op": "mk", "id": i, "kind": "rs", "role": role, "sers": ["json"]} for (role, e), i in ids.items()])
    P.call([{"op": "rx", "id": i, "chunks": [bytes([0x7F, (e << 4) | 1, 0, 0]).hex()]} for (role, e), i in ids.items()])
    outs2 = P.call([{"op": "sendstring", "id": i, "lens": [2 ** (9 + e) - 1, 2 ** (9 + e), 2 ** (9 + e) + 1]} for (role, e), i in ids.items()])
    ml = []
    for (role, e) in ids:
        L = 2 ** (9 + e)
        ml += [f"rs.sendstring {L} {n}" for n in (L - 1, L, L + 1)]
    mo = ctx.driver.run(ml)
    for k, ((role, e), o) in enumerate(zip(ids, outs2)):
        L = 2 ** (9 + e)
        for j, n in enumerate((L - 1, L, L + 1)):
            r = o["ss"][j]
            res.evaluations += 1
            res.count("C:sendString")
            obs = ("sent " + r["head"]) if r["ok"] else ("error " + r["exc"])
            rep = {"part": "sendstring", "fw": "asyncio", "role": role, "peer_exp": e, "peer_max": L, "len": n, "observed": obs, "model": mo[3 * k + j]}
            if obs != mo[3 * k + j]:
                res.correspondence_breaks.append(dict(rep, stream="C: PrefixProtocol.sendString vs model rs.sendstring"))
            if n > L and (r["ok"] or r["n"]):
                V.add("rs-sendstring/asyncio/over-limit-emitted",
                      f"asyncio PrefixProtocol.sendString wrote a {n}-octet string although the peer announced {L}", rep)
            if n <= L and (not r["ok"] or r["n"] != n + 4):
                V.add("rs-sendstring/asyncio/within-limit-refused", "sendString refused a string within the peer's announced maximum", rep)
    P.call([{"op": "drop", "id": i} for i in ids.values()])
    # 2b. the top of the range: exponent 15 announces 2^24, but the RawSocket length field has 24 bits. Spec (driver rs.sendspec):
    #     2^24 - 1 octets go out as one data frame 00 ff ff ff + payload and are delivered by a receiver of either framework;
    #     exactly 2^24 octets are refused with PayloadExceededError and nothing is written (N2: they went out as 01 00 00 00 ...)
    L = 2 ** 24
    d2 = ctx.driver.run([f"rs.sendspec {L} {L - 1}", f"rs.sendspec {L} {L}", f"rs.sendguard t {L} {L - 1}", f"rs.sendguard t {L} {L}",
                         f"rs.sendguard a {L} {L - 1}", f"rs.sendguard a {L} {L}", f"rs.sendstring {L} {L - 1}", f"rs.sendstring {L} {L}"])
    for fw in FWS:
        P = peers[fw]
        for role in (("server", "client") if thorough else ("server",)):
            pid = P.new_id()
            rs_handshake(P, pid, role, ["json"], 15, "json")
            ts = [P.call([{"op": "tx", "id": pid, "msgs": [["len", 7, n]], "drop_wire": not thorough}])[0] for n in (L - 1, L)]
            P.call([{"op": "drop", "id": pid}])
            for j, (n, t) in enumerate(zip((L - 1, L), ts)):
                tx = t["tx"][0]
                res.evaluations += 1
                res.count("C:sends-at-2^24")
                res.distinct.add(("C", fw, role, "json", n))
                obs = ("sent " + tx["head"]) if tx["ok"] else ("error " + tx["exc"])
                m, sp = d2[(2 if fw == "twisted" else 4) + j], d2[j]
                rep = {"part": "send", "fw": fw, "role": role, "ser": "json", "peer_exp": 15, "peer_max": L, "payload_len": n,
                       "observed": obs, "model": m, "spec": sp}
                if obs != m:
                    res.correspondence_breaks.append(dict(rep, stream="C: send at the top of the range vs model rs.sendguard"))
                if not tx["ok"] and tx["n"]:
                    V.add(f"rs-send/{fw}/partial-write-on-error", "octets were written although send() raised", rep)
                if obs == sp:
                    if tx["ok"] and tx["n"] != n + 4:
                        V.add(f"rs-send/{fw}/wire-length", "octets written are not 4 + payload", rep)
                elif n == L and tx["ok"]:
                    V.add(f"rs-send/{fw}/exactly-2^24-emitted",
                          f"{fw} RawSocket: a message of exactly 2^24 octets (exponent 15 announces 2^24, the length field has 24 bits) "
                          f"is not refused but goes out with prefix {tx['head']}, which is not a data frame of that length", rep)
                elif n == L:
                    V.add(f"rs-send/{fw}/exactly-2^24/{tx['exc']}-instead-of-PayloadExceededError",
                          "a message that does not fit the length field is refused with the wrong exception class", rep)
                else:
                    V.add(f"rs-send/{fw}/max-frame-refused", "a message of 2^24 - 1 octets (within the announced 2^24, fits the length field) was not sent as the Spec says", rep)
                if not (thorough and tx["ok"] and role == "server"):
                    continue
                wire = t["wrote"]
                for rfw in FWS:
                    R = peers[rfw]
                    rid = R.new_id()
                    rs_handshake(R, rid, "client", ["json"], 15, "json")
                    rr = R.call([{"op": "rx", "id": rid, "chunks": [wire[:6], wire[6:2000], wire[2000:]]}])[0]
                    R.call([{"op": "drop", "id": rid}])
                    res.evaluations += 1
                    res.count(f"C:relay-2^24:{fw}->{rfw}")
                    msgs = [x for x in rr["events"] if x[0] == "msg"]
                    if rr["exc"] or rr["tlog"] or len(msgs) != 1 or msgs[0][1:] != tx["sent"]:
                        V.add(f"rs-deliver/->{rfw}/exactly-2^24-misframed" if n == L else f"rs-deliver/{fw}->{rfw}/max-frame-not-delivered",
                              f"a message of {n} octets goes out with prefix {wire[:8]} "
                              f"and is not delivered by the {rfw} receiver (exc={rr['exc']}, transport={rr['tlog']})",
                              {"part": "send", "sender": fw, "receiver": rfw, "payload_len": n, "prefix": wire[:8],
                               "receiver_state": {k: rr[k] for k in ("events", "exc", "tlog")}})
    # the same one level down: asyncio PrefixProtocol.sendString called directly
    P = peers["asyncio"]
    pid = P.new_id()
    rs_handshake(P, pid, "server", ["json"], 15, "json")
    o = P.call([{"op": "sendstring", "id": pid, "lens": [L - 1, L]}])[0]
    P.call([{"op": "drop", "id": pid}])
    for j, n in enumerate((L - 1, L)):
        r = o["ss"][j]
        res.evaluations += 1
        res.count("C:sendString")
        obs = ("sent " + r["head"]) if r["ok"] else ("error " + r["exc"])
        rep = {"part": "sendstring", "fw": "asyncio", "role": "server", "peer_exp": 15, "peer_max": L, "len": n, "observed": obs, "model": d2[6 + j]}
        if obs != d2[6 + j]:
            res.correspondence_breaks.append(dict(rep, stream="C: PrefixProtocol.sendString at the top of the range vs model rs.sendstring"))
        if n == L and (r["ok"] or r["n"]):
            V.add("rs-sendstring/asyncio/exactly-2^24-emitted",
                  f"asyncio PrefixProtocol.sendString wrote a string of 2^24 octets with prefix {r.get('head')} (the length field has 24 bits)", rep)
        if n < L and (not r["ok"] or r["n"] != n + 4 or r["head"] != "00ffffff"):
            V.add("rs-sendstring/asyncio/within-limit-refused", "sendString refused a string within the peer's announced maximum", rep)
    # 3. receive side: a frame one octet above the local maximum is refused on its header, before any payload octet
    for rfw in FWS:
        for role in ("server", "client"):
            for e in ([0, 1, 5, 11] if thorough else [0, 3]):
                L = 2 ** (9 + e)
                R = peers[rfw]
                rid = R.new_id()
                kw = {"max_size": L} if rfw == "twisted" else {"aio_max": L}
                rs_handshake(R, rid, role, ["json"], 15, "json", **kw)
                ok_frame = enc_frame(0, craft_json_publish(L))
                r1 = R.call([{"op": "rx", "id": rid, "chunks": [ok_frame[:3].hex(), ok_frame[3:].hex()]}])[0]
                if len([x for x in r1["events"] if x[0] == "msg"]) != 1 or r1["tlog"] or r1["exc"]:
                    V.add(f"rs-recv/{rfw}/at-limit-refused", "a frame of exactly the announced maximum was not delivered", {"fw": rfw, "role": role, "max": L, "state": r1})
                hdr = enc_frame(0, b"", declared=L + 1)
                r2 = R.call([{"op": "rx", "id": rid, "chunks": [hdr[:1].hex(), hdr[1:].hex()]}])[0]
                res.evaluations += 2
                res.count("C:recv-limit")
                mline = ctx.driver.run([f"rs.frames {v1(rfw)} {L} {hdr[:1].hex()} {hdr[1:].hex()}"])[0]
                rep = {"part": "recv", "fw": rfw, "role": role, "local_max": L, "header": hdr.hex(), "state": r2, "model": mline}
                if r2["exc"]:
                    V.add(f"rs-frame/{rfw}/oversize/raises-{r2['exc']}",
                          f"{rfw} RawSocket: {r2['exc']} escapes from dataReceived on an over-long frame header", rep)
                elif not r2["tlog"]:
                    V.add(f"rs-recv/{rfw}/oversize-header-not-refused", "a header declaring more than the local maximum was not refused at once", rep)
                want = "X:" + r2["exc"] if r2["exc"] else ("C:" + ("close" if r2["tlog"] and r2["tlog"][0] == "lose" else "abort") if r2["tlog"] else "-")
                if mline.split(" ")[0] != want:
                    res.correspondence_breaks.append(dict(rep, stream="C: oversize header vs model rs.frames"))
                R.call([{"op": "drop", "id": rid}])


def http_fields(raw):
    txt = raw.decode("latin-1")
    head = txt.split("\r\n\r\n")[0].split("\r\n")
    h = {}
    for l in head[1:]:
        if ":" in l:
            k, v = l.split(":", 1)
            h[k.strip().lower()] = v.strip()
    return head[0], h


def ordered_subsets(items, maxlen=None):
    out = [[]]
    for k in range(1, (maxlen or len(items)) + 1):
        out += [list(p) for p in itertools.permutations(items, k)]
    return out


def partD(ctx, res, V, peers):
    rng = ctx.rng
    thorough = ctx.tier == "thorough"
    if thorough:
        lists = ordered_subsets(BASE_SERS)
        pairs = [(c, s) for c in lists for s in lists]
    else:
        lists = ordered_subsets(BASE_SERS, 2)
        pairs = [(c, s) for c in lists for s in lists]
        big = ordered_subsets(BASE_SERS)
        pairs += [(rng.choice(big), rng.choice(big)) for _ in range(150)]
    extra = 1500 if thorough else 150
    for _ in range(extra):
        c = rng.sample(ALL_SERS, rng.randrange(0, 6))
        s = rng.sample(ALL_SERS, rng.randrange(0, 6))
        pairs.append((c, s))
    # expected from the driver
    lines = []
    for c, s in pairs:
        lines.append(f"ws.protocols {lx(c)}")
        lines.append(f"ws.select 1 {lx(s)} {lx(['wamp.2.' + x for x in c])}")
    outs = ctx.driver.run(lines)
    expected = []
    for i, (c, s) in enumerate(pairs):
        protos = [unsx(t) for t in outs[2 * i].split(",")] if outs[2 * i] != "-" else []
        sel = outs[2 * i + 1].split(" ")
        # Spec, computed independently: first id of the client's list that the server has
        first = next((x for x in c if x in s), None)
        expected.append((protos, sel, first))
    pairings = [(a, b) for a in FWS for b in FWS]
    binmodel = dict(zip(ALL_SERS, ctx.driver.run([f"ws.binary {sx(x)}" for x in ALL_SERS])))
    for (cfw, sfw) in pairings:
        sub = pairs if thorough or cfw == sfw else pairs[:len(pairs) // 2]
        C, S = peers[cfw], peers[sfw]
        ids = [(C.new_id(), S.new_id()) for _ in sub]
        fbd = [bool(i % 2) for i in range(len(sub))]
        r1 = C.call([{"op": "mk", "id": ci, "kind": "ws", "role": "client", "sers": c, "fail_by_drop": fbd[i]}
                     for i, ((c, s), (ci, si)) in enumerate(zip(sub, ids))])
        S.call([{"op": "mk", "id": si, "kind": "ws", "role": "server", "sers": s, "fail_by_drop": fbd[i]}
                for i, ((c, s), (ci, si)) in enumerate(zip(sub, ids))])
        r2 = S.call([{"op": "rx", "id": si, "chunks": [r1[i]["wrote"][:60], r1[i]["wrote"][60:]]} for i, (ci, si) in enumerate(ids)])
        r3 = C.call([{"op": "rx", "id": ci, "chunks": [r2[i]["wrote"]]} for i, (ci, si) in enumerate(ids)])
        # one message each way on the established ones
        est = [i for i in range(len(sub)) if r3[i]["open"] is True and r2[i]["open"] is True]
        t1 = C.call([{"op": "tx", "id": ids[i][0], "msgs": [["pub", 1, 3]]} for i in est])
        d1 = S.call([{"op": "rx", "id": ids[i][1], "chunks": [t1[k]["wrote"]]} for k, i in enumerate(est)])
        t2 = S.call([{"op": "tx", "id": ids[i][1], "msgs": [["event", 1, 2, "y"]]} for i in est])
        d2 = C.call([{"op": "rx", "id": ids[i][0], "chunks": [t2[k]["wrote"]]} for k, i in enumerate(est)])
        estpos = {i: k for k, i in enumerate(est)}
        for i, (c, s) in enumerate(sub):
            protos, sel, first = expected[pairs.index((c, s))] if False else expected[i]
            res.evaluations += 1
            res.count(f"D:pair:{cfw}->{sfw}")
            res.distinct.add(("D", tuple(c), tuple(s)))
            line0, hreq = http_fields(bytes.fromhex(r1[i]["wrote"]))
            offered = [x.strip() for x in hreq.get("sec-websocket-protocol", "").split(",") if x.strip()]
            status, hresp = http_fields(bytes.fromhex(r2[i]["wrote"]))
            rep = {"part": "ws-select", "client_fw": cfw, "server_fw": sfw, "client_sers": c, "server_sers": s,
                   "offered": offered, "status": status, "selected": hresp.get("sec-websocket-protocol"),
                   "server": {k: r2[i][k] for k in ("ser", "sub", "events", "exc", "tlog")},
                   "client": {k: r3[i][k] for k in ("ser", "sub", "events", "exc", "tlog")}, "model": " ".join(sel)}
            if offered != protos:
                res.correspondence_breaks.append(dict(rep, stream="D: offered protocols vs model ws.protocols", model_protocols=protos))
            if r2[i]["exc"] or r3[i]["exc"]:
                V.add(f"ws-neg/{cfw}->{sfw}/exception-escapes", "exception escapes during the WebSocket opening handshake", rep)
            if first is None:
                # Spec: refused on both sides, no session attached, no exception
                if sel[0] != "deny":
                    res.correspondence_breaks.append(dict(rep, stream="D: model selects although there is no common serializer"))
                bad = (r2[i]["events"] or r3[i]["events"] or r2[i]["open"] is True or r3[i]["open"] is True)
                if bad:
                    V.add("ws-neg/session-attached-without-common-serializer", "a session was attached although client and server share no serializer", rep)
                if not status.startswith("HTTP/1.1 400"):
                    V.add("ws-neg/no-common/not-http-400", "server did not answer 400 when no subprotocol is shared", rep)
                if not r2[i]["tlog"] and not r2[i]["closed"]:
                    V.add("ws-neg/no-common/server-left-open", "server left the transport open after refusing", rep)
                if not r3[i]["closed"]:
                    V.add("ws-neg/no-common/client-left-open", "client left the transport open after being refused", rep)
                continue
            want = "wamp.2." + first
            if sel[0] != "chosen" or unsx(sel[1]) != want or unsx(sel[2]) != first:
                res.correspondence_breaks.append(dict(rep, stream="D: model ws.select vs Spec (first common in client order)", spec=want))
            if hresp.get("sec-websocket-protocol") != want or r2[i]["sub"] != want:
                V.add("ws-neg/not-first-common-in-client-order",
                      f"server selected {hresp.get('sec-websocket-protocol')!r}; the first commonly supported subprotocol in the client's order is {want!r}", rep)
                continue
            if r2[i]["ser"] != first or r3[i]["ser"] != first:
                V.add("ws-neg/serializers-differ", "client and server do not hold the serializer of the selected subprotocol", rep)
            if [e[0] for e in r2[i]["events"]] != ["open"] or [e[0] for e in r3[i]["events"]] != ["open"]:
                V.add("ws-neg/session-not-attached-once", "session.onOpen not called exactly once on both sides", rep)
                continue
            k = estpos.get(i)
            if k is None:
                V.add("ws-neg/not-open-after-selection", "transport not open after a successful negotiation", rep)
                continue
            binary = 0 if first.startswith("json") else 1
            mb = binmodel[first]
            if mb != str(binary):
                res.correspondence_breaks.append({"stream": "D: model binaryOf", "ser": first, "model": mb})
            for (tx, rx, who) in ((t1[k], d1[k], "client->server"), (t2[k], d2[k], "server->client")):
                head = int(tx["wrote"][:2], 16) if tx["wrote"] else 0
                opcode = head & 15
                msgs = [e for e in rx["events"] if e[0] == "msg"]
                ok = tx["tx"][0]["ok"] and len(msgs) == 1 and msgs[0][1:] == tx["tx"][0]["sent"] and not rx["exc"] and not rx["tlog"]
                if not ok:
                    V.add(f"ws-msg/{who}/not-delivered-intact", "message not delivered intact after negotiation", dict(rep, tx=tx["tx"], rx=rx["events"], rx_tlog=rx["tlog"]))
                if opcode != (2 if binary else 1):
                    V.add(f"ws-msg/{who}/wrong-frame-type", "WebSocket frame type does not match the serializer (text for JSON, binary otherwise)", dict(rep, opcode=opcode))
        C.call([{"op": "drop", "id": ci} for ci, si in ids])
        S.call([{"op": "drop", "id": si} for ci, si in ids])
    # crafted Sec-WebSocket-Protocol lists against real servers (independent peer = this harness)
    weird = ["wamp.2.json", "wamp.2.json.batched", "wamp.2.cbor", "wamp.2.msgpack", "wamp.3.json", "wamp.1.json", "wamp.2", "wamp.2.",
             "wamp.+2.json", "wamp.02.json", "wamp.2_0.json", "wamp.-2.json", "wamp. 2.json", "wamp.2 .json", "WAMP.2.json", "wamp.2.JSON",
             "wamp", "foo", "wamp.x.json", "wamp..json", "wamp.2.json.x", "wampx.2.json", "wamp.2.ubjson", "wamp.0x2.json", "wamp.2e0.json",
             "wamp.2__0.json", "wamp._2.json", "wamp.2_.json", "wamp.+.json", "wamp.++2.json"]
    nlists = 400 if thorough else 80
    crafted = []
    for _ in range(nlists):
        l = rng.sample(weird, rng.randrange(1, 5))
        s = rng.sample(ALL_SERS, rng.randrange(1, 4))
        crafted.append((l, s))
    lines = [f"ws.select 1 {lx(s)} {lx(l)}" for l, s in crafted]
    outs = ctx.driver.run(lines)
    lenient_seen = set()
    for sfw in FWS:
        S = peers[sfw]
        ids = [S.new_id() for _ in crafted]
        S.call([{"op": "mk", "id": i, "kind": "ws", "role": "server", "sers": s} for i, (l, s) in zip(ids, crafted)])
        reqs = []
        for l, s in crafted:
            reqs.append(("GET / HTTP/1.1\r\nHost: localhost:9000\r\nUpgrade: websocket\r\nConnection: Upgrade\r\n"
                         "Sec-WebSocket-Key: %s\r\nSec-WebSocket-Protocol: %s\r\nSec-WebSocket-Version: 13\r\n\r\n" % (wsl.KEY, ", ".join(l))).encode())
        rr = S.call([{"op": "rx", "id": i, "chunks": [q.hex()]} for i, q in zip(ids, reqs)])
        for (l, s), o, r in zip(crafted, outs, rr):
            res.evaluations += 1
            res.count("D:crafted")
            res.distinct.add(("Dc", tuple(l), tuple(s)))
            status, h = http_fields(bytes.fromhex(r["wrote"]))
            sel = o.split(" ")
            obs = ("chosen %s %s" % (sx(h["sec-websocket-protocol"]), sx(r["ser"] or ""))) if status.startswith("HTTP/1.1 101") else "deny"
            rep = {"part": "ws-crafted", "server_fw": sfw, "offered": l, "server_sers": s, "status": status, "observed": obs, "model": o}
            if r["exc"]:
                V.add(f"ws-neg/{sfw}/crafted/exception-escapes", "exception escapes on a crafted subprotocol list", rep)
            if obs != o:
                res.correspondence_breaks.append(dict(rep, stream="D: crafted subprotocol list vs model ws.select"))
            # Spec (independent, strict reading): only exactly "wamp.2.<supported id>" can be selected, first in the client's order
            first = next((p for p in l if p.startswith("wamp.2.") and p[7:] in s), None)
            if obs.split(" ")[0] == "chosen" and unsx(obs.split(" ")[1]) != first:
                # e.g. "wamp.+2.json" / "wamp.02.json" / "wamp. 2.json": Python's int() reads the version field as 2.
                # The Spec is stated over parseSubprotocolIdentifier (parse p = (2, s)), so this is *not* a violation;
                # it is counted and reported as an observation.
                res.count("D:observation:lenient-version-field-selected")
                lenient_seen.add(unsx(obs.split(" ")[1]))
            if first is not None and obs == "deny":
                V.add("ws-neg/common-subprotocol-denied", "server denied although a common subprotocol was offered", rep)
        S.call([{"op": "drop", "id": i} for i in ids])
    if lenient_seen:
        res.notes.append("observation (not a violation of the Spec, which is stated over parseSubprotocolIdentifier): the server accepts "
                         "subprotocols whose version field int() reads as 2, e.g. " + ", ".join(repr(x) for x in sorted(lenient_seen)[:6]))
    # parseSubprotocolIdentifier vs the model on an exhaustive small-string set
    alpha = ["0", "2", "1", "+", "-", "_", " ", "a", ""]
    fields = set()
    for n in range(0, 4 if not thorough else 5):
        for t in itertools.product(alpha[:-1], repeat=n):
            fields.add("".join(t))
    strings = ["wamp.%s.json" % f for f in sorted(fields)] + weird + ["", ".", "..", "wamp.", ".2.json", "wamp.2.a.b.c", "wamp.2..", "wamp.\t2.json", "wamp.2\n.json"]
    outs = ctx.driver.run([f"ws.parse {sx(s)}" for s in strings])
    real = peers["twisted"].call([{"op": "parse_sub", "strings": strings}])[0]["res"]
    for s, o, r in zip(strings, outs, real):
        res.evaluations += 1
        res.count("D:parse")
        obs = "none" if r[0] is None else "%d %s" % (r[0], sx(r[1]))
        if obs != o:
            res.correspondence_breaks.append({"stream": "D: parseSubprotocolIdentifier vs model ws.parse", "string": s, "observed": obs, "model": o})
    res.distinct.add(("Dp", len(strings)))


# ----------------------------------------------------------------------------- part E: corruption

def ws_pair(peers, xfw, yfw, xrole, ser, fbd, **xkw):
    """X (under test) and Y (a real peer that produces valid frames), taken through the opening handshake"""
    X, Y = peers[xfw], peers[yfw]
    xid, yid = X.new_id(), Y.new_id()
    yrole = "client" if xrole == "server" else "server"
    rx = X.call([dict({"op": "mk", "id": xid, "kind": "ws", "role": xrole, "sers": [ser], "fail_by_drop": fbd}, **xkw)])[0]
    ry = Y.call([{"op": "mk", "id": yid, "kind": "ws", "role": yrole, "sers": [ser], "fail_by_drop": False}])[0]
    if xrole == "server":
        a = X.call([{"op": "rx", "id": xid, "chunks": [ry["wrote"]]}])[0]
        b = Y.call([{"op": "rx", "id": yid, "chunks": [a["wrote"]]}])[0]
        xs, ys = a, b
    else:
        a = Y.call([{"op": "rx", "id": yid, "chunks": [rx["wrote"]]}])[0]
        b = X.call([{"op": "rx", "id": xid, "chunks": [a["wrote"]]}])[0]
        xs, ys = b, a
    return xid, yid, xs, ys


def rs_pair(peers, xfw, yfw, xrole, ser, **xkw):
    X, Y = peers[xfw], peers[yfw]
    xid, yid = X.new_id(), Y.new_id()
    yrole = "client" if xrole == "server" else "server"
    rx = X.call([dict({"op": "mk", "id": xid, "kind": "rs", "role": xrole, "sers": [ser]}, **xkw)])[0]
    ry = Y.call([{"op": "mk", "id": yid, "kind": "rs", "role": yrole, "sers": [ser]}])[0]
    if xrole == "server":
        a = X.call([{"op": "rx", "id": xid, "chunks": [ry["wrote"]]}])[0]
        b = Y.call([{"op": "rx", "id": yid, "chunks": [a["wrote"]]}])[0]
        xs = a
    else:
        a = Y.call([{"op": "rx", "id": yid, "chunks": [rx["wrote"]]}])[0]
        b = X.call([{"op": "rx", "id": xid, "chunks": [a["wrote"]]}])[0]
        xs = b
    return xid, yid, xs


def reframe_ws(frame_bytes, to_server, opcode=None, payload=None, rng=None):
    """re-encode one WebSocket frame produced by a real endpoint with a changed opcode and/or payload"""
    frames, rest = wsl.parse_frames(frame_bytes)
    f = frames[0]
    pl = f["payload"] if payload is None else payload
    op = f["opcode"] if opcode is None else opcode
    mask = bytes([1, 2, 3, 4]) if to_server else None
    return wsl.build_frame(op, pl, fin=1, mask=mask)


def partE(ctx, res, V, peers):
    rng = ctx.rng
    thorough = ctx.tier == "thorough"
    dq = ["ws.code ProtocolError", "ws.code Exception", "rs.ladder t ProtocolError", "rs.ladder t Exception",
          "rs.ladder a ProtocolError", "rs.ladder a Exception", "rs.life a l", "rs.life l", "rs.life a l l"]
    dr = dict(zip(dq, ctx.driver.run(dq)))
    code_pe, code_ex = 1002, 1011        # the Spec (RFC 6455 protocol error / internal error); the model's values follow the source
    for q, want in (("ws.code ProtocolError", code_pe), ("ws.code Exception", code_ex)):
        if int(dr[q]) != want:
            res.correspondence_breaks.append({"stream": "E: close status constants read from the source vs Spec", "query": q, "model": dr[q], "spec": want})
    kinds = ["flip", "garbage", "truncated", "nonlist", "badtype", "empty", "raise:RuntimeError", "raise:ProtocolError",
             "raise:KeyError", "raise:InvalidUriError", "raise:SerializationError", "raise:PayloadExceededError", "outofphase"]
    sers = ["json", "msgpack", "cbor", "ubjson"] if thorough else ["json", "cbor"]
    positions = [0, 1, 2]
    NSEQ = 3
    raw_nonlist = {"json": b'{"a":1}', "msgpack": b"\x81\xa1a\x01", "cbor": b"\xa1aa\x01", "ubjson": b"{U\x01aU\x01}"}
    raw_badtype = {"json": b"[999,1]", "msgpack": b"\x92\xcd\x03\xe7\x01", "cbor": b"\x82\x19\x03\xe7\x01", "ubjson": b"[I\x03\xe7U\x01]"}
    raw_empty = {"json": b"[]", "msgpack": b"\x90", "cbor": b"\x80", "ubjson": b"[]"}
    combos = []
    for transport in ("ws-close", "ws-drop", "rs"):
        for xfw in FWS:
            for xrole in ("server", "client"):
                for ser in sers:
                    for kind in kinds:
                        if kind == "flip" and transport == "rs":
                            continue
                        if kind == "outofphase" and xrole != "client":
                            continue
                        for pos in positions:
                            if not thorough and not (pos == 1 or (kind in ("flip", "raise:RuntimeError") and ser == "json")):
                                continue
                            combos.append((transport, xfw, xrole, ser, kind, pos))
    for (transport, xfw, xrole, ser, kind, pos) in combos:
        yfw = rng.choice(FWS)
        X, Y = peers[xfw], peers[yfw]
        xkw = {}
        if kind.startswith("raise:"):
            xkw = {"raise_at": pos, "raise_exc": kind.split(":")[1]}
        if kind == "outofphase":
            xkw = {"session": "app"}
        if transport == "rs":
            xid, yid, xs = rs_pair(peers, xfw, yfw, xrole, ser, **xkw)
        else:
            xid, yid, xs, ys = ws_pair(peers, xfw, yfw, xrole, ser, transport == "ws-drop", **xkw)
        rep = {"part": "corrupt", "transport": transport, "fw": xfw, "peer_fw": yfw, "role": xrole, "ser": ser, "kind": kind, "position": pos}
        res.evaluations += 1
        res.count(f"E:{transport}:{kind.split(':')[0]}")
        res.distinct.add(("E",) + (transport, xfw, xrole, ser, kind, pos))
        if "open" not in [e[0] for e in xs["events"]]:
            V.add(f"corrupt/{transport}/{xfw}/setup-failed", "could not establish the transport", dict(rep, state=xs))
            continue
        if kind == "outofphase":
            # the real client session has sent HELLO; forward it so that Y's session sees it (not needed further)
            pass
        # valid frames produced by the real peer Y
        if kind == "outofphase":
            specs = [["event", 5, 6, "z"] for _ in range(NSEQ)]      # EVENT before WELCOME
            pos_eff = 0
        else:
            specs = [["pub", i + 1, 3 + i] for i in range(NSEQ)]
            pos_eff = pos
        wires = []
        sent = []
        for sp in specs:
            t = Y.call([{"op": "tx", "id": yid, "msgs": [sp]}])[0]
            wires.append(bytes.fromhex(t["wrote"]))
            sent.append(t["tx"][0]["sent"])
        to_server = xrole == "server"
        # corrupt the frame at position pos
        binary = 0 if ser.startswith("json") else 1
        good = wires[pos_eff]
        if transport == "rs":
            payload = good[4:]
        else:
            payload = wsl.parse_frames(good)[0][0]["payload"]
        new_payload = None
        new_opcode = None
        expect = None      # "protocol" | "internal" | None (frame stays valid)
        if kind == "flip":
            new_opcode = 1 if binary else 2
            expect = "protocol"
        elif kind == "garbage":
            new_payload = bytes([0xC1, 0xFF, 0xFE] + [rng.randrange(256) for _ in range(5)]) if binary else b"{[garbage"
            expect = "protocol"
        elif kind == "truncated":
            new_payload = payload[:len(payload) // 2]
            expect = "protocol"
        elif kind == "nonlist":
            new_payload = raw_nonlist[ser]
            expect = "protocol"
        elif kind == "badtype":
            new_payload = raw_badtype[ser]
            expect = "protocol"
        elif kind == "empty":
            new_payload = raw_empty[ser]
            expect = "protocol"
        elif kind == "outofphase":
            expect = "protocol"
        elif kind.startswith("raise:"):
            expect = "protocol" if kind.split(":")[1] == "ProtocolError" else "internal"
        if transport == "rs":
            if new_payload is not None:
                wires[pos_eff] = enc_frame(0, new_payload)
        else:
            if new_payload is not None or new_opcode is not None:
                wires[pos_eff] = reframe_ws(good, to_server, opcode=new_opcode, payload=new_payload)
            elif to_server is False and False:
                pass
        # deliver: messages before pos one per read; the corrupted one split in two reads
        got_msgs = []
        st = None
        tl = []
        wrote = b""
        exc = None
        for i in range(pos_eff + 1):
            w = wires[i]
            chunks = [w[:3], w[3:]] if i == pos_eff else [w]
            st = X.call([{"op": "rx", "id": xid, "chunks": [c.hex() for c in chunks]}])[0]
            got_msgs += [e for e in st["events"] if e[0] == "msg"]
            tl += st["tlog"]
            wrote += bytes.fromhex(st["wrote"])
            exc = exc or st["exc"]
        rep.update({"x_tlog": tl, "x_wrote": wrote.hex()[:80], "x_exc": exc, "x_events": got_msgs})
        if exc:
            V.add(f"corrupt/{transport}/{xfw}/{kind}/exception-escapes-{exc}", f"{exc} escapes from the receive path", rep)
        # messages before the corrupted one: delivered intact and in order; the session-raising one is seen, then fails
        n_expected = pos_eff + (1 if kind.startswith("raise:") or kind == "outofphase" else 0)
        if [m[1:] for m in got_msgs] != sent[:n_expected]:
            V.add(f"corrupt/{transport}/{kind}/messages-before-failure-not-delivered", "messages preceding the failure were not delivered intact and in order", dict(rep, expected=sent[:n_expected]))
        told_before = [e for e in st["events"] if e[0] == "close"]
        if transport == "rs":
            cancelled_ok = False
            if tl != ["abort"]:
                V.add(f"corrupt/rs/{xfw}/{kind}/not-aborted", "RawSocket transport not aborted (exactly once) on a failing message", rep)
            m = dr[f"rs.ladder {v1(xfw)} " + {"protocol": "ProtocolError", "internal": "Exception"}[expect]]
            if m != "abort":
                res.correspondence_breaks.append(dict(rep, stream="E: rs.ladder"))
        elif transport == "ws-drop":
            frames, _ = wsl.parse_frames(wrote)
            if "abort" not in tl and "lose" not in tl:
                V.add(f"corrupt/ws-drop/{xfw}/{kind}/not-dropped", "WebSocket (failByDrop) did not drop the connection on a failing message", rep)
            if any(f["opcode"] == 8 for f in frames):
                V.add(f"corrupt/ws-drop/{xfw}/{kind}/close-frame-with-failByDrop", "close frame sent although failByDrop is set", rep)
        else:
            frames, _ = wsl.parse_frames(wrote)
            closes = [f for f in frames if f["opcode"] == 8]
            want = code_pe if expect == "protocol" else code_ex
            if new_opcode == 1:
                try:
                    payload.decode("utf8")
                except UnicodeDecodeError:
                    want = 1007     # a binary serialization in a text frame that is not UTF-8 is failed by the WebSocket engine itself
            codes = [int.from_bytes(f["payload"][:2], "big") if len(f["payload"]) >= 2 else None for f in closes]
            rep["close_codes"] = codes
            if codes != [want]:
                V.add(f"corrupt/ws-close/{kind.split(':')[0] if expect == 'protocol' else 'internal'}/status-{codes[0] if codes else 'none'}-instead-of-{want}",
                      f"WebSocket close status {codes} on {kind}; expected [{want}]", rep)
            # finish the closing handshake: peer echoes the close, server side drops TCP
            if closes and not tl:
                echo = wsl.build_frame(8, closes[0]["payload"][:2], mask=bytes([9, 9, 9, 9]) if to_server else None)
                st2 = X.call([{"op": "rx", "id": xid, "chunks": [echo.hex()]}])[0]
                told_before += [e for e in st2["events"] if e[0] == "close"]
                if to_server and "lose" not in st2["tlog"] and "abort" not in st2["tlog"]:
                    V.add(f"corrupt/ws-close/{xfw}/server-does-not-drop-after-close-handshake", "server did not drop TCP after the closing handshake", dict(rep, after=st2))
        # transport loss: the session is told exactly once (twice reported by the framework must not double it)
        st3 = X.call([{"op": "lose", "id": xid, "clean": False, "times": 1}])[0]
        told = told_before + [e for e in st3["events"] if e[0] == "close"]
        st4 = {"events": [], "exc": None}
        told2 = told + [e for e in st4["events"] if e[0] == "close"]
        rep["told"] = told2
        if st3["exc"] or st4["exc"]:
            V.add(f"corrupt/{transport}/{xfw}/connection-lost-raises", "exception escapes from connectionLost", dict(rep, exc=st3["exc"] or st4["exc"]))
        if len(told2) != 1:
            V.add(f"corrupt/{transport}/{xfw}/session-told-{len(told2)}-times", f"session.onClose called {len(told2)} times after {kind}", rep)
        if dr["rs.life a l"] != "%d 0" % len(told2):
            res.correspondence_breaks.append(dict(rep, stream="E: rs.life (told count)", model=dr["rs.life a l"]))
        X.call([{"op": "drop", "id": xid}])
        Y.call([{"op": "drop", "id": yid}])
    # Twisted RawSocket: CancelledError raised by the session is logged and the connection continues (model: carryOn)
    xid, yid, xs = rs_pair(peers, "twisted", "twisted", "server", "json", raise_at=0, raise_exc="CancelledError")
    t = peers["twisted"].call([{"op": "tx", "id": yid, "msgs": [["pub", 1, 1], ["pub", 2, 2]]}])[0]
    st = peers["twisted"].call([{"op": "rx", "id": xid, "chunks": [t["wrote"]]}])[0]
    m = ctx.driver.run(["rs.ladder t CancelledError", "rs.ladder a CancelledError"])
    obs = "abort" if st["tlog"] else "carryOn"
    if obs != m[0] or len([e for e in st["events"] if e[0] == "msg"]) != 2:
        res.correspondence_breaks.append({"stream": "E: CancelledError ladder (twisted)", "model": m[0], "observed": obs, "state": st})
    # observation (reported, not a violation of the statement): frames that follow a failing frame in the SAME read are
    # still handed to the session after the transport was aborted (the framing loop does not look at the transport)
    for fw in FWS:
        P = peers[fw]
        good = enc_frame(0, b'[16,1,{},"com.example.topic",["x"]]')
        bad = enc_frame(0, b"{[garbage")
        n = []
        for chunks in ([good + bad + good + good], [good + bad, good + good]):
            pid = P.new_id()
            rs_handshake(P, pid, "server", ["json"], 15, "json")
            st = P.call([{"op": "rx", "id": pid, "chunks": [c.hex() for c in chunks]}])[0]
            n.append(len([e for e in st["events"] if e[0] == "msg"]))
            P.call([{"op": "drop", "id": pid}])
        res.evaluations += 2
        if n[0] != n[1]:
            res.count(f"E:observation:{fw}:messages-after-abort-in-same-read")
            res.notes.append(f"observation ({fw} RawSocket): [valid][garbage][valid][valid] in one read delivers {n[0]} messages "
                             f"(abort after the 2nd frame, the rest of the read is still processed); cut after the garbage frame: {n[1]}")
    # a session that was never attached is never told; an attached one exactly once
    for fw in FWS:
        P = peers[fw]
        pid = P.new_id()
        P.call([{"op": "mk", "id": pid, "kind": "rs", "role": "server", "sers": ["json"]}])
        st = P.call([{"op": "lose", "id": pid, "clean": True, "times": 1}])[0]
        res.evaluations += 1
        if st["events"] or st["exc"]:
            V.add(f"lifecycle/{fw}/rs/never-attached-told", "transport lost before the handshake: session callbacks or exception", {"fw": fw, "state": st})
        pid = P.new_id()
        rs_handshake(P, pid, "server", ["json"], 15, "json")
        st = P.call([{"op": "lose", "id": pid, "clean": True, "times": 1}])[0]
        if [e for e in st["events"] if e[0] == "close"] != [["close", True]] or st["exc"]:
            V.add(f"lifecycle/{fw}/rs/told-not-once", "clean loss after attach: session not told exactly once", {"fw": fw, "state": st})


# ----------------------------------------------------------------------------- part F: tables

def partF(ctx, res, V, peers):
    thorough = ctx.tier == "thorough"
    sizes = []
    for k in range(9, 25):
        sizes += [2 ** k - 1, 2 ** k, 2 ** k + 1]
    sizes = [s for s in sizes if 512 <= s <= 2 ** 24]
    sizes += [ctx.rng.randrange(512, 2 ** 24 + 1) for _ in range(2000 if not thorough else 200000)]
    real = peers["twisted"].call([{"op": "log2", "sizes": sizes}])[0]["res"]
    outs = ctx.driver.run([f"rs.exp {s}" for s in sizes])
    for s, r, o in zip(sizes, real, outs):
        e, mr = o.split()
        res.evaluations += 1
        if int(e) != r - 9 or int(mr) != 2 ** r:
            res.correspondence_breaks.append({"stream": "F: ceil(log2) float formula vs model clog2", "size": s, "python": r, "model": o})
        if not (s <= 2 ** r and (r == 9 or 2 ** (r - 1) < s)):
            V.add("rs-announce/not-smallest-sufficient-power", "announced maximum is not the smallest power of two >= the configured size", {"size": s, "exp": r})
    res.count("F:log2", len(sizes))
    for n in range(16):
        o = ctx.driver.run([f"rs.maxlen {n}"])[0]
        if int(o) != 2 ** (9 + n):
            res.correspondence_breaks.append({"stream": "F: maxlen", "n": n, "model": o})


# ----------------------------------------------------------------------------- run

def run(ctx):
    res = core.Result()
    res.rule = (
        "A: RawSocket handshakes = (octet1, octet2, reserved) with octet1 in {7F,7E,00,FF,80} (thorough: all 256) x all 256 octet2 x reserved in "
        "{0000,0001,0100,ffff} (quick, wrong magic: {0000,ffff}) x {server,client} x {twisted,asyncio} x 2 serializer configurations, each cut into reads by all 8 compositions of 4 plus 4 "
        "patterns with empty reads (thorough full table: 5 rotating patterns); expected from driver rs.hs (model) and rs.spec (Spec). "
        "B: random frame streams (data, PING, PONG, reserved bits, bad type, oversize, truncated) after a (mostly valid) handshake, random segmentation incl. "
        "empty and 1-octet reads; model rs.conn; independent Python expectation of the delivered strings and of the PONGs written, in order. "
        "C: exponents n=0..7 (thorough 0..15) x serializers x roles x frameworks x lengths {2^n-1,2^n,2^n+1}, frames "
        "relayed to real receivers of both frameworks; lengths 2^24-1 and 2^24 with exponent 15 on send() of both frameworks and asyncio sendString "
        "(thorough: both roles, relayed to both receivers); over-long header alone. D: serializer-list pairs (quick: ordered subsets up to length 2 + random; "
        "thorough: all 65x65 ordered subsets) x 4 framework pairings + batched ids + crafted subprotocol lists + exhaustive small-string parse. "
        "E: corruption kinds x position x serializer x role x framework x {ws close, ws drop, rawsocket}. non-trivial = distinct canonical case.")
    V = Viol(res)
    if ctx.replay_path:
        rp = json.loads(Path(ctx.replay_path).read_text())["replay"]
        part = rp.get("part")
        if part == "hs":
            jobs, fin = partA(ctx, res, V, only=rp)
            fin(run_bulk_many(jobs))
            return res
        if part == "stream":
            jobs, fin = partB(ctx, res, V, only=rp)
            fin(run_bulk_many(jobs))
            return res
        ctx.log("replay of part %r re-runs the whole part" % part)
    t = time.time()
    peers = {fw: Peer(fw) for fw in FWS}        # start-up overlaps with the bulk runs
    ja, fa = partA(ctx, res, V)
    jb, fb = partB(ctx, res, V)
    results = run_bulk_many(ja + jb)
    fa(results[:len(ja)])
    fb(results[len(ja):])
    ctx.log("parts A+B done %.1fs" % (time.time() - t))
    try:
        for name, fn in (("C", partC), ("D", partD), ("E", partE), ("F", partF)):
            t = time.time()
            fn(ctx, res, V, peers)
            ctx.log("part %s done %.1fs" % (name, time.time() - t))
    finally:
        for p in peers.values():
            p.close()
    res.exhaustive = ctx.tier == "thorough"
    res.traces_validated = res.evaluations
    res.notes.append("violations seen (key: occurrences): " + json.dumps(V.seen, sort_keys=True))
    return res


SELFTEST = """
Mutation self-test (scratch copy of /repo/src, `VERIF_REPO=/tmp/c13mut/repo_<name> ./check C13 --tier quick`, run in a scratch
copy of this tree so that the mutated Generated/*.lean does not disturb the shared build; /repo itself never edited):

 M1 twisted server also accepts magic 0x7E          exit 1  rs-hs/twisted/server/bad-magic/session-attached (handshake 7e010000); translator: Shape
 M2 asyncio max_length_send = 2**(lexp+8)            exit 1  rs-hs/asyncio/{server,client}/valid-handshake-mishandled (7f010000), rs-send/asyncio/*/maxsend
 M3 twisted send(): length guard dropped            exit 1  rs-send/twisted/over-limit-emitted (513 octets to a peer that announced 512); translator: Shape
 M4 server iterates reversed(request.protocols)     exit 1  ws-neg/not-first-common-in-client-order (client [json,msgpack] -> 'wamp.2.msgpack')
 M5 asyncio reserved-octet check removed            exit 1  rs-hs/asyncio/{server,client}/reserved-nonzero/session-attached (7f010001)
 M6 onMessage ProtocolError -> CLOSE_STATUS_NORMAL  exit 1  corrupt/ws-close/{flip,garbage,truncated,nonlist,badtype,empty,raise,outofphase}/status-1000-instead-of-1002;
                                                            full flow: Generated wsCloseProtocolError=1000, `close_code_mapping` no longer checks (proof build failed)
 M7 asyncio `frame_length >= self.max_length`       exit 1  rs-recv/asyncio/at-limit-refused, rs-deliver/*->asyncio/at-limit-not-delivered
 M8 twisted client: serializer of the reply unchecked exit 1 rs-hs/twisted/client/unsupported-serializer/session-attached (7f020000)
 M9 twisted accumulator takes one octet too few     exit 1  rs-hs/twisted/server/segmentation-dependent (+ 19 consequences)
 R1 (after the F12 repair 77273b88) `self.abort()` re-added to asyncio supports_serializer
                                                    exit 1  rs-hs/asyncio/server/unsupported-serializer/raises-TransportLost (7f000000, [json]);
                                                            Generated aioServerAbortsOnUnsupported=true, `rs_refuse_clean` no longer checks
 R2 (after the F14 repair 11645fb6) asyncio send() raises ValueError again
                                                    exit 1  rs-send/asyncio/over-limit/ValueError-instead-of-PayloadExceededError (513 octets, peer 512);
                                                            Generated aioSendOverLimitExc=1, `rs_limits_error_class` no longer checks
 R3 (after the F13 repair) asyncio ping()/pong() `raise NotImplementedError()` again (= /repo before the repair)
                                                    exit 1  rs-frame/asyncio/ping/raises-NotImplementedError, rs-frame/asyncio/pong/raises-NotImplementedError;
                                                            Generated aioPingRaises/aioPongRaises=true, `aio_dispatch_cases`, `prefix_never_raises`, `aio_serves` no longer check
 R3b ping() answers with FRAME_TYPE_PING instead of FRAME_TYPE_PONG
                                                    exit 1  rs-frame/asyncio/ping/not-answered-as-spec; Generated aioPingReplyType=1, `aioPingReply_eq` no longer checks
 R4 (after the N1 repair) Twisted lengthLimitExceeded raises PayloadExceededError again
                                                    exit 1  rs-frame/twisted/oversize/raises-PayloadExceededError; Generated twLengthLimitAction=1,
                                                            `tw_reject_evs`, `prefix_never_raises` no longer check
 R5 (after the N2 repair) send guards without the 24-bit cap
                                                    exit 1  rs-send/{twisted,asyncio}/exactly-2^24-emitted, rs-sendstring/asyncio/exactly-2^24-emitted (quick),
                                                            rs-deliver/->asyncio/exactly-2^24-misframed (thorough); Generated *SendFrameCap=0, `sendGuard_none_iff` no longer checks
 H1 harmless: three writes joined into one, `_magic` renamed, two independent assignments of parse_handshake swapped
                                                    exit 0  no VIOLATION line, translator unaffected
"""
