"""C11 — events reach exactly the handlers subscribed at that moment.

Theorems: lean/Abverif/Proofs/C11.lean over Model/Session.lean (EVENT branch: snapshot of the handler list, inactive
subscriptions skipped, one kwargs dict per handler) and Model/SessSpec.lean (`Spec.dispatch`). Tie and failing-input search as in C04
(vlib/sesscheck.py, vlib/wamp.py, harness/workers/sess_worker.py), with histories of subscribe / SUBSCRIBED / ERROR /
unsubscribe / UNSUBSCRIBED / EVENT and scripted handler behaviour.

Self-test: mutations M5, M6 and harmless rewrite H2, recorded in the docstring of harness/c04.py.
"""
import itertools

from vlib import core, sesscheck as sc
from translate import sess as tr_sess

PROP = "C11"
PROOF_MODULES = ["Abverif.Proofs.C11"]
TRANSLATORS = [tr_sess.translate]
TRUSTED = [
    "Lean 4.33 kernel; axioms of every theorem audited to be within {propext, Classical.choice, Quot.sound}",
    "hand-written Lean model Abverif/Model/Session.lean of the Event/Subscribed/Unsubscribed branches of "
    "ApplicationSession.onMessage, subscribe(), _unsubscribe(), Subscription.unsubscribe(); user code is a script of behaviours carried by the event",
    "tie model<->code: differential run of real ApplicationSession objects (Twisted and asyncio) over a mock "
    "ITransport against the model through the compiled driver; bounded by the generators",
    "txaio.as_future calls a plain handler synchronously; its errback (onUserError) runs at once on Twisted and at the "
    "next loop iteration on asyncio (modelled, not verified)",
]
ASSUMPTIONS = [
    "handlers are plain callables that accept any keyword arguments (a handler that rejects a keyword is a raising handler)",
    "onMessage is not re-entered while a handler runs; ITransport.send does not call back synchronously",
    "payload encryption (enc_algo) and acknowledged event delivery are outside (C20)",
    "decorated-object subscription (one SUBSCRIBE per decorated pattern) is checked on the code by part B of this harness, not modelled in Lean",
]
MANIFEST_ENTRY = {
    "technique": "Lean 4 theorems by induction over arbitrary event histories of an executable session model + "
                 "differential tie to real Twisted/asyncio ApplicationSession objects + Spec oracle with ddmin",
    "text": "Proved in Lean for every state/history and both scheduling modes: unsubscribe_sent_iff_last (UNSUBSCRIBE is handed "
            "to the transport iff the removed handler was the last of its id; otherwise a completed future with the number "
            "left), event_during_unsubscribe_dropped (no output, no state change), event_unknown_sub_is_violation and "
            "event_for_never_held_id_is_violation (after any history in which no SUBSCRIBED named the id), "
            "no_call_after_unsubscribe (after unsubscribe() no continuation of the history, and no later iteration of the "
            "same dispatch, invokes that handler), handler_raise_never_escapes, dispatch_exact (in full since the repairs of F8 "
            "and F9 in /repo 8b7d7882 / 156d2c77: exactly the handlers attached at arrival, once each, in subscription order, "
            "skipping one detached by an earlier handler of the same dispatch, with the event's args/kwargs and only the own "
            "details — the model's loop equals the Spec fan-out). handler_error_isolated_partial (a raising handler "
            "changes neither state nor the other invocations) is proved for the Twisted scheduling only. The model is tied "
            "to the code by histories over 1-4 handlers per id with/without details_arg, every reply order, unsubscribe of "
            "first/middle/last handler in every order, events racing with unsubscribe, every payload shape, handlers that "
            "return/raise/unsubscribe themselves or a sibling/subscribe a new handler/call, on both frameworks.",
    "note": "Trusted: Lean kernel; the hand-written model (checked only by the differential run); txaio semantics. "
            "Decorator-driven subscription is a differential observation (part B), not a theorem; error isolation on "
            "asyncio rests on the differential run. F8 and F9 are listed in known_findings.d/C11.jsonl as fixed (8b7d7882, "
            "156d2c77) and would be reported as violations again. Spec decision: a handler detached by an earlier handler of the same dispatch is "
            "not called (no call after unsubscribe wins over 'attached at arrival').",
}


def owns(tok):
    return not tok.startswith("prog:")


CORPUS = [
    # F8: h1 (details_arg="details") then h2 (none); EVENT(77, args=[1], kwargs={"x": 2})
    ["open", "pump", "m.welcome,7", "sub,1,9,oda=0,ok", "sub,2,9,n,ok", "m.subscribed,1,77", "m.subscribed,2,77", "pump",
     "m.event,77,1,a1,k5=2", "pump", "m.event,77,2,a1,n", "m.event,77,3,a1,k", "pump"],
    # F9: handlers a, b, c on one id; a unsubscribes itself synchronously
    ["open", "pump", "m.welcome,7", "sub,1,9,n,ok", "sub,2,9,n,ok", "sub,3,9,n,ok", "m.subscribed,1,77", "m.subscribed,2,77",
     "m.subscribed,3,77", "pump", "m.event,77,1,a1,n;r+self", "pump", "m.event,77,2,a1,n", "pump"],
    # unsubscribe first / middle / last; UNSUBSCRIBE only for the last; race; unknown id
    ["open", "pump", "m.welcome,7", "sub,1,9,n,ok", "sub,2,9,oda=3,ok", "sub,3,9,n,ok", "m.subscribed,3,77", "m.subscribed,1,77",
     "m.subscribed,2,77", "pump", "m.event,77,1,a1,k1=2", "unsub,1,ok", "pump", "m.event,77,2,n,n", "unsub,1,ok", "unsub,2,ok",
     "m.event,77,3,n,n", "unsub,0,ok", "pump", "m.event,77,4,a1,n", "m.unsubscribed,4", "pump", "m.event,77,5,a1,n", "m.event,78,6,n,n",
     "unsub,0,ok"],
    # raising handlers, handler subscribing a new handler, sibling unsubscribe
    ["open", "pump", "m.welcome,7", "sub,1,9,n,ok", "sub,2,9,n,ok", "sub,3,9,n,ok", "m.subscribed,1,77", "m.subscribed,2,77",
     "m.subscribed,3,77", "pump", "m.event,77,1,a1,n;x!r!x", "pump", "m.event,77,2,n,n;r+sub,4,9,n,ok", "m.subscribed,4,77", "pump",
     "m.event,77,3,n,n;r+unsub,2,ok", "pump", "m.event,77,4,n,n;r!r+unsub,0,ok", "pump", "m.event,77,5,n,n"],
    # SUBSCRIBED racing with an outstanding UNSUBSCRIBE, ERROR replies
    ["open", "pump", "m.welcome,7", "sub,1,9,n,ok", "m.subscribed,1,77", "pump", "sub,2,9,n,ok", "unsub,0,ok", "m.subscribed,2,77",
     "pump", "m.event,77,1,n,n", "m.unsubscribed,3", "pump", "m.event,77,2,n,n", "unsub,1,ok", "sub,3,9,n,ok", "m.error,32,4,5,n,n",
     "pump", "sub,4,8,n,ok", "m.subscribed,5,78", "unsub,3,ok", "m.error,34,6,5,n,n", "pump", "m.event,78,3,n,n", "unsub,3,ok"],
]

DETAILS = ["n", "oda=0", "oda=3"]


def simulate_event(P, sid, acts):
    """advance the planner's id counters over the calls the handlers will make (cursor semantics of the code)"""
    lst = P.subs.get(sid)
    if lst is None:
        return
    idx = n = 0
    while idx < len(lst):
        own = lst[idx]
        act = acts[n] if n < len(acts) else "r"
        n += 1
        for c in act.split("+")[1:]:
            if c == "self":
                c = f"unsub,{own},ok"
            p = c.split(",")
            if p[0] == "unsub":
                o = int(p[1])
                for s2, l2 in P.subs.items():
                    if o in l2:
                        l2.remove(o)
                        if not l2:
                            P._req("unsub", sub=s2)
                        else:
                            P.fut += 1
                        break
            elif p[0] == "sub":
                P._req("sub", topic=int(p[2]))
            elif p[0] == "call":
                P._req("call", progress=False, details=False)
        idx += 1


def event(P, rng, sid, args=None, kwargs=None, acts=None):
    acts = acts or []
    tok = "!".join(acts)
    P.event(sid, args=args, kwargs=kwargs, acts=tok)
    simulate_event(P, sid, acts)


def attach(P, rng, sid, dets, topic=9, order=None, errors=()):
    """subscribe len(dets) handlers and answer in `order`; -> objs in attachment order"""
    rids = [P.subscribe(topic=topic, opts=d) for d in dets]
    futs = [P.pending[r]["fut"] for r in rids]
    objs = []
    for j in (order or range(len(rids))):
        if j in errors:
            P.error(rids[j])
        else:
            P.success(rids[j], sub=sid)
            objs.append(futs[j])
    return objs


def rand_act(P, rng, objs, own=None):
    x = rng.random()
    if x < 0.4:
        return "r"
    if x < 0.55:
        return "x"
    if x < 0.7:
        return rng.choice(["r", "x"]) + "+self"
    if x < 0.85 and objs:
        return "r+unsub,%d,ok" % rng.choice(objs)
    if x < 0.95:
        P.h += 1
        return "r+sub,%d,%d,%s,ok" % (P.h, rng.choice([9, 8]), rng.choice(DETAILS))
    return "r+call,1,a,k,n,ok"


def random_history(rng, pump, safe=False):
    """safe: stays outside the two known defect shapes (one details_arg for all handlers, no synchronous unsubscribe),
    so that later divergences of the same history are not masked by them"""
    P = sc.Planner(rng, pump=pump).start(sid=rng.randint(1, 2 ** 53))
    ids = [77, 78]
    one = rng.choice(DETAILS)
    for sid in ids[:rng.randint(1, 2)]:
        nh = rng.randint(1, 4)
        order = list(range(nh))
        rng.shuffle(order)
        errors = [j for j in range(nh) if rng.random() < 0.1]
        attach(P, rng, sid, [one if safe else rng.choice(DETAILS) for _ in range(nh)], topic=rng.choice([9, 9, 8]), order=order, errors=errors)
    for _ in range(rng.randint(2, 10)):
        x = rng.random()
        live = [o for l in P.subs.values() for o in l]
        if x < 0.45:
            sid = rng.choice(list(P.subs) + [99]) if P.subs else 99
            n = len(P.subs.get(sid, []))
            acts = [rand_act(P, rng, live) for _ in range(n)] if rng.random() < 0.7 else []
            if safe:
                acts = [a if "self" not in a and "unsub," not in a else a[0] for a in acts]
            event(P, rng, sid, acts=acts)
        elif x < 0.65 and live:
            P.unsubscribe(rng.choice(live))
        elif x < 0.72:
            P.unsubscribe(rng.randint(0, max(0, P.fut)))       # inactive / never resolved
        elif x < 0.85:
            pend = [r for r, q in P.pending.items() if q["kind"] in ("unsub", "sub")]
            if pend:
                r = rng.choice(pend)
                if rng.random() < 0.8:
                    P.success(r, sub=rng.choice(ids))
                else:
                    P.error(r)
        else:
            attach(P, rng, rng.choice(ids), [one if safe else rng.choice(DETAILS)], topic=rng.choice([9, 8]))
    if pump != "always":
        P.ev.append("pump")
    return P.script()


def gen(ctx):
    rng = ctx.rng
    quick = ctx.tier == "quick"
    out = []
    # (a) every details_arg pattern x every payload shape, all handlers return (F8 neighbourhood)
    for nh in (1, 2, 3, 4):
        for dets in itertools.product(DETAILS, repeat=nh):
            if quick and nh == 4 and rng.random() < 0.6:
                continue
            shapes = [(a, k) for a in sc.ARGS_IN for k in sc.KWARGS_IN + ["k0=9", "k3=9.1=7"]]
            if quick or nh == 4:
                shapes = rng.sample(shapes, 4) + [("a5", "k1=7")]
            P = sc.Planner(rng).start()
            order = list(range(nh))
            rng.shuffle(order)
            attach(P, rng, 77, list(dets), order=order)
            for a, k in shapes:
                event(P, rng, 77, args=a, kwargs=k)
            out.append(("details%d" % nh, P.script()))
    # (b) every handler position x every synchronous action (F9 neighbourhood), then a second plain event
    for nh in (1, 2, 3, 4):
        for pos in range(nh):
            actions = ["x", "r+self", "x+self", "r+sub,9,9,n,ok"] + ["r+unsub,%d,ok" % q for q in range(nh) if q != pos]
            for action in actions:
                for kw in ("n", "k1=7"):
                    P = sc.Planner(rng).start()
                    P.h = 10
                    attach(P, rng, 77, [rng.choice(DETAILS) if kw != "n" else "n" for _ in range(nh)])
                    acts = ["r"] * nh
                    acts[pos] = action
                    event(P, rng, 77, args="a1", kwargs=kw, acts=acts)
                    event(P, rng, 77, args="a2", kwargs=kw)
                    out.append(("action%d" % nh, P.script()))
    # (c) unsubscribe first / middle / last, in every order, events in between and after UNSUBSCRIBED
    for nh in (1, 2, 3, 4):
        perms = list(itertools.permutations(range(nh)))
        if quick and nh == 4:
            perms = rng.sample(perms, 8)
        for perm in perms:
            P = sc.Planner(rng).start()
            objs = attach(P, rng, 77, ["n"] * nh)
            rid = None
            for j in perm:
                event(P, rng, 77, args="a1", kwargs="n")
                rid = P.unsubscribe(objs[j])
            event(P, rng, 77, args="a1", kwargs="n")            # races with the outstanding UNSUBSCRIBE
            if rid is not None:
                P.success(rid)
            event(P, rng, 77, args="a1", kwargs="n")            # id no longer held
            P.unsubscribe(objs[perm[0]])                          # no longer active
            out.append(("unsub%d" % nh, P.script()))
    # (d) reply orders: SUBSCRIBED / ERROR for 1..3 subscribes on two ids, every permutation
    for nh in (1, 2, 3):
        for order in itertools.permutations(range(nh)):
            for errs in itertools.product([False, True], repeat=nh):
                P = sc.Planner(rng).start()
                attach(P, rng, 77, [rng.choice(DETAILS) for _ in range(nh)], order=list(order),
                       errors=[j for j in range(nh) if errs[j]])
                event(P, rng, 77, args="a1", kwargs="n")
                out.append(("replies%d" % nh, P.script()))
    # (e) random histories
    for j in range(1200 if quick else 100000):
        safe = j % 2 == 1
        out.append(("random-safe" if safe else "random",
                    random_history(rng, rng.choice(["always", "always", "random", "never"]), safe=safe)))
    return out


# ----------------------------------------------------------------------------- part B: decorated objects

def part_b(ctx, res):
    """subscribe(obj): one SUBSCRIBE per decorated handler pattern, in member-name order, with the pattern's options"""
    p = core.run_py(core.VERIF / "harness" / "workers" / "c11_decorated.py", [])
    if p.returncode != 0:
        raise RuntimeError("c11_decorated failed: " + p.stderr[-2000:])
    import json
    o = json.loads(p.stdout)
    res.evaluations += o["cases"]
    res.count("decorated-object-cases", o["cases"])
    for v in o["violations"]:
        res.violations.append(core.Violation(v["key"], v["what"], v))


# what the property text says where the Lean Spec mirrors the code (so Spec-vs-implementation cannot see it)
DIRECT = [
    {"key": "unsubscribed:late-reply-detaches-handler-subscribed-after-the-unsubscribe",
     "what": "unsubscribe() of the last handler of subscription 50 (UNSUBSCRIBE outstanding), then subscribe() of a new "
             "handler that the router answers with the same subscription id, then the UNSUBSCRIBED of the earlier request: "
             "`del self._subscriptions[id]` drops the new handler too, so the next EVENT is not delivered to a handler that "
             "is attached and is answered with ProtocolError",
     "script": ["open", "pump", "m.welcome,7", "sub,1,4,n,ok", "m.subscribed,1,50", "unsub,0,ok", "sub,2,4,n,ok",
                "m.subscribed,3,50", "m.unsubscribed,2", "pump", "m.event,50,1,a1,n", "pump"],
     "event": 10, "expect": ["inv:2,2,"], "forbid": ["raise:"], "all_done": False},
]


def run(ctx):
    res = core.Result()
    res.rule = ("script = event tokens for one session object: 1-4 handlers per subscription id on one or two ids (same or "
                "different topics, details_arg none/'details'/custom), SUBSCRIBED/ERROR replies in every order, "
                "unsubscribe of the first/middle/last handler in every order, UNSUBSCRIBED, EVENT with every args/kwargs "
                "shape (absent, empty, values, a key colliding with details_arg), EVENT while UNSUBSCRIBE is outstanding "
                "and for unknown ids, handler behaviours returns/raises/unsubscribes itself/unsubscribes a sibling/"
                "subscribes a new handler/makes a call, at every handler position; Twisted and asyncio; compared line by "
                "line with the Lean model and (projected) the Lean Spec; non-trivial = distinct script containing an EVENT")
    if ctx.replay_path:
        scripts, fws = sc.replay_scripts(ctx)
        d = sc.replay_direct(ctx)
        if d:
            sc.check_direct(ctx, res, d, frameworks=fws)
            return res
        sc.check_scripts(ctx, res, scripts, owns, frameworks=fws, shrink=False)
        return res
    items = [("corpus", s) for s in CORPUS] + [("corpus:" + n, s) for n, s in sc.corpus_scripts(PROP)] + gen(ctx)
    scripts, seen = [], set()
    for label, s in items:
        key = " ".join(s)
        if key in seen:
            continue
        seen.add(key)
        scripts.append(s)
        res.count("class:" + label)
        if any(t.startswith("m.event") for t in s):
            res.distinct.add(core.sha(key)[:16])
        for t in s:
            res.count("event:" + t.split(",")[0].split(";")[0])
            if ";" in t:
                for a in t.split(";")[1].split("!"):
                    res.count("act:" + (a.split(",")[0] if "+" in a else a))
    for s in scripts[:2] + scripts[len(CORPUS) + 90:len(CORPUS) + 92] + scripts[-2:]:
        res.sample(" ".join(s))
    ctx.log(f"{len(scripts)} scripts, {sum(map(len, scripts))} events")
    st = sc.check_scripts(ctx, res, scripts, owns)
    res.notes.append("spec divergences by key: " + ", ".join(st["keys"]) if st["keys"] else "no spec divergence")
    hit = sc.check_direct(ctx, res, DIRECT)
    res.notes.append("direct expectations violated: " + (", ".join(hit) or "none"))
    part_b(ctx, res)
    return res
