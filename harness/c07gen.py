"""C07 case generators: grammar-based handshake requests / responses with ONE deviation per case.

A server case:  {"label", "cfg", "conn", "onconnect", "data": bytes}
A client case:  {"label", "cfg", "key": hex16, "data": bytes}   (the accept digest is computed by the Lean driver)
"""
import base64

KEY = b"dGhlIHNhbXBsZSBub25jZQ=="
SRV = "AbV/1"

# ------------------------------------------------------------------ requests


class Req:
    def __init__(self):
        self.method, self.uri, self.ver = b"GET", b"/", b"HTTP/1.1"
        self.sep1 = self.sep2 = b" "
        self.pre = b""
        self.hdrs = [[b"Host", b"localhost:9000"], [b"Upgrade", b"websocket"], [b"Connection", b"Upgrade"],
                     [b"Sec-WebSocket-Key", KEY], [b"Sec-WebSocket-Version", b"13"]]
        self.eol = b"\r\n"
        self.term = b"\r\n"
        self.tail = b""

    def copy(self):
        r = Req()
        r.__dict__.update({k: (([list(h) for h in v]) if k == "hdrs" else v) for k, v in self.__dict__.items()})
        return r

    def set(self, name, value):
        for h in self.hdrs:
            if h[0].lower() == name.lower():
                h[1] = value
                return self
        self.hdrs.append([name, value])
        return self

    def drop(self, name):
        self.hdrs = [h for h in self.hdrs if h[0].lower() != name.lower()]
        return self

    def dup(self, name, value=None):
        for i, h in enumerate(self.hdrs):
            if h[0].lower() == name.lower():
                self.hdrs.insert(i + 1, [h[0], h[1] if value is None else value])
                return self
        return self

    def get(self, name):
        for h in self.hdrs:
            if h[0].lower() == name.lower():
                return h[1]

    def bytes(self):
        out = self.pre + self.method + self.sep1 + self.uri + self.sep2 + self.ver + self.eol
        for k, v in self.hdrs:
            out += k + b": " + v + self.eol if not isinstance(k, tuple) else k[0] + v + self.eol
        return out + self.term + self.tail


HEADERS = [b"Host", b"Upgrade", b"Connection", b"Sec-WebSocket-Key", b"Sec-WebSocket-Version"]
OPTIONAL = {b"Origin": b"http://good.com", b"Sec-WebSocket-Protocol": b"a, b",
            b"Sec-WebSocket-Extensions": b"permessage-deflate", b"User-Agent": b"x",
            b"Sec-WebSocket-Origin": b"http://good.com"}

VERSIONS = [b"0", b"7", b"8", b"13", b"14", b"199", b"249", b"250", b"299", b"1000", b"008", b"13 ", b" 13", b"+13", b"1_3", b"013", b"-13", b"13.0", b"1 3", b"", b"0x0d",
            b"255", b"256", b"08", b"+8", b"\xb2", b"13\xa0", b"13\x1f", b"1__3", b"_13", b"13_", b"\xd9\xa1\xd9\xa3",
            b"13,13", b"13;", b"9" * 30, b"0" * 4400 + b"13", b"13\x00"]

KEYS = [KEY[:-1], KEY + b"=", KEY[:23], b"A" + KEY, KEY[:21] + b"-==", KEY[:21] + b"_==", KEY[:21] + b" ==", KEY[:21] + b"\xff==",
        KEY[:21] + b"===", KEY[:22] + b"=A", KEY[:22] + b"AA", KEY[:22] + b"= ", b"=" * 24, KEY[:10] + b"=" + KEY[11:],
        b" " + KEY + b" ", b"\t" + KEY, KEY + b"\xa0", b"", b"A" * 22 + b"==", b"/" * 22 + b"==", b"+" * 22 + b"==",
        KEY[:21] + b"B==", KEY.lower(), KEY[:22], KEY[:22] + b"\r\n ==", b"\xe9" * 22 + b"=="]

ORIGINS = [b"http://good.com", b"https://good.com", b"http://good.com:8080", b"http://good.com:80", b"null", b"NULL", b"Null ",
           b"file:///x", b"FILE://x", b"http://good.com.evil.com", b"http://evilgood.com", b"http://evil.com/good.com",
           b"http://evil.com?good.com", b"http://evil.com#http://good.com:80", b"good.com", b"//good.com", b"http://", b"http://:80",
           b"http://GOOD.com", b"HTTP://good.com", b"http://good.com:abc", b"http://good.com:99999", b"http://good.com:",
           b"http://good.com:080", b"http://good.com:+80", b"http://good.com:8_0", b"http://user@good.com", b"http://good.com@evil.com",
           b"http://user:pw@good.com:80", b"http://[::1]:80", b"http://[::1", b"http://::1]", b"http://[zz]:80", b"http://[v1.x]",
           b"http://[1.2.3.4]", b"ftp://good.com", b"ws://good.com", b"http://good.com/path", b"http://good.com\\evil.com",
           b"http://good.com%2eevil.com", b"http://good.com\x00.evil.com", b"http://good.com\xe9", b"http://\xe9good.com",
           b"\x01http://good.com", b"ht\ttp://good.com", b"http://good.com:80\x0b", b"", b"*", b"http://good.com:None",
           b"about:blank", b"http:good.com", b"http:///good.com", b"http://good.com:80:80", b"http://[::1%25eth0]:80",
           b"http://G\xd6\xd6D.com", b"http://good.com.", b"1http://good.com"]

ORIGIN_POLICIES = [["*"], ["http://good.com:80"], ["*://good.com:*"], ["*good.com:*"], ["http://*.good.com:80"], ["http://good.com:*"],
                   ["http://good.com"], [], ["https://good.com:443", "http://good.com:80"], ["*:None"], ["http://g*d.com:80"]]

HOSTS = [b"localhost", b"localhost:9000", b"localhost:abc", b"localhost:", b"localhost:+9000", b"localhost:9_000", b"localhost: 9000",
         b"localhost :9000", b"[::1]", b"[::1]:9000", b"[::1]:x", b"::1", b"::1:9000", b"localhost:99999999", b"localhost:-1",
         b"localhost:9001", b"", b":", b":9000", b"a:b:9000", b"localhost:9000]", b"localhost:9000 ", b"localhost:0", b"localhost:09000",
         b"\xe9:9000", b"localhost:\xb2", b"localhost:9000\xa0", b"localhost:" + b"9" * 4400, b"h:9000\x1f"]

UPGRADES = [b"websocket", b"WebSocket", b"WEBSOCKET", b"websocket, foo", b"foo, websocket", b"foo,websocket ,bar", b"websocketx",
            b"web socket", b"", b"websocket\xa0", b"\x1fwebsocket", b"websocket/13", b"h2c", b",", b"websocket;q=1", b"WEBS\xd6CKET",
            b"w\xebbsocket", b"websocke\x54"]
CONNECTIONS = [b"Upgrade", b"upgrade", b"UPGRADE", b"keep-alive, Upgrade", b"Upgrade, keep-alive", b"close", b"Upgradex", b"", b"up grade",
               b"keep-alive,upgrade", b"Upgrade;", b"\xa0Upgrade\x85", b","]
PROTOCOLS = [b"a", b"a,b", b"a, b", b"a,a", b"a, a", b"a,,b", b"a,,b,", b",", b"", b"a,A", b"\xe9,\xe9", b"\xe9", b"a b", b"a,b,c,d,e,f,a",
             b" a ,\ta", b"a\xa0,a"]
EXTENSIONS = [b"permessage-deflate", b"permessage-deflate; client_max_window_bits", b"permessage-deflate; client_max_window_bits=10",
              b"permessage-deflate; client_max_window_bits=8", b"permessage-deflate; client_max_window_bits=16",
              b"permessage-deflate; client_max_window_bits=abc", b"permessage-deflate; client_max_window_bits=+10",
              b"permessage-deflate; client_max_window_bits=1_0", b"permessage-deflate; server_no_context_takeover",
              b"permessage-deflate; server_no_context_takeover=1", b"permessage-deflate; server_max_window_bits=10",
              b"permessage-deflate; server_max_window_bits", b"permessage-deflate; server_max_window_bits=\"10\"",
              b"permessage-deflate; server_max_window_bits=\"10", b"permessage-deflate; foo", b"permessage-deflate; foo=1",
              b"permessage-deflate; client_no_context_takeover; client_no_context_takeover",
              b"permessage-deflate; client_max_window_bits; server_max_window_bits=12; server_no_context_takeover",
              b"permessage-deflate, permessage-deflate; client_max_window_bits", b"x-webkit-deflate-frame", b"foo; bar=1, baz",
              b"permessage-bzip2", b"permessage-bzip2; server_max_compress_level=5", b"permessage-bzip2; server_max_compress_level=0",
              b"permessage-bzip2; server_max_compress_level", b"permessage-bzip2; client_max_compress_level",
              b"permessage-bzip2; client_max_compress_level=3", b"PERMESSAGE-DEFLATE; CLIENT_MAX_WINDOW_BITS", b",,", b"; ;", b"=", b";=",
              b"permessage-deflate;", b"permessage-deflate; =", b"permessage-deflate; a=b=c", b"permessage-deflate; server_max_window_bits=1=0",
              b"", b" ", b"permessage-deflate; server_max_window_bits=\xb2", b"permessage-deflate ; client_max_window_bits = 10",
              b"foo, permessage-deflate; server_max_window_bits=9", b"permessage-deflate; server_max_window_bits=015"]
URIS = [b"/", b"/x?y=1", b"/#frag", b"/#", b"#", b"/x?y#z", b"ws://localhost:9000/x", b"http://h/p", b"//[::1]/", b"//[::1/", b"//::1]/",
        b"//[zz]/", b"//[v1.a]/", b"//[1.2.3.4]/", b"/a;b=1", b"*", b"/\xe9", b"/%E9", b"/\x00", b"\x01/", b"/a\x0bb", b"//h", b"///", b"?",
        b"/?redirect=http%3A%2F%2Fx.y", b"/?redirect=http%3A%2F%2Fx.y&after=3", b"/?redirect=http%3A%2F%2Fx.y&after=abc",
        b"/?redirect=http%3A%2F%2F[", b"/?redirect=", b"/?after=3", b"/?redirect=x&redirect=y", b"/?%72edirect=%68ttp://a.b",
        b"/?redirect=http://a.b&after=-5", b"/?redirect=http://a.b&after=%2B7", b"/?redirect=http://a.b&after=1_0",
        b"/?redirect=http://\xe9.b", b"/?redirect=http://a.b/%ff", b"/?redirect=//a.b", b"/?redirect=javascript:alert(1)",
        b"/?redirect=http://a.b:99999", b"/?redirect=http://a.b:x", b"/?redirect=http://[::1]/", b"/?redirect=http://%00",
        b"/?redirect=http://a.b&after=", b"/?redirect=http://a..b", b"/?redirect=http://xn--/", b"/?redirect=http://a.b/'%3E%3Cscript%3E",
        b"http://[::1]:80/p#f", b"/p?#", b"/p#?", b"x:#y"]
METHODS = [b"POST", b"get", b"Get", b"GETX", b"HEAD", b"OPTIONS", b"", b"G\xc9T", b"\xa0GET"]
HTTPVERS = [b"HTTP/1.0", b"HTTP/2", b"http/1.1", b"HTTP/1.1.1", b"HTTP/1.10", b"HTTP/01.1", b"HTTP1.1", b"HTTP//1.1", b"HTTP/", b"/1.1",
            b"HTTP/1.1/", b"HTTP/1.1\xa0", b"", b"HTTP/1,1"]
NONASCII = [b"\xe9", b"\xff", b"\xc3\xa9", b"\x80", b"\xc0\xaf", b"\xed\xa0\x80", b"\xf4\x90\x80\x80", b"\x85", b"\xa0", b"\x00", b"\x1c", b"\x0b",
            b"\x0c", b"\r", b"\n", b"\x7f"]


def numeral_sweep(tier, status=False):
    """all strings of length 1..3 over digits that exercise the boundaries 0-9 / 10-99 / 100-199 / 200-249 / 250-255 (resp. the
    three-digit status code) and the characters int() tolerates ('+', '_', leading zero; thorough: '-', superscript two, all digits)"""
    alph = b"0125+_" + (b"69" if not status else b"") if tier == "quick" else b"0123456789+_-\xb2"
    out, cur = [], [b""]
    for _ in range(3):
        cur = [s + bytes([a]) for s in cur for a in alph]
        out += cur
    if status:
        out += [b"0101", b"1010", b"1011", b"+101", b"101_", b"1_01", b"10_1", b"_101"]
    else:
        out += [b"0013", b"1300", b"2550", b"0255", b"+255", b"25_5"]
    return sorted(set(out))


def srv_cfg(**kw):
    c = {"server": SRV}
    c.update(kw)
    return c


def server_cases(rng, tier):
    """-> list of case dicts; each deviates from a valid request in ONE element (plus configuration axes)"""
    out = []

    def add(label, req, cfg=None, conn=1, oc=None):
        data = req if isinstance(req, bytes) else req.bytes()
        out.append({"label": label, "cfg": cfg or srv_cfg(), "conn": conn, "onconnect": oc or ["accept", None, []], "data": data})

    base = Req()
    add("valid", base)
    add("valid+opt", base.copy().set(b"Origin", b"http://good.com").set(b"Sec-WebSocket-Protocol", b"a, b").set(b"User-Agent", b"x"))
    # --- request line
    for m in METHODS:
        r = base.copy(); r.method = m; add("method:" + m.decode("latin-1"), r)
    for v in HTTPVERS:
        r = base.copy(); r.ver = v; add("httpver:" + v.decode("latin-1"), r)
    for u in URIS:
        r = base.copy(); r.uri = u; add("uri:" + u.decode("latin-1"), r)
        r2 = r.copy().drop(b"Upgrade"); add("uri-noupgrade:" + u.decode("latin-1"), r2)
        add("uri-noupgrade-nostatus:" + u.decode("latin-1"), r2, srv_cfg(webStatus=False))
    for s1, s2 in [(b"  ", b" "), (b"\t", b"\t"), (b"\xa0", b" "), (b" ", b"\x1f"), (b"\x0b", b" "), (b"", b" "), (b" ", b"")]:
        r = base.copy(); r.sep1, r.sep2 = s1, s2; add("linesep:%r%r" % (s1, s2), r)
    for pre in [b"\r\n", b" ", b"\n", b"\x85", b"X\r\n", b"\xa0\t"]:
        r = base.copy(); r.pre = pre; add("pre:%r" % pre, r)
    r = base.copy(); r.uri = b"/ extra"; add("line:4parts", r)
    r = base.copy(); r.uri = b""; r.sep2 = b""; add("line:2parts", r)
    # --- every required header removed / duplicated / name variants
    for h in HEADERS:
        add("remove:" + h.decode(), base.copy().drop(h))
        add("remove-nostatus:" + h.decode(), base.copy().drop(h), srv_cfg(webStatus=False))
        add("dup-same:" + h.decode(), base.copy().dup(h))
        add("dup-other:" + h.decode(), base.copy().dup(h, b"zzz"))
        for nm in (h.upper(), h.lower(), h + b" ", b" " + h, h + b"\xa0", h + b"\t"):
            r = base.copy()
            for x in r.hdrs:
                if x[0] == h:
                    x[0] = nm
            add("name:%r" % nm, r)
        r = base.copy()
        for x in r.hdrs:
            if x[0] == h:
                x[0] = (h + b":", )
        add("nospace-after-colon:" + h.decode(), r)
        r = base.copy()
        for x in r.hdrs:
            if x[0] == h:
                x[0] = (h + b" :  ", )
        add("space-around-colon:" + h.decode(), r)
        r = base.copy()
        for x in r.hdrs:
            if x[0] == h:
                x[0] = (h, )
        add("nocolon:" + h.decode(), r)
    for h, v in OPTIONAL.items():
        add("opt:" + h.decode(), base.copy().set(h, v))
        add("opt-dup:" + h.decode(), base.copy().set(h, v).dup(h))
        add("opt-dup-other:" + h.decode(), base.copy().set(h, v).dup(h, b"b"))
    r = base.copy(); r.hdrs.insert(0, [(b":", ), b"x"]); add("line-starts-with-colon", r)
    r = base.copy(); r.hdrs.insert(2, [(b"", ), b"garbage without colon"]); add("garbage-line", r)
    r = base.copy(); r.hdrs.insert(2, [(b" ", ), b"folded: continuation"]); add("folded-line", r)
    # --- values
    for v in HOSTS:
        add("host:" + v.decode("latin-1")[:40], base.copy().set(b"Host", v))
        add("host-ext9000:" + v.decode("latin-1")[:40], base.copy().set(b"Host", v), srv_cfg(externalPort=9000))
    for v in UPGRADES:
        add("upgrade:" + v.decode("latin-1"), base.copy().set(b"Upgrade", v))
    add("upgrade-2lines", base.copy().set(b"Upgrade", b"foo").dup(b"Upgrade", b"websocket"))
    for v in CONNECTIONS:
        add("connection:" + v.decode("latin-1"), base.copy().set(b"Connection", v))
    add("connection-2lines", base.copy().set(b"Connection", b"keep-alive").dup(b"Connection", b"Upgrade"))
    for v in VERSIONS:
        for vs in ([8, 13], [13], [8]):
            add("version:%s/%s" % (v.decode("latin-1")[:20], vs), base.copy().set(b"Sec-WebSocket-Version", v), srv_cfg(versions=vs))
    # every numeral-like string of length <= 3 (RFC 6455 version = 0..255, no sign / leading zero / separator); fed whole only
    for v in numeral_sweep(tier):
        add("version-sweep:%s" % v.decode("latin-1"), base.copy().set(b"Sec-WebSocket-Version", v), srv_cfg(versions=[8, 13]))
        out[-1]["variants"] = ("whole",)
    for v in KEYS:
        add("key:" + v.decode("latin-1"), base.copy().set(b"Sec-WebSocket-Key", v))
    for v in PROTOCOLS:
        add("protocols:" + v.decode("latin-1"), base.copy().set(b"Sec-WebSocket-Protocol", v))
    for v in EXTENSIONS:
        add("ext:" + v.decode("latin-1"), base.copy().set(b"Sec-WebSocket-Extensions", v))
        add("ext-accept:" + v.decode("latin-1"), base.copy().set(b"Sec-WebSocket-Extensions", v), srv_cfg(accept="firstDeflate"))
    # --- origins x policies (x null policy x header name by version)
    for o in ORIGINS:
        for pol in (ORIGIN_POLICIES if tier == "thorough" else ORIGIN_POLICIES[:6]):
            add("origin:%s/%s" % (o.decode("latin-1"), pol), base.copy().set(b"Origin", o), srv_cfg(allowedOrigins=pol))
        add("origin-nonull:" + o.decode("latin-1"), base.copy().set(b"Origin", o), srv_cfg(allowNullOrigin=False))
        add("origin-nonull-strict:" + o.decode("latin-1"), base.copy().set(b"Origin", o),
            srv_cfg(allowNullOrigin=False, allowedOrigins=["http://good.com:80"]))
        add("origin-v8:" + o.decode("latin-1"), base.copy().set(b"Sec-WebSocket-Version", b"8").set(b"Sec-WebSocket-Origin", o),
            srv_cfg(allowedOrigins=["http://good.com:80"]))
        add("origin-v8-wrongname:" + o.decode("latin-1"), base.copy().set(b"Sec-WebSocket-Version", b"8").set(b"Origin", o),
            srv_cfg(allowedOrigins=["http://good.com:80"]))
        add("origin-v13-wrongname:" + o.decode("latin-1"), base.copy().set(b"Sec-WebSocket-Origin", o),
            srv_cfg(allowedOrigins=["http://good.com:80"]))
    # --- capacity
    for mc in (0, 1, 2, 3):
        for conn in (1, 2, 3, 4):
            add("maxconn:%d/%d" % (mc, conn), base, srv_cfg(maxConnections=mc), conn=conn)
    # --- onConnect outcomes
    rp = base.copy().set(b"Sec-WebSocket-Protocol", b"a, b,\xe9")
    for oc in (["accept", None, []], ["accept", "a", []], ["accept", "b", [["X-A", "1"]]], ["accept", "c", []], ["accept", "\xe9", []],
               ["accept1", "a"], ["accept1", "zz"], ["accept", None, [["X-A", "1"], ["X-B", "\xe9"]]], ["accept", "", []],
               ["deny", 403], ["deny", 404], ["deny", 200], ["raises"]):
        add("onconnect:%s" % (oc, ), rp, oc=oc)
        add("onconnect-noproto:%s" % (oc, ), base, oc=oc)
    add("factory-headers", base, srv_cfg(headers=[["X-F", "v1"], ["X-G", "v2"]]), oc=["accept", None, [["X-A", "1"]]])
    add("no-server-header", base, srv_cfg(server=""))
    # --- non-ASCII / control octets in every position class
    for z in NONASCII:
        zs = "%r" % z
        r = base.copy(); r.method = b"GE" + z + b"T"; add("oct-method:" + zs, r)
        r = base.copy(); r.uri = b"/a" + z + b"b"; add("oct-uri:" + zs, r)
        r = base.copy(); r.ver = b"HTTP/1." + z + b"1"; add("oct-ver:" + zs, r)
        for h in HEADERS:
            r = base.copy()
            for x in r.hdrs:
                if x[0] == h:
                    x[0] = h[:3] + z + h[3:]
            add("oct-name:%s:%s" % (h.decode(), zs), r)
            v = base.get(h)
            for pos, lab in ((0, "start"), (len(v) // 2, "mid"), (len(v), "end")):
                add("oct-val-%s:%s:%s" % (lab, h.decode(), zs), base.copy().set(h, v[:pos] + z + v[pos:]))
        r = base.copy(); r.hdrs.insert(2, [b"X-Junk", z * 3]); add("oct-extra-header:" + zs, r)
        r = base.copy(); r.eol = z; add("oct-eol:" + zs, r)
        r = base.copy(); r.term = z + b"\r\n"; add("oct-before-term:" + zs, r)
    # --- line-ending variants
    for eol, term in ((b"\n", b"\n"), (b"\r", b"\r"), (b"\n", b"\r\n"), (b"\r\n", b"\n"), (b"\r\n", b"\r\n\r\n"), (b"\r\r\n", b"\r\n"),
                      (b"\x0b", b"\r\n\r\n"), (b"\x85", b"\r\n\r\n"), (b"\x1c", b"\r\n\r\n"), (b"\x1f", b"\r\n\r\n")):
        r = base.copy(); r.eol, r.term = eol, term; add("eol:%r/%r" % (eol, term), r)
    # --- trailing data after the header
    r = base.copy(); r.tail = b"\x81"; add("tail:1octet", r)
    r = base.copy().drop(b"Upgrade"); r.tail = b"GET / HTTP/1.1\r\n\r\n"; add("tail:second-request", r)
    r = base.copy().set(b"Host", b"a:b"); r.tail = base.bytes(); add("tail:valid-after-invalid", r)
    # --- flash policy
    add("flash:on", b"<policy-file-request/>\x00", srv_cfg(serveFlashSocketPolicy=True))
    add("flash:off", b"<policy-file-request/>\x00")
    add("flash:partial", b"<policy-file-request/>", srv_cfg(serveFlashSocketPolicy=True))
    add("flash:then-request", b"<policy-file-request/>\x00" + base.bytes(), srv_cfg(serveFlashSocketPolicy=True))
    # --- arbitrary octets / mutations
    n_rand = 150 if tier == "quick" else 1500
    for i in range(n_rand):
        k = rng.choice([0, 1, 2, 3, 10, 40, 200])
        add("random:%d" % i, rng.randbytes(k) + rng.choice([b"", b"\r\n\r\n", b"\r\n", b"\n\n"]))
    valid = base.copy().set(b"Origin", b"http://good.com").set(b"Sec-WebSocket-Protocol", b"a").bytes()
    n_mut = 400 if tier == "quick" else 6000
    for i in range(n_mut):
        b = bytearray(valid)
        for _ in range(rng.choice([1, 1, 1, 2, 3])):
            op = rng.randrange(4)
            pos = rng.randrange(len(b))
            if op == 0:
                b[pos] = rng.choice([rng.randrange(256), 13, 10, 58, 32, 44, 61, 0x85, 0xa0])
            elif op == 1:
                del b[pos]
            elif op == 2:
                b.insert(pos, rng.choice([rng.randrange(256), 13, 10, 58, 32, 44]))
            else:
                j = rng.randrange(len(b))
                b[pos], b[j] = b[j], b[pos]
        add("mutant:%d" % i, bytes(b), rng.choice([srv_cfg(), srv_cfg(allowedOrigins=["http://good.com:80"]), srv_cfg(versions=[13])]))
    return out


def oversized_cases(tier):
    base = Req()
    big = 1 << 20
    return [
        {"label": "oversized:1MiB-then-terminator", "cfg": srv_cfg(), "conn": 1, "onconnect": ["accept", None, []],
         "chunks": [base.bytes()[:-2] + b"X-Big: " + b"A" * big, b"\r\n\r\n"]},
        {"label": "oversized:1MiB-garbage-then-terminator", "cfg": srv_cfg(), "conn": 1, "onconnect": ["accept", None, []],
         "chunks": [b"B" * big, b"\r\n\r\n"]},
        {"label": "oversized:64KiB-newlines", "cfg": srv_cfg(), "conn": 1, "onconnect": ["accept", None, []],
         "chunks": [b"GET / HTTP/1.1\r\n" + b"\n" * 65536, b"\r\n\r\n"]},
        {"label": "oversized:2000-headers", "cfg": srv_cfg(), "conn": 1, "onconnect": ["accept", None, []],
         "chunks": [base.bytes()[:-2] + b"".join(b"X-%d: y\r\n" % i for i in range(2000)) + b"\r\n"]},
        {"label": "oversized:host-repeated-3000", "cfg": srv_cfg(), "conn": 1, "onconnect": ["accept", None, []],
         "chunks": [base.bytes()[:-2] + b"Upgrade: x\r\n" * 3000 + b"\r\n"]},
    ]


def split_variants(data, which):
    """chunkings of one byte string"""
    n = len(data)
    if which == "whole":
        return [data]
    if which == "bytes":
        return [data[i:i + 1] for i in range(n)]
    if which == "lines":
        out, cur = [], b""
        for i in range(n):
            cur += data[i:i + 1]
            if data[i] == 10:
                out.append(cur); cur = b""
        if cur:
            out.append(cur)
        return out
    if which == "midterm":
        i = data.find(b"\r\n\r\n")
        if i < 0:
            return [data[:n // 2], data[n // 2:]]
        return [x for x in (data[:i + 1], data[i + 1:i + 2], data[i + 2:i + 3], data[i + 3:]) if x != b"" or True]
    raise ValueError(which)


# ------------------------------------------------------------------ responses


class Resp(Req):
    def __init__(self, accept=b"@"):
        Req.__init__(self)
        self.method, self.uri, self.ver = b"HTTP/1.1", b"101", b"Switching Protocols"
        self.hdrs = [[b"Server", b"x"], [b"Upgrade", b"WebSocket"], [b"Connection", b"Upgrade"], [b"Sec-WebSocket-Accept", accept]]

    def copy(self):
        r = Resp()
        r.__dict__.update({k: (([list(h) for h in v]) if k == "hdrs" else v) for k, v in self.__dict__.items()})
        return r


STATUS = [b"101", b"100", b"200", b"400", b"1010", b"+101", b"1_01", b"0101", b"00101", b"-101", b"101.0", b"", b"abc", b"101abc", b"\xb9\xb0\xb9",
          b"10\xb9", b"101\xa0", b"1 01"]
CLI_PROTOS = [b"a", b"b", b"c", b"", b" ", b"a, b", b"A", b"a ", b"\xe9", b"\xc3\xa9", b"a,a"]
CLI_EXTS = [b"permessage-deflate", b"permessage-deflate; server_max_window_bits=10", b"permessage-deflate; client_max_window_bits",
            b"permessage-deflate; client_max_window_bits=12", b"permessage-deflate; server_no_context_takeover; client_no_context_takeover",
            b"permessage-deflate; foo", b"permessage-deflate; server_max_window_bits=8", b"permessage-deflate, permessage-deflate",
            b"permessage-deflate, foo", b"foo", b"x-webkit-deflate-frame", b"", b",", b"permessage-bzip2", b"permessage-deflate; server_max_window_bits=\"12\"",
            b"permessage-deflate; client_no_context_takeover=1", b"PerMessage-Deflate", b"permessage-deflate; server_max_window_bits=1_2"]
RESP_HEADERS = [b"Upgrade", b"Connection", b"Sec-WebSocket-Accept"]


def cli_key(rng):
    return rng.randbytes(16).hex()


def client_cases(rng, tier):
    """accept digest placeholder `@` is replaced by the harness with the Lean digest of the case's key"""
    out = []

    def add(label, resp, cfg=None, key=None):
        out.append({"label": label, "cfg": cfg or {}, "key": key or cli_key(rng), "data": resp})

    base = Resp()
    add("valid", base)
    for v in (b"HTTP/1.0", b"HTTP/2", b"http/1.1", b"HTTP/1.1.1", b"", b"HTTP/1.1\xa0", b"\xa0HTTP/1.1", b"HTTP/1.1\xe9"):
        r = base.copy(); r.method = v; add("httpver:" + v.decode("latin-1"), r)
    for s in STATUS:
        r = base.copy(); r.uri = s; add("status:" + s.decode("latin-1"), r)
    # every numeral-like status code token of length <= 3 (plus some of length 4); fed whole only
    for v in numeral_sweep(tier, status=True):
        r = base.copy(); r.uri = v; add("status-sweep:" + v.decode("latin-1"), r)
        out[-1]["variants"] = ("whole",)
    for reason in (b"", b"X", b"Switching  Protocols", b"\xc3\xa9", b"\xe9", b"\xff", b"\xed\xa0\x80", b"\xf0\x9f\x98\x80", b"\xc0\x80", b"a\x00b"):
        r = base.copy(); r.ver = reason; add("reason:%r" % reason, r)
    r = base.copy(); r.uri = b""; r.ver = b""; r.sep1 = r.sep2 = b""; add("line:1part", r)
    r = base.copy(); r.ver = b""; r.sep2 = b""; add("line:2parts", r)
    for s1 in (b"  ", b"\t", b"\xc2\xa0", b"\xa0", b"\x1f"):
        r = base.copy(); r.sep1 = s1; add("linesep:%r" % s1, r)
    for h in RESP_HEADERS:
        add("remove:" + h.decode(), base.copy().drop(h))
        add("dup-same:" + h.decode(), base.copy().dup(h))
        add("dup-other:" + h.decode(), base.copy().dup(h, b"zzz"))
        for nm in (h.upper(), h.lower(), h + b" ", b" " + h):
            r = base.copy()
            for x in r.hdrs:
                if x[0] == h:
                    x[0] = nm
            add("name:%r" % nm, r)
    for v in UPGRADES:
        add("upgrade:" + v.decode("latin-1"), base.copy().set(b"Upgrade", v))
    for v in CONNECTIONS:
        add("connection:" + v.decode("latin-1"), base.copy().set(b"Connection", v))
    for lab, f in (("lower", lambda a: a.lower()), ("trunc", lambda a: a[:-1]), ("pad", lambda a: a + b"="), ("flip", lambda a: bytes([a[0] ^ 1]) + a[1:]),
                   ("ws", lambda a: b"  " + a + b"\t"), ("nbsp", lambda a: a + b"\xc2\xa0"), ("quoted", lambda a: b'"' + a + b'"'), ("empty", lambda a: b""),
                   ("twice", lambda a: a + b", " + a), ("otherkey", lambda a: b"s3pPLMBiTxaQ9kYGzzhZRbK+xOo=")):
        add("accept:" + lab, base.copy().set(b"Sec-WebSocket-Accept", ("@f", f)))
    for pcfg in ([], ["a"], ["a", "b"], ["\xe9"]):
        for v in CLI_PROTOS:
            add("proto:%s/%s" % (v.decode("latin-1"), pcfg), base.copy().set(b"Sec-WebSocket-Protocol", v), {"protocols": pcfg})
        add("proto-dup/%s" % pcfg, base.copy().set(b"Sec-WebSocket-Protocol", b"a").dup(b"Sec-WebSocket-Protocol"), {"protocols": pcfg})
    # names related to the requested ones as substring / superstring / comma-join / case variant / fragment across the comma
    for pcfg, vals in ((["wamp.2.json", "wamp.2.msgpack"],
                        [b"wamp.2.json", b"wamp.2.msgpack", b"wamp.2", b"json", b"msgpack", b"wamp.2.json,wamp.2.msgpack",
                         b"wamp.2.json, wamp.2.msgpack", b"WAMP.2.JSON", b"Wamp.2.Json", b"wamp.2.json.x", b"xwamp.2.json", b",", b"p.2.j",
                         b"n,w", b"json,wamp", b"wamp.2.msgpack,wamp.2.json", b"w", b".", b"wamp.2.jsonwamp.2.msgpack", b"wamp.2.json,"]),
                       (["ab"], [b"ab", b"a", b"b", b"abc", b"AB", b"aB", b"ab,ab", b"ba"]),
                       (["a", "b"], [b"a,b", b"a,", b",b", b","])):
        for v in vals:
            add("proto-related:%s/%s" % (v.decode("latin-1"), pcfg), base.copy().set(b"Sec-WebSocket-Protocol", v), {"protocols": pcfg})
    # the request announced other protocols than factory.protocols (onConnecting returned its own ConnectingRequest)
    for v in (b"a", b"b", b""):
        add("proto-connecting:%s" % v.decode(), base.copy().set(b"Sec-WebSocket-Protocol", v),
            {"protocols": ["a"], "connecting": {"protocols": ["b"]}})
    for v in CLI_EXTS:
        add("ext:" + v.decode("latin-1"), base.copy().set(b"Sec-WebSocket-Extensions", v))
        add("ext-offered:" + v.decode("latin-1"), base.copy().set(b"Sec-WebSocket-Extensions", v), {"offers": [{}], "accept": "acceptAll"})
        add("ext-accept-unoffered:" + v.decode("latin-1"), base.copy().set(b"Sec-WebSocket-Extensions", v), {"accept": "acceptAll"})
    add("ext-dup", base.copy().set(b"Sec-WebSocket-Extensions", b"permessage-deflate").dup(b"Sec-WebSocket-Extensions"), {"offers": [{}], "accept": "acceptAll"})
    for z in NONASCII:
        zs = "%r" % z
        for h in [b"Server"] + RESP_HEADERS:
            v = base.get(h)
            if v == b"@":
                add("oct-val:%s:%s" % (h.decode(), zs), base.copy().set(h, ("@f", lambda a, z=z: a + z)))
                continue
            for pos, lab in ((0, "start"), (len(v) // 2, "mid"), (len(v), "end")):
                add("oct-val-%s:%s:%s" % (lab, h.decode(), zs), base.copy().set(h, v[:pos] + z + v[pos:]))
            r = base.copy()
            for x in r.hdrs:
                if x[0] == h:
                    x[0] = h[:3] + z + h[3:]
            add("oct-name:%s:%s" % (h.decode(), zs), r)
        r = base.copy(); r.hdrs.insert(1, [b"X-Junk", z * 3]); add("oct-extra-header:" + zs, r)
        r = base.copy(); r.eol = z; add("oct-eol:" + zs, r)
    for eol, term in ((b"\n", b"\n"), (b"\r", b"\r"), (b"\n", b"\r\n"), (b"\r\n", b"\n"), (b"\r\r\n", b"\r\n"), (b"\x0b", b"\r\n\r\n")):
        r = base.copy(); r.eol, r.term = eol, term; add("eol:%r/%r" % (eol, term), r)
    r = base.copy(); r.tail = b"\x81"; add("tail:1octet", r)
    n_rand = 100 if tier == "quick" else 1000
    for i in range(n_rand):
        k = rng.choice([0, 1, 2, 3, 10, 40, 200])
        add("random:%d" % i, rng.randbytes(k) + rng.choice([b"", b"\r\n\r\n", b"\r\n"]))
    n_mut = 300 if tier == "quick" else 4000
    for i in range(n_mut):
        add("mutant:%d" % i, ("@mut", [rng.randrange(1 << 30) for _ in range(8)]), rng.choice([{}, {"protocols": ["a"]}]))
    return out


def build_response(resp_or_bytes, accept, rng_words=None):
    import random
    if isinstance(resp_or_bytes, tuple) and resp_or_bytes[0] == "@mut":
        rnd = random.Random(str(resp_or_bytes[1]))
        r = Resp(accept).copy()
        r.set(b"Sec-WebSocket-Accept", accept).set(b"Sec-WebSocket-Protocol", b"a")
        b = bytearray(r.bytes())
        for _ in range(rnd.choice([1, 1, 1, 2, 3])):
            op = rnd.randrange(4)
            pos = rnd.randrange(len(b))
            if op == 0:
                b[pos] = rnd.choice([rnd.randrange(256), 13, 10, 58, 32, 44, 61, 0x85, 0xa0])
            elif op == 1:
                del b[pos]
            elif op == 2:
                b.insert(pos, rnd.choice([rnd.randrange(256), 13, 10, 58, 32, 44]))
            else:
                j = rnd.randrange(len(b))
                b[pos], b[j] = b[j], b[pos]
        return bytes(b)
    if isinstance(resp_or_bytes, bytes):
        return resp_or_bytes
    r = resp_or_bytes.copy()
    for h in r.hdrs:
        if h[1] == b"@":
            h[1] = accept
        elif isinstance(h[1], tuple) and h[1][0] == "@f":
            h[1] = h[1][1](accept)
    return r.bytes()


def wskey(hex16):
    return base64.b64encode(bytes.fromhex(hex16))
