"""C04 — each WAMP request completes exactly once with its own reply.

Theorems: lean/Abverif/Proofs/C04.lean over Model/Session.lean (mirrors ApplicationSession) and Model/SessSpec.lean.
Tie: real ApplicationSession of Twisted and of asyncio (separate processes) over a recording mock ITransport, driven
by event scripts; every observation line is compared with the Lean model (correspondence) and, projected on the
observables the property names, with the Lean Spec (failing-input search); divergences are classified, shrunk
(ddmin over the op list) and written as replays.

Self-test (single-edit mutations of a scratch copy of /repo/src, `VERIF_REPO=<copy> ./check C04|C11`, quick tier;
every mutation exit 1 with a minimised replay, every harmless rewrite exit 0):

  M1 C04  Published branch `_publish_reqs.pop(id)` -> `.get(id)`            key m.published:raise:ProtocolError-expected-got-no-raise
          replay: open m.welcome,N pub,6,a1,k1=2.3=4,oack=t,ok m.published,1,102 m.published,1,103
  M2 C04  Subscribed branch looks the id up in (and pops from) `_register_reqs`  keys m.subscribed:future-not-completed,
          m.subscribed:raise:ProtocolError-expected-got-raise:AttributeError
          replay: open m.welcome,N sub,1,4,om=2/gr=t,ok m.subscribed,1,52
  M3 C04  ERROR dispatch ignores request_type for calls                      key m.error:unexpected-completion
          replay: open m.welcome,N call,5,a1,k1=2,ot=5/x=3,ok m.error,64,1,7,a5.6,k
  M4 C04  IdGenerator starts at -1 (first id 0)                             key request:id-not-sequential (+ translator refuses)
          replay: open reg,1,4,n,ok
  M7 C04  `raise ProtocolError` for an unknown PUBLISHED id replaced by `pass`  key m.published:raise:ProtocolError-expected-got-no-raise
          replay: m.welcome,N m.published,1,101
  M5 C11  `_unsubscribe`: `if scount == 0` -> `if True`                      keys unsub:request-message-unexpected, event:other
          replay: open m.welcome,N sub,1,9,oda=3,ok sub,2,9,oda=3,ok m.subscribed,2,77 sub,3,9,oda=3,ok m.subscribed,3,77 unsub,2,ok
  M6 C11  Event branch iterates `reversed(self._subscriptions[id])`          keys event:handler-order, event:handler-called-unexpectedly
          replay: open m.welcome,N sub,1,8,n,ok sub,2,8,n,ok m.subscribed,1,77 m.subscribed,2,77 m.event,77,101,a5,k1=7;r!r
  H1 C04  call(): record built in a local and stored with dict.update()      silent (exit 0)
  H2 C11  `_unsubscribe`: scount = sum(1 for _ in list); `if not scount`     silent (exit 0)
The minimised witnesses are kept in corpus/C04, corpus/C11 and replayed first on every run.

After the repairs of F8 / F9 / F10 in /repo (8b7d7882, 156d2c77, a7a5033b) the model follows the repaired code and
`dispatch_exact` / `progress_only_own_handler` are full theorems; re-run with tools_selftest_sess.py (extended session
model, 2026-09-23): re-introducing each defect is reported again (exit 1) —
  c04-f10-reintroduced                                       exit 1  keys: result:progressive-details-without-args-or-kwargs-raises-TypeError
      replay: open m.welcome,7 call,1,a,k,op=1/d=t,ok m.result,1,a1,n,1
  c04-m1-published-get-instead-of-pop                        exit 1  keys: m.published:raise:ProtocolError-expected-got-no-raise
      replay: open m.welcome,4 pub,6,a1,k1=2.3=4,oack=t,ok m.published,1,102 m.published,1,103
  c11-f8-reintroduced                                        exit 1  keys: event:details-of-another-handler-in-kwargs
      replay: open m.welcome,7 sub,1,9,oda=0,ok sub,2,9,n,ok m.subscribed,1,77 m.subscribed,2,77 m.event,77,1,a1,k5=2
  c11-f9-reintroduced                                        exit 1  keys: event:handler-skipped-after-synchronous-unsubscribe
      replay: open m.welcome,7 sub,1,9,n,ok sub,2,9,n,ok sub,3,9,n,ok m.subscribed,1,77 m.subscribed,2,77 m.subscribed,3,77 m.event,77,1,a1,n;r!r+unsub,0,ok
  c11-m6-reversed-dispatch                                   exit 1  keys: event:handler-called-unexpectedly, event:handler-order
      replay: open m.welcome,7 sub,1,9,n,ok sub,2,9,n,ok sub,3,9,n,ok m.subscribed,1,77 m.subscribed,2,77 m.subscribed,3,77 m.event,77,1,a1,n;r!r+unsub,0,ok
"""
import itertools

from vlib import core, sesscheck as sc
from translate import sess as tr_sess

PROP = "C04"
PROOF_MODULES = ["Abverif.Proofs.C04"]
TRANSLATORS = [tr_sess.translate]
TRUSTED = [
    "Lean 4.33 kernel; axioms of every theorem audited to be within {propext, Classical.choice, Quot.sound}",
    "hand-written Lean model Abverif/Model/Session.lean of ApplicationSession.onMessage / call / publish / subscribe / "
    "register / _unsubscribe / _unregister, IdGenerator, the six request tables and txaio futures (write-once cell, "
    "callbacks synchronous on Twisted, queued FIFO on asyncio); constants (id bound, initial id, MESSAGE_TYPE codes) "
    "regenerated from /repo by translate/sess.py on every run",
    "tie model<->code: differential run of real ApplicationSession objects (both frameworks) over a mock ITransport "
    "against the model through the compiled driver; what it sees is bounded by the generators",
    "txaio / Twisted Deferred / asyncio Future semantics (modelled, not verified)",
    "payload values, URIs, option values are abstract tokens; serializers and URI validation are outside (C03, C08)",
]
ASSUMPTIONS = [
    "ITransport.send either accepts the message or raises; it does not call back into the session synchronously",
    "onMessage is not re-entered while user code it called is still running",
    "request ids pairwise distinct is proved for histories that draw at most 2^53 ids from one session object",
    "INVOCATION for an existing registration, CHALLENGE/ABORT and the lifecycle callbacks are modelled (C06, C10) but not exercised by this check's generators",
    "the object form register(obj) (one REGISTER per decorated endpoint, each with exactly its own options) is checked on the code by part B of this harness (harness/workers/c04_decorated.py), not modelled in Lean",
]
MANIFEST_ENTRY = {
    "technique": "Lean 4 theorems by induction over arbitrary event histories of an executable session model + "
                 "differential tie to real Twisted/asyncio ApplicationSession objects + Spec oracle with ddmin",
    "text": "Proved in Lean for every event history (no length bound, both txaio scheduling modes, any user-code behaviour): "
            "ids_sequential (the k-th request message of a session object carries ((k-1) mod 2^53)+1; constants regenerated "
            "from util.IdGenerator), ids_in_range, ids_fresh (ids of outstanding requests pairwise distinct within and "
            "across the six tables while <= 2^53 requests were sent), one_message_per_call (one message of the call's type "
            "with the drawn id, the given URI/args/kwargs and the options' message_attr table, also when send() raises), "
            "completes_at_most_once and never_completes_twice (no history makes resolve/reject hit a called future), "
            "table_iff_pending (the six tables read as one map agree with the Spec's pending map), reply_routing (a reply "
            "(type,id) completes exactly the future recorded under (kind(type),id) with that reply's content, removes it, "
            "leaves the other tables alone), unknown_reply_is_violation (ProtocolError and no state change for unknown id, "
            "wrong type, wrong request_type, duplicates), send_failure, progress_only_own_handler (in full since the repair "
            "of F10 in /repo a7a5033b: a progressive RESULT calls the on_progress of its own call only, absent args/kwargs "
            "read as empty, and completes nothing). Stated in full, refuted on a concrete history and proved as _partial: "
            "ids restarting at 1 for a second join on the same object (U5). The model is tied to the "
            "code by generated histories (k<=6 outstanding requests of mixed kinds, all reply permutations for k<=4, "
            "success/error/progressive/duplicate/unknown-id/wrong-type/wrong-kind replies, all payload shapes, interleaved "
            "EVENT traffic, send failures, cancels, explicit loop iterations) on both frameworks.",
    "note": "The object form register(obj) (one REGISTER per decorated endpoint, each with exactly its own options, ids, REGISTERED routing, INVOCATION arguments) is decided on the real code only (harness part B), not modelled. Trusted: Lean kernel; the hand-written model (checked only by the differential run); txaio/Deferred/Future "
            "semantics. INVOCATION traffic for live registrations and the session lifecycle are the business of C06/C10 "
            "(same model); here only ProtocolError-raising INVOCATIONs are interleaved. Known finding U5 is reproduced by the "
            "check and listed in known_findings.d/C04.jsonl; F10 and its no-options variant are listed there as fixed "
            "(a7a5033b) and would be reported as violations again.",
}


def owns(tok):
    # handler invocations are C11's observable
    return not tok.startswith("inv:")


# ----------------------------------------------------------------------------- fixed regression scripts

CORPUS = [
    # F10: CallOptions(on_progress=f, details=True); RESULT(id, args=[1], progress=True)
    ["open", "pump", "m.welcome,7", "call,1,a,k,op=1/d=t,ok", "m.result,1,a1,n,1", "pump", "m.result,1,a1,k1=2,1",
     "m.result,1,n,k1=2,1", "m.result,1,a2,n,0", "pump"],
    # U5: join, 3 requests, leave, join again, 1 request
    ["open", "pump", "m.welcome,7", "call,1,a,k,n,ok", "call,2,a,k,n,ok", "call,3,a,k,n,ok", "pump", "m.goodbye", "pump",
     "join", "pump", "m.welcome,8", "call,4,a,k,n,ok", "m.result,1,a1,n,0", "pump"],
    # all six kinds outstanding at once, answered in reverse
    ["open", "pump", "m.welcome,1", "sub,1,1,n,ok", "m.subscribed,1,50", "reg,2,2,n,ok", "m.registered,2,70", "pump",
     "call,3,a1,k,n,ok", "pub,4,a,k1=2,oack=t,ok", "sub,3,5,oda=0,ok", "unsub,0,ok", "reg,4,6,n,ok", "unreg,1,ok",
     "m.unregistered,8,n", "m.registered,7,71", "m.unsubscribed,6", "m.subscribed,5,51", "m.published,4,9",
     "m.result,3,a1.2,k1=2,0", "pump", "m.result,3,a,n,0", "m.published,4,9"],
    # ERROR dispatch: wrong request_type, then the right one; duplicates; unknown ids
    ["open", "pump", "m.welcome,1", "call,1,a,k,n,ok", "pub,1,a,k,oack=t,ok", "m.error,16,1,3,n,n", "m.error,48,2,3,n,n",
     "m.error,48,1,3,a1,k1=2", "pump", "m.error,48,1,3,a1,k1=2", "m.error,16,2,4,n,n", "pump", "m.error,68,2,4,n,n",
     "m.result,9,n,n,0", "m.published,9,1", "m.subscribed,9,1", "m.unsubscribed,9", "m.registered,9,1",
     "m.unregistered,9,n", "m.unregistered,0,5", "m.other", "m.welcome,3"],
    # send failures and cancels
    ["open", "pump", "m.welcome,1", "call,1,a,k,n,fail", "pub,1,a,k,oack=t,fail", "sub,1,1,n,fail", "reg,2,1,n,fail",
     "m.result,1,n,n,0", "m.published,2,5", "m.subscribed,3,50", "m.registered,4,70", "pump", "call,1,a,k,n,ok",
     "cancel,4", "pump", "m.error,48,5,1,n,n", "pump", "call,1,a,k,n,ok", "cancel,5", "pump", "m.result,6,a1,n,0", "pump",
     "pub,1,a,k,oack=t,ok", "cancel,6", "pump", "m.published,7,3", "pump", "cancel,6", "cancel,99"],
    # no transport / not joined
    ["call,1,a,k,n,ok", "sub,1,1,n,ok", "open", "pump", "m.result,1,n,n,0", "call,1,a,k,n,ok", "m.welcome,1", "m.result,1,n,n,0",
     "pump", "closed", "call,1,a,k,n,ok", "pub,1,a,k,n,ok", "reg,1,1,n,ok"],
]


# ----------------------------------------------------------------------------- generators

REPLY_KINDS = ["success", "error", "progress", "duplicate", "unknown-id", "wrong-type", "wrong-kind-error"]


def setup(P, rng, nsubs, nregs):
    """established subscriptions / registrations so that unsubscribe, unregister and EVENT traffic are possible"""
    objs_s, objs_r = [], []
    for _ in range(nsubs):
        rid = P.subscribe()
        f = P.pending[rid]["fut"]
        P.success(rid, sub=rng.choice([50, 50, 51]))
        objs_s.append(f)
    for j in range(nregs):
        rid = P.register()
        f = P.pending[rid]["fut"]
        P.success(rid, reg=70 + j)
        objs_r.append(f)
    return objs_s, objs_r


def issue(P, rng, kind, objs_s, objs_r, snd="ok"):
    """-> request id or None (when the kind is not possible right now)"""
    if kind == "call":
        return P.call(snd=snd)
    if kind == "pub":
        return P.publish(ack=True, snd=snd)
    if kind == "sub":
        return P.subscribe(snd=snd)
    if kind == "reg":
        return P.register(snd=snd)
    if kind == "unsub":
        # unsubscribe the only handler of some id so that an UNSUBSCRIBE goes out
        for sid, l in P.subs.items():
            if len(l) == 1 and l[0] in objs_s:
                return P.unsubscribe(l[0], snd=snd)
        for sid, l in list(P.subs.items()):
            if l:
                r = None
                for o in list(l):
                    r = P.unsubscribe(o, snd=snd)
                return r
        return None
    if kind == "unreg":
        return P.unregister(objs_r[0], snd=snd) if objs_r and P.regs else None
    raise ValueError(kind)


def answer(P, rng, rid, how):
    q = P.pending.get(rid)
    if how == "success" or q is None:
        P.success(rid)
    elif how == "error":
        P.error(rid)
    elif how == "progress":
        if q["kind"] == "call":
            for _ in range(rng.randint(1, 3)):
                P.progress(rid, act=rng.choice(["", "", "x", "r"]))
        if rng.random() < 0.5:
            P.success(rid)
        else:
            P.error(rid)
    elif how == "duplicate":
        kind = q["kind"]
        P.success(rid)
        P.pending[rid] = dict(q)           # the planner replays the same reply
        P.success(rid) if kind not in ("sub", "reg") else P.error(rid)
        P.pending.pop(rid, None)
    elif how == "unknown-id":
        other = rid + rng.choice([50, 1000, 2 ** 53])
        P.pending[other] = dict(q)
        rng.choice([P.success, P.error])(other)
        P.pending.pop(other, None)
        P.success(rid)
    elif how == "wrong-type":
        P.wrong_type(rid)
        P.success(rid)
    elif how == "wrong-kind-error":
        codes = [c for c in (16, 32, 34, 48, 64, 66, 68, 8) if c != sc.CODE[q["kind"]]]
        P.error(rid, code=rng.choice(codes))
        P.error(rid)
    else:
        raise ValueError(how)


def traffic(P, rng):
    """interleaved EVENT traffic (held id, id with UNSUBSCRIBE outstanding, unknown id)"""
    x = rng.random()
    if x < 0.6 and P.subs:
        P.event(rng.choice(list(P.subs)), acts=rng.choice(["", "", "x", "r!x"]))
    elif x < 0.8:
        P.event(rng.choice([50, 51, 99]))
    else:
        P.add(f"m.invocation,{rng.randint(1, 5)},{rng.choice([99, 98])}")


def history(rng, kinds, order, hows, pump="always", nsubs=2, nregs=1, traffic_p=0.0, fails=()):
    P = sc.Planner(rng, pump=pump).start(sid=rng.randint(1, 2 ** 53))
    objs_s, objs_r = setup(P, rng, nsubs, nregs)
    rids = []
    for j, k in enumerate(kinds):
        rids.append(issue(P, rng, k, objs_s, objs_r, snd="fail" if j in fails else "ok"))
        if rng.random() < traffic_p:
            traffic(P, rng)
    for pos, how in zip(order, hows):
        rid = rids[pos]
        if rid is None:
            continue
        answer(P, rng, rid, how)
        if rng.random() < traffic_p:
            traffic(P, rng)
    if pump != "always":
        P.ev.append("pump")
    return P.script()


def gen(ctx):
    rng = ctx.rng
    quick = ctx.tier == "quick"
    out = []
    kinds6 = sc.KINDS
    # (a) exhaustive reply orders: every multiset-free choice of kinds, every permutation
    for k in (1, 2, 3):
        for kinds in itertools.product(kinds6, repeat=k):
            if quick and k == 3 and rng.random() < 0.75:
                continue
            for order in itertools.permutations(range(k)):
                hows = [rng.choice(REPLY_KINDS) for _ in range(k)] if not quick or k < 3 else ["success"] * k
                out.append(("perm%d" % k, history(rng, kinds, order, hows)))
    # thorough: k <= 3 over the reduced reply alphabet, exhaustively
    if not quick:
        for k in (1, 2, 3):
            for kinds in itertools.product(kinds6, repeat=k):
                for order in itertools.permutations(range(k)):
                    for hows in itertools.product(["success", "error", "wrong-type"], repeat=k):
                        out.append(("exh%d" % k, history(rng, kinds, order, list(hows), nsubs=1, nregs=1)))
    # k = 4: all 24 orders for sampled kind tuples
    n4 = 12 if quick else 400
    for _ in range(n4):
        kinds = [rng.choice(kinds6) for _ in range(4)]
        for order in itertools.permutations(range(4)):
            out.append(("perm4", history(rng, kinds, order, [rng.choice(REPLY_KINDS) for _ in range(4)],
                                         traffic_p=0.2)))
    # (b) random: k in 1..6, random order, every reply kind, traffic, send failures, pump policies
    nrand = 1500 if quick else 120000
    for _ in range(nrand):
        k = rng.randint(1, 6)
        kinds = [rng.choice(kinds6) for _ in range(k)]
        order = list(range(k))
        rng.shuffle(order)
        fails = [j for j in range(k) if rng.random() < 0.08]
        out.append(("rand%d" % k, history(rng, kinds, order, [rng.choice(REPLY_KINDS) for _ in range(k)],
                                          pump=rng.choice(["always", "always", "random", "never"]),
                                          nsubs=rng.randint(0, 3), nregs=rng.randint(0, 2),
                                          traffic_p=rng.choice([0.0, 0.3, 0.6]), fails=fails)))
    # (c) payload shapes x result routing: every (args, kwargs) shape of RESULT/progress x details x on_progress
    for a in sc.ARGS_IN:
        for kw in sc.KWARGS_IN:
            for opts in ("n", "od=t", "op=1", "op=1/d=t"):
                out.append(("shape", ["open", "pump", "m.welcome,5", f"call,2,a1,k,{opts},ok", f"m.result,1,{a},{kw},1", "pump",
                                      f"m.result,1,{a},{kw},1;x", "pump", f"m.result,1,{a},{kw},0", "pump"]))
                out.append(("shape", ["open", "pump", "m.welcome,5", f"call,2,a1,k,{opts},ok", f"m.error,48,1,3,{a},{kw}", "pump"]))
    # (d) re-join on the same session object
    for n in (1, 2, 3, 5):
        P = sc.Planner(rng).start()
        rids = [P.call() for _ in range(n)]
        P.add("m.goodbye")
        P.add("join")
        P.add("m.welcome,9", pump="never")
        rid = P.call()
        P.success(rid)
        out.append(("rejoin", P.script()))
    return out


# what the property text says where the Lean Spec mirrors the code (so Spec-vs-implementation cannot see it)
DIRECT = [
    {"key": "registered:already-held-registration-id:future-never-completed",
     "what": "REGISTERED bears the id of a pending register() and the matching type, but a registration id the session "
             "already holds: the request is popped, ProtocolError is raised, and the future register() returned is never "
             "completed - not by the reply, not when the session / the transport ends",
     "script": ["open", "pump", "m.welcome,7", "reg,1,4,n,ok", "m.registered,1,70", "reg,2,5,n,ok", "m.registered,2,70", "pump",
                "closed", "pump"],
     "event": None, "all_done": True},
]


def part_b(ctx, res):
    """register(obj): one REGISTER per decorated endpoint, in member-name order, each with exactly its own options"""
    import json
    p = core.run_py(core.VERIF / "harness" / "workers" / "c04_decorated.py", [])
    if p.returncode != 0:
        raise RuntimeError("c04_decorated failed: " + p.stderr[-2000:])
    o = json.loads(p.stdout)
    res.evaluations += o["cases"]
    res.count("decorated-object-cases", o["cases"])
    for v in o["violations"]:
        res.violations.append(core.Violation(v["key"], v["what"], v))


def run(ctx):
    res = core.Result()
    res.rule = ("script = event tokens for one session object: open, WELCOME, established subscriptions/registrations, "
                "k in 1..6 outstanding requests of mixed kinds (call/ack-publish/subscribe/unsubscribe/register/unregister, "
                "random options and payload shapes, injected send failures, cancels), replies in every order (all "
                "permutations for k<=4, random beyond) of kinds success/error/progressive x n/duplicate/unknown id/"
                "wrong type/ERROR with another request_type, interleaved EVENT and INVOCATION traffic, explicit loop "
                "iterations (pump); each script runs on Twisted and on asyncio; every event's observation (messages "
                "handed to send, API return, future completions polled after the event, callbacks, on_progress and "
                "handler calls, exceptions) is compared with the Lean model and, projected, with the Lean Spec; "
                "non-trivial = distinct script with at least one reply event")
    if ctx.replay_path:
        scripts, fws = sc.replay_scripts(ctx)
        d = sc.replay_direct(ctx)
        if d:
            sc.check_direct(ctx, res, d, frameworks=fws)
            return res
        sc.check_scripts(ctx, res, scripts, owns, frameworks=fws, shrink=False)
        return res
    items = [("corpus", s) for s in CORPUS] + [("corpus:" + n, s) for n, s in sc.corpus_scripts(PROP)] + gen(ctx)
    scripts = []
    seen = set()
    for label, s in items:
        key = " ".join(s)
        if key in seen:
            continue
        seen.add(key)
        scripts.append(s)
        res.count("class:" + label)
        if any(t.startswith("m.") and not t.startswith("m.welcome") for t in s):
            res.distinct.add(core.sha(key)[:16])
        for t in s:
            res.count("event:" + t.split(",")[0].split(";")[0])
    for s in scripts[:2] + scripts[len(CORPUS) + 40:len(CORPUS) + 42] + scripts[-2:]:
        res.sample(" ".join(s))
    ctx.log(f"{len(scripts)} scripts, {sum(map(len, scripts))} events")
    st = sc.check_scripts(ctx, res, scripts, owns, prefix=0)
    res.notes.append("spec divergences by key: " + ", ".join(st["keys"]) if st["keys"] else "no spec divergence")
    hit = sc.check_direct(ctx, res, DIRECT)
    res.notes.append("direct expectations violated: " + (", ".join(hit) or "none"))
    res.notes.append("send failure: call/publish drop their record; subscribe/register/unsubscribe/unregister keep an "
                     "orphan record whose future was never returned (failed at session end) — modelled and compared")
    part_b(ctx, res)
    return res
