"""C18 — Remote exceptions arrive with their URI, arguments and class.

Theorems: lean/Abverif/Proofs/C18.lean over lean/Abverif/Model/Errors.lean (mirror of BaseSession.define,
_message_from_exception, _exception_from_message, uri.error, ApplicationError.__init__).
Tie: two REAL ApplicationSessions (callee + caller) per framework joined through the in-memory router of
vlib/wampx.py (every message goes through a real serializer twice). For every case the ERROR message the callee puts
on the wire and the exception delivered to the caller's pending call are compared with
  * the Lean Spec (`Spec.caller`, the property read literally)  -> a difference is a VIOLATION with the case as replay
  * the Lean model (`roundtrip`)                                 -> a difference that is not a Spec difference is a
                                                                    correspondence break
The registration layer (decorator + define on class hierarchies) is compared op by op with the model (`err.reg`).

Self-test (scratch copy of /repo/src, VERIF_REPO=/tmp/c1820m; quick tier, --no-proof; 2026-09-23). Each mutation is one
edit of wamp/protocol.py; "keys" are the Violation keys of the replays written (each replay = the concrete case,
framework, serializer and what was observed; `./check C18 --replay <file>` reproduces it, exit 1 mutated / 0 unchanged):
  M1 _message_from_exception: `message.Error(request_type, request, error, args, None)` (kwargs dropped)
        -> exit 1; caller:kwargs:class, caller:class:class, caller:kwargs:app, caller:class:app
  M2 _message_from_exception: registered classes get "wamp.error.runtime_error" too        -> exit 1; caller:class:class
  M3 _exception_from_message: fallback only `if not exc and msg.error not in self._uri_to_ecls` (a registered class that
     cannot be constructed is swallowed: reject(None))                    -> exit 1; caller:lost:class, caller:class:class, caller:lost:app
  M4 _exception_from_message: `ecls(**msg.kwargs)` in the args+kwargs branch (args dropped)  -> exit 1; caller:args:class, caller:args:app
  M5 define(): explicit registration forgets `_uri_to_ecls[error] = exception`
        -> exit 1; caller:class:class, registration:explicit-define-uri-not-mapped
  M6 _message_from_exception: forwarded traceback REPLACES the kwargs (`kwargs = {"traceback": tb}`)
        -> exit 1; caller:kwargs:class, caller:class:class, caller:kwargs:app
  H1 harmless: the four-way constructor call rewritten as `ecls(*(msg.args or []), **(msg.kwargs or {}))` -> exit 0, silent

Repaired defects (found by this check, fixed in the code, entries `fixed` in known_findings.d/C18.jsonl; the model mirrors
the repaired code and the theorems carry no exclusion any more). On a tree without the repair each is a VIOLATION again
(checked with one patch applied at a time: exactly the keys of the other two remain):
  reserved-kwarg-dropped-by-generic-application-error   _exception_from_message built the generic ApplicationError through
        the public constructor, which takes callee / callee_authid / callee_authrole / forward_for / enc_algo as attributes
  application-error-str-clobbers-traceback-kwarg         ApplicationError.__str__ rewrote (str) or dropped (non-str) a user
        keyword argument named traceback; run by txaio.failure_message in the invocation error path
  decorated-subclass-shares-base-wampuris (+ registration:…)   uri.error() used hasattr() and appended to the base's list
A first version of the second repair kept the `":\n" + value` concatenation: with a non-str value str(exc) then raised
on every call, and on asyncio txaio.failure_message (whose fallback formats the failure again) let the TypeError out of
the errback -> no ERROR at all; caught by the thorough tier (`caller:lost:*`), the non-str shape is now in the fixed grid.
"""
import hashlib
import json
from concurrent.futures import ThreadPoolExecutor
from pathlib import Path

from vlib import core

PROP = "C18"
PROOF_MODULES = ["Abverif.Proofs.C18"]
TRANSLATORS = []
W = Path(__file__).parent / "workers"
SERIALIZERS = ["json", "msgpack", "cbor", "ubjson"]
FRAMEWORKS = ["twisted", "asyncio"]
RESERVED = ["enc_algo", "callee", "callee_authid", "callee_authrole", "forward_for"]
TRUSTED = [
    "Lean 4.33 kernel; axioms of every theorem audited to be within {propext, Classical.choice, Quot.sound}",
    "hand-written Lean model Abverif/Model/Errors.lean of define / _message_from_exception / _exception_from_message / "
    "uri.error / ApplicationError.__init__ and __str__ (registries as association lists, constructors as a 3-valued outcome)",
    "tie model<->code: differential run of two real ApplicationSessions per framework through vlib/wampx.Router with the "
    "real json/msgpack/cbor/ubjson serializers; the serializers themselves are trusted to be value-preserving on the "
    "generated payload domain (that is property C03)",
    "harness-side test classes (constructor kinds any/argsonly/noargs/arity2/kwonly/raising/falsy) stand for user code",
]
ASSUMPTIONS = [
    "payload values are drawn from the domain all four serializers preserve (ints within int64, unicode strings, bool, None, "
    "x.5 floats, bytes, nested lists/dicts with string keys)",
    "the router forwards ERROR uri/args/kwargs unchanged (the stub does; a real router is outside the property)",
]
MANIFEST_ENTRY = {
    "technique": "Lean 4 theorems over a model of the exception<->ERROR mapping + differential tie through two real sessions "
                 "per framework and every serializer",
    "text": "Proved in Lean for all registries, constructors, exceptions and payloads: the ERROR message carries the URI the "
            "statement prescribes (carried URI for application errors, first registered pattern for registered classes, "
            "wamp.error.runtime_error otherwise), list(exc.args) and the exception's kwargs (plus the traceback under key "
            "'traceback' when forwarding is on); the caller gets the class registered for that URI built from exactly those "
            "arguments or, when that class is unknown or cannot be constructed, a generic ApplicationError with the same URI "
            "args and kwargs (never_lost); define() round-trips for explicit and decorated registration, a decorated subclass "
            "of a decorated class included (the decorator touches the list of the decorated class only). All of this holds "
            "for every keyword name, the five names the ApplicationError constructor takes as attributes (callee, "
            "callee_authid, callee_authrole, forward_for, enc_algo) and a user keyword named traceback included (with traceback forwarding off; with forwarding on that key is reserved for the forwarded traceback, which then takes its place - stated in the theorem, not a loss of user data the property speaks about), and on the "
            "invocation error path, where str(exc) runs before the message is built. "
            "The model is tied to the code by running ~1000 (quick) / ~6000 (thorough) exception x payload x traceback cases "
            "per serializer and framework end-to-end through two real sessions and comparing the ERROR on the wire and the "
            "caller's failure with the Lean Spec and model.",
    "note": "Trusted: Lean kernel; the hand-written model mirrors the code (checked by the differential run only); the four "
            "serializers; the in-memory router stub. Three defects found by this check were repaired in the code (reserved "
            "kwargs dropped by the generic ApplicationError, str(exc) rewriting a user traceback kwarg, @error on a subclass "
            "appending to the list of its decorated base); their inputs stay in the generated cases and are violations again "
            "if the behaviour returns.",
}

# --------------------------------------------------------------------------- the class zoo

def zoo():
    z = []

    def add(name, ctor, decor=None, explicit=None, callee=True, caller=True, base=None, appsub=None):
        z.append({"name": name, "ctor": ctor, "decor": decor, "explicit": explicit, "callee": callee, "caller": caller,
                  "base": base, "appsub": appsub})
    add("E_any_d", "any", decor="com.err.any_d")
    add("E_any_x", "any", explicit="com.err.any_x")
    add("E_argsonly_d", "argsonly", decor="com.err.argsonly_d")
    add("E_argsonly_x", "argsonly", explicit="com.err.argsonly_x")
    add("E_noargs_x", "noargs", explicit="com.err.noargs_x")
    add("E_arity2_d", "arity2", decor="com.err.arity2_d")
    add("E_kwonly_x", "kwonly+code+msg", explicit="com.err.kwonly_x")
    add("E_raising_d", "raising", decor="com.err.raising_d")
    add("E_falsy_x", "falsy", explicit="com.err.falsy_x")
    add("E_calleeonly_d", "any", decor="com.err.calleeonly_d", caller=False)
    add("E_calleronly_x", "any", explicit="com.err.calleronly_x", callee=False)
    add("E_appsub", "any", explicit="com.err.appsub.registered", appsub="com.err.appsub.carried")
    add("E_base_d", "any", decor="com.err.base_d")
    add("E_derived_d", "any", decor="com.err.derived_d", base="E_base_d")
    add("E_child_undef", "any", base="E_any_d", callee=False, caller=False)
    return z


BUILTIN_CTORS = {"SerializationError": "argsonly", "PayloadExceededError": "argsonly"}


def tok(v):
    if v == "$TB":
        return "TB"
    return ("s" if isinstance(v, str) else "v") + hashlib.sha1(json.dumps(v, sort_keys=True).encode()).hexdigest()[:12]


ARGS = [
    [],
    [1],
    ["héllo ✓", -5, 2 ** 40],
    [[1, [2, {"a": None}]], {"k": [True, 1.5]}, {"$b": "00ff10"}],
    ["x", "y"],
]
KWARGS = [
    None,
    {},
    {"code": 42},
    {"code": 1, "msg": "x"},
    {"detail": {"nested": [1, 2]}, "other": "é"},
    {"callee": 5},
    {"traceback": "user-tb"},
    {"enc_algo": "x", "code": 7},
    {"forward_for": [1], "callee_authid": "a", "callee_authrole": "b"},
    {"traceback": 7, "code": 1},     # a user "traceback" that is no string: str(exc) must neither drop it nor fail
]


def gen_cases(ctx):
    z = zoo()
    srcs = [e["name"] for e in z] + ["app", "app:wamp.error.invalid_payload", "app:com.err.any_d", "Undefined"]
    cases = []
    for src in srcs:
        for ai, a in enumerate(ARGS):
            for ki, k in enumerate(KWARGS):
                for tb in (False, True):
                    if ctx.tier == "quick" and (ai + ki + (1 if tb else 0)) % 2 == 1 and not (ki in (2, 5) and ai == 1):
                        continue
                    uri = None
                    s = src
                    if src.startswith("app"):
                        uri = src.split(":", 1)[1] if ":" in src else "com.myapp.error.custom"
                        s = "app"
                    cases.append({"src": s, "uri": uri, "args": a, "kwargs": k, "tb": tb, "unser": False})
    # a few payloads the transport cannot serialise at all
    for src in ("E_any_d", "app", "Undefined"):
        cases.append({"src": src, "uri": "com.myapp.error.custom" if src == "app" else None, "args": [1], "kwargs": None,
                      "tb": False, "unser": True})
    # random payloads (thorough)
    if ctx.tier == "thorough":
        rng = ctx.rng
        for _ in range(1500):
            src = rng.choice(srcs)
            uri = None
            s = src
            if src.startswith("app"):
                uri = src.split(":", 1)[1] if ":" in src else "com.myapp.error.r%d" % rng.randrange(5)
                s = "app"
            cases.append({"src": s, "uri": uri, "args": rand_args(rng), "kwargs": rand_kwargs(rng), "tb": rng.random() < 0.5,
                          "unser": False})
    return cases


def rand_val(rng, d=0):
    r = rng.random()
    if d > 2 or r < 0.5:
        return rng.choice([0, 1, -1, 2 ** 31, 2 ** 53 + 1, -2 ** 62, True, False, None, "", "a", "ü中", 0.5, -2.5,
                           {"$b": rng.randbytes(rng.randrange(0, 5)).hex()}])
    if r < 0.75:
        return [rand_val(rng, d + 1) for _ in range(rng.randrange(0, 4))]
    return {rng.choice(["a", "b", "k", "z"]): rand_val(rng, d + 1) for _ in range(rng.randrange(0, 3))}


def rand_args(rng):
    return [rand_val(rng) for _ in range(rng.choice([0, 1, 1, 2, 2, 3, 5]))]


def rand_kwargs(rng):
    if rng.random() < 0.15:
        return None
    keys = ["code", "msg", "detail", "x", "traceback"] + RESERVED
    return {k: rand_val(rng) for k in rng.sample(keys, rng.choice([0, 1, 1, 2, 3]))}


# --------------------------------------------------------------------------- registration sequences

def gen_reg_cases(ctx):
    fixed = [
        {"classes": [["A", []]], "ops": [["dec", "A", "com.a"], ["def", "A"]]},
        {"classes": [["A", []]], "ops": [["defx", "A", "com.a"]]},
        {"classes": [["A", []]], "ops": [["def", "A"]]},
        {"classes": [["A", []]], "ops": [["dec", "A", "com.a"], ["defx", "A", "com.x"]]},
        {"classes": [["A", []], ["B", ["A"]]], "ops": [["dec", "A", "com.a"], ["dec", "B", "com.b"], ["def", "A"], ["def", "B"]]},
        {"classes": [["A", []], ["B", ["A"]]], "ops": [["dec", "A", "com.a"], ["def", "B"], ["defx", "B", "com.b"]]},
        {"classes": [["A", []], ["B", ["A"]]], "ops": [["dec", "B", "com.b"], ["dec", "A", "com.a"], ["def", "B"], ["def", "A"]]},
        {"classes": [["A", []]], "ops": [["dec", "A", "com.a"], ["dec", "A", "com.a2"], ["def", "A"]]},
        {"classes": [["A", []]], "ops": [["dec", "A", "Not A Uri"], ["def", "A"]]},
        {"classes": [["A", []]], "ops": [["defx", "A", "Bad Uri!"], ["defx", "A", "com.a"]]},
        {"classes": [["A", []], ["C", []]], "ops": [["defx", "A", "com.same"], ["defx", "C", "com.same"]]},
        {"classes": [["A", []]], "ops": [["dec", "A", "com.err.<code:int>"], ["def", "A"]]},
    ]
    out = list(fixed)
    rng = ctx.rng
    n = 40 if ctx.tier == "quick" else 400
    uris = ["com.a", "com.b", "com.c", "com.a.b", "Bad Uri", "com..x", "com.<x>", "com.<x:int>.y", "wamp.error.invalid_payload"]
    for _ in range(n):
        classes = [["A", []]]
        if rng.random() < 0.7:
            classes.append(["B", ["A"] if rng.random() < 0.7 else []])
        if rng.random() < 0.5:
            classes.append(["C", [rng.choice([c[0] for c in classes])] if rng.random() < 0.6 else []])
        names = [c[0] for c in classes]
        ops = []
        for _ in range(rng.randrange(1, 7)):
            k = rng.choice(["dec", "dec", "def", "def", "defx"])
            if k == "def":
                ops.append(["def", rng.choice(names)])
            else:
                ops.append([k, rng.choice(names), rng.choice(uris)])
        # decorators run at class-creation time, before any session.define(): decorations first (a decoration AFTER
        # define(cls) would also show through the registry, which holds the very list object `cls._wampuris`)
        ops.sort(key=lambda op: 0 if op[0] == "dec" else 1)
        out.append({"classes": classes, "ops": ops})
    for rc in out:
        rc["uris"] = sorted({op[2] for op in rc["ops"] if len(op) > 2})
    return out


def mro_of(classes):
    """single inheritance here, so the MRO is the chain of bases"""
    par = {c: (b[0] if b else None) for c, b in classes}
    m = {}
    for c, _ in classes:
        chain = [c]
        while par[chain[-1]]:
            chain.append(par[chain[-1]])
        m[c] = chain
    return m


def reg_line(rc, bad):
    mro = mro_of(rc["classes"])
    mtok = ";".join(f"{c}={'+'.join(ch)}" for c, ch in mro.items())
    btok = ",".join(utok(u) for u in bad) or "-"
    ops = ";".join(":".join([op[0], op[1]] + ([utok(op[2])] if len(op) > 2 else [])) for op in rc["ops"])
    return f"err.reg {mtok} {btok} {ops}"


def utok(u):
    """URI texts may contain characters of the line protocol: pass them as tokens"""
    if u == "":
        return "EMPTY"
    if all(ch.isalnum() or ch in "._" for ch in u):
        return u
    return "U" + hashlib.sha1(u.encode()).hexdigest()[:10]


# --------------------------------------------------------------------------- driver lines for a round-trip case

def defs_tokens(z, side, wamp):
    """wamp: class -> list of pattern URIs seen through the class (effective) or None"""
    toks = []
    for e in z:
        if not e[side]:
            continue
        if e["explicit"]:
            toks.append(f"{e['name']}:~:{e['explicit']}")
        else:
            w = wamp.get(e["name"])
            toks.append(f"{e['name']}:{','.join(w) if w else ('.' if w == [] else '~')}:~")
    return ";".join(toks) or "-"


def ctor_tokens(z):
    t = [f"{e['name']}={e['ctor']}" for e in z] + [f"{k}={v}" for k, v in BUILTIN_CTORS.items()]
    return ";".join(t)


def exc_token(src_obs):
    a = src_obs["args"]
    k = src_obs["kwargs"]
    at = "~" if a is None else ("." if not a else ",".join(tok(x) for x in a))
    kt = "~" if k is None else ("." if not k else ",".join(f"{kk}={tok(v)}" for kk, v in k.items()))
    return f"{src_obs['cls']};{src_obs['app'] or '~'};{at};{kt}"


def parse_list(s):
    return [] if s == "." else s.split(",")


def parse_kw(s):
    return {} if s == "." else dict(x.split("=", 1) for x in s.split(","))


def parse_answer(ans):
    """-> (errormsg, model rexc, spec rexc) in canonical python form"""
    msg, m, smsg, s = ans.split(" ")
    u, a, k = msg.split("|")
    su, sa, sk = smsg[3:].split("|")

    def rex(t):
        kind, who, a, k = t[2:].split("|")
        return [kind, who, parse_list(a), parse_kw(k)]
    return [u, parse_list(a), parse_kw(k)], rex(m), [su, parse_list(sa), parse_kw(sk)], rex(s)


def canon_obs_payload(args, kwargs):
    return [tok(x) for x in args], {k: tok(v) for k, v in kwargs.items()}


# --------------------------------------------------------------------------- the source exception as the callee sees it

def src_view(case):
    """what `_message_from_exception` reads off the instance (mirrors how the worker builds it)"""
    args = list(case["args"])
    kw = case["kwargs"]
    if case["src"] == "app" or case["src"] == "E_appsub":
        uri = case["uri"] if case["src"] == "app" else "com.err.appsub.carried"
        k2 = {k: v for k, v in (kw or {}).items() if k not in RESERVED}   # an ApplicationError always has .kwargs
        return {"cls": "ApplicationError" if case["src"] == "app" else "E_appsub", "app": uri, "args": args, "kwargs": k2}
    return {"cls": case["src"], "app": None, "args": args, "kwargs": None if kw is None else dict(kw)}


def run(ctx):
    res = core.Result()
    res.rule = ("case = (exception source: ApplicationError with 3 URIs / 15 test classes covering decorated, explicitly "
                "defined, undefined, callee-only, caller-only, ApplicationError subclass, decorated subclass of a decorated "
                "class; caller-side constructor kinds any/argsonly/noargs/arity2/kwonly/raising/falsy) x 5 args shapes x "
                "10 kwargs shapes (no attribute, empty, plain, nested, reserved names, user 'traceback' str / non-str) x traceback "
                "forwarding on/off [quick: half of the grid; thorough: full grid + 1500 random payloads], each run on "
                "{json,msgpack,cbor,ubjson} x {twisted,asyncio} through two real sessions; plus registration sequences "
                "(decorator/define on class hierarchies, fixed + random). non-trivial = distinct (source, args, kwargs, tb)")
    z = zoo()
    cases = gen_cases(ctx)
    reg_cases = gen_reg_cases(ctx)
    only = None
    if ctx.replay_path:
        rp = json.loads(Path(ctx.replay_path).read_text())["replay"]
        if "case" in rp:
            cases = [rp["case"]]
            only = (rp.get("fw"), rp.get("serializer"))
            reg_cases = []
        elif "reg_case" in rp:
            cases = []
            reg_cases = [rp["reg_case"]]

    # ---- run the real code
    jobs = []
    for fw in FRAMEWORKS:
        for ser in SERIALIZERS:
            if only and only[0] and (fw, ser) != only:
                continue
            jobs.append({"fw": fw, "serializers": [ser], "zoo": z, "cases": cases,
                         "reg_cases": reg_cases if ser == "json" else []})

    def runjob(job):
        import subprocess, os
        e = dict(os.environ)
        e["PYTHONPATH"] = os.pathsep.join([str(core.REPO / "src"), str(core.VERIF)])
        e.setdefault("PYTHONHASHSEED", "0")
        e["AUTOBAHN_VERIF"] = "1"
        p = subprocess.run([core.PY, str(W / "c18_worker.py")], input=json.dumps(job), env=e, capture_output=True,
                           text=True, cwd="/", timeout=3000)
        if p.returncode != 0:
            raise RuntimeError("c18 worker failed: " + p.stderr[-3000:])
        return json.loads(p.stdout)
    with ThreadPoolExecutor(8) as ex:
        outs = list(ex.map(runjob, jobs))
    ctx.log(f"workers done: {sum(o['calls'] for o in outs)} calls")

    # ---- effective `_wampuris` of the zoo classes, by the model of the decorator
    zmro = {}
    for e in z:
        zmro[e["name"]] = [e["name"]] + (zmro[e["base"]] if e["base"] else [])
    mtok = ";".join(f"{c}={'+'.join(ch)}" for c, ch in zmro.items())
    decops = ";".join(f"dec:{e['name']}:{e['decor']}" for e in z if e["decor"])
    wans = ctx.driver.run([f"err.reg {mtok} - {decops}"])[0]
    eff = {}
    for item in wans.split(" W=")[1].split(";"):
        c, w = item.split("=")
        eff[c] = None if w == "~" else parse_list(w)
    intended = {e["name"]: ([e["decor"]] if e["decor"] else None) for e in z}
    ct = ctor_tokens(z)
    lines = []
    for case in cases:
        ex = exc_token(src_view(case))
        tb = "TB" if case["tb"] else "~"
        lines.append(f"err.rt {defs_tokens(z, 'callee', eff)} {defs_tokens(z, 'caller', eff)} {ct} {ex} {tb}")
        lines.append(f"err.rt {defs_tokens(z, 'callee', intended)} {defs_tokens(z, 'caller', intended)} {ct} {ex} {tb}")
    answers = ctx.driver.run(lines)
    res.count("driver_lines", len(lines))

    seen = set()

    def violation(key, what, replay):
        if key in seen:
            return
        seen.add(key)
        res.violations.append(core.Violation(key, what, replay))

    for job, o in zip(jobs, outs):
        fw, ser = job["fw"], job["serializers"][0]
        for i, (case, obs) in enumerate(zip(cases, o["results"][ser])):
            res.evaluations += 1
            res.count(f"fw:{fw}")
            res.count(f"ser:{ser}")
            res.count("src:" + case["src"])
            rep = {"case": case, "fw": fw, "serializer": ser, "observed": obs}
            if case["unser"]:
                res.count("unserializable")
                if obs["caller"][0] == "pending" or obs["error"] is None or obs["error"][0] != "wamp.error.invalid_payload":
                    violation("unserializable-error-payload:not-reported-as-invalid_payload",
                              f"exception with an unserialisable argument: caller outcome {obs['caller'][:2]}, ERROR {obs['error'] and obs['error'][0]}", rep)
                continue
            res.distinct.add(core.sha(json.dumps([case["src"], case["uri"], case["args"], case["kwargs"], case["tb"]], sort_keys=True))[:16])
            m_msg, m_rex, _, _ = parse_answer(answers[2 * i])
            _, _, s_msg, s_rex = parse_answer(answers[2 * i + 1])
            # observed, canonical
            if obs["error"] is None:
                o_msg = None
            else:
                a, k = canon_obs_payload(obs["error"][1], obs["error"][2])
                o_msg = [obs["error"][0], a, k]
            oc = obs["caller"]
            if oc[0] in ("app", "user", "other"):
                a, k = canon_obs_payload(oc[2], oc[3])
                o_rex = ["user" if oc[0] == "other" else oc[0], oc[1], a, k]
            else:
                o_rex = [oc[0]]
            if len(res.samples) < 4 and i % 97 == 5:
                res.sample({"case": case, "fw": fw, "serializer": ser, "error_on_wire": obs["error"], "caller_failure": obs["caller"]})
            extra = [e for e in obs["router_errors"]]
            diffs_spec = diff(o_msg, o_rex, s_msg, s_rex)
            diffs_model = diff(o_msg, o_rex, m_msg, m_rex)
            if extra:
                diffs_spec.append("raised:" + extra[0])
            if diffs_spec:
                key = classify(case, o_msg, o_rex, s_msg, s_rex, diffs_spec)
                violation(key, f"{fw}/{ser}: src={case['src']} args={len(case['args'])} kwargs={sorted(case['kwargs']) if case['kwargs'] else case['kwargs']} "
                               f"tb={case['tb']}: observed {o_msg} / {o_rex}; the statement prescribes {s_msg} / {s_rex}", rep)
            if diffs_model and not diffs_spec:
                # (a difference from the model that is also a difference from the Spec is reported above as a
                # violation with the concrete input)
                res.correspondence_breaks.append({"stream": "roundtrip", "fw": fw, "serializer": ser, "case": case,
                                                  "differs": diffs_model, "observed": [o_msg, o_rex], "model": [m_msg, m_rex]})
            res.traces_validated += 1
        # registration stream
        if o["reg"]:
            rlines = [reg_line(rc, ro["bad"]) for rc, ro in zip(reg_cases, o["reg"])]
            rans = ctx.driver.run(rlines)
            for rc, ro, ans in zip(reg_cases, o["reg"], rans):
                res.evaluations += 1
                res.count("registration_sequences")
                outs_m, rest = ans.split(" C=")
                cpart, rest = rest.split(" U=")
                upart, wpart = rest.split(" W=")
                first_m = {}
                if cpart != "-":
                    for it in cpart.split(";"):
                        c, l = it.split("=")
                        first_m[c] = parse_list(l)[0] if parse_list(l) else None
                u2c_m = dict(it.split("=") for it in upart.split(";"))
                w_m = {}
                if wpart != "-":
                    for it in wpart.split(";"):
                        c, l = it.split("=")
                        w_m[c] = None if l == "~" else parse_list(l)
                obs_r = {"outcomes": ro["outcomes"], "first": {c: (utok(u) if u is not None else None) for c, u in ro["first"].items()},
                         "u2c": {utok(u): c for u, c in ro["u2c"].items()},
                         "w": {c: (None if l is None else [utok(u) for u in l]) for c, l in ro["w"].items()}}
                mod_r = {"outcomes": outs_m.split(","), "first": first_m, "u2c": u2c_m,
                         "w": {c: w_m.get(c) for c in obs_r["w"]}}
                if obs_r != mod_r:
                    # Spec for registration: explicit define(cls, uri) and define(decorated cls) must make the class
                    # travel under its own URI (define_roundtrip); a difference on these is a violation
                    sv = reg_spec_violation(rc, ro)
                    if sv:
                        violation("registration:" + sv, f"{fw}: registration sequence {rc['ops']} -> {ro}", {"reg_case": rc, "observed": ro})
                    else:
                        res.correspondence_breaks.append({"stream": "registration", "fw": fw, "case": rc, "observed": obs_r, "model": mod_r})
                else:
                    sv = reg_spec_violation(rc, ro)
                    if sv:
                        violation("registration:" + sv, f"{fw}: registration sequence {rc['ops']} -> first-pattern {ro['first']}, uri->class {ro['u2c']}",
                                  {"reg_case": rc, "observed": ro})
    res.notes.append(f"{len(cases)} round-trip cases x {len(jobs)} (framework, serializer) pairs; {len(reg_cases)} registration sequences x {len(FRAMEWORKS)} frameworks")
    return res


def diff(o_msg, o_rex, e_msg, e_rex):
    d = []
    if o_msg is None:
        d.append("error-message:missing")
    else:
        for name, a, b in zip(("uri", "args", "kwargs"), o_msg, e_msg):
            if a != b:
                d.append("error-message:" + name)
    if o_rex[0] in ("pending", "ok"):
        d.append("caller:lost")
    else:
        for name, a, b in zip(("class", "who", "args", "kwargs"), o_rex, e_rex):
            if a != b:
                d.append("caller:" + ("class" if name in ("class", "who") else name))
    return sorted(set(d))


def classify(case, o_msg, o_rex, s_msg, s_rex, diffs):
    """canonical key of a Spec violation"""
    # the generic ApplicationError consumed reserved keyword names
    if diffs == ["caller:kwargs"] and o_rex[0] == "app" and o_msg == s_msg:
        missing = set(s_rex[3]) - set(o_rex[3])
        if missing and missing <= set(RESERVED) and all(o_rex[3].get(k) == v for k, v in s_rex[3].items() if k not in missing):
            return "reserved-kwarg-dropped-by-generic-application-error"
    if (case["src"] in ("app", "E_appsub") and not case["tb"] and case["kwargs"] and "traceback" in case["kwargs"]
            and set(diffs) <= {"error-message:kwargs", "caller:kwargs"} and o_msg is not None and o_rex[0] in ("app", "user")):
        if {k: v for k, v in o_msg[2].items() if k != "traceback"} == {k: v for k, v in s_msg[2].items() if k != "traceback"} \
                and {k: v for k, v in o_rex[3].items() if k != "traceback"} == {k: v for k, v in s_rex[3].items() if k != "traceback"}:
            return "application-error-str-clobbers-traceback-kwarg"
    if case["src"] in ("E_base_d", "E_derived_d") and set(diffs) <= {"error-message:uri", "caller:class"}:
        return "decorated-subclass-shares-base-wampuris"
    return diffs[0] + ":" + ("app" if case["src"] == "app" else "class")


def reg_spec_violation(rc, ro):
    """define_roundtrip read on the observed registries: after a successful `defx cls uri`, cls -> uri and uri -> cls
    (until overwritten by a later successful definition of the same class / URI); after `dec cls uri` on a class and a
    successful `def cls`, the class travels under a URI it was itself decorated with."""
    own = {}
    last_cls_uri = {}
    last_uri_cls = {}
    for op, oc in zip(rc["ops"], ro["outcomes"]):
        if op[0] == "dec" and oc == "ok":
            own.setdefault(op[1], []).append(op[2])
        if oc != "ok":
            continue
        if op[0] == "defx":
            last_cls_uri[op[1]] = ("x", op[2])
            last_uri_cls[op[2]] = op[1]
        elif op[0] == "def":
            last_cls_uri[op[1]] = ("d", None)
    for c, (kind, u) in last_cls_uri.items():
        if kind == "x":
            if ro["first"].get(c) != u:
                return "explicit-define-not-recorded"
        else:
            f = ro["first"].get(c)
            if own.get(c) and f not in own[c]:
                return "decorated-subclass-shares-base-wampuris"
    for u, c in last_uri_cls.items():
        # a later `def` of a decorated class may legitimately take the URI over; only check when no def followed
        if ro["u2c"].get(u) != c and not any(op[0] == "def" for op in rc["ops"]):
            return "explicit-define-uri-not-mapped"
    return None
