"""C14 — components reconnect within their retry budget and finish exactly once.

Three layers (FRAMEWORK.md): Spec = the monitors `Abverif.Comp.Spec.*` over the observation log; Model =
`Abverif.Comp.step` (Lean mirror of wamp/component.py + the two framework wrappers + ObservableMixin.fire);
Implementation = the real Component of both frameworks on a virtual clock (harness/workers/c14_sim.py).

run():
  1. generate cases (configuration x event script), deterministic from ctx.rng;
  2. run every case through the Lean model (driver op `comp.run`) and through the real component (one worker
     process per framework, several in parallel);
  3. correspondence: (transport index, virtual time) of every attempt, completion of start()'s future, component
     listener calls, the per-transport counters and idleness must agree with the model;
  4. search oracle: the observation log recorded on the real code is judged by the Spec monitors (driver op
     `comp.judge`); every rejected observation is a Violation keyed by clause + cause class.

Self-test, 2026-09-23 (single edits in a scratch copy, `VERIF_REPO=/tmp/c14mut ./check C14 --tier quick`; every
exit 1 came with a concrete replay case; correspondence also broke (5 of 5 recorded) in every M row):
  M1  can_reconnect `<` -> `<=`                          exit 1  progress:idle-without-done (next_delay raises, loop dies)
  M2  on_join without transport.reset()                  exit 1  giveup:eligible-transport-left, round-robin:wrong-order
  M3  fatal error does not call transport.failed()       exit 1  fatal:attempt-after-fatal, round-robin:wrong-order
  M4  next_delay without the max_retry_delay clamp       exit 1  delay:above-max
  M5  session_done rejects _done_f                       exit 1  giveup:eligible-transport-left (error while eligible)
  M6  first attempt waits initial_retry_delay            exit 1  first:delayed-first-attempt
  M7  ObservableMixin.fire skips the parent for 'ready'  exit 1  bubble:missing-or-extra-call
  M8  error(): stop during a delay rejects _done_f       exit 1  giveup:eligible-transport-left
  M9  always the first eligible transport (no cycle)     exit 1  round-robin:wrong-order
  M10 connect_attempts += 2                              exit 1  giveup:eligible-transport-left, round-robin:wrong-order
  M11 on_leave resolves on transport loss                exit 1  polarity:success-without-cause
  H1  can_reconnect as `not >=`, _can_reconnect as any() exit 0
  H2  clamp written with min()                           exit 0

Repaired in /repo since (the inputs stay in the run as regression cases, tag `regress:`; against the unrepaired
code they are reported as violations under the same keys):
  giveup:/round-robin:no-main:budget-not-reset-after-join   on_join (transport.reset()) is registered on every session
  stop:attempt-after-stop:connecting / :joined-then-lost    transport_check ends the loop once _stopping is set
Open: polarity:main-raised-not-error (a raising main is retried; design decision, see known_findings.d/C14.jsonl).
"""
import json
import os
import subprocess
from concurrent.futures import ThreadPoolExecutor
from fractions import Fraction
from pathlib import Path

from vlib import core

PROP = "C14"
PROOF_MODULES = ["Abverif.Proofs.C14"]
TRANSLATORS = []
TRUSTED = [
    "Lean 4.33 kernel; axioms of every theorem audited to be within {propext, Classical.choice, Quot.sound}",
    "hand-written Lean model Abverif/Model/Component.lean of _Transport, Component._start/_connect_once/stop, the "
    "Twisted/asyncio _connect_transport wrappers and ObservableMixin.fire; tied to the code only by the differential run",
    "harness fakes: Twisted IStreamClientEndpoint provider / stubbed loop.create_connection, a scripted router feeding "
    "real bytes to the real client protocols, vlib.ws virtual clocks, random.normalvariate replaced by mu + z*sigma",
    "txaio future semantics and reactor/loop timer ordering (timers due now run before the next external event)",
]
ASSUMPTIONS = [
    "every connection attempt is resolved by exactly one scripted outcome; the router answers GOODBYE when scripted",
    "real sockets, DNS, TLS are not exercised",
]
W = Path(__file__).parent / "workers"
MANIFEST_ENTRY = {
    "technique": "Lean 4 theorems over arbitrary event histories (induction on the history, invariants relating the "
                 "model to Spec monitors) + differential tie of the model to the real Twisted and asyncio Component "
                 "on virtual clocks + Spec monitors judging the logs observed on the real code",
    "text": "Proved for all histories, transport lists, retry parameters and jitter samples, with or without main: retry "
            "budget since the last join, no attempt after a fatal error, round-robin order, give-up only when exhausted, "
            "first attempt immediate, delay <= max_retry_delay, the loop is never idle with start() open, start() "
            "completes at most once, no attempt after stop() from any position, listeners bubble. Completion polarity "
            "is proved for histories without a raising main and refuted on a concrete witness otherwise; the witness "
            "replays on the real code (known finding: a raising main is retried instead of failing start()).",
    "note": "Trusted: Lean kernel; the model mirrors the code (checked by the differential run on outcome scripts of "
            "length <= 8 x 1-3 transports of both kinds x max_retries x delay grids x classifier x stop positions); "
            "fake endpoints and a scripted router; txaio/reactor scheduling. Not covered: real sockets, DNS, TLS.",
}

OUT = ["refused", "hsfail", "abort", "jlost", "jleave", "mret", "mraise", "joined"]
SESS = ["lost", "leave", "goodbye"]
FAILING = {"refused", "hsfail", "abort", "jlost", "mraise"}
BITS = ["budget", "fatal", "roundRobin", "first", "delay", "progress", "doneOnce", "polarity", "stop", "bubble"]


# --------------------------------------------------------------------------------------------- encoding

def q(x):
    f = Fraction(x)
    return "%d/%d" % (f.numerator, f.denominator)


def enc_events(evs):
    out = []
    for e in evs:
        if e[0] == "start":
            out.append("S")
        elif e[0] == "delay":
            out.append("D")
        elif e[0] == "stop":
            out.append("X")
        elif e[0] == "out":
            out.append("O%d%d" % (OUT.index(e[1]), 1 if e[2] else 0))
        elif e[0] == "sess":
            out.append("E%d%d" % (SESS.index(e[1]), 1 if (len(e) > 2 and e[2]) else 0))
    return ",".join(out) or "-"


def model_line(case, exact=True):
    flags = "m%dc%da%d" % (1 if case["main"] else 0, 1 if case["classifier"] == "script" else 0,
                           1 if case["fw"] == "asyncio" else 0)
    trs = ";".join("%d,%s,%s,%s,%s" % (t["max_retries"], q(t["max_delay"]), q(t["initial"]), q(t["growth"]),
                                        q(t["jitter"])) for t in case["transports"])
    zs = ",".join("%d/%d" % (z[0], z[1]) for z in case.get("zs", [])) or "-"
    return "comp.run %s %s %s %s %s" % (flags, case["listeners"] or "-", trs, zs, enc_events(case["events"]))


def canon_log(case, out):
    """inexact grids only: the waiting time is measured as a difference of float clock readings (task.Clock /
    loop.time() add floats), so a delay equal to max_retry_delay can read as max*(1+2^-52); such readings are
    snapped to the maximum (a relative allowance of 1e-12, nothing else is touched)"""
    if out["exact"]:
        return out["log"]
    log = []
    for x in out["log"]:
        if x.startswith("a"):
            i, w = x[1:].split("@")
            mx = Fraction(case["transports"][int(i)]["max_delay"])
            n, d = w.split("/")
            wf = Fraction(int(n), int(d))
            if mx < wf <= mx * (1 + Fraction(1, 10 ** 12)):
                x = "a%s@%s" % (i, q(mx))
        log.append(x)
    return log


def judge_line(case, out):
    trs = ";".join("%d,%s" % (t["max_retries"], q(t["max_delay"])) for t in case["transports"])
    return "comp.judge %s %s %d %s" % (case["listeners"] or "-", trs, 1 if out["idle"] else 0,
                                         ",".join(canon_log(case, out)) or "-")


def parse_fields(line):
    d = {}
    for tok in line.split(" "):
        k, _, v = tok.partition("=")
        d[k] = v
    return d


# --------------------------------------------------------------------------------------------- generation

DYADIC = [  # (initial, growth, max)
    (1.0, 2.0, 8.0), (0.5, 1.5, 4.0), (2.0, 1.0, 300.0), (1.5, 1.5, 300.0), (0.25, 2.0, 1.0), (1.0, 1.5, 2.0),
]
NONDYADIC = [(1.5, 1.5, 300.0, 0.1), (0.1, 1.1, 60.0, 0.1), (1.0, 1.7, 3.0, 0.05)]
ZS = [(-1, 1), (-1, 2), (0, 1), (1, 2), (1, 1), (2, 1)]
LISTENERS = ["cjrld", "", "jl", "crd", "r", "cjrld", "cjrld"]


S_, D_, X_ = ["start"], ["delay"], ["stop"]
WITNESSES = [  # (expected key, max_retries per transport, main, events)  == theorem main_raises_not_error
    ("polarity:main-raised-not-error", [1, 1], True, [S_, ["out", "mraise", 0]]),
]
REGRESSIONS = [  # repaired defects: same inputs as the `example`s in Proofs/C14.lean; nothing may be reported on them
    ("giveup:no-main:budget-not-reset-after-join", [1], False,
     [S_, ["out", "refused", 0], D_, ["out", "jlost", 0], D_]),
    ("round-robin:no-main:budget-not-reset-after-join", [0, -1], False,
     [S_, ["out", "jlost", 0], ["out", "refused", 0], D_]),
    ("stop:attempt-after-stop:connecting", [1], False, [S_, X_, ["out", "refused", 0], D_]),
    ("stop:attempt-after-stop:joined-then-lost", [1], False, [S_, ["out", "joined", 0], X_, ["sess", "lost", 0], D_]),
]


def gen_transports(rng, n, grid=None, mr=None):
    trs = []
    for _ in range(n):
        ini, g, mx = grid if grid else rng.choice(DYADIC)
        trs.append({"kind": rng.choice(["websocket", "rawsocket"]),
                    "max_retries": mr if mr is not None else rng.choice([-1, 0, 1, 3]),
                    "initial": ini, "growth": g, "jitter": 0, "max_delay": mx})
    return trs


def gen_script(rng, main, classifier, k, p_stop_inside=0.0):
    """k outcomes -> events (without stop)"""
    evs = [["start"]]
    outs = [o for o in OUT if main or o not in ("mret", "mraise")]
    for _ in range(k):
        o = rng.choice(outs)
        f = 1 if (classifier == "script" and rng.random() < 0.3) else 0
        evs.append(["out", o, f] + (["early"] if o == "hsfail" and rng.random() < 0.4 else []))
        if o == "joined":
            f2 = 1 if (classifier == "script" and rng.random() < 0.3) else 0
            evs.append(["sess", rng.choice(["lost", "lost", "leave", "goodbye"]), f2])
        evs.append(["delay"])
        if o in ("jleave", "mret") and rng.random() < 0.7:
            break
    return evs


def with_stop(evs, pos):
    """stop() inserted before event #pos (1 <= pos <= len); after a `joined` the session event that follows a stop
    becomes the router's GOODBYE or a loss"""
    e = [list(x) for x in evs]
    e.insert(pos, ["stop"])
    if pos + 1 < len(e) and e[pos + 1][0] == "sess" and e[pos + 1][1] == "leave":
        e[pos + 1][1] = "goodbye"
    return e


def gen_cases(ctx):
    rng = ctx.rng
    quick = ctx.tier == "quick"
    cases = []

    def add(transports, main, classifier, listeners, events, zs=None, real_random=None, tag=""):
        for fw in ("twisted", "asyncio"):
            c = {"fw": fw, "transports": transports, "main": main, "classifier": classifier,
                 "listeners": listeners, "events": events, "tag": tag}
            if zs:
                c["zs"] = zs
            if real_random is not None:
                c["real_random"] = real_random
            cases.append(c)

    # (w) the witness of the negated clause in Proofs/C14.lean and the inputs of the repaired defects
    def T1(mr):
        return {"kind": "websocket", "max_retries": mr, "initial": 1.0, "growth": 2.0, "jitter": 0, "max_delay": 8.0}
    for name, trs, main, evs in WITNESSES:
        add([T1(m) for m in trs], main, "none", "cjrld", evs, tag="witness:" + name)
    for name, trs, main, evs in REGRESSIONS:
        add([T1(m) for m in trs], main, "none", "cjrld", evs, tag="regress:" + name)

    # (a) exhaustive: every outcome sequence of length <= L over a few configurations, every stop position
    L = 2 if quick else 3
    base_cfgs = [
        (gen_transports(rng, 1, DYADIC[0], 1), False, "none"),
        (gen_transports(rng, 2, DYADIC[0], 1), True, "script"),
        (gen_transports(rng, 2, DYADIC[1], 0), False, "script"),
        (gen_transports(rng, 3, DYADIC[0], -1), True, "none"),
    ]
    if not quick:
        base_cfgs += [(gen_transports(rng, 1, DYADIC[3], 3), True, "script"),
                      (gen_transports(rng, 3, DYADIC[4], 1), False, "none")]

    def seqs(n, main):
        items = []
        for o in OUT:
            if not main and o in ("mret", "mraise"):
                continue
            if o == "joined":
                items += [("joined", s) for s in SESS]
            else:
                items.append((o, None))
        if n == 0:
            yield []
            return
        for s in seqs(n - 1, main):
            for it in items:
                yield s + [it]

    for trs, main, cl in base_cfgs:
        for n in range(1, L + 1):
            for sq in seqs(n, main):
                for fatal_mode in ((0,) if cl == "none" else (0, 1)):
                    evs = [["start"]]
                    for o, se in sq:
                        evs.append(["out", o, fatal_mode])
                        if se:
                            evs.append(["sess", se, fatal_mode])
                        evs.append(["delay"])
                    add(trs, main, cl, "cjrld", evs, tag="exh")
                    if fatal_mode == 0:
                        positions = range(1, len(evs) + 1)
                        if quick and n == 2:
                            positions = rng.sample(list(positions), 2)
                        elif not quick and n == 3:
                            positions = rng.sample(list(positions), 3)
                        for p in positions:
                            add(trs, main, cl, "cjrld", with_stop(evs, p), tag="exh-stop")

    # (b) random: scripts of up to 8 outcomes over random configurations, stop at each position
    nrand = 800 if quick else 4200
    for _ in range(nrand):
        n = rng.choice([1, 1, 2, 2, 3])
        main = rng.random() < 0.5
        cl = rng.choice(["none", "script"])
        trs = gen_transports(rng, n)
        zs = None
        if rng.random() < 0.35:
            j = rng.choice([0.25, 0.5, 0.125])
            for t in trs:
                t["jitter"] = j
            zs = [list(rng.choice(ZS)) for _ in range(10)]
        k = rng.choice([3, 4, 5, 6, 7, 8, 8])
        evs = gen_script(rng, main, cl, k)
        ls = rng.choice(LISTENERS)
        add(trs, main, cl, ls, evs, zs, tag="rand")
        positions = list(range(1, len(evs) + 1))
        if quick:
            positions = rng.sample(positions, min(3, len(positions)))
        for p in positions:
            add(trs, main, cl, ls, with_stop(evs, p), zs, tag="rand-stop")

    # (c) non-dyadic grids with the real random.normalvariate: delays compared with the maximum only
    for i in range(100 if quick else 600):
        n = rng.choice([1, 2, 3])
        ini, g, mx, j = rng.choice(NONDYADIC)
        trs = gen_transports(rng, n, (ini, g, mx))
        for t in trs:
            t["jitter"] = j
        main = rng.random() < 0.5
        cl = rng.choice(["none", "script"])
        evs = gen_script(rng, main, cl, rng.choice([4, 6, 8]))
        if rng.random() < 0.5:
            evs = with_stop(evs, rng.randrange(1, len(evs) + 1))
        add(trs, main, cl, "cjrld", evs, None, real_random=rng.randrange(1 << 30), tag="nondyadic")
    return cases


# --------------------------------------------------------------------------------------------- running

def run_workers(cases, nproc=8):
    """-> list of observation dicts aligned with cases"""
    by_fw = {"twisted": [], "asyncio": []}
    for i, c in enumerate(cases):
        by_fw[c["fw"]].append(i)
    jobs = []
    for fw, idxs in by_fw.items():
        if not idxs:
            continue
        k = max(1, min(nproc, len(idxs) // 20 + 1))
        for w in range(k):
            part = idxs[w::k]
            if part:
                jobs.append((fw, part))
    outs = [None] * len(cases)

    def runjob(job):
        fw, part = job
        e = dict(os.environ)
        e["PYTHONPATH"] = os.pathsep.join([str(core.REPO / "src"), str(core.VERIF)])
        e["PYTHONHASHSEED"] = "0"
        e["AUTOBAHN_VERIF"] = "1"
        script = W / ("c14_tx.py" if fw == "twisted" else "c14_aio.py")
        data = "\n".join(json.dumps(cases[i]) for i in part) + "\n"
        p = subprocess.run([core.PY, str(script)], input=data, env=e, capture_output=True, text=True, cwd="/",
                           timeout=3000)
        lines = [l for l in p.stdout.splitlines() if l.startswith("{")]
        if p.returncode != 0 or len(lines) != len(part):
            raise RuntimeError("c14 worker (%s) failed rc=%s, %d/%d answers: %s" % (
                fw, p.returncode, len(lines), len(part), p.stderr[-1500:]))
        for i, l in zip(part, lines):
            outs[i] = json.loads(l)
    with ThreadPoolExecutor(16) as ex:
        list(ex.map(runjob, jobs))
    return outs


# --------------------------------------------------------------------------------------------- comparison

def compare(case, out, mod):
    """correspondence: list of (observable, model, impl) that differ"""
    diffs = []
    exact = out["exact"]
    m_att = [] if mod["A"] == "-" else mod["A"].split(",")
    m_idx_t = [a.split("~")[0] for a in m_att]
    r_att = out["attempts"]
    if exact:
        if m_idx_t != r_att:
            diffs.append(("attempts (index@time)", m_idx_t, r_att))
    else:
        if [a.split("@")[0] for a in m_idx_t] != [a.split("@")[0] for a in r_att]:
            diffs.append(("attempt indices", m_idx_t, r_att))
    m_done = mod["D"]
    r_done = out["done"][0] if out["done"] else "none"
    if m_done != r_done or len(out["done"]) > 1:
        diffs.append(("done", m_done, out["done"]))
    m_calls = [] if mod["C"] == "-" else mod["C"].split(",")
    if m_calls != out["listener"]:
        diffs.append(("listener calls", m_calls, out["listener"]))
    m_tr = mod["T"].split(";")
    r_tr = out["tr"]
    if not exact:
        strip = lambda t: "/".join(t.split("/")[:3] + t.split("/")[-1:])
        m_tr, r_tr = [strip(t) for t in m_tr], [strip(t) for t in r_tr]
    if m_tr != r_tr:
        diffs.append(("transport counters attempts/successes/failures/retry_delay/failed", m_tr, r_tr))
    if (mod["I"] == "1") != bool(out["idle"]):
        diffs.append(("idle", mod["I"], out["idle"]))
    return diffs


def classify(case, out, spec, pos):
    log = out["log"]
    idx = None if pos == "end" else int(pos)
    before = log if idx is None else log[:idx]
    item = None if idx is None else log[idx]
    nomain_after_join = (not case["main"]) and any(x.startswith("j") for x in before)
    if spec == "stop":
        ctx = out["stop_ctx"][0] if out["stop_ctx"] else "?"
        if ctx == "joined":
            first_stop = before.index("X")
            ctx = "joined-then-lost" if any(x.startswith("x") for x in before[first_stop:]) else "joined"
        return "stop:attempt-after-stop:" + ctx
    if spec in ("polarity", "progress"):
        if item is not None and item.startswith("a") or item is None and spec == "polarity":
            last = None
            for x in before:
                if x.startswith("r"):
                    last = "r"
                elif x.startswith("e"):
                    last = "e"
                elif x.startswith("a") or x.startswith("d"):
                    last = None
            if last == "r":
                return "polarity:main-raised-not-error"
            return "polarity:clean-end-not-completed"
        if item == "d1":
            return "polarity:success-without-cause"
        if item == "d0":
            if nomain_after_join:
                return "giveup:no-main:budget-not-reset-after-join"
            return "giveup:eligible-transport-left"
        return "progress:idle-without-done"
    if spec == "roundRobin":
        if nomain_after_join:
            return "round-robin:no-main:budget-not-reset-after-join"
        return "round-robin:wrong-order"
    return {"budget": "budget:exceeded", "fatal": "fatal:attempt-after-fatal",
            "first": "first:delayed-first-attempt", "delay": "delay:above-max", "doneOnce": "done:twice",
            "bubble": "bubble:missing-or-extra-call"}[spec]


WHAT = {
    "stop:start-not-completed-by-stop": "stop() called while no session had joined (connect in flight or retry delay "
                                        "running): the future returned by start() never completes",
    "polarity:main-raised-not-error": "main() raised but start()'s future is not failed: the error goes to the reconnect "
                                      "logic and main is run again on the next connection",
    "giveup:no-main:budget-not-reset-after-join": "component without main: a successful join does not reset the retry "
                                                  "budget, so the component gives up although the transport has "
                                                  "attempts left since its last join",
    "round-robin:no-main:budget-not-reset-after-join": "component without main: a transport with attempts left since its "
                                                       "last join is skipped (budget not reset on join)",
    "stop:attempt-after-stop:connecting": "stop() while a connect is in flight completes start() but does not stop the "
                                          "reconnect loop: a new attempt follows when that connect fails",
    "stop:attempt-after-stop:joined-then-lost": "stop() on a joined session followed by transport loss before the router's "
                                                "GOODBYE: the component reconnects and start() never completes",
}


def run(ctx):
    res = core.Result()
    res.rule = ("case = configuration (1-3 transports websocket/rawsocket, max_retries in {-1,0,1,3}, dyadic "
                "initial/growth/max grids with jitter 0 or dyadic jitter with scripted samples, non-dyadic grids with the "
                "real normalvariate; main given or not; is_fatal classifier; component listener subsets) x event script "
                "(start, <=8 outcomes of refused/handshake-fails/ABORT/joined-lost/joined-leave/main-returns/"
                "main-raises/joined+session event, delay after each, stop() at each position) x framework; exhaustive "
                "for outcome sequences of length <=2 (quick) / <=3 (thorough) over 4/6 configurations. Non-trivial = "
                "distinct (configuration, script) with at least one connection attempt on the real code.")
    if ctx.replay_path:
        rp = json.loads(Path(ctx.replay_path).read_text())["replay"]
        cases = [rp["case"]]
    else:
        cases = gen_cases(ctx)
    ctx.log(f"{len(cases)} cases")
    mlines = [model_line(c) for c in cases]
    mods = [parse_fields(l) for l in ctx.driver.run(mlines)]
    bad = [l for l, m in zip(mlines, mods) if "A" not in m]
    if bad:
        raise RuntimeError("driver rejected: " + bad[0])
    outs = run_workers(cases, nproc=8)
    ctx.log("workers done")
    crashed = [(c, o) for c, o in zip(cases, outs) if "crash" in o]
    if crashed:
        raise RuntimeError("c14 sim crashed: %s\n%s\ncase=%s" % (crashed[0][1]["crash"], crashed[0][1].get("tb"),
                                                                 json.dumps(crashed[0][0])))
    verdicts = [parse_fields(l) for l in ctx.driver.run([judge_line(c, o) for c, o in zip(cases, outs)])]

    best = {}    # key -> (size, case, out, detail)
    nbreak = 0
    for c, o, m, v in zip(cases, outs, mods, verdicts):
        res.evaluations += 1
        nat = len(o["attempts"])
        if nat:
            res.distinct.add(core.sha(json.dumps([c["fw"], c["transports"], c["main"], c["classifier"],
                                                   c["listeners"], c.get("zs"), c["events"]]))[:20])
        res.count("fw:" + c["fw"])
        res.count("tag:" + c["tag"])
        res.count("transports:%d" % len(c["transports"]))
        res.count("attempts:%d" % min(nat, 9))
        res.count("done:" + (o["done"][0] if o["done"] else "none"))
        for e in c["events"]:
            if e[0] == "out":
                res.count("outcome:" + e[1])
        for s in o["stop_ctx"]:
            res.count("stop-at:" + s)
        if not o["exact"]:
            res.count("inexact-delays")
        if "V" not in v:
            raise RuntimeError("driver rejected judge line for " + json.dumps(c))
        # search oracle: Spec vs implementation
        fails = [] if v["F"] == "-" else v["F"].split(",")
        for f in fails:
            spec, _, pos = f.partition(":")
            key = classify(c, o, spec, pos)
            size = len(c["events"]) * 10 + len(c["transports"])
            if key not in best or size < best[key][0]:
                best[key] = (size, c, o, {"spec": spec, "position": pos, "verdict_bits": dict(zip(BITS, v["V"]))})
        if len(o["done"]) > 1 and "done:twice" not in best:
            best["done:twice"] = (0, c, o, {"spec": "doneOnce"})
        # stop() while no session has ever joined (connect in flight / waiting for the retry delay): the result of
        # start() completes with that call (model: onStop / stop_ends_loop); the Lean Spec has no clause for it because
        # a joined session completes later, with its GOODBYE - this is the unambiguous part, judged on the log alone
        lg = o["log"]
        if "X" in lg:
            ix = lg.index("X")
            if (any(t.startswith("a") for t in lg[:ix]) and not any(t.startswith("j") for t in lg[:ix])
                    and not any(t.startswith("d") for t in lg) and not o["done"]):
                key = "stop:start-not-completed-by-stop"
                size = len(c["events"]) * 10 + len(c["transports"])
                if key not in best or size < best[key][0]:
                    best[key] = (size, c, o, {"spec": "stopCompletes", "position": str(ix)})
        # correspondence: Model vs implementation
        diffs = compare(c, o, m)
        if diffs:
            nbreak += 1
            if len(res.correspondence_breaks) < 5:
                res.correspondence_breaks.append({
                    "stream": "model (comp.run) vs real Component", "case": c,
                    "differences": [{"observable": d[0], "model": d[1], "implementation": d[2]} for d in diffs],
                    "impl_log": o["log"], "model_log": m["O"], "model_line": model_line(c)})
        else:
            res.traces_validated += 1
        # the model run judged by the property Spec must agree with the implementation run judged by it
        # (Model = Spec on the compared observables is what the theorems say; this is the executed cross-check)
        if m["V"] != v["V"] and not diffs and nbreak < 5:
            res.correspondence_breaks.append({"stream": "spec verdict on model log vs on implementation log",
                                              "case": c, "model": m["V"], "implementation": v["V"],
                                              "impl_log": o["log"], "model_log": m["O"]})
            nbreak += 1
    res.count("correspondence-diffs", nbreak)
    if not ctx.replay_path:
        # the Lean witnesses must reproduce on the real code, on both frameworks
        for c, o, v in zip(cases, outs, verdicts):
            if c["tag"].startswith("witness:"):
                want = c["tag"][len("witness:"):]
                got = set()
                for f in ([] if v["F"] == "-" else v["F"].split(",")):
                    spec, _, pos = f.partition(":")
                    got.add(classify(c, o, spec, pos))
                res.count("witness-reproduced" if want in got else "witness-NOT-reproduced")
                if want not in got:
                    res.notes.append("witness %s (%s) did not reproduce on the real code: %s" % (want, c["fw"], sorted(got)))
    for key, (size, c, o, detail) in sorted(best.items()):
        res.violations.append(core.Violation(
            key, WHAT.get(key, key) + " [spec clause %s rejects observation #%s of the log recorded on the real %s "
            "component]" % (detail.get("spec"), detail.get("position"), c["fw"]),
            {"case": c, "observed": {k: o[k] for k in ("attempts", "done", "listener", "log", "stop_ctx", "tr", "idle")},
             "spec": detail, "model_line": model_line(c), "judge_line": judge_line(c, o)}))
    for c, o in list(zip(cases, outs))[:3]:
        res.sample({"fw": c["fw"], "transports": c["transports"], "main": c["main"], "events": enc_events(c["events"]),
                    "attempts": o["attempts"], "done": o["done"], "log": ",".join(o["log"])[:300]})
    if ctx.replay_path:
        for c, o, m, v in zip(cases, outs, mods, verdicts):
            print("replay case:", json.dumps(c))
            print("  implementation:", json.dumps({k: o[k] for k in ("attempts", "done", "listener", "tr", "idle", "log")}))
            print("  model:         ", m)
            print("  spec on impl:  ", v)
    res.notes.append("errors that left the reactor/loop during the runs (not compared): stop() after completion raises "
                     "AttributeError; session_done writing to the completed future after stop() raises inside a callback")
    return res
