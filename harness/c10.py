"""C10 — every invocation gets exactly one terminal reply.

Theorems: lean/Abverif/Proofs/C10.lean over Model/Session.lean (callee part: INVOCATION / INTERRUPT branches, the
`success` / `error` closures with the send() failure fallback, progressive results) and Model/SessTrace.lean (the
property as predicates over a trace).
Tie (part A): real ApplicationSession objects of Twisted and of asyncio over a mock ITransport whose send() outcome on
reply paths is scripted (ok | SerializationError | PayloadExceededError | TransportLost | another class); endpoint
behaviours x 1-3 concurrent invocations x INTERRUPT before / between / after; every observation line is compared with the
Lean model, the implementation's trace is judged by the Lean trace Spec through the driver.
Tie (part B): the four real transports (WebSocket / RawSocket x Twisted / asyncio) with real serializers and negotiated
size limits, wired to an independent peer in memory (harness/workers/sess_real.py, vlib/wampreal.py).

Self-test (tools_selftest_sess.py: single-edit mutations of a scratch copy of /repo/src, `VERIF_REPO=<copy> ./check C10
--tier quick`; every mutation exit 1 with a concrete replay, the harmless rewrite exit 0; n8 / n9 also change the send()
table generated from the source, so `fallback_covers` no longer builds):
  S  seeded/c10 (`if msg.receive_progress:` -> `if msg.receive_progress is not None:`)   quick exit 1, thorough exit 1
      — missed while the INVOCATION vocabulary knew only "asked / not asked"; since the receive_progress detail is tri-state
      (absent / true / explicitly false: all Invocation.parse accepts; any other wire value is its ProtocolError) and every
      invocation shape runs with all three x both endpoint styles (`if details.progress:` ~p, `is not None` ~P), parts A and B:
      keys: endpoint-args:receive_progress-false, progress-unasked:receive_progress-false
      replay: open pump m.welcome,N reg,1,6,oda=0,ok m.registered,1,70 m.invocation,101,70,n,k1=7,f;r~p1
      (the endpoint is handed D0.1 — a progress callable — and YIELD(progress=True) goes out although the caller said false)
  c10-n1-yield-sent-twice                                    exit 1  keys: reply-unsolicited:pending-result, reply-unsolicited:pending-result+progress …
      replay: open pump m.welcome,6072304108330602 reg,1,6,n,ok m.registered,1,70 m.invocation,101,70,n,k1=7.2=8,1;rp resolve,101,ca1.2/k1=2
  c10-n2-no-error-when-endpoint-raises                       exit 1  keys: no-reply:pending-result, no-reply:pending-result+progress …
      replay: open pump m.welcome,3332160056411134 reg,1,2,n,ok m.registered,1,70 m.invocation,101,70,a5.6,k,0;rp fail,101,r
  c10-n3-progress-although-not-requested                     exit 1  keys: endpoint-args:pending-result, endpoint-args:pending-result+progress …
      replay: open pump m.welcome,3407021444395468 reg,1,1,oda=0,ok m.registered,1,70 m.invocation,101,70,a5.6,k1=7.2=8,0;rp
  c10-n4-interrupt-ignored                                   exit 1  keys: cancelled-yields:pending-result+progress:interrupt, cancelled-yields:pending-result:interrupt …
      replay: open pump m.welcome,4723873148776609 reg,1,6,n,ok m.registered,1,70 m.invocation,102,70,a5.6,k,1;rp~p7 m.interrupt,102 resolve,102,v3 pump
  c10-n5-details-injected-although-not-requested             exit 1  keys: endpoint-args:pending-result, endpoint-args:pending-result+progress …
      replay: open pump m.welcome,3332160056411134 reg,1,2,n,ok m.registered,1,70 m.invocation,101,70,a5.6,k,0;rp
  c10-n6-duplicate-invocation-id-accepted                    exit 1  keys: invocation-not-rejected:pending-result
      replay: open pump m.welcome,1189764082832528 reg,1,2,n,ok m.registered,1,70 m.invocation,101,70,a5.6,n,0;rp m.invocation,101,70,n,n,0;r
  c10-n7-no-fallback-for-serialization-error                 exit 1  keys: no-reply:pending-result, no-reply:pending-result+progress:send=big …
      replay: open pump m.welcome,1487131682405591 reg,1,4,oda=0,ok m.registered,1,70 m.invocation,103,70,a5.6,k1=7.2=8,1;rp+unreg,0,ok fault,ser.ok pump resolve,103,ca1/k
  c10-n8-websocket-send-lets-serializer-exception-through    exit 1  keys: no-reply:pending-result:send=other, no-reply:returns+progress:send=other …
      replay: open pump m.welcome,7 pump reg,1,4,oda=0,ok pump m.registered,1,70 pump m.invocation,9,70,a1,k1=2,0;rp pump resolve,9,Uo pump
  c10-n9-f14-reintroduced-asyncio-rawsocket-valueerror       exit 1  keys: no-reply:pending-result:send=other, no-reply:returns+progress:send=other …
      replay: open pump m.welcome,7 pump reg,1,4,oda=0,ok pump m.registered,1,70 pump m.invocation,9,70,a1,k1=2,0;rp pump resolve,9,S1224 pump
  c10-h1-harmless-reply-built-in-two-steps                   exit 0  silent
"""
import itertools

from vlib import core, sesscheck as sc
from translate import sess as tr_sess
from translate import sendtab as tr_sendtab

PROP = "C10"
PROOF_MODULES = ["Abverif.Proofs.C10"]
TRANSLATORS = [tr_sess.translate, tr_sendtab.translate]
TRUSTED = [
    "Lean 4.33 kernel; axioms of every theorem audited to be within {propext, Classical.choice, Quot.sound}",
    "hand-written Lean model Abverif/Model/Session.lean of the Invocation / Interrupt / Registered branches of "
    "ApplicationSession.onMessage, the success / error closures, _message_from_exception (as far as it decides the "
    "error URI / args / kwargs or raises), the progress callable; endpoints are scripted behaviours",
    "the trace Spec Abverif/Model/SessTrace.lean (what the property says about an observed trace)",
    "tie model<->code: differential run of real ApplicationSession objects (both frameworks) over a mock ITransport with "
    "scripted send() outcomes, and over the four real transports in memory; bounded by the generators",
    "txaio / Deferred / Future semantics (modelled, not verified); the serializers and the transports' size checks are "
    "exercised as they are (part B), not modelled beyond the class of exception send() raises",
]
ASSUMPTIONS = [
    "the transport stays up while the reply is owed (a reply skipped because the transport is gone is not a violation)",
    "endpoints are plain callables (or return a Deferred/Future); they call details.progress only if they got one",
    "payload encryption (enc_algo) is outside (C20)",
]
MANIFEST_ENTRY = {
    "technique": "Lean 4 theorems over arbitrary event histories of an executable session model (callee part) + executable "
                 "trace Spec judged on real traces + differential tie to Twisted/asyncio sessions over mock and real "
                 "in-memory transports, ddmin",
    "text": "Proved in Lean: at_most_one_terminal_reply — for EVERY event history, both txaio scheduling modes, whatever "
            "endpoints, user code, the transport and send() do, the terminal replies (non-progressive YIELD, ERROR) sent for "
            "a request id never outnumber the endpoint calls made for it, and an id still in _invocations has one reply less "
            "(accounting relation carried through every step of the model: a terminal reply is sent only by the success/error "
            "closure, which first removes the id; the id gets there only through an accepted INVOCATION); "
            "reply_sent_exactly_once — when the closure runs with the transport up and a covered send() plan (accepted, or "
            "refused as unserializable / oversize with the fallback ERROR accepted), for EVERY outcome of the endpoint — also an "
            "exception no ERROR can be built from, answered wamp.error.invalid_payload since the repair — exactly one terminal "
            "reply goes out and the id leaves _invocations; reply_content (YIELD carries the return value, CallResult "
            "unpacked; ERROR the exception's URI/args/kwargs, or invalid_payload without them); endpoint_args_exact (the endpoint is called "
            "first thing with exactly the caller's args/kwargs plus CallDetails under its own details_arg iff registered "
            "with one, progress callable iff the receive_progress detail is `true` — tri-state: absent and an explicit `false` "
            "both mean no); progress_only_if_asked (same tri-state), progress_before_terminal_in_step; "
            "duplicate_invocation_is_violation, unknown_registration_is_violation (ProtocolError, nothing changes); "
            "interrupt_yields_error, interrupt_ignored. The send() classification of the four transports is REGENERATED from "
            "the source on every run (translate/sendtab.py) and measured on the real transports: fallback_covers (all four "
            "transports, since the Twisted RawSocket repair) and fallback_plan_covered (so an unserializable / oversize result "
            "meets a covered plan on every real transport) proved. one_terminal_reply_covered — EXACTLY one at history "
            "level, both scheduling modes: in every history that begins with onOpen, has no onClose, and whose send() plans "
            "are made of covered units (planUnits: every refusal as unserializable / oversize is followed by an acceptance — "
            "what the four real transports produce, real_transport_plan_units), for every request id the terminal replies "
            "sent plus the invocations still running EQUAL the endpoint calls made; so every invocation that has ended has "
            "exactly one terminal reply in the trace (one_terminal_reply_covered_ended). The hypothesis is the unit form, not "
            "planCovered per fault event: two covered plans can concatenate to an uncovered one ([ser] then [big]); "
            "planUnits_covered relates the two. OneTerminalReply (the same for ANY transport behaviour) stays stated in full "
            "and refuted by decide on two histories no real transport produces any more (send() raising another class; the "
            "fallback ERROR refused as well); ProgressBeforeTerminal refuted by U2. Tie: 709 (quick) scripts of endpoint "
            "behaviours x 1-3 concurrent invocations x INTERRUPT before/between/after x scripted send() plans on a mock "
            "transport, both frameworks, observation-exact; and the four real transports x json/msgpack/cbor x negotiated "
            "limits 2^10..2^12 (at 2^9 not even HELLO fits) with real unserializable (object, set, lone surrogate) and "
            "oversize results, messages per request id decoded by an independent peer, equal to the model's.",
    "note": "Trusted: Lean kernel; the hand-written model and trace Spec; txaio semantics as modelled; serializers and size "
            "checks exercised, not modelled. Open finding (known_findings.d/C10.jsonl): U2 (late progress: an endpoint that "
            "keeps details.progress and calls it after returning; left open: _invocations is filled only after the endpoint "
            "was called, so it cannot tell a late call from a synchronous one, and what a late call should do — raise, which "
            "class, or be ignored — is a design decision). Repaired in /repo (fixed entries, reported again if they return): "
            "error-path:encode-raises:no-reply (ERROR invalid_payload when _message_from_exception raises); an oversize "
            "result got NO reply on any transport because the fallback ERROR repeated the result (it no longer does; part B "
            "now expects the fallback ERROR on the wire); on the Twisted RawSocket an unserializable result got no reply "
            "because send() let the serializer's own exception through (it now raises SerializationError; the generated and "
            "the measured table agree on all four rows). Ledger F14 (asyncio RawSocket ValueError) repaired in /repo "
            "11645fb6; re-introducing any of these breaks fallback_covers and / or the measured table.",
}

C10_VIOLS = ("reply-unsolicited", "no-reply", "late-progress", "progress-unasked", "endpoint-args",
             "invocation-not-rejected", "cancelled-yields")


def owns(v):
    return v.split(",")[0] in C10_VIOLS


def _kind(tok):
    return tok.partition(";")[0].split(",")[0]


def classify(script, i, v, fw):
    """canonical key: the violated clause + the input class: how the endpoint of that invocation behaves, what the
    transport answers to send(), whether an INTERRUPT / late progress call is involved"""
    clause = v.split(",")[0]
    req = v.split(",")[1] if "," in v else ""
    inv = next((t for t in script if _kind(t) == "m.invocation" and t.split(",")[1] == req), "")
    act = inv.partition(";")[2]
    head = act.partition("+")[0]
    if head.startswith("x"):
        beh = {"": "raises", "r": "raises", "u": "raises-unbuildable-error", "a": "raises-application-error",
               "m": "raises-mapped", "t": "raises"}.get(head[1:2], "raises")
    elif head.startswith("rp"):
        beh = "pending-result"
    else:
        beh = "returns"
    if "~p" in head:
        beh += "+progress"
    # the send() plan in force for this invocation's reply: the `fault` token right before the event that makes the
    # endpoint's outcome known (the invocation itself, or the completion of its pending result)
    faults = []
    for j, t in enumerate(script[:i + 1]):
        k = _kind(t)
        if j > 0 and _kind(script[j - 1]) == "fault" and t.split(",")[1:2] == [req] and \
                k in ("m.invocation", "resolve", "fail", "m.interrupt"):
            faults = [f for f in script[j - 1].split(",")[1].split(".") if f != "ok"]
    if not faults and not inv:
        faults = [f for t in script[:i + 1] if _kind(t) == "fault" for f in t.split(",")[1].split(".") if f != "ok"]
    extra = []
    if faults:
        extra.append("send=" + "+".join(faults[:2]))
    if any(_kind(t) == "lateprog" and t.split(",")[1] == req for t in script[:i + 1]):
        extra.append("progress-called-after-return")
    if any(_kind(t) == "m.interrupt" and t.split(",")[1] == req for t in script[:i + 1]):
        extra.append("interrupt")
    rpf = inv.partition(";")[0].split(",")[5:6]
    if clause in ("endpoint-args", "progress-unasked") and rpf in (["f"], ["0"]):
        # the caller did not ask (detail explicitly false / absent), the endpoint got a progress callable / used it
        return "%s:receive_progress-%s" % (clause, "false" if rpf == ["f"] else "absent")
    if clause == "no-reply" and faults[:1] == ["big"] and (faults[:2] == ["big", "big"] or "/" in fw):
        # on a real transport the second refusal can only be the fallback ERROR being oversize itself
        return "no-reply:oversize-result:fallback-error-repeats-the-result-and-exceeds-the-limit-too"
    if clause == "no-reply" and faults[:1] == ["other"] and "rs" in fw and "twisted" in fw:
        return "no-reply:unserializable-result:twisted-rawsocket-send-raises-the-serializer's-own-exception"
    if clause == "late-progress" and "progress-called-after-return" in extra:
        return "late-progress:endpoint-keeps-details.progress-and-calls-it-after-returning"
    if clause == "no-reply" and beh == "raises-unbuildable-error":
        return "error-path:encode-raises:no-reply"
    return f"{clause}:{beh}" + ("".join(":" + e for e in extra))


# ----------------------------------------------------------------------------- generators

ARGS = ["n", "a", "a5", "a5.6"]
KWARGS = ["n", "k", "k1=7", "k1=7.2=8"]
RP = [0, 1, "f"]                        # receive_progress absent / true / false (all the parser accepts)
RET = ["r", "rv7", "rca1.2/k1=3", "rca/k", "rca4/k"]
EXC = ["x", "xa5/a1/k1=2", "xa5/a/k", "xm6/a1.2", "xta3.4"]
OKFAULT = ["ser.ok", "big.ok"]          # what the property covers: the fallback ERROR goes out
BADFAULT = ["other", "lost", "ser.ser", "big.big", "ser.other", "big.lost"]


class Callee:
    def __init__(self, rng, pump):
        self.rng = rng
        self.P = sc.Planner(rng, pump="never")
        self.pump = pump
        self.ev = ["open", "pump", "m.welcome,%d" % rng.randint(1, 2 ** 53)]
        self.regs = []          # (registration id, has details, FutId)
        self.req = 100

    def add(self, tok, quiet=True):
        self.ev.append(tok)
        if self.pump == "always" or (self.pump == "random" and self.rng.random() < 0.5):
            self.ev.append("pump")

    def register(self, details):
        n = len(self.P.ev)
        rid = self.P.register(opts=details)
        f = self.P.pending[rid]["fut"]
        gid = 70 + len(self.regs)
        self.P.success(rid, reg=gid)
        for t in self.P.ev[n:]:
            self.add(t)
        self.regs.append((gid, details != "n", f))
        return gid

    def invoke(self, gid, act, rp=None, args=None, kwargs=None):
        """rp: the receive_progress detail — 0 absent, 1 true, "f" explicitly false"""
        self.req += 1
        r = self.rng
        self.add("m.invocation,%d,%d,%s,%s,%s;%s" % (self.req, gid, args or r.choice(ARGS), kwargs or r.choice(KWARGS),
                                                     r.choice(RP) if rp is None else rp, act))
        return self.req

    def script(self):
        return self.ev + ([] if self.ev[-1] == "pump" else ["pump"])


def rand_act(rng, pending_ok=True):
    x = rng.random()
    if x < 0.4:
        a = rng.choice(RET)
    elif x < 0.7:
        a = rng.choice(EXC)
    elif x < 0.9 and pending_ok:
        a = "rp"
    else:
        a = rng.choice(RET)
    if rng.random() < 0.35:
        # progress calls made `if details.progress:` (~p) or `if details.progress is not None:` (~P)
        a += rng.choice(["~p", "~P"]) + ".".join(str(rng.randint(1, 9)) for _ in range(rng.randint(1, 3)))
    if rng.random() < 0.1:
        a += "+" + rng.choice(["call,1,a,k,n,ok", "pub,1,a,k,n,ok", "unreg,0,ok"])
    return a


def later(c, rng, req):
    """complete a pending result"""
    x = rng.random()
    if x < 0.5:
        c.add("resolve,%d,%s" % (req, rng.choice(["n", "v3", "ca1/k", "ca1.2/k1=2"])))
    elif x < 0.8:
        c.add("fail,%d,%s" % (req, rng.choice(["r", "a5/a1/k", "m6/a2", "ta1"])))
    else:
        c.add("m.interrupt,%d" % req)


def scenario(rng, pump, n_inv, faults, unbuildable=False, late=False, interrupts=True):
    c = Callee(rng, pump)
    gids = [c.register(rng.choice(["n", "oda=0", "oda=3"])) for _ in range(rng.randint(1, 2))]
    reqs = []
    for _ in range(n_inv):
        act = "xu" if unbuildable and not reqs else rand_act(rng)
        if faults and rng.random() < 0.5:
            c.add("fault," + rng.choice(faults))
        if interrupts and rng.random() < 0.1:
            c.add("m.interrupt,%d" % (c.req + 1))               # INTERRUPT before the invocation
        req = c.invoke(rng.choice(gids), act)
        reqs.append((req, act))
        if interrupts and rng.random() < 0.2:
            c.add("m.interrupt,%d" % req)                       # … between
    order = [r for r, a in reqs if a.startswith("rp")]
    rng.shuffle(order)
    for req in order:
        if faults and rng.random() < 0.4:
            c.add("fault," + rng.choice(faults))
        later(c, rng, req)
        if rng.random() < 0.2:
            later(c, rng, req)                                  # a second completion attempt: ignored
    for req, act in reqs:
        if interrupts and rng.random() < 0.15:
            c.add("m.interrupt,%d" % req)                       # … after
        if late and "~p" in act:
            c.add("lateprog,%d,%d" % (req, rng.randint(1, 9)))
    return c.script()


def gen(ctx):
    rng = ctx.rng
    quick = ctx.tier == "quick"
    out = []
    # (a) every endpoint behaviour x details x receive_progress {absent, true, false} x payload shape, one invocation,
    # send() ok; endpoints that emit progress whenever details.progress is truthy (~p) / is not None (~P)
    for det in ("n", "oda=0", "oda=3"):
        for rp in RP:
            for act in RET + EXC + ["rp", "r~p1", "rv2~p1.2.3", "x~p4", "rp~p5.6", "r~P1", "rv2~P1.2", "xa5/a1/k~P4", "rp~P5"]:
                for pump in ("always", "never"):
                    c = Callee(rng, pump)
                    g = c.register(det)
                    r = c.invoke(g, act, rp=rp, args=rng.choice(ARGS), kwargs=rng.choice(KWARGS))
                    if act.startswith("rp"):
                        later(c, rng, r)
                    out.append(("behaviour", c.script(), True))
    # (b) the send() outcome table: every endpoint outcome x every plan
    for act in ["rv7", "rca1/k1=2", "r", "x", "xa5/a1/k", "rp", "rv1~p2"]:
        for plan in OKFAULT + BADFAULT + ["ok.ser.ok", "ser.ok.big.ok"]:
            for pump in ("always", "never"):
                c = Callee(rng, pump)
                g = c.register("oda=0")
                c.add("fault," + plan)
                r = c.invoke(g, act, rp=1 if "~p" in act else rng.choice(RP))
                if act.startswith("rp"):
                    later(c, rng, r)
                out.append(("send-table", c.script(), all(p in ("ser.ok", "big.ok", "ok.ser.ok", "ser.ok.big.ok") for p in [plan])))
    # (c) protocol checks: duplicate request id, unknown registration, INTERRUPT for unknown / finished invocations
    for pump in ("always", "never"):
        c = Callee(rng, pump)
        g = c.register("n")
        r = c.invoke(g, "rp")
        c.add("m.invocation,%d,%d,n,n,0;r" % (r, g))
        c.add("m.invocation,%d,99,n,n,0;r" % (r + 1))
        c.add("m.interrupt,999")
        c.add("resolve,%d,v1" % r)
        c.add("m.invocation,%d,%d,n,n,0;rv2" % (r, g))          # the id may be used again once answered
        c.add("m.interrupt,%d" % r)
        c.add("unreg,0,ok")
        c.add("m.unregistered,%d,n" % (c.P.req + 1))
        c.add("m.invocation,%d,%d,n,n,0;r" % (r + 5, g))        # no longer registered
        out.append(("protocol", c.script(), True))
    # (d) 1-3 concurrent invocations, INTERRUPT before / between / after, ok / fallback plans (Spec-checked)
    n = 180 if quick else 100000
    for _ in range(n):
        out.append(("concurrent", scenario(rng, rng.choice(["always", "never", "random"]), rng.randint(1, 3),
                                           rng.choice([[], [], OKFAULT])), True))
    # (e) what the property does not promise (correspondence only, plus known findings): send() raising another class,
    # a failing fallback, an ERROR that cannot be built, late progress, transport loss while replies are owed
    m = 80 if quick else 30000
    for _ in range(m):
        out.append(("hostile", scenario(rng, rng.choice(["always", "never", "random"]), rng.randint(1, 3),
                                        rng.choice([BADFAULT, OKFAULT + BADFAULT]), late=rng.random() < 0.3), False))
    for pump in ("always", "never"):
        for _ in range(3 if quick else 50):
            out.append(("unbuildable", scenario(rng, pump, rng.randint(1, 2), [], unbuildable=True, interrupts=False), True))
            out.append(("late-progress", scenario(rng, pump, rng.randint(1, 2), [], late=True, interrupts=False), True))
        c = Callee(rng, pump)
        g = c.register("oda=0")
        r1 = c.invoke(g, "rp", rp=1)
        r2 = c.invoke(g, "rv1~p2", rp=1)
        c.add("closed")
        c.add("resolve,%d,v1" % r1)
        c.add("lateprog,%d,3" % r2)
        c.add("fail,%d,r" % r1)
        out.append(("loss", c.script(), True))
    return out


# ----------------------------------------------------------------------------- part B: the four real transports

LIMITS = {"rs": [9, 10, 11, 12], "ws": [512, 1024, 2048, 4096]}     # at 2^9 not even HELLO fits (recorded, skipped)
CLASS = {"ok": "ok", "SerializationError": "ser", "PayloadExceededError": "big"}


def link_for(kind, lim):
    return {"rs_peer_exp": lim} if kind == "rs" else {"ws_max": lim}


def limit_of(kind, lim):
    return 2 ** lim if kind == "rs" else lim


def real_cases(rng, kind, lim, table, quick=True):
    """-> list of (real_script, model_script). `table`: what this transport's send() was measured to do with each kind
    of result (spec -> ok | ser | big | other)"""
    n = limit_of(kind, lim)
    specs = ["v5", "S%d" % (n // 4), "S%d" % (n + 200), "S%d" % (4 * n), "Uo", "Us", "Uu"]
    head = ["open", "pump", "m.welcome,7", "pump", "reg,1,4,oda=0,ok", "pump", "m.registered,1,70", "pump"]

    def plan(spec):
        c = table[spec]
        if c == "ok":
            return None
        if c == "ser":
            return "ser.ok"            # the fallback names the value by its repr: small and serializable
        if c == "big":
            return "big.ok"            # the fallback ERROR names the procedure and the limit, not the value: it fits
        return "other"

    def model_ret(spec):
        return "rv5" if spec == "v5" else "rca/k"      # a text result is rendered without its text: `a`

    out = []
    # (0) the receive_progress detail absent / true / false on the wire x an endpoint that reports progress whenever it
    # was given a callable (both styles) x registered with / without call details (registration 70 has them)
    for rp in RP:
        for pg in ("~p3.4", "~P3.4"):
            for act in ("rv5", "rp", "xa5/a1/k"):
                real = list(head) + ["m.invocation,9,70,a1,k1=2,%s;%s%s" % (rp, act, pg), "pump"]
                if act == "rp":
                    real += ["resolve,9,v1", "pump"]
                out.append((real, list(real)))
    # (1) each result kind alone, synchronous and as a pending result completed later
    for spec in specs:
        for pending in (False, True):
            real, model = list(head), list(head)
            p = plan(spec)
            if pending:
                real += ["m.invocation,9,70,a1,k1=2,0;rp", "pump", "resolve,9,%s" % spec, "pump"]
                model += ["m.invocation,9,70,a1,k1=2,0;rp", "pump"] + (["fault," + p] if p else []) + \
                         ["resolve,9,%s" % (model_ret(spec)[1:] or "n"), "pump"]
            else:
                real += ["m.invocation,9,70,a1,k1=2,0;r%s" % spec, "pump"]
                model += (["fault," + p] if p else []) + ["m.invocation,9,70,a1,k1=2,0;%s" % model_ret(spec), "pump"]
            out.append((real, model))
    # (2) 1-3 invocations one after the other with mixed results, INTERRUPT before / after, errors, progress
    for _ in range(1 if quick else 3):
        real, model = list(head), list(head)
        for j in range(rng.randint(1, 3)):
            req = 20 + j
            x = rng.random()
            if x < 0.5:
                spec = rng.choice(specs)
                p = plan(spec)
                if rng.random() < 0.3:
                    real.append("m.interrupt,%d" % req)
                    model.append("m.interrupt,%d" % req)
                rp = rng.choice(RP)
                pg = rng.choice(["~p3", "~P3"])
                real += ["m.invocation,%d,70,n,n,%s;r%s%s" % (req, rp, spec, pg), "pump"]
                model += (["fault," + ("ok." if rp == 1 else "") + p] if p else []) + \
                         ["m.invocation,%d,70,n,n,%s;%s%s" % (req, rp, model_ret(spec), pg), "pump"]
            elif x < 0.8:
                act = rng.choice(EXC)
                real += ["m.invocation,%d,70,a5,n,0;%s" % (req, act), "pump"]
                model += ["m.invocation,%d,70,a5,n,0;%s" % (req, act), "pump"]
            else:
                real += ["m.invocation,%d,70,n,n,0;rp" % req, "pump", "m.interrupt,%d" % req, "pump", "resolve,%d,v1" % req, "pump"]
                model += ["m.invocation,%d,70,n,n,0;rp" % req, "pump", "m.interrupt,%d" % req, "pump", "resolve,%d,v1" % req, "pump"]
            if rng.random() < 0.3:
                real += ["m.interrupt,%d" % req, "pump"]
                model += ["m.interrupt,%d" % req, "pump"]
        out.append((real, model))
    return out


def check_part_b(ctx, res):
    rng = ctx.rng
    quick = ctx.tier == "quick"
    by_key, breaks = {}, []
    probe = ["v5", "Uo", "Us", "Uu"]
    # the table the theorems talk about: generated from the source, read back through the driver
    gen_table = ctx.driver.run(["sendtable"])[0].split()
    row = {("ws", "twisted"): 0, ("ws", "asyncio"): 1, ("rs", "twisted"): 2, ("rs", "asyncio"): 3}
    for fw in ("twisted", "asyncio"):
        combos = [(k, s, lim) for k, s in sc.COMBOS for lim in ([LIMITS[k][1], LIMITS[k][-1]] if quick else LIMITS[k])]
        # what does each transport's send() do with each kind of result? (measured on the real code)
        specs_of = {c: probe + ["S%d" % (limit_of(c[0], c[2]) // 4), "S%d" % (limit_of(c[0], c[2]) + 200), "S%d" % (4 * limit_of(c[0], c[2]))] for c in combos}
        cls = sc.run_real_parallel(fw, [{"kind": k, "ser": s, "link": link_for(k, lim), "classify": specs_of[(k, s, lim)]} for k, s, lim in combos])
        tables = {c: {sp: CLASS.get(x, "other") for sp, x in zip(specs_of[c], o)} for c, o in zip(combos, cls)}
        raw = {c: dict(zip(specs_of[c], o)) for c, o in zip(combos, cls)}
        for c in combos:
            big = "S%d" % (limit_of(c[0], c[2]) + 200)
            want = gen_table[2 * row[(c[0], fw)]: 2 * row[(c[0], fw)] + 2]
            got = [tables[c]["Uo"], tables[c][big]]
            if want != got:
                breaks.append({"stream": "send() classification table: generated from the source vs measured on the real transport",
                               "script": [f"{fw} {c[0]}/{c[1]} limit {limit_of(c[0], c[2])}"], "event": "unserializable, oversize",
                               "model": " ".join(want), "implementation": " ".join(got)})
            res.count("send-class:%s %s/%s: unserializable object -> %s, oversize -> %s" % (
                fw, c[0], c[1], raw[c]["Uo"], raw[c]["S%d" % (limit_of(c[0], c[2]) + 200)]))
        cases = {c: real_cases(rng, c[0], c[2], tables[c], quick) for c in combos}
        obs = sc.run_real_parallel(fw, [{"kind": k, "ser": s, "link": link_for(k, lim), "scripts": [r for r, _ in cases[(k, s, lim)]]} for k, s, lim in combos])
        ctx.log(f"part B {fw}: {sum(len(v) for v in cases.values())} scripts over {len(combos)} transport x serializer x limit combinations")
        for c, o in zip(combos, obs):
            k, sname, lim = c
            if o and not any("send:HELLO" in l for l in o[0][:2]):
                # the negotiated limit is below the size of HELLO itself: this session cannot even join
                res.count(f"real: HELLO exceeds the limit, combination skipped: {fw} {k}/{sname} limit {limit_of(k, lim)}")
                continue
            models = sc.run_model(ctx, fw, [m for _, m in cases[c]])
            clean = [[";".join(t for t in sc.tokens(l) if not t.startswith("t:")) or "-" for l in lines] for lines in o]
            # the real trace lines up with the model script once the `fault` tokens (no event of the real run) are skipped
            aligned = []
            for (real, model), lines in zip(cases[c], clean):
                it = iter(lines)
                aligned.append(["-" if t.startswith("fault,") else next(it) for t in model])
            verdicts = sc.run_trace(ctx, fw, [m for _, m in cases[c]], aligned)
            for (real, model), a, m, vv in zip(cases[c], aligned, models, verdicts):
                res.evaluations += len(model)
                res.traces_validated += 1
                A = sc.merge_pairs(model, a)
                M = sc.merge_pairs(model, m, drop=("t:", "sendfail:"))
                bad = next(((t, x, y) for (t, x), (_, y) in zip(A, M) if x != y), None)
                if bad is not None:
                    breaks.append({"stream": f"model vs {fw} {k}/{sname} limit {lim} implementation", "script": real, "model_script": model,
                                   "event": bad[0], "model": ";".join(bad[2]), "implementation": ";".join(bad[1])})
                for (j, v) in vv:
                    if not owns(v):
                        continue
                    key = classify(model, j, v, f"{fw} {k}/{sname}")
                    if key not in by_key or len(real) < len(by_key[key][1]):
                        by_key[key] = (f"{fw} {k}/{sname} limit {limit_of(k, lim)}", real, model, j, v, a[j])
                    res.count("real: violation:" + key)
    res.correspondence_breaks += breaks[:20]
    res.count("real: correspondence-breaks", len(breaks))
    for key, (where, real, model, j, v, act) in sorted(by_key.items()):
        res.violations.append(core.Violation(
            key, f"{where} (real transport): event #{j} `{model[j]}`: trace Spec verdict [{v}]; the implementation did [{act}]; "
                 f"script: {' '.join(real)}",
            {"transport": where, "script": real, "model_script": model, "event_index": j, "verdict": [v], "actual": act}))
    return {"keys": sorted(by_key), "breaks": len(breaks)}


CORPUS = [
    # U2: the endpoint keeps details.progress and calls it after it returned
    (["open", "pump", "m.welcome,7", "reg,1,4,oda=0,ok", "m.registered,1,70", "pump", "m.invocation,5,70,a1,k1=2,1;rv9~p3", "pump",
      "lateprog,5,8", "pump"], True),
    # the ERROR cannot be built from the exception (repaired: ERROR invalid_payload goes out; kept as regression input)
    (["open", "pump", "m.welcome,7", "reg,1,4,n,ok", "m.registered,1,70", "pump", "m.invocation,5,70,n,n,0;xu", "pump"], True),
    # three concurrent invocations, one interrupted, one failing with the fallback, one plain
    (["open", "pump", "m.welcome,7", "reg,1,4,oda=3,ok", "m.registered,1,70", "pump", "m.invocation,5,70,a1,n,0;rp", "m.invocation,6,70,n,k1=2,1;rv2~p1",
      "fault,big.ok", "m.invocation,7,70,n,n,0;rca1/k", "pump", "m.interrupt,5", "pump", "resolve,5,v1", "m.interrupt,6", "pump"], True),
]


def run(ctx):
    res = core.Result()
    res.rule = ("script = a joined session with 1-2 registered endpoints (with / without details_arg), 1-3 concurrent "
                "INVOCATIONs (payload shapes, receive_progress on/off) whose endpoints return a value / CallResult / None / a "
                "pending result completed, failed or interrupted later / raise ApplicationError, a mapped or an unmapped "
                "exception / emit 0-3 progressive results / call details.progress after returning; the mock transport's "
                "send() on reply paths follows a scripted plan (ok, SerializationError, PayloadExceededError, TransportLost, "
                "another class); INTERRUPT before / between / after; duplicate ids, unknown registrations; each script runs "
                "on Twisted and on asyncio; observations compared with the Lean model, the trace judged by the Lean trace "
                "Spec; non-trivial = distinct script with at least one accepted invocation")
    if ctx.replay_path:
        scripts, fws = sc.replay_scripts(ctx)
        sc.check_traces(ctx, res, [("replay", s, True) for s in scripts], owns, classify, frameworks=fws, shrink=False)
        return res
    items = [("corpus", s, sp) for s, sp in CORPUS] + [("corpus:" + n, s, True) for n, s in sc.corpus_scripts(PROP)] + gen(ctx)
    seen, uniq = set(), []
    for label, s, sp in items:
        key = " ".join(s)
        if key in seen:
            continue
        seen.add(key)
        uniq.append((label, s, sp))
        res.count("class:" + label)
        if any(_kind(t) == "m.invocation" for t in s):
            res.distinct.add(core.sha(key)[:16])
        for t in s:
            res.count("event:" + _kind(t))
    for _, s, _ in uniq[:2] + uniq[200:202] + uniq[-2:]:
        res.sample(" ".join(s))
    ctx.log(f"{len(uniq)} scripts, {sum(len(s) for _, s, _ in uniq)} events")
    st = sc.check_traces(ctx, res, uniq, owns, classify, prefix=3)
    res.notes.append("trace-Spec violations by key: " + ", ".join(st["keys"]) if st["keys"] else "no trace-Spec violation")
    st2 = check_part_b(ctx, res)
    res.notes.append("part B (the four real transports x json / msgpack / cbor x size limits): "
                     + ("violations by key: " + ", ".join(st2["keys"]) if st2["keys"] else "no trace-Spec violation")
                     + f"; correspondence breaks: {st2['breaks']}")
    seen_keys, vs = set(), []
    for v in res.violations:
        if v.key not in seen_keys:
            seen_keys.add(v.key)
            vs.append(v)
    res.violations[:] = vs
    return res
