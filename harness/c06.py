"""C06 — WAMP sessions end cleanly on every path and leave nothing pending.

Theorems: lean/Abverif/Proofs/C06.lean over Model/Session.lean (lifecycle part: onOpen / join / the pre-session
branch / GOODBYE / leave / disconnect / onClose / the default onLeave and onDisconnect, every hook a scripted behaviour)
and Model/SessTrace.lean (the property as predicates over a trace).
Tie (part A): real ApplicationSession objects of Twisted and of asyncio (separate processes) over a recording mock
ITransport run router conversations from the session grammar; every observation line is compared with the Lean model
(correspondence) and the implementation's trace is judged by the Lean trace Spec through the driver (failing-input
search); violations are classified, shrunk (ddmin) and written as replays.
Tie (part B): the same conversations over the real WAMP-over-WebSocket and WAMP-over-RawSocket transports of both
frameworks, wired to an independent peer through in-memory pipes (harness/workers/sess_real.py, vlib/wampreal.py).

Self-test (tools_selftest_sess.py: single-edit mutations of a scratch copy of /repo/src, `VERIF_REPO=<copy> ./check C06
--tier quick`; every mutation exit 1 with a minimised concrete replay, every harmless rewrite exit 0):
  c06-m1-no-onLeave-on-transport-loss                        exit 1  keys: asyncio:message-in-the-loop-iteration-of-welcome:m.other, leave-missing@closed:after=closed …
      replay: open;r m.welcome,2589084537432034,-;r!r m.other closed;r!r pump
  c06-m2-goodbye-echoed-when-initiator                       exit 1  keys: goodbye-echoed@m.goodbye:after=m.goodbye, goodbye-twice@m.goodbye:after=m.goodbye
      replay: open m.welcome,7,- leave m.goodbye
  c06-m3-pending-not-failed-at-end                           exit 1  keys: asyncio:message-in-the-loop-iteration-of-welcome:m.other, pending@closed:after=closed …
      replay: open;r m.welcome,2589084537432034,-;r!r m.other sub,1,7,n,ok closed;r!r
  c06-m4-pre-session-message-accepted                        exit 1  keys: asyncio:message-in-the-loop-iteration-of-welcome:m.other, gate@m.error:after=- …
      replay: open;r m.welcome,2589084537432034,-;r!r m.other
  c06-m5-leave-sends-goodbye-again                           exit 1  keys: goodbye-twice@leave:after=-
      replay: open m.welcome,7,- leave leave
  c06-m6-call-without-transport-not-guarded                  exit 1  keys: api-after-end@call:after=closed, api-after-end@call:after=m.abort+closed …
      replay: open;r closed;r!r call,1,a,k,n,ok
  c06-m7-handshake-message-in-session-ignored                exit 1  keys: gate@m.abort:after=m.abort, gate@m.challenge:after=- …
      replay: open m.welcome,7,- m.abort
  c06-h1-harmless-leave-reason-default-first                 exit 0  silent
  c06-h2-harmless-errback-loop-over-copy                     exit 0  silent
"""
import itertools

from vlib import core, sesscheck as sc
from translate import sess as tr_sess

PROP = "C06"
PROOF_MODULES = ["Abverif.Proofs.C06"]
TRANSLATORS = [tr_sess.translate]
TRUSTED = [
    "Lean 4.33 kernel; axioms of every theorem audited to be within {propext, Classical.choice, Quot.sound}",
    "hand-written Lean model Abverif/Model/Session.lean of ApplicationSession.onOpen / join / onMessage (pre-session "
    "branch, GOODBYE branch) / leave / disconnect / onClose / _errback_outstanding_requests / onLeave / onDisconnect; "
    "user hooks are scripted behaviours (runs the default body or not, API calls, returns or raises)",
    "the trace Spec Abverif/Model/SessTrace.lean (what the property says about an observed trace)",
    "tie model<->code: differential run of real ApplicationSession objects (both frameworks) over a mock ITransport "
    "and over the real WebSocket / RawSocket WAMP transports in memory; bounded by the generators",
    "txaio / Twisted Deferred / asyncio Future and loop semantics (modelled: callbacks on a fired Deferred run at "
    "once, on a done Future at the next loop iteration; not verified)",
]
ASSUMPTIONS = [
    "the transport calls onMessage only between onOpen and onClose, one onClose per onOpen",
    "on asyncio the loop runs the callbacks already queued before it delivers the next transport event",
    "an override of onLeave/onDisconnect that never calls the default body takes over its clean-up duty; at least one "
    "of the two default bodies runs",
    "lifecycle messages (HELLO, GOODBYE, ABORT, AUTHENTICATE) are accepted by ITransport.send",
    "callbacks_ordered_once_twisted: user code does not call join() itself (a session that joins again on the same "
    "transport, e.g. from onLeave, is supported by the code and outside the per-connection clause of the property)",
]
MANIFEST_ENTRY = {
    "technique": "Lean 4 theorems over arbitrary event histories of an executable session model (lifecycle part) + "
                 "executable trace Spec judged on real traces + differential tie to Twisted/asyncio sessions over mock "
                 "and real in-memory transports, ddmin",
    "text": "Proved in Lean, for every state / history, both txaio scheduling modes (Twisted: callbacks at once; asyncio: "
            "queued continuations, one loop iteration = `tick`) and every behaviour of the user hooks (run the default body or "
            "not, make API calls, return or raise): pre_session_gate (before establishment anything but WELCOME/ABORT/"
            "CHALLENGE, afterwards every handshake message, and once the session or the join attempt of the connection is "
            "over EVERY message, raises ProtocolError and changes nothing); session_end_is_recorded and "
            "open_and_join_clear_the_record (router ABORT, the GOODBYE that ends a session and a failing onChallenge set the "
            "record before onLeave runs; only onOpen and join() clear it); "
            "api_fails_fast_after_end (without a transport call/publish/subscribe/register raise TransportLost at once and "
            "record nothing), closed_ends_everything, transport_written_only_by_onOpen_and_onClose and "
            "api_fails_fast_after_end_history (onClose drops the transport whatever the hooks do; NO other event of any "
            "history — messages, API calls, loop iterations, endpoint completions, whatever user code runs inside — writes it; "
            "so after onClose, through every continuation that does not open the object again, call() raises at once); goodbye_answered_iff_not_initiator (the peer's GOODBYE is "
            "answered, first thing, exactly when this side sent none; either way the session ends and onLeave runs), "
            "leave_sends_iff and goodbye_at_most_once_steps (leave() sends GOODBYE only in a joined session that sent none "
            "and records it; join(), the only thing that clears the record, is refused while joined); "
            "nothing_pending_after_end (the default clean-up body — run by onLeave at every session end / router ABORT and "
            "by onDisconnect as the backstop — completes the future of every record of the six tables, empties the tables, "
            "touches no completed future) and onDisconnect_is_backstop. The property as a whole is an executable trace "
            "Spec (Model/SessTrace.lean: callbacks and observers in order and at most once per connection, onLeave exactly "
            "at session ends / aborts, gate, GOODBYE at most once and answered iff not initiator, nothing pending after the "
            "end, API after the end). callbacks_ordered_once_twisted (since the repair of the F11 family): for EVERY "
            "history on Twisted in which the transport calls onOpen / onClose / onMessage the way transports do and user "
            "code never calls join() itself — whatever the hooks do, whatever the router sends (any number of ABORT / WELCOME "
            "/ CHALLENGE / GOODBYE at any position), wherever the transport is lost — the trace Spec finds in the trace of "
            "the model no callback or observer out of order or a second time on one connection, no onLeave without a session "
            "end / aborted join and none missing, no illegal message handled as anything but a protocol violation (invariant "
            "over four phases between the model and the six fields of the Spec reader these clauses read; "
            "stepCheck_order ties the real Spec to them). The statement for both schedulings (CallbacksOrderedOnce) stays "
            "refuted by decide on two asyncio histories: GOODBYE one loop iteration after WELCOME (onLeave before onJoin) and "
            "GOODBYE in the iteration of WELCOME (rejected as protocol violation); the histories that refuted it on Twisted "
            "(two ABORTs, WELCOME after the GOODBYE that ended the session, ...) are decide-checked clean; that re-joining "
            "on the same transport (join() from onLeave) is outside the per-connection clause is decide-checked too. "
            "Tie: 1160 (quick) conversations of "
            "the session grammar x ONE illegal message / leave() / disconnect() / transport loss at each position x hooks x "
            "loop schedules feasible on asyncio, Twisted and asyncio, observation-exact against the model, trace Spec "
            "judged on the implementation's trace; the same scripts over the real WebSocket and RawSocket WAMP transports "
            "of both frameworks (json / msgpack / cbor) against an independent in-memory peer, token-exact.",
    "note": "Trusted: Lean kernel; the hand-written model and trace Spec; txaio/loop semantics as modelled. Repaired in "
            "/repo (fixed entries in known_findings.d/C06.jsonl, reported again as violations if they return): the F11 "
            "family (9 input classes, one root cause: the pre-session branch kept no record that the join attempt / session "
            "of the connection was over; the late WELCOME / ABORT / CHALLENGE is now a ProtocolError and the Spec demands "
            "that). Open findings, asyncio only, found by this check and confirmed on the real asyncio RawSocket transport: "
            "messages processed in the loop iteration of WELCOME (4 classes) and GOODBYE one iteration after WELCOME (onLeave "
            "before onJoin); left open because the WELCOME continuation is deferred by txaio itself (callbacks on a done "
            "Future run at the next iteration; onWelcome may be a coroutine), so assigning the session id at once needs "
            "either a synchronous verdict of onWelcome or queuing of the messages that arrive meanwhile. Spec decisions: a "
            "session / join attempt is over once onLeave has run and no HELLO was sent since; a failing onChallenge "
            "(own ABORT) counts as an aborted join (onLeave expected); an override of onDisconnect that never calls the "
            "default body is outside the Spec. After close() / a protocol violation the real transports deliver nothing "
            "more, so part B ends the conversation there (except messages of the same read).",
}

C06_VIOLS = ("hook-order", "observer-order", "leave-unexpected", "leave-missing", "gate", "goodbye-twice",
             "goodbye-unanswered", "goodbye-echoed", "pending", "api-after-end")


def owns(v):
    return v.split(",")[0] in C06_VIOLS


# ----------------------------------------------------------------------------- classification

def _kind(tok):
    return tok.partition(";")[0].split(",")[0]


HANDSHAKE = ("m.welcome", "m.abort", "m.challenge")


def _endings(script, start, stop):
    """(index, how) of the events that end the join attempt / session of a connection, in order. Once it is over
    (and until this side joins again) a further handshake message ends nothing: it is a protocol violation."""
    out = []
    joined = False
    over = False
    for j in range(start, stop):
        t = script[j]
        k = _kind(t)
        if k in ("open", "join"):
            over = False
        elif k == "closed":
            out.append((j, "closed"))
        elif over:
            continue
        elif k == "m.welcome":
            # (onWelcome returning something / raising refuses the session)
            joined = joined or t.partition(";")[2].split("!")[0] in ("", "r")
        elif k == "m.abort" and not joined:
            out.append((j, "m.abort"))
            over = True
        elif k == "m.goodbye" and joined:
            out.append((j, "m.goodbye"))
            joined = False
            over = True
        elif k == "m.challenge" and ";x" in t and not joined:
            out.append((j, "m.challenge-failed"))
            over = True
    return out


def classify(script, i, v, fw):
    """canonical key = the input class (root cause first, then the violated clause and the event it was seen at)"""
    clause = v.split(",")[0] + ("," + v.split(",")[1] if v.split(",")[0] in ("hook-order", "observer-order") else "")
    ev = _kind(script[i])
    # (0) a request API called from inside onLeave, right after the session ended and while the transport is still
    # there: only `self._transport` is checked, the request goes out on a session that no longer exists and stays pending
    if clause == "pending" and ev in ("m.goodbye", "m.abort") and \
            any(c.split(",")[0] in ("call", "pub", "sub", "reg") for c in script[i].partition(";")[2].split("!")[0].split("+")[1:]):
        return "api-call-from-onLeave-after-session-end:request-sent-and-left-pending"
    start = max([j for j in range(i + 1) if _kind(script[j]) == "open"] + [0])
    ends = _endings(script, start, i + 1)
    # (1) a handshake message (WELCOME / ABORT / failing CHALLENGE) that arrives after the join attempt or the
    # session of this connection is already over, and is handled as if it were the first one
    late = []
    for j in range(start, i + 1):
        t = script[j]
        k = _kind(t)
        if k in HANDSHAKE and not (k == "m.challenge" and ";x" not in t):
            before = [h for (e, h) in ends if e < j and h != "closed"]
            if before:
                name = "m.challenge-failed" if k == "m.challenge" else k
                late.append((j, f"handshake-message-accepted-after-end:{name}-after-{before[-1]}"))
    # the verdict is about the late message itself: it was not (only) rejected
    for j, key in late:
        if j == i:
            return key
    # (2) asyncio: a message processed in the same loop iteration as WELCOME (same read) still meets `_session_id is None`
    if fw == "asyncio":
        for j in range(start, i + 1):
            if _kind(script[j]) == "m.welcome" and script[j].partition(";")[0].endswith(",-"):
                run = []
                for t in script[j + 1:i + 1]:
                    k = _kind(t)
                    if k in ("pump", "tick"):
                        break
                    if k.startswith("m.") and k != "m.other":      # (HELLO / AUTHENTICATE are rejected in every phase)
                        run.append(k)
                if run:
                    # the message the verdict is about if it is one of them, else the first of the run
                    return "asyncio:message-in-the-loop-iteration-of-welcome:" + (ev if ev in run else run[0])
    # (3) asyncio: the session ends in the loop iteration between the WELCOME continuation and onJoin
    # (there must be a WELCOME that came in time; the onJoin of one that came after the end belongs to (1))
    wel = [j for j in range(start, i + 1) if _kind(script[j]) == "m.welcome" and j not in [x for x, _ in late]]
    if fw == "asyncio" and clause in ("hook-order,onJoin", "observer-order,ready") and ev in ("pump", "tick") and wel:
        how = [h for (_, h) in ends]
        return "asyncio:onJoin-after-session-end:" + (how[-1] if how else "-")
    # (1, continued) what an accepted late handshake message leads to at later events
    if late:
        return late[0][1]
    if ev in ("pump", "tick"):
        prev = [_kind(t) for t in script[:i] if _kind(t) not in ("pump", "tick")]
        ev = ev + "<-" + (prev[-1] if prev else "")
    hist = "+".join(h for _, h in ends[-3:]) if ends else "-"
    return f"{clause}@{ev}:after={hist}"


# ----------------------------------------------------------------------------- generators

SIG, RAISE = "rv1", "x"
HOOK = ["r", "x", "nr", "nx"]
ILLEGAL_PRE = ["m.result,1,a1,n,0", "m.event,5,1,n,n", "m.goodbye", "m.other", "m.published,1,1", "m.subscribed,1,5",
               "m.registered,1,5", "m.unsubscribed,1", "m.unregistered,1,n", "m.invocation,1,5", "m.interrupt,1",
               "m.error,48,1,3,n,n"]
ILLEGAL_EST = ["m.welcome,9,-", "m.abort", "m.challenge;rv1", "m.other"]
AFTER_END = ["m.abort", "m.welcome,9,-", "m.challenge;x", "m.challenge;rv1"]


class Conv:
    """a router conversation as a list of steps (token, tag); tags let the mutators find positions"""

    def __init__(self, rng):
        self.rng = rng
        self.P = sc.Planner(rng, pump="never")
        self.steps = []

    def add(self, tok, tag):
        self.steps.append((tok, tag))

    def req(self, fn, *a, **k):
        n = len(self.P.ev)
        r = fn(*a, **k)
        for t in self.P.ev[n:]:
            self.steps.append((t, "req"))
        return r


def base(rng, challenges, outcome, goodbye, nreq, hooks, api_after=True):
    """hooks: dict name -> act token"""
    h = lambda n: hooks.get(n, "r")  # noqa: E731
    c = Conv(rng)
    P = c.P
    c.add("open;" + h("onConnect"), "open")
    # an onConnect override that never calls the default body sends no HELLO: the router has nothing to answer
    failed = h("onConnect").startswith("n")
    for k in range(challenges):
        c.add("m.challenge;%s!%s" % (h("onChallenge%d" % k), h("onLeaveC")), "challenge")
        if h("onChallenge%d" % k) == RAISE:
            # this side answered with ABORT: a router following the state machine says nothing more
            failed = True
            break
    if failed:
        pass
    elif outcome == "abort":
        c.add("m.abort;" + h("onLeaveA"), "abort")
    else:
        c.add("m.welcome,%d,-;%s!%s" % (rng.randint(1, 2 ** 53), h("onWelcome"), h("onJoin")), "welcome")
        # established subscriptions / registrations, then outstanding requests of each kind
        objs_s, objs_r = [], []
        if nreq.get("unsub") or nreq.get("unreg") or rng.random() < 0.3:
            for _ in range(max(1, nreq.get("unsub", 0))):
                rid = c.req(P.subscribe, topic=rng.randint(1, 9), opts="n")
                f = P.pending[rid]["fut"]
                c.req(P.success, rid, sub=50 + len(objs_s))
                objs_s.append(f)
            for j in range(max(1, nreq.get("unreg", 0))):
                rid = c.req(P.register, opts="n")
                f = P.pending[rid]["fut"]
                c.req(P.success, rid, reg=70 + j)
                objs_r.append(f)
        for kind in sc.KINDS:
            for j in range(nreq.get(kind, 0)):
                if kind == "call":
                    c.req(P.call, opts="n")
                elif kind == "pub":
                    c.req(P.publish, ack=True, opts="oack=t")
                elif kind == "sub":
                    c.req(P.subscribe, opts="n")
                elif kind == "reg":
                    c.req(P.register, opts="n")
                elif kind == "unsub" and j < len(objs_s):
                    c.req(P.unsubscribe, objs_s[j])
                elif kind == "unreg" and j < len(objs_r):
                    c.req(P.unregister, objs_r[j])
        if goodbye == "peer":
            c.add("m.goodbye;" + h("onLeaveG"), "goodbye")
        elif goodbye == "local":
            c.add("leave", "leave")
            c.add("m.goodbye;" + h("onLeaveG"), "goodbye")
        elif goodbye == "local-only":
            c.add("leave", "leave")
    c.add("closed;%s!%s" % (h("onLeaveX"), h("onDisconnect")), "closed")
    if api_after:
        for t in rng.sample(["call,1,a,k,n,ok", "pub,1,a,k,oack=t,ok", "sub,9,1,n,ok", "reg,9,1,n,ok", "pub,1,a,k,n,ok"], 2):
            c.add(t, "after")
    return c.steps


TRANSPORT_EVENTS = ("open", "closed", "m.")


def render(steps, pump, rng):
    """place loop iterations. What is feasible on asyncio: several messages may be processed in one iteration (one
    read), so no iteration is needed between two messages; the router's first message needs the HELLO that the loop
    sends one iteration after onOpen; connection_lost is itself scheduled through the loop behind the callbacks the
    last read queued, so two iterations lie between a message and the loss of the transport.
      always: pump after every event        chunk: only what is needed (messages back to back)
      tick:   one tick before each message  mixed: needed ticks plus random ticks / pumps anywhere
      never:  no iteration until the end — not feasible on asyncio, used for the correspondence only"""
    out = []
    prev = None
    for n, (tok, tag) in enumerate(steps):
        kind = tok.partition(";")[0].split(",")[0]
        transport = tok.startswith(TRANSPORT_EVENTS)
        if n > 0 and transport and pump != "never":
            # a message that answers something this side did (HELLO, AUTHENTICATE, a request) comes a round trip later
            last = steps[n - 1][0].partition(";")[0].split(",")[0]
            if kind == "closed":
                need = 2
            elif prev in ("open", "m.challenge") or not last.startswith("m."):
                need = 1
            elif last == "m.welcome" and kind not in ("m.goodbye",) and tag != "illegal":
                need = 1
            else:
                need = 0
            if pump == "tick":
                out += ["tick"] * max(need, 1)
            elif pump == "chunk":
                out += ["tick"] * need
            elif pump == "mixed":
                out += rng.choice([["tick"] * need, ["tick"] * (need + 1), ["tick"] * max(need, 1), ["pump"]])
        elif pump == "mixed" and rng.random() < 0.2:
            out.append(rng.choice(["tick", "pump"]))
        out.append(tok)
        if transport:
            prev = kind
        if pump == "always":
            out.append("pump")
    if out[-1] != "pump":
        out.append("pump")
    return out


FEASIBLE = ("always", "tick", "mixed", "chunk")


def spec_ok_hooks(hooks):
    """the Spec's assumptions: onChallenge returns a signature or raises; at least one default clean-up body runs"""
    # the default onDisconnect is the backstop: an override that never calls it is outside the Spec
    if hooks.get("onDisconnect", "r").startswith("n"):
        return False
    return all(hooks.get("onChallenge%d" % k, SIG) != "r" for k in range(2))


def rand_hooks(rng, p=0.35):
    hooks = {}
    for n in ("onConnect", "onWelcome", "onJoin", "onLeaveA", "onLeaveC", "onLeaveG", "onLeaveX", "onDisconnect"):
        if rng.random() < p:
            hooks[n] = rng.choice(HOOK if n.startswith(("onLeave", "onDisc", "onConnect")) else ["r", "x"])
    for k in range(2):
        hooks["onChallenge%d" % k] = rng.choice([SIG, SIG, RAISE])
    if rng.random() < 0.1:
        hooks["onWelcome"] = "rv1"          # onWelcome denies
    if rng.random() < 0.15:
        hooks["onJoin"] = rng.choice(["r+leave", "r+call,1,a,k,n,ok", "x+leave", "r+disconnect"])
    return hooks


def mutate(steps, rng, what, pos):
    """insert ONE thing at step position pos (1..len-1); -> new steps"""
    tags = [t for _, t in steps]
    before = tags[:pos]
    joined = "welcome" in before and "goodbye" not in before and "closed" not in before
    over = ("abort" in before or "goodbye" in before) and "closed" not in before
    down = "closed" in before
    s = list(steps)
    if what == "illegal":
        if down:
            return None
        if joined:
            tok = rng.choice(ILLEGAL_EST)
        elif over and rng.random() < 0.6:
            tok = rng.choice(AFTER_END)
        else:
            tok = rng.choice(ILLEGAL_PRE)
        s.insert(pos, (tok, "illegal"))
    elif what in ("leave", "disconnect", "join"):
        s.insert(pos, (what, "local"))
    elif what == "loss":
        if down:
            return None
        # the transport is lost here: the router's remaining messages never arrive, local calls still happen
        hk = [t for t, g in steps if g == "closed"][0].partition(";")[2]
        rest = [(t, g) for t, g in s[pos:] if g in ("leave", "local", "after", "req") and not t.startswith("m.")]
        s = s[:pos] + [("closed;" + hk, "closed")] + rest
    return s


def gen(ctx):
    rng = ctx.rng
    quick = ctx.tier == "quick"
    out = []          # (label, script, spec_checked)
    GB = ["none", "peer", "local", "local-only"]
    shapes = [(ch, "abort", "none") for ch in (0, 1, 2)] + [(ch, "welcome", g) for ch in (0, 1, 2) for g in GB]
    # (a) the grammar itself: every shape x default hooks x pump policy, with 0..2 outstanding requests per kind
    for ch, outc, gb in shapes:
        for pump in ("always", "never", "tick", "mixed", "chunk"):
            nreq = {k: rng.choice([0, 1, 2]) for k in sc.KINDS}
            out.append(("grammar", render(base(rng, ch, outc, gb, nreq, {"onChallenge0": SIG, "onChallenge1": SIG}), pump, rng),
                        pump in FEASIBLE))
    # (b) ONE insertion at every position: illegal message / leave / disconnect / transport loss
    reps = 1 if quick else 6
    for ch, outc, gb in shapes:
        for rep in range(reps):
            hooks = rand_hooks(rng, p=0.0 if rep == 0 else 0.3)
            nreq = {k: rng.choice([0, 0, 1, 2]) for k in sc.KINDS} if outc == "welcome" else {}
            steps = base(rng, ch, outc, gb, nreq, hooks)
            # positions: between lifecycle steps; inside the request block only at its ends (and one random inside)
            pos_all = list(range(1, len(steps) + 1))
            req_pos = [p for p in pos_all if p < len(steps) and steps[p][1] == "req" and steps[p - 1][1] == "req"]
            keep = set(pos_all) - set(req_pos)
            if req_pos:
                keep.add(rng.choice(req_pos))
            for pos in sorted(keep):
                for what in ("illegal", "leave", "disconnect", "loss"):
                    m = mutate(steps, rng, what, pos)
                    if m is None:
                        continue
                    pump = rng.choice(["always", "always", "never", "tick", "mixed", "chunk"])
                    out.append((what, render(m, pump, rng), spec_ok_hooks(hooks) and pump in FEASIBLE))
    # (c) every hook x {returns, raises, no-super returns, no-super raises}, one at a time, on the long shapes
    for ch, outc, gb in [(1, "welcome", "peer"), (1, "welcome", "local"), (2, "abort", "none"), (0, "welcome", "none")]:
        for name in ("onConnect", "onWelcome", "onJoin", "onChallenge0", "onLeaveA", "onLeaveC", "onLeaveG", "onLeaveX", "onDisconnect"):
            for act in (HOOK if name not in ("onWelcome", "onJoin", "onChallenge0") else ["r", "x"]):
                hooks = {"onChallenge0": SIG, "onChallenge1": SIG}
                hooks[name] = act if name != "onChallenge0" else (SIG if act == "r" else RAISE)
                for pump in ("always", "tick", "chunk"):
                    nreq = {k: 1 for k in sc.KINDS}
                    out.append(("hook", render(base(rng, ch, outc, gb, nreq, hooks), pump, rng), spec_ok_hooks(hooks)))
    # (d) random: everything at once, several insertions, re-open on the same object
    nrand = 400 if quick else 150000
    for _ in range(nrand):
        ch, outc, gb = rng.choice(shapes)
        hooks = rand_hooks(rng)
        nreq = {k: rng.choice([0, 0, 1, 2]) for k in sc.KINDS} if outc == "welcome" else {}
        steps = base(rng, ch, outc, gb, nreq, hooks, api_after=rng.random() < 0.5)
        for _ in range(rng.choice([0, 1, 1, 2])):
            m = mutate(steps, rng, rng.choice(["illegal", "leave", "disconnect", "loss"]), rng.randint(1, len(steps)))
            if m is not None:
                steps = m
        pump = rng.choice(["always", "always", "never", "tick", "mixed", "chunk"])
        script = render(steps, pump, rng)
        ok = spec_ok_hooks(hooks) and pump in FEASIBLE
        if rng.random() < 0.15:
            # a second connection of the same session object
            hooks2 = rand_hooks(rng)
            steps2 = base(rng, 0, rng.choice(["welcome", "abort"]), rng.choice(GB), {}, hooks2, api_after=False)
            script = script + render(steps2, "always", rng)
            ok = ok and spec_ok_hooks(hooks2)
        out.append(("random", script, ok))
    # (e) correspondence only: behaviours the Spec makes no promise about (onChallenge returning None, both default
    # clean-up bodies overridden away, join() by hand)
    for pump in ("always", "never", "tick", "mixed"):
        out.append(("corr", render(base(rng, 2, "welcome", "peer", {"call": 1}, {"onChallenge0": "r", "onChallenge1": "r"}), pump, rng), False))
        out.append(("corr", render(base(rng, 0, "welcome", "peer", {k: 1 for k in sc.KINDS}, {"onLeaveG": "nr", "onLeaveX": "nx", "onDisconnect": "nr"}), pump, rng), False))
        steps = base(rng, 0, "welcome", "peer", {"call": 1}, {})
        steps = mutate(steps, rng, "join", len(steps) - 3)
        out.append(("corr", render(steps, pump, rng), False))
    return out


def gen_real(ctx):
    """part B: conversations for the real transports (a loop run after every event)"""
    rng = ctx.rng
    quick = ctx.tier == "quick"
    out = []
    GB = ["none", "peer", "local", "local-only"]
    shapes = [(ch, "abort", "none") for ch in (0, 1)] + [(ch, "welcome", g) for ch in (0, 1, 2) for g in GB]
    for ch, outc, gb in shapes:
        for rep in range(1 if quick else 4):
            hooks = rand_hooks(rng, p=0.0 if rep == 0 else 0.3)
            nreq = {k: rng.choice([0, 1, 2]) for k in sc.KINDS} if outc == "welcome" else {}
            steps = base(rng, ch, outc, gb, nreq, hooks)
            out.append(("real-grammar", render(steps, "always", rng), spec_ok_hooks(hooks)))
            pos = list(range(1, len(steps) + 1))
            for what in ("illegal", "leave", "disconnect", "loss"):
                for p in rng.sample(pos, min(len(pos), 2 if quick else 6)):
                    m = mutate(steps, rng, what, p)
                    if m is not None:
                        out.append(("real-" + what, render(m, "always", rng), spec_ok_hooks(hooks)))
    return out


CORPUS = [
    # F11 (repaired, kept as regression input): two ABORT before WELCOME
    (["open", "pump", "m.abort", "pump", "m.abort", "pump", "closed", "pump"], True),
    # the conversation in one piece: challenge, welcome, requests of all kinds, peer GOODBYE, close, API afterwards
    (["open", "pump", "m.challenge;rv1", "pump", "m.welcome,7,-", "pump", "sub,1,1,n,ok", "m.subscribed,1,50", "reg,2,2,n,ok",
      "m.registered,2,70", "pump", "call,3,a1,k,n,ok", "pub,4,a,k1=2,oack=t,ok", "sub,3,5,n,ok", "unsub,0,ok", "reg,4,6,n,ok",
      "unreg,1,ok", "m.goodbye", "pump", "closed", "pump", "call,1,a,k,n,ok", "sub,1,1,n,ok"], True),
    # leave() first, peer answers; a second leave(); the transport goes
    (["open", "pump", "m.welcome,7,-", "pump", "call,3,a1,k,n,ok", "leave", "leave", "m.goodbye", "pump", "closed", "pump"], True),
    # transport lost with everything outstanding, onLeave override raises before the default body
    (["open", "pump", "m.welcome,7,-", "pump", "call,3,a1,k,n,ok", "sub,1,1,n,ok", "closed;nx!r", "pump", "pub,1,a,k,n,ok"], True),
]


def late_handshake_corpus(same_read=False):
    """every (ending, late handshake message) combination, so that the whole family is reported on every run.
    same_read: the late message follows in the same read (what a real transport still delivers after close())"""
    out = []
    ends = {"m.abort": ["m.abort"], "m.goodbye": ["m.welcome,7,-", "pump", "m.goodbye"], "m.challenge-failed": ["m.challenge;x"]}
    for e, toks in ends.items():
        for late in ("m.abort", "m.welcome,9,-", "m.challenge;x"):
            if same_read:
                # (a late failing CHALLENGE makes this side send ABORT on a transport it has already closed: what send()
                # does then differs between the transports and is not part of the model)
                if e != "m.challenge-failed" and late != "m.challenge;x":
                    out.append((["open", "pump"] + toks + [late, "pump", "closed", "pump"], True))
                continue
            out.append((["open", "pump"] + toks + ["pump", late, "pump", "closed", "pump"], True))
    if same_read:
        return out
    # asyncio: a message in the same read as WELCOME; GOODBYE one loop iteration after WELCOME
    for late in ("m.goodbye", "m.abort", "m.challenge;rv1", "m.challenge;x", "m.welcome,9,-"):
        out.append((["open", "pump", "m.welcome,7,-", late, "pump", "closed", "pump"], True))
    out.append((["open", "pump", "m.welcome,7,-", "tick", "m.goodbye", "pump", "closed", "pump"], True))
    return out


def run(ctx):
    res = core.Result()
    res.rule = ("script = router conversation from the session grammar (0-2 CHALLENGE rounds, WELCOME | ABORT, 0-2 "
                "outstanding requests of each of the six kinds, optional GOODBYE from either side, transport close, API "
                "calls afterwards) with ONE illegal message / local leave() / disconnect() / transport loss inserted at each "
                "position, every lifecycle hook in {returns, raises, overrides without super}, loop iterations placed "
                "after every event / nowhere / single ticks; each script runs on Twisted and on asyncio; every event's "
                "observation is compared with the Lean model and the implementation's trace is judged by the Lean trace "
                "Spec; non-trivial = distinct script containing a session end (GOODBYE, ABORT or transport loss)")
    if ctx.replay_path:
        scripts, fws = sc.replay_scripts(ctx)
        sc.check_traces(ctx, res, [("replay", s, True) for s in scripts], owns, classify, frameworks=fws, shrink=False)
        return res
    items = [("corpus", s, sp) for s, sp in CORPUS + late_handshake_corpus()] + [("corpus:" + n, s, True) for n, s in sc.corpus_scripts(PROP)] + gen(ctx)
    seen, uniq = set(), []
    for label, s, sp in items:
        key = " ".join(s)
        if key in seen:
            continue
        seen.add(key)
        uniq.append((label, s, sp))
        res.count("class:" + label)
        if any(_kind(t) in ("m.goodbye", "m.abort", "closed") for t in s):
            res.distinct.add(core.sha(key)[:16])
        for t in s:
            res.count("event:" + _kind(t))
    for _, s, _ in uniq[:2] + uniq[60:62] + uniq[-2:]:
        res.sample(" ".join(s))
    ctx.log(f"{len(uniq)} scripts, {sum(len(s) for _, s, _ in uniq)} events")
    st = sc.check_traces(ctx, res, uniq, owns, classify)
    res.notes.append("trace-Spec violations by key: " + ", ".join(st["keys"]) if st["keys"] else "no trace-Spec violation")
    # part B: the same conversations over the real transports
    real = [("corpus", s, sp) for s, sp in CORPUS + late_handshake_corpus()] + \
           [("corpus-same-read", s, sp, False) for s, sp in late_handshake_corpus(same_read=True)] + gen_real(ctx) + \
           [it for it in uniq if it[0] in ("grammar", "hook")][:(40 if ctx.tier == "quick" else 400)]
    for it in real:
        res.count("class:" + it[0])
    ctx.log(f"part B: {len(real)} scripts x {len(sc.COMBOS)} transport/serializer combinations x 2 frameworks")
    st2 = sc.check_real(ctx, res, real, owns, classify)
    res.notes.append("part B (real WebSocket / RawSocket transports, json / msgpack / cbor): "
                     + ("violations by key: " + ", ".join(st2["keys"]) if st2["keys"] else "no trace-Spec violation")
                     + f"; correspondence breaks: {st2['breaks']}")
    seen_keys, vs = set(), []
    for v in res.violations:
        if v.key not in seen_keys:
            seen_keys.add(v.key)
            vs.append(v)
    res.violations[:] = vs
    return res
